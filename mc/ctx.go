// Package mc is the explorer library shared by all checks: the per-run context (counters,
// violations, samples, vacuity facts), sharding over worker subprocesses, the deviation-bounded
// choice engine, explicit-state BFS helpers, evidence and known-findings plumbing.
package mc

import (
	"crypto/sha1"
	"encoding/hex"
	"encoding/json"
	"fmt"
	"os"
	"runtime/debug"
	"sort"
	"strings"
	"sync/atomic"
	"time"
)

// Violation is one failing case, identified by a root-cause signature key (never a line number,
// never property-wide) so that known findings suppress exactly their own shape.
type Violation struct {
	Key    string `json:"key"`
	What   string `json:"what"`
	Replay any    `json:"replay"`
	Count  int64  `json:"count"`
}

// Result is what one worker (shard) reports to the parent.
type Result struct {
	Counters   map[string]int64      `json:"counters"`
	Maxes      map[string]int64      `json:"maxes"`
	Facts      map[string]int64      `json:"facts"`
	Outcomes   map[string]int64      `json:"outcomes"`
	Samples    []any                 `json:"samples"`
	Violations map[string]*Violation `json:"violations"`
	Caps       []string              `json:"caps"`
	Notes      []string              `json:"notes"`
	Fatal      string                `json:"fatal,omitempty"`
}

func newResult() *Result {
	return &Result{
		Counters: map[string]int64{}, Maxes: map[string]int64{}, Facts: map[string]int64{},
		Outcomes: map[string]int64{}, Violations: map[string]*Violation{},
	}
}

// Ctx is handed to a check's Run function in each worker.
type Ctx struct {
	ID       string
	Tier     string
	Seed     int64
	Shard    int
	NShards  int
	Deadline time.Time
	Args     map[string]string // extra per-run arguments (e.g. build configuration paths)
	res      *Result
	progress *os.File
	maxSamp  int
	skip     map[string]bool
	cur      atomic.Pointer[riskyCase]
	// singleMode: this process confirms one risky case alone
	singleMode bool
	outFile    string
}

type riskyCase struct {
	desc  string
	start time.Time
}

func (c *Ctx) Quick() bool    { return c.Tier == "quick" }
func (c *Ctx) Thorough() bool { return c.Tier == "thorough" }

// Mine reports whether case index i belongs to this shard.
func (c *Ctx) Mine(i int) bool { return c.NShards <= 1 || i%c.NShards == c.Shard }

// Expired reports whether the run's overall budget is used up; the caller must then stop and
// call Cap so the run is reported as not exhaustive.
func (c *Ctx) Expired() bool { return !c.Deadline.IsZero() && time.Now().After(c.Deadline) }

func (c *Ctx) Cap(what string) {
	for _, x := range c.res.Caps {
		if x == what {
			return
		}
	}
	c.res.Caps = append(c.res.Caps, what)
}

func (c *Ctx) Note(what string) {
	for _, x := range c.res.Notes {
		if x == what {
			return
		}
	}
	if len(c.res.Notes) < 50 {
		c.res.Notes = append(c.res.Notes, what)
	}
}

func (c *Ctx) Add(name string, n int64) { c.res.Counters[name] += n }
func (c *Ctx) Inc(name string)          { c.res.Counters[name]++ }
func (c *Ctx) Counter(name string) int64 {
	return c.res.Counters[name]
}
func (c *Ctx) Max(name string, v int64) {
	if v > c.res.Maxes[name] {
		c.res.Maxes[name] = v
	}
}

// Fact records that a coverage fact was observed (used by the vacuity guards).
func (c *Ctx) Fact(name string) { c.res.Facts[name]++ }

// Outcome counts a distinct observed outcome class (keep the domain small).
func (c *Ctx) Outcome(name string) { c.res.Outcomes[name]++ }

// Sample keeps a few concrete cases for the evidence file.
func (c *Ctx) Sample(v any) {
	if len(c.res.Samples) < c.maxSamp {
		c.res.Samples = append(c.res.Samples, v)
	}
}
func (c *Ctx) WantSample() bool { return len(c.res.Samples) < c.maxSamp }

// Violation records a failing case under its signature key. Only the first example per key keeps
// its replay artefact; later ones are counted.
func (c *Ctx) Violation(key, what string, replay any) {
	v := c.res.Violations[key]
	if v == nil {
		c.res.Violations[key] = &Violation{Key: key, What: what, Replay: replay, Count: 1}
		return
	}
	v.Count++
}

// NumViolationKeys returns how many distinct keys have been recorded so far.
func (c *Ctx) NumViolationKeys() int { return len(c.res.Violations) }

// Risky announces the case about to be executed: it is recorded in the worker's progress file so
// that a crash of the whole process (fatal error, out of memory) can be attributed to it by the
// parent, and the worker's watchdog times it (a case exceeding the check's HangLimit makes the
// worker stop; the parent confirms the hang by re-running the case alone and restarts the shard
// without it). It returns false if the case must be skipped because it already crashed or hung a
// previous attempt of this shard (it has been reported). Call Done when the case returns.
func (c *Ctx) Risky(desc string) bool {
	if c.skip[desc] {
		return false
	}
	c.cur.Store(&riskyCase{desc: desc, start: time.Now()})
	if c.progress == nil {
		return true
	}
	b := []byte(desc)
	if len(b) > 900000 {
		b = b[:900000]
	}
	buf := make([]byte, 0, 6+len(b))
	buf = append(buf, fmt.Sprintf("%06d", len(b))...)
	buf = append(buf, b...)
	c.progress.WriteAt(buf, 0)
	return true
}

// Tick is the heartbeat of a risky case that consists of many steps (a search below one root): it
// restarts the watchdog's timer, so that the limit applies to one step (one engine call that does not
// return) and not to the size of the search.
func (c *Ctx) Tick() {
	if rc := c.cur.Load(); rc != nil {
		c.cur.Store(&riskyCase{desc: rc.desc, start: time.Now()})
	}
}

// Done marks the current risky case as finished.
func (c *Ctx) Done() { c.cur.Store(nil) }

// watchdog stops the worker when one risky case exceeds limit.
func (c *Ctx) watchdog(limit time.Duration) {
	for {
		time.Sleep(500 * time.Millisecond)
		rc := c.cur.Load()
		if rc != nil && time.Since(rc.start) > limit {
			if c.singleMode {
				fmt.Printf("SINGLE-TIMEOUT: one step of the case did not return within %v\n", limit)
			}
			fmt.Fprintf(os.Stderr, "WATCHDOG: case exceeded %v: %s\n", limit, rc.desc)
			os.Exit(3)
		}
	}
}

// Guard runs f and converts a panic into a returned description (with a short stack).
func Guard(f func()) (panicked string) {
	defer func() {
		if r := recover(); r != nil {
			st := string(debug.Stack())
			panicked = fmt.Sprintf("%v\n%s", r, TrimStack(st))
		}
	}()
	f()
	return ""
}

// TrimStack keeps the goflow/gocommon frames of a stack trace, at most 12 lines.
func TrimStack(st string) string {
	var out []string
	lines := strings.Split(st, "\n")
	for i, l := range lines {
		if strings.Contains(l, "nyaruka/") || strings.Contains(l, "shopspring") {
			if !strings.HasPrefix(l, "\t") && i+1 < len(lines) {
				out = append(out, strings.TrimSpace(l))
			} else {
				out = append(out, "  "+strings.TrimSpace(l))
			}
		}
		if len(out) >= 12 {
			break
		}
	}
	return strings.Join(out, "\n")
}

// PanicSite extracts the innermost non-runtime function name from a Guard() description, used in
// signature keys (function names, not line numbers).
func PanicSite(desc string) string {
	for _, l := range strings.Split(desc, "\n") {
		l = strings.TrimSpace(l)
		if l == "" || strings.HasPrefix(l, "/") || strings.HasPrefix(l, "panic") {
			continue
		}
		if strings.Contains(l, "verif/") || strings.Contains(l, "mc.Guard") {
			continue
		}
		if i := strings.Index(l, "nyaruka/"); i >= 0 || strings.Contains(l, "shopspring") {
			// function line looks like github.com/nyaruka/goflow/x/y.Func(...)
			if j := strings.LastIndex(l, "("); j > 0 {
				l = l[:j]
			}
			if k := strings.LastIndex(l, "/"); k >= 0 {
				l = l[k+1:]
			}
			return l
		}
	}
	return "unknown"
}

// Hash is a short stable hash for keys and replay file names.
func Hash(parts ...string) string {
	h := sha1.New()
	for _, p := range parts {
		h.Write([]byte(p))
		h.Write([]byte{0})
	}
	return hex.EncodeToString(h.Sum(nil))[:12]
}

func JSON(v any) string {
	b, err := json.Marshal(v)
	if err != nil {
		return fmt.Sprintf("<unmarshalable: %v>", err)
	}
	return string(b)
}

func sortedKeys[V any](m map[string]V) []string {
	ks := make([]string, 0, len(m))
	for k := range m {
		ks = append(ks, k)
	}
	sort.Strings(ks)
	return ks
}
