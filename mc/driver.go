package mc

import (
	"bytes"
	"encoding/json"
	"flag"
	"fmt"
	"os"
	"os/exec"
	"path/filepath"
	"runtime"
	"sort"
	"strconv"
	"strings"
	"sync"
	"time"
)

// Check describes one property check.
type Check struct {
	ID          string
	Level       string // evidence level: model_checking | exploration | fault_enumeration
	Rule        string // how cases are enumerated / what makes one distinct and non-trivial
	Assumptions []string
	// Run explores this worker's shard.
	Run func(c *Ctx)
	// Replay re-executes one replay artefact without the explorer and returns a human description;
	// violated reports whether the violation reproduced.
	Replay func(c *Ctx, raw json.RawMessage) (desc string, violated bool)
	// Guards returns the vacuity guards that failed (empty = fine).
	Guards func(r *Result, tier string) []string
	// Budget per tier; when exceeded the run stops with exhaustive:false.
	Budget map[string]time.Duration
	// Workers overrides the number of worker subprocesses (0 = number of CPUs).
	Workers int
	// Single, when set, executes one risky case (as recorded by Ctx.Risky) in isolation; used to
	// confirm crashes and hangs attributed to a case. It returns a description of the outcome.
	Single func(c *Ctx, desc string) string
	// Classify maps a crashed/hung case (desc from Risky, tail of the worker's output) to a
	// signature key.
	Classify func(desc, output string, hang bool) (key, what string)
	// HangLimit is the time one risky case may take inside a worker before the worker stops and the
	// parent re-runs the case alone under SingleLimit to confirm the hang (defaults 20 s / 60 s).
	HangLimit, SingleLimit time.Duration
	// SingleTicks: the check's Single runs a many-step case that calls Ctx.Tick (a search below one
	// root): the confirmation run is then timed step by step by its own watchdog (HangLimit per step),
	// not as a whole, so a large but healthy case is never taken for a hang on a loaded machine.
	SingleTicks bool
	// MemLimitKB, when > 0, caps each worker's address space (ulimit -v).
	MemLimitKB int
	// MaxBadCases is the number of confirmed crashing/hanging cases after which a shard is abandoned
	// (default 40); what the shard had not explored is reported as a cap.
	MaxBadCases int
	// Prepare runs once in the parent before workers are started (e.g. to build an instrumented
	// binary); it may return extra arguments passed to every worker via Ctx.Args, and an
	// alternative executable for the workers.
	Prepare func(tier string) (args map[string]string, exe string, err error)
}

var registry = map[string]*Check{}

func Register(ch *Check) { registry[ch.ID] = ch }

func Registered() []string { return sortedKeys(registry) }

// verifDir is the framework directory: VERIF_DIR (exported by the check script: its own location),
// default /verif.
var verifDir = Dir()

// Dir returns the framework directory.
func Dir() string {
	if d := os.Getenv("VERIF_DIR"); d != "" {
		return d
	}
	return "/verif"
}

// Finding is one entry of known_findings.json.
type Finding struct {
	Property string `json:"property"`
	Key      string `json:"key"`
	What     string `json:"what"`
	Example  any    `json:"example,omitempty"`
	Status   string `json:"status,omitempty"` // "known" (default) or "fixed: ..." which suppresses nothing
}

func loadFindings() (map[string]Finding, error) {
	out := map[string]Finding{}
	b, err := os.ReadFile(filepath.Join(verifDir, "known_findings.json"))
	if os.IsNotExist(err) {
		return out, nil
	}
	if err != nil {
		return nil, err
	}
	var doc struct {
		Findings []Finding `json:"findings"`
	}
	if err := json.Unmarshal(b, &doc); err != nil {
		return nil, fmt.Errorf("known_findings.json: %w", err)
	}
	// development aid only (never set by registered commands): extra findings file
	if extra := os.Getenv("VERIF_EXTRA_FINDINGS"); extra != "" {
		if eb, err := os.ReadFile(extra); err == nil {
			var edoc struct {
				Findings []Finding `json:"findings"`
			}
			if json.Unmarshal(eb, &edoc) == nil {
				doc.Findings = append(doc.Findings, edoc.Findings...)
			}
		}
	}
	for _, f := range doc.Findings {
		if strings.HasPrefix(f.Status, "fixed") {
			continue
		}
		out[f.Property+"\x00"+f.Key] = f
	}
	return out, nil
}

// Main is the entry point of cmd/vcheck.
func Main() {
	fs := flag.NewFlagSet("vcheck", flag.ExitOnError)
	tier := fs.String("tier", "quick", "quick|thorough")
	worker := fs.Bool("worker", false, "internal: run one shard")
	shard := fs.String("shard", "0/1", "internal: shard i/n")
	out := fs.String("out", "", "internal: result file")
	progress := fs.String("progress", "", "internal: progress file")
	deadline := fs.Int64("deadline", 0, "internal: unix deadline")
	replay := fs.String("replay", "", "replay artefact to re-execute")
	single := fs.String("single", "", "internal: run one risky case")
	argsJSON := fs.String("args", "", "internal: extra args")
	skipFile := fs.String("skip", "", "internal: file with risky cases to skip (JSON list)")
	workers := fs.Int("workers", 0, "number of worker processes")
	if len(os.Args) < 2 {
		fmt.Fprintln(os.Stderr, "usage: vcheck <id> [--tier quick|thorough] [--replay file]")
		os.Exit(2)
	}
	id := os.Args[1]
	fs.Parse(os.Args[2:])
	if t := os.Getenv("VERIF_TIER"); t != "" && !*worker {
		*tier = t
	}
	ch := registry[id]
	if ch == nil {
		fmt.Fprintf(os.Stderr, "unknown check %s (have %v)\n", id, Registered())
		os.Exit(2)
	}
	seed := int64(0)
	if s := os.Getenv("VERIF_SEED"); s != "" {
		seed, _ = strconv.ParseInt(s, 10, 64)
	}
	args := map[string]string{}
	if *argsJSON != "" {
		json.Unmarshal([]byte(*argsJSON), &args)
	}

	if *worker || *single != "" || *replay != "" {
		c := &Ctx{ID: id, Tier: *tier, Seed: seed, res: newResult(), maxSamp: 3, Args: args}
		fmt.Sscanf(*shard, "%d/%d", &c.Shard, &c.NShards)
		if *deadline > 0 {
			c.Deadline = time.Unix(*deadline, 0)
		}
		if *replay != "" {
			raw, err := os.ReadFile(*replay)
			if err != nil {
				fmt.Fprintln(os.Stderr, err)
				os.Exit(2)
			}
			var doc struct {
				Replay json.RawMessage `json:"replay"`
			}
			if err := json.Unmarshal(raw, &doc); err != nil || doc.Replay == nil {
				fmt.Fprintln(os.Stderr, "bad replay file")
				os.Exit(2)
			}
			if ch.Replay == nil {
				fmt.Fprintln(os.Stderr, "check has no replay function")
				os.Exit(2)
			}
			desc, violated := ch.Replay(c, doc.Replay)
			fmt.Println(desc)
			if violated {
				fmt.Printf("VIOLATION property=%s replay=%s\n", id, *replay)
				os.Exit(1)
			}
			fmt.Println("replay: property held on this case")
			os.Exit(0)
		}
		if *single != "" {
			if ch.Single == nil {
				os.Exit(2)
			}
			if ch.SingleTicks {
				hl := ch.HangLimit
				if hl == 0 {
					hl = 20 * time.Second
				}
				if *tier == "thorough" {
					hl *= 4
				}
				c.singleMode = true
				go c.watchdog(hl)
			}
			fmt.Println(ch.Single(c, *single))
			os.Exit(0)
		}
		if *progress != "" {
			f, err := os.OpenFile(*progress, os.O_CREATE|os.O_RDWR, 0o644)
			if err == nil {
				c.progress = f
			}
		}
		if *skipFile != "" {
			var list []string
			if b, err := os.ReadFile(*skipFile); err == nil {
				json.Unmarshal(b, &list)
			}
			c.skip = map[string]bool{}
			for _, d := range list {
				c.skip[d] = true
			}
		}
		hl := ch.HangLimit
		if hl == 0 {
			hl = 20 * time.Second
		}
		if *tier == "thorough" {
			hl *= 4 // thorough cases are larger; the limits are per case, not oracles on a batch
		}
		go c.watchdog(hl)
		ch.Run(c)
		b, _ := json.Marshal(c.res)
		if err := os.WriteFile(*out, b, 0o644); err != nil {
			fmt.Fprintln(os.Stderr, err)
			os.Exit(2)
		}
		os.Exit(0)
	}

	os.Exit(runParent(ch, *tier, seed, *workers))
}

type badCase struct {
	desc   string
	output string
	hang   bool
}

type workerOutcome struct {
	res     *Result
	crashed bool // failed and not attributable to a case
	output  string
	bad     []badCase // cases that crashed or hung the worker (confirmed alone)
	slow    int       // cases that tripped the watchdog but completed when run alone
}

// runShard runs one shard in a worker subprocess; when a risky case crashes or hangs the worker, the
// case is confirmed by re-running it alone, recorded, and the shard is restarted without it.
func runShard(ch *Check, exe, tier string, i, n int, tmp string, deadline time.Time, argsJSON string, seed int64) workerOutcome {
	o := workerOutcome{}
	var skip []string
	unexplained := 0
	maxBad := ch.MaxBadCases
	if maxBad == 0 {
		maxBad = 40
	}
	for attempt := 0; attempt < 60; attempt++ {
		if len(o.bad) >= maxBad {
			o.res = newResult()
			o.res.Caps = append(o.res.Caps, fmt.Sprintf("a shard was abandoned after %d cases that crashed or hung the worker (each is reported); the rest of that shard was not explored", len(o.bad)))
			return o
		}
		outFile := filepath.Join(tmp, fmt.Sprintf("res-%d.json", i))
		progFile := filepath.Join(tmp, fmt.Sprintf("prog-%d", i))
		skipFile := filepath.Join(tmp, fmt.Sprintf("skip-%d.json", i))
		os.Remove(outFile)
		os.Remove(progFile)
		sb, _ := json.Marshal(skip)
		os.WriteFile(skipFile, sb, 0o644)
		args := []string{ch.ID, "--worker", "--tier", tier, "--shard", fmt.Sprintf("%d/%d", i, n),
			"--out", outFile, "--progress", progFile, "--deadline", strconv.FormatInt(deadline.Unix(), 10),
			"--args", argsJSON, "--skip", skipFile}
		output, err := runLimited(ch, exe, args, seed, 0)
		b, rerr := os.ReadFile(outFile)
		if err == nil && rerr == nil {
			o.res = newResult()
			if jerr := json.Unmarshal(b, o.res); jerr != nil {
				o.crashed, o.output = true, "bad result json: "+jerr.Error()
			}
			return o
		}
		desc := readProgress(progFile)
		if desc == "" || ch.Single == nil {
			// a worker that dies without a trace (killed from outside, e.g. by the kernel under memory
			// pressure caused by other jobs) is restarted once before it is believed
			if unexplained == 0 && strings.TrimSpace(output) == "" {
				unexplained++
				continue
			}
			o.crashed, o.output = true, tail(output, 6000)
			return o
		}
		// confirm by running the case alone
		sl := ch.SingleLimit
		if sl == 0 {
			sl = 60 * time.Second
		}
		if tier == "thorough" {
			sl *= 4
		}
		if ch.SingleTicks {
			sl = 45 * time.Minute // the confirmation run times itself step by step
		}
		sout, serr := runLimited(ch, exe, []string{ch.ID, "--tier", tier, "--args", argsJSON, "--single", desc}, seed, sl)
		if serr == nil {
			if strings.Contains(output, "WATCHDOG:") {
				o.slow++ // completed alone: slow under load, not a hang
			} else {
				// crashed in the batch but not alone: not reproducible in isolation
				o.crashed, o.output = true, "case crashed the worker but not when run alone: "+desc+"\n"+tail(output, 3000)
				return o
			}
		} else {
			hang := strings.Contains(sout, "SINGLE-TIMEOUT")
			o.bad = append(o.bad, badCase{desc: desc, output: tail(sout, 3000), hang: hang})
		}
		skip = append(skip, desc)
	}
	o.crashed, o.output = true, "too many crashing cases in one shard"
	return o
}

// runLimited runs the driver binary with the check's memory limit and an optional time limit.
func runLimited(ch *Check, exe string, args []string, seed int64, limit time.Duration) (string, error) {
	var cmd *exec.Cmd
	if ch.MemLimitKB > 0 {
		script := fmt.Sprintf("ulimit -v %d; exec \"$0\" \"$@\"", ch.MemLimitKB)
		cmd = exec.Command("bash", append([]string{"-c", script, exe}, args...)...)
	} else {
		cmd = exec.Command(exe, args...)
	}
	cmd.Env = append(os.Environ(), "GOMAXPROCS=2", "GOGC=400", fmt.Sprintf("VERIF_SEED=%d", seed))
	var buf bytes.Buffer
	cmd.Stdout = &buf
	cmd.Stderr = &buf
	if err := cmd.Start(); err != nil {
		return err.Error(), err
	}
	done := make(chan error, 1)
	go func() { done <- cmd.Wait() }()
	if limit > 0 {
		select {
		case err := <-done:
			return buf.String(), err
		case <-time.After(limit):
			cmd.Process.Kill()
			<-done
			return buf.String() + "\nSINGLE-TIMEOUT: the case did not return within " + limit.String(), fmt.Errorf("timeout")
		}
	}
	err := <-done
	return buf.String(), err
}

func runParent(ch *Check, tier string, seed int64, nworkers int) int {
	start := time.Now()
	findings, err := loadFindings()
	if err != nil {
		fmt.Fprintln(os.Stderr, err)
		return 2
	}
	n := nworkers
	if n == 0 {
		n = ch.Workers
	}
	if n == 0 {
		n = runtime.NumCPU()
	}
	budget := ch.Budget[tier]
	if budget == 0 {
		if tier == "quick" {
			budget = 4 * time.Minute
		} else {
			budget = 20 * time.Minute
		}
	}
	exe, _ := os.Executable()
	args := map[string]string{}
	if ch.Prepare != nil {
		a, e, err := ch.Prepare(tier)
		if err != nil {
			fmt.Fprintf(os.Stderr, "prepare failed: %v\n", err)
			return 2
		}
		if a != nil {
			args = a
		}
		if e != "" {
			exe = e
		}
	}
	argsB, _ := json.Marshal(args)
	deadline := time.Now().Add(budget)
	tmp, err := os.MkdirTemp("", "vcheck-"+ch.ID+"-")
	if err != nil {
		fmt.Fprintln(os.Stderr, err)
		return 2
	}
	defer os.RemoveAll(tmp)

	outcomes := make([]workerOutcome, n)
	var wg sync.WaitGroup
	for i := 0; i < n; i++ {
		wg.Add(1)
		go func(i int) {
			defer wg.Done()
			outcomes[i] = runShard(ch, exe, tier, i, n, tmp, deadline, string(argsB), seed)
		}(i)
	}
	wg.Wait()

	merged := newResult()
	crashes := 0
	for i, o := range outcomes {
		for _, b := range o.bad {
			key, what := "worker-crash:"+Hash(b.desc), "a case crashed its worker process"
			if b.hang {
				key, what = "worker-hang:"+Hash(b.desc), "a case did not return within the single-case limit"
			}
			if ch.Classify != nil && b.desc != "" {
				key, what = ch.Classify(b.desc, b.output, b.hang)
			}
			if key == "" {
				// not this property's subject: the case is skipped and reported as a cap
				merged.Caps = append(merged.Caps, what)
				continue
			}
			if v := merged.Violations[key]; v != nil {
				v.Count++
			} else {
				merged.Violations[key] = &Violation{Key: key, What: what + "\ncase: " + b.desc + "\n" + tail(b.output, 1500), Replay: map[string]any{"risky": b.desc}, Count: 1}
			}
		}
		merged.Counters["slow_cases_not_confirmed_as_hangs"] += int64(o.slow)
		if o.crashed {
			crashes++
			key := "worker-crash-unattributed:" + strconv.Itoa(i)
			merged.Violations[key] = &Violation{Key: key, What: "worker " + strconv.Itoa(i) + " failed and the failure could not be attributed to a case\n" + o.output, Replay: map[string]any{}, Count: 1}
			continue
		}
		mergeInto(merged, o.res)
	}

	// vacuity guards
	var guardFailures []string
	if ch.Guards != nil && len(merged.Caps) == 0 && crashes == 0 {
		guardFailures = ch.Guards(merged, tier)
	}

	// classify violations against the known findings
	os.MkdirAll(filepath.Join(verifDir, "replays"), 0o755)
	if old, _ := filepath.Glob(filepath.Join(verifDir, "replays", ch.ID+"-*.json")); len(old) > 0 {
		for _, f := range old {
			os.Remove(f)
		}
	}
	var lines []string
	known := []map[string]any{}
	newViolations := 0
	for _, k := range sortedKeys(merged.Violations) {
		v := merged.Violations[k]
		if f, ok := findings[ch.ID+"\x00"+v.Key]; ok {
			lines = append(lines, fmt.Sprintf("KNOWN-FINDING: property=%s key=%s %s (seen %d times)", ch.ID, v.Key, oneLine(f.What), v.Count))
			known = append(known, map[string]any{"key": v.Key, "count": v.Count})
			continue
		}
		newViolations++
		path := filepath.Join(verifDir, "replays", fmt.Sprintf("%s-%s.json", ch.ID, Hash(v.Key)))
		doc := map[string]any{"property": ch.ID, "key": v.Key, "what": v.What, "count": v.Count, "replay": v.Replay}
		b, _ := json.MarshalIndent(doc, "", " ")
		os.WriteFile(path, b, 0o644)
		fmt.Printf("violation key=%s count=%d\n  %s\n", v.Key, v.Count, strings.ReplaceAll(tail(v.What, 1500), "\n", "\n  "))
		lines = append(lines, fmt.Sprintf("VIOLATION property=%s replay=%s", ch.ID, path))
	}

	wall := time.Since(start).Seconds()
	exhaustive := len(merged.Caps) == 0 && crashes == 0
	cov := map[string]any{
		"evaluations":         merged.Counters["evaluations"],
		"distinct_nontrivial": merged.Counters["distinct_nontrivial"],
		"rule":                ch.Rule,
		"samples":             merged.Samples,
		"exhaustive":          exhaustive,
		"counters":            merged.Counters,
		"maxes":               merged.Maxes,
		"vacuity_facts":       merged.Facts,
		"distinct_outcomes":   len(merged.Outcomes),
		"outcomes":            topOutcomes(merged.Outcomes, 40),
		"caps":                merged.Caps,
		"notes":               merged.Notes,
		"known_findings_hit":  known,
		"workers":             n,
	}
	if ch.Level == "model_checking" {
		cov["states"] = merged.Counters["states"]
		cov["transitions"] = merged.Counters["transitions"]
		tv := merged.Counters["traces_validated_against_impl"]
		if tv == 0 {
			tv = merged.Counters["evaluations"]
		}
		cov["traces_validated_against_impl"] = tv
		cov["explanation"] = "the search runs on the real implementation: every transition calls the exported entry points on fresh real objects, so every explored trace is an implementation trace"
	}
	if len(merged.Samples) == 0 {
		cov["samples"] = []any{"(no samples recorded)"}
	}
	ev := map[string]any{
		"property_id": ch.ID,
		"tier":        tier,
		"seed":        seed,
		"level":       ch.Level,
		"coverage":    cov,
		"assumptions": ch.Assumptions,
		"wall_s":      float64(int(wall*100)) / 100,
		"violations":  newViolations,
	}
	os.MkdirAll(filepath.Join(verifDir, "evidence"), 0o755)
	eb, _ := json.MarshalIndent(ev, "", " ")
	if err := os.WriteFile(filepath.Join(verifDir, "evidence", ch.ID+".json"), eb, 0o644); err != nil {
		fmt.Fprintln(os.Stderr, err)
		return 2
	}

	fmt.Printf("%s tier=%s workers=%d wall=%.1fs evaluations=%d distinct_nontrivial=%d states=%d transitions=%d outcomes=%d exhaustive=%v\n",
		ch.ID, tier, n, wall, merged.Counters["evaluations"], merged.Counters["distinct_nontrivial"],
		merged.Counters["states"], merged.Counters["transitions"], len(merged.Outcomes), exhaustive)
	for _, c := range merged.Caps {
		fmt.Printf("cap hit: %s\n", c)
	}
	for _, l := range lines {
		fmt.Println(l)
	}
	if newViolations > 0 {
		return 1
	}
	if len(guardFailures) > 0 {
		for _, g := range guardFailures {
			fmt.Printf("VACUOUS: %s\n", g)
		}
		return 2
	}
	return 0
}

func mergeInto(dst, src *Result) {
	for k, v := range src.Counters {
		dst.Counters[k] += v
	}
	for k, v := range src.Maxes {
		if v > dst.Maxes[k] {
			dst.Maxes[k] = v
		}
	}
	for k, v := range src.Facts {
		dst.Facts[k] += v
	}
	for k, v := range src.Outcomes {
		dst.Outcomes[k] += v
	}
	for _, s := range src.Samples {
		if len(dst.Samples) < 5 {
			dst.Samples = append(dst.Samples, s)
		}
	}
	for k, v := range src.Violations {
		if d := dst.Violations[k]; d != nil {
			d.Count += v.Count
		} else {
			dst.Violations[k] = v
		}
	}
	for _, c := range src.Caps {
		found := false
		for _, x := range dst.Caps {
			if x == c {
				found = true
			}
		}
		if !found {
			dst.Caps = append(dst.Caps, c)
		}
	}
	for _, c := range src.Notes {
		found := false
		for _, x := range dst.Notes {
			if x == c {
				found = true
			}
		}
		if !found && len(dst.Notes) < 50 {
			dst.Notes = append(dst.Notes, c)
		}
	}
}

func topOutcomes(m map[string]int64, n int) map[string]int64 {
	type kv struct {
		k string
		v int64
	}
	var xs []kv
	for k, v := range m {
		xs = append(xs, kv{k, v})
	}
	sort.Slice(xs, func(i, j int) bool {
		if xs[i].v != xs[j].v {
			return xs[i].v > xs[j].v
		}
		return xs[i].k < xs[j].k
	})
	out := map[string]int64{}
	for i, x := range xs {
		if i >= n {
			break
		}
		out[x.k] = x.v
	}
	return out
}

func readProgress(path string) string {
	b, err := os.ReadFile(path)
	if err != nil || len(b) < 6 {
		return ""
	}
	n, err := strconv.Atoi(string(b[:6]))
	if err != nil || 6+n > len(b) {
		return ""
	}
	return string(b[6 : 6+n])
}

func tail(s string, n int) string {
	if len(s) <= n {
		return s
	}
	return "…" + s[len(s)-n:]
}

func oneLine(s string) string {
	s = strings.ReplaceAll(s, "\n", " ")
	if len(s) > 200 {
		s = s[:200] + "…"
	}
	return s
}
