package mc

import "fmt"

// Chooser is the choice engine's per-execution handle: an execution asks Choose(n) at every
// intercepted nondeterminism point (random draw, HTTP answer, map order, scheduler decision). It
// replays Prefix (an out-of-range recorded choice is a divergence and panics) and answers 0 after.
type Chooser struct {
	Prefix []int
	Taken  []int
	Ns     []int
	Labels []string
}

func NewChooser(prefix []int) *Chooser { return &Chooser{Prefix: prefix} }

func (c *Chooser) Choose(n int, label string) int {
	i := len(c.Taken)
	v := 0
	if i < len(c.Prefix) {
		v = c.Prefix[i]
		if v >= n || v < 0 {
			panic(fmt.Sprintf("mc: divergence while replaying choice prefix: point %d (%s) has %d alternatives, recorded choice %d", i, label, n, v))
		}
	}
	c.Taken = append(c.Taken, v)
	c.Ns = append(c.Ns, n)
	c.Labels = append(c.Labels, label)
	return v
}

// Explore runs `run` under every choice sequence with at most `bound` deviations from the default
// answer 0 (deviation-bounded DFS; executions always run to completion). run must be
// deterministic given the chooser. It returns the number of executions; if maxExec > 0 and is
// reached, capped is true and the exploration is incomplete.
func Explore(bound, maxExec int, run func(c *Chooser)) (execs int, capped bool) {
	type item struct {
		prefix []int
		devs   int
	}
	stack := []item{{nil, 0}}
	for len(stack) > 0 {
		it := stack[len(stack)-1]
		stack = stack[:len(stack)-1]
		if maxExec > 0 && execs >= maxExec {
			return execs, true
		}
		c := NewChooser(it.prefix)
		run(c)
		execs++
		if it.devs >= bound {
			continue
		}
		for i := len(c.Taken) - 1; i >= len(it.prefix); i-- {
			for alt := c.Ns[i] - 1; alt >= 1; alt-- {
				p := append(append([]int{}, c.Taken[:i]...), alt)
				stack = append(stack, item{p, it.devs + 1})
			}
		}
	}
	return execs, false
}
