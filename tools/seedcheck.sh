#!/bin/bash
# usage: tools/seedcheck.sh <patch.diff> <CNN> [CNN...]   - runs checks against a scratch worktree with the patch applied
export GOFLAGS=-mod=mod GOPROXY=off GOSUMDB=off GOTOOLCHAIN=local
patch="$(realpath "$1")"; shift
wt="/tmp/seedcheck-$$"
git -C /repo worktree add -q "$wt" HEAD || exit 2
tag=$(echo "$wt" | md5sum | cut -c1-8)
trap 'git -C /repo worktree remove --force "$wt"; rm -rf /verif/.cache/mod-$tag /verif/bin/vcheck-*-$tag' EXIT
git -C "$wt" apply "$patch" || { echo "patch does not apply"; exit 2; }
for c in "$@"; do
  echo "== check $c"
  # the evidence file belongs to runs against /repo itself: keep it, restore it afterwards
  cp /verif/evidence/$c.json /tmp/seedcheck-ev-$$-$c.json 2>/dev/null
  (cd /verif && VERIF_REPO="$wt" ./check "$c" quick 2>&1 | grep "^violation\|tier=quick\|^VACUOUS\|build failed" | cut -c1-220 | head -10; echo "exit=${PIPESTATUS[0]}")
  [ -f /tmp/seedcheck-ev-$$-$c.json ] && mv /tmp/seedcheck-ev-$$-$c.json /verif/evidence/$c.json
  rm -f /verif/replays/$c-*.json
done
