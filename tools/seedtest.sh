#!/bin/bash
# usage: tools/seedtest.sh <CNN> <seed-dir> [extra check ids...]
# Confirms an independently written property-breaking change: applies patch.diff in a scratch worktree,
# runs the repository's own tests, runs the demonstration with and without the change, then runs the
# check(s) against the changed tree. Prints a summary; removes the worktree.
export GOFLAGS=-mod=mod GOPROXY=off GOSUMDB=off GOTOOLCHAIN=local
id="$1"; dir="$(realpath "$2")"; shift 2
checks="$id $*"
wt="/tmp/seedtest-$id-$$"
git -C /repo worktree add -q "$wt" HEAD || exit 2
tag=$(echo "$wt" | md5sum | cut -c1-8)
trap 'git -C /repo worktree remove --force "$wt"; rm -rf /verif/.cache/mod-$tag /verif/.cache/order-* /verif/.cache/conc-* /verif/bin/vcheck-*-$tag' EXIT
if ! git -C "$wt" apply "$dir/patch.diff"; then echo "RESULT patch-does-not-apply"; exit 2; fi
# place demonstration files where demo.md says: the destination of its `cp ... _test.go <dest>` line
# (a directory, possibly new), default flows/engine
demo_pkg=$(grep -o "cp [^ ]*_test\.go[^ ]* [^ ]*" "$dir/demo.md" | head -1 | awk '{print $NF}' | sed 's#^/tmp/seed-C[0-9]*/##; s#/$##')
case "$demo_pkg" in *.go) demo_pkg=$(dirname "$demo_pkg");; esac
[ -z "$demo_pkg" ] && demo_pkg=$(grep -o "mkdir -p [^ ]*" "$dir/demo.md" | head -1 | awk '{print $NF}' | sed 's#^/tmp/seed-C[0-9]*/##; s#/$##')
[ -z "$demo_pkg" ] && demo_pkg=$(grep -o "go test[^|]* \./[A-Za-z0-9_/]*[A-Za-z0-9_]" "$dir/demo.md" | head -1 | awk '{print $NF}' | sed 's#^\./##; s#/$##')
[ -z "$demo_pkg" ] && demo_pkg=flows/engine
[ -n "$DEMO_PKG" ] && demo_pkg="$DEMO_PKG"
echo "demonstration package: $demo_pkg"
echo "== repository tests with the change (only docgen may fail)"
(cd "$wt" && go test -vet=off -count=1 ./... 2>&1 | grep "^--- FAIL\|^FAIL" | grep -v "docgen" | head -5)
mkdir -p "$wt/$demo_pkg"
for f in "$dir"/*_test.go; do [ -f "$f" ] && cp "$f" "$wt/$demo_pkg/"; done
echo "== demonstration with the change (expected to FAIL)"
(cd "$wt" && go test -vet=off -count=1 ./$demo_pkg/ 2>&1 | grep "^ok\|^FAIL\|^--- FAIL" | tail -4 | cut -c1-200)
echo "== demonstration without the change (expected to pass)"
(cd "$wt" && git apply -R "$dir/patch.diff" && go test -vet=off -count=1 ./$demo_pkg/ -run "${DEMO_RUN:-.}" 2>&1 | grep "^ok\|^FAIL\|^--- FAIL" | tail -3 | cut -c1-200; git apply "$dir/patch.diff")
for f in "$dir"/*_test.go; do [ -f "$f" ] && rm -f "$wt/$demo_pkg/$(basename "$f")"; done
for c in $checks; do
  echo "== check $c against the changed tree"
  cp /verif/evidence/$c.json /tmp/seedtest-ev-$$-$c.json 2>/dev/null
  (cd /verif && VERIF_REPO="$wt" ./check "$c" quick 2>&1 | grep "^violation\|^VIOLATION\|tier=quick\|^VACUOUS\|build failed" | cut -c1-220 | head -12; echo "exit=${PIPESTATUS[0]}")
  [ -f /tmp/seedtest-ev-$$-$c.json ] && mv /tmp/seedtest-ev-$$-$c.json /verif/evidence/$c.json
  rm -f /verif/replays/$c-*.json
done
