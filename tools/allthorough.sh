#!/bin/bash
# usage: tools/allthorough.sh [CNN...]   - runs the thorough tier of the given (default: all) checks one after the other
# and prints one summary line per check; full logs under ./thorough-logs/. Meant for `vp run -- tools/allthorough.sh`.
cd "$(dirname "$0")/.."
mkdir -p thorough-logs
./setup.sh > thorough-logs/setup.log 2>&1
ids="$@"; [ -z "$ids" ] && ids="C03 C06 C15 C16 C17 C07 C18 C08 C19 C20 C14 C13 C05 C10 C01 C02 C09 C12 C11 C04"
for id in $ids; do
  s=$(date +%s); ./check $id thorough > thorough-logs/$id.log 2>&1; rc=$?; e=$(date +%s)
  echo "$id rc=$rc wall=$((e-s))s known=$(grep -c '^KNOWN-FINDING' thorough-logs/$id.log) $(grep 'tier=thorough' thorough-logs/$id.log | cut -c1-300)"
  grep "^VIOLATION\|^VACUOUS\|build failed\|^violation key" thorough-logs/$id.log | head -5
  jq -c "{caps: .coverage.caps, exhaustive: .coverage.exhaustive}" evidence/$id.json 2>/dev/null | cut -c1-400
done
