#!/usr/bin/env python3
"""usage: seedkeep.py <CNN> <n> <demo_pkg> <first_verdict> [note]
Runs the property's check against the seeded change (scratch worktree) and stores the confirmed seed under
/verif/seeded/<CNN>-<n>/ with patch.diff, the demonstration, demo.md and meta.json."""
import json, os, shutil, subprocess, sys, glob
cid, n, pkg, first = sys.argv[1:5]
note = sys.argv[5] if len(sys.argv) > 5 else ""
checks = sys.argv[6].split(",") if len(sys.argv) > 6 else [cid]
import re
src = f"/tmp/seed-out/{cid}/change{n}"
dst = f"/verif/seeded/{cid}-{n}"
os.makedirs(dst, exist_ok=True)
for f in ["patch.diff", "demo.md"] + [os.path.basename(x) for x in glob.glob(src + "/*_test.go")]:
    shutil.copy(os.path.join(src, f), os.path.join(dst, f))
if pkg == "auto":
    md = open(os.path.join(src, "demo.md")).read()
    m = re.search(r"cp [^ ]*_test\.go[^ ]* ([^ \n]+)", md)
    if not m:
        m = re.search(r"go test[^|\n]* \./([A-Za-z0-9_/]*[A-Za-z0-9_])", md)
    pkg = m.group(1) if m else "flows/engine"
    pkg = re.sub(r"^/tmp/seed-C[0-9]+/", "", pkg).rstrip("/")
    if pkg.endswith(".go"):
        pkg = os.path.dirname(pkg)
    if pkg in ("", "."):
        m = re.search(r"`?([a-z0-9_/]+)/`? ", md)
        pkg = "flows/engine"
env = dict(os.environ)
if cid == "C09":
    env["DEMO_RACE"] = "1"
demo = subprocess.run(["/verif/tools/seeddemo.sh", src, pkg], capture_output=True, text=True, env=env).stdout
verdicts = []
for chk in checks:
    out = subprocess.run(["/verif/tools/seedcheck.sh", src + "/patch.diff", chk], capture_output=True, text=True).stdout
    keys = [l.split("key=")[1].split(" count=")[0] for l in out.splitlines() if l.startswith("violation key=")]
    exit_code = [l for l in out.splitlines() if l.startswith("exit=")][-1].split("=")[1]
    verdicts.append({"check": chk, "exit": int(exit_code), "keys_reported": keys[:12]})
agent = json.load(open(os.path.join(src, "meta.json")))
meta = {
    "property": cid,
    "summary": agent.get("summary"),
    "needs_to_manifest": agent.get("needs_to_manifest"),
    "written_by": "a fresh sub-agent that was given only the property's text and its own scratch worktree (nothing from /verif)",
    "confirmed_by_me": {
        "patch_applies_to_repo_head": True,
        "repository_tests_pass_with_change": "go test -vet=off -count=1 ./... in a scratch worktree: only cmd/docgen/docs TestGenerateDocs fails (pandoc absent)",
        "demonstration": demo.strip().splitlines(),
        "demonstration_package": pkg,
    },
    "what_i_ran": [
        f"tools/seedtest.sh {cid} {src}   (scratch worktree: git apply patch.diff; go test ./...; demonstration with and without; VERIF_REPO=<worktree> ./check {cid} quick)",
        f"tools/seeddemo.sh {src} {pkg}",
        f"tools/seedcheck.sh {src}/patch.diff {cid}",
    ],
    "first_verdict_of_the_check": first,
    "final_verdict_of_the_check": verdicts[0] if len(verdicts) == 1 else verdicts,
    "note": note,
}
json.dump(meta, open(os.path.join(dst, "meta.json"), "w"), indent=1)
print(cid, n, pkg, demo.strip().replace("\n", " | ")[:160], [(v["check"], v["exit"], v["keys_reported"][:2]) for v in verdicts])
