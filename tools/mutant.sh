#!/bin/bash
# usage: tools/mutant.sh <CNN> <patch.diff> [quick|thorough] [--tests "<go test pkgs>"]
# Applies a deliberate property-breaking change in a scratch worktree of /repo, optionally runs the
# repository's own tests there, runs the check against it (VERIF_REPO) and removes the worktree.
export GOFLAGS=-mod=mod GOPROXY=off GOSUMDB=off GOTOOLCHAIN=local
id="$1"; patch="$(realpath "$2")"; tier="${3:-quick}"; shift 3
wt="/tmp/mut-$id-$$"
git -C /repo worktree add -q "$wt" HEAD || exit 2
trap 'git -C /repo worktree remove --force "$wt"; rm -rf /verif/.cache/mod-$(echo "$wt" | md5sum | cut -c1-8) /verif/bin/vcheck-*-$(echo "$wt" | md5sum | cut -c1-8)' EXIT
if ! git -C "$wt" apply "$patch"; then echo "PATCH DOES NOT APPLY"; exit 2; fi
if [ "$1" == "--tests" ]; then
  (cd "$wt" && go test -vet=off -count=1 $2 2>&1 | grep -v "^ok\|no test files" | head -20)
  echo "repo tests exit: ${PIPESTATUS[0]}"
fi
cd /verif && VERIF_REPO="$wt" ./check "$id" "$tier" 2>&1 | grep -v "^  " | tail -8
echo "check exit: ${PIPESTATUS[0]}"
