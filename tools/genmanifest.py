#!/usr/bin/env python3
"""Generates /verif/MANIFEST.json from the table below (keeps it valid and in sync)."""
import json, os
CHECKS = {
 "C01": ("model_checking", "explicit-state model checking of the implementation (BFS over the real engine, canonical state dedup)",
         "explicit-state BFS on the real engine over all canonical flow sets of <= 2(+1/2) nodes x triggers x resume histories to depth 3/4 in both restart regimes, environment answers deviation-bounded; the five well-formedness clauses are evaluated after every transition",
         "small-scope bound (graph size, depth); canonical-key merging argument of DESIGN 2.5; harness owns clock/UUID/random seams"),
 "C02": ("model_checking", "crash-point enumeration on the implementation: every subset of waits at which the host restarts, per history",
         "for every root over an action alphabet that reads non-persisted state and every resume history up to depth 2/4, all 2^k restart patterns are executed on the real engine and compared byte-for-byte with the never-restart execution; marshal/read/marshal fixpoint at every wait",
         "small-scope bound; @webhook/@legacy_extra isolated in masked results by construction; idle-session context not compared (not observable by templates)"),
 "C03": ("model_checking", "exhaustive product enumeration (contacts x modifiers, applied twice) and engine state enumeration against a reference event applier",
         "every (starting contact, modifier) pair of the stated product is applied twice through the real modifiers.Apply, and every ordered pair of contact-changing actions is run through the real engine with msg/refresh resumes; a reference event applier must reproduce the contact and modified==changed==event-emitted",
         "finite alphabets of contacts/modifiers/actions; group order not compared; frozen clock for direct applications"),
 "C05": ("model_checking", "explicit-state search over adversarial graphs x engine option grid, plus exhaustive size-limit grid",
         "every canonical adversarial flow set x limit configuration is explored by BFS on the real engine (step limit judged differentially against a loose-limit replay of the same history); a size-limit grid of options x input lengths x character widths checks every emitted length",
         "negative option values outside the domain; quick tier varies one size-limit family at a time"),
 "C06": ("model_checking", "invariant checking on every state of exhaustively enumerated modifier and engine spaces, oracle recomputed from an independent parse of each group's query",
         "16 query groups over every queryable property; every (contact, modifier) pair and every ordered pair of contact-changing actions x triggers x contacts x resume histories; membership, static-group clearing and event announcement are checked on every returned contact",
         "no-op modifiers on contacts with wrong stored membership are not judged; finite alphabets"),
 "C08": ("model_checking", "deviation-bounded exploration of environment answers: map iteration order at every range-over-map site is chosen by the explorer (overlay rewriter generated from the working tree)",
         "every range-over-map loop of goflow is rewritten (go/packages + go build -overlay, from the current tree) to iterate in explorer-chosen order; for each scenario (map-heavy engine sessions x language x trigger x clock step x history; migrate/clone/read/inspect/extract/change-language/PO export of every flow in the repository's test assets) run 0 takes canonical order and every static site hit is then deviated under 4 permutation policies (thorough: every dynamic point and all site pairs); all outputs must be byte-identical, and order-independent scenarios are cross-checked against a fresh process of the un-rewritten build",
         "only goflow's own map iterations are explored; permutation policies instead of all n! orders for n>3; scenario set is finite"),
 "C09": ("model_checking", "stateless model checking of interleavings under a cooperative scheduler (sync rebound by overlay), explicit-state search for shared-state immutability, plus a free-running -race pass (labelled sampling)",
         "(A) every operation sequence up to length 2/3 over the session operations is run on cold shared assets while a reflect+unsafe walker snapshots the SessionAssets graph and every package-level variable of every goflow package: any mutation not explained by publication under a mutex or a sync.Once is a racing write; (B) every schedule of 2 (thorough 3) session scripts up to a preemption bound under a cooperative scheduler with scheduling points at Lock/Unlock/Once, inside the critical section and at operation boundaries: no deadlock, outputs equal the solo runs, one cache entry per flow; (C) the same scripts free-running in fresh -race processes",
         "stage A sees writes not reads; sequential consistency; third-party state opaque; stage C samples schedules and never makes a run exhaustive"),
 "C10": ("fault_enumeration", "fault enumeration on every reachable state: all resume types x all single asset faults x live/restored",
         "every state reached by the BFS over the real engine x every resume type x {live, restored} x every single asset fault between sprints plus the storage fault; rejected resumes must leave JSON byte-identical with an empty sprint and not influence a later accepted resume (differential), impossible resumptions must fail the session",
         "single faults in quick tier; faults are edits of the asset document; small-scope graphs"),
 "C04": ("exploration", "bounded exhaustive enumeration of calls, operator forms and template strings on the implementation, every case in an isolated child process with CPU-time and memory caps",
         "every registered function and router test (read from the registries) at arity 0..5 over every tuple from a 42-value boundary alphabet (full at arity<=3), 19 operator/lookup forms on every pair, every template string of length<=6/7 over a 12-symbol alphabet and every <=4-token string, through Evaluator.Template/TemplateValue and run.EvaluateTemplate* of a real run; a JSON-number-with-huge-exponent sub-space; oracle: no panic, returns within the single-case CPU limit under a 4 GiB cap, error events consistent",
         "small-scope value alphabet; single-case limit 20/60 CPU-seconds operationalises 'time bounded by the size of template, context and result'"),
 "C13": ("exploration", "exhaustive value grids round-tripped through the implementation against big.Int / encoding/json references",
         "decimal coefficient x exponent grid, instants on a calendar grid plus every offset transition 1800-2040 of 6-7 zones x all 12 date/time format environments (ISO and environment forms), all dates and times on grids, all JSON documents of depth<=2 width<=2 over 20 leaf and 8 key kinds (depth 3 over a reduced alphabet), and '=' pairs; every rendering must convert back to the same value at the rendered precision",
         "host IANA timezone database shared by code and oracle; exponents within +-400; depth-3 JSON over a reduced alphabet"),
 "C14": ("exploration", "bounded exhaustive enumeration of query token sequences (viability-pruned by the real parser), constructed query trees x value strings, escaped template substitutions and real engine actions",
         "every space-joined token sequence up to length 5/6 over a 23-25 token vocabulary under both redaction policies and two resolvers, all 311 constructed tree shapes of depth<=2 with every value string up to 2-5 symbols over an 11-15 symbol adversarial alphabet at every position (and pairs), 6 injection templates with the engine's ContactQueryEscaping, and the same through real start_session / send_broadcast actions; parse(format(q)) must be structurally identical, constructed queries must parse back to their normal form, substituted values must become exactly one literal",
         "pruning relies on ANTLR reporting its first syntax error at the earliest offending token (cross-checked by brute force to length 3/4); bounded alphabets"),
 "C15": ("exploration", "bounded exhaustive enumeration of conditions x contacts x environments and of all boolean trees, against reference relations",
         "every condition the validator admits over all attributes, URN schemes and field types x 10 operator spellings x 36 literals x 22 contacts x 7 environments; number and date consistency relations on grids (dates at +-1 ns around both ends of the query day in 6-8 zones incl. DST days and days without midnight, 3 date formats); every AND/OR tree of depth<=2 over atoms realising every truth assignment, in 3 spellings, and constructed trees of depth<=3; no panic, compositionality, Simplify-invariance, absence/presence, trichotomy, calendar-day semantics by an independent reference",
         "bounded alphabets of literals, contacts, zones and days"),
 "C16": ("fault_enumeration", "bounded exhaustive enumeration of valid sources x targets plus single-fault (thorough: pair) JSON mutation and every byte-prefix truncation of 81 seed definitions",
         "every valid source of the stated families (template positions x versions, all action/router/wait types, language/name cases, canonical graphs per version, legacy rule sets of every type) is migrated to every newer version (one go, stepwise, latest) and checked for loadability, UUID/graph preservation, idempotence, byte-identity of current definitions, template value preservation and read/marshal stability; every JSON path x 14 replacements and every truncation of 81 seeds must be rejected with an error or accepted, never panic",
         "validity at old versions taken from the repository's migration test data; single faults in quick tier"),
 "C17": ("exploration", "bounded exhaustive enumeration of legacy expressions by nesting depth against a reference evaluator and a compositionality differential",
         "every nesting chain of depth 1-3 over 61 function signatures and 23 typed operator forms with a leaf alphabet, 21 string-literal forms in every text position and ordered pairs, and 18k templates with body text; each migrated expression must parse as exactly one expression and evaluate to the value given by a reference model of the legacy semantics or, where that is undefined, satisfy value(migrate(C[e])) == value(migrate(C[lit(value(migrate(e)))]))",
         "fixed operand alphabet, depth<=3, one environment; the reference model declines cases outside its domain (counted)"),
 "C07": ("exploration", "bounded exhaustive enumeration of routers x operands x draws against a reference decision list",
         "every switch router with 0..2(3) cases drawn from all registered tests (read from the registry) with argument vectors incl. localized, erroring and wrong-arity ones, x default/no default, category/exit sharing, result name, waits/timeouts x a 13-value operand alphabet x contact language; random routers 2-4 categories x float64-boundary draws; router-less nodes; each run as a real session and compared with a reference decision list (exit, segment, saved result, failure when no category)",
         "cases lists <= 3; reduced atom alphabets at length 3 as stated in the evidence rule; behaviours the statement leaves open are not judged"),
 "C18": ("exploration", "full configuration product enumerated against a reference fallback chain",
         "the full product of contact language x allowed-language list x base language x per-language translation states (absent, [], [\"\"], same length, different length) per property, with pairwise crosses, for send_msg, say_msg, send_broadcast, play_audio, send_email, set_run_result categories and switch-router arguments/category names, each run as a real session and compared with the reference chain (text, attachments, quick replies, locale, category_localized)",
         "literal texts only; what the statement leaves open (argument translations of different count, locale of an empty message) is not judged"),
 "C19": ("model_checking", "non-interference by lockstep twin-world BFS on the implementation, invariant on every reachable state",
         "twin worlds differing only in URN paths/display names are driven in lockstep by a BFS over the real engine; in every reachable state the fully forced expression context and environment facts must be identical under redaction and differ without it; a generated template corpus (every context path x every one-argument function) is an independent second layer; URN queries must be rejected under the policy",
         "evaluation is a pure function of context, environment and harness-owned seams; small-scope graphs; corpus evaluated on a subset of states"),
 "C20": ("model_checking", "static inspection compared with all executions of exhaustively enumerated flows (BFS over resumes and environment answers on the implementation)",
         "every canonical flow of <=2 nodes over a 21-kind alphabet of result-saving / asset-referencing actions and routers x triggers, BFS over resumes with HTTP answers and random draws up to a deviation bound; every saved result key/category, every exit taken from a wait and every asset touched (by fixed reference, and by influence re-runs with one field/global/group changed) must be covered by Flow.Inspect()",
         "assets reached through wildcards, names or expressions are outside the dependency clause; small-scope flows"),
}
NOT_YET = {
}
checks = []
for pid in sorted(CHECKS):
    level, technique, text, note = CHECKS[pid]
    checks.append({
        "property_id": pid,
        "quick_cmd": f"./check {pid} quick",
        "thorough_cmd": f"./check {pid} thorough",
        "evidence_file": f"/verif/evidence/{pid}.json",
        "replay_cmd_template": f"./check {pid} --replay {{path}}",
        "engine": "mc",
        "level_claimed": {"category": level, "text": text, "design_ref": f"DESIGN.md section 3, {pid}"},
        "level_note": note,
        "technique": technique,
    })
allp = [json.loads(l)["id"] for l in open("/verif/properties.jsonl")]
na = [{"property_id": p, "reason": NOT_YET.get(p, "check not built yet in this session (planned: bounded exhaustive enumeration per DESIGN.md section 3); not claimed until it runs")} for p in allp if p not in CHECKS]
m = {
 "version": 1,
 "setup_cmd": "/verif/setup.sh",
 "hooks": {
  "guard": "verif",
  "enable": "no source hooks are committed in /repo: the harness is a separate Go module (replace github.com/nyaruka/goflow => /repo) rebuilt from the current working tree by ./check; instrumentation, where a check needs it, is generated at check time as a `go build -overlay` from the current working tree",
  "baseline_off_cmd": "cd /repo && go test -vet=off -count=1 ./...",
  "source_commits": [],
  "add_only": True,
 },
 "engines": [{"name": "mc", "path": "/verif/mc", "serves_properties": sorted(CHECKS),
   "kind_free_text": "hand-written explorer for Go: explicit-state BFS over the real engine (state = event history replayed on fresh real objects, canonical-key dedup), deviation-bounded choice engine for environment answers, exhaustive bounded enumerators, 16 worker subprocesses with crash/hang attribution"}],
 "checks": checks,
 "not_applicable": na,
 "notes": "fix: commits in /repo repair genuine defects found by the checks (recorded as 'fixed' in known_findings.json). Exit 2 = harness problem (build failure or vacuity guard), never a property verdict.",
}
json.dump(m, open("/verif/MANIFEST.json", "w"), indent=1)
print("checks:", len(checks), "not_applicable:", len(na))
