// Command vrewrite generates a `go build -overlay` for a checkout of nyaruka/goflow that binds the
// explorer to the code without editing it:
//
//	-mode order   every `for ... range m` over a map becomes a loop over mcorder.Entries(m, site), whose
//	              order is chosen by the explorer (canonical sorted order by default)
//
// The overlay also adds the virtual package github.com/nyaruka/goflow/verifshim/mcorder.
// usage: vrewrite -repo /repo -out <dir> -shim /verif/shim [-mode order]
package main

import (
	"encoding/json"
	"flag"
	"fmt"
	"go/ast"
	"go/token"
	"go/types"
	"os"
	"path/filepath"
	"sort"
	"strings"

	"golang.org/x/tools/go/packages"
)

type splice struct {
	start, end int
	text       string
}

type site struct {
	ID   string `json:"id"`
	File string `json:"file"`
	Line int    `json:"line"`
	Func string `json:"func"`
	Key  string `json:"key_type"`
}

func main() {
	repo := flag.String("repo", "/repo", "goflow checkout")
	out := flag.String("out", "", "output directory")
	shim := flag.String("shim", "/verif/shim", "shim sources")
	mode := flag.String("mode", "order", "order | conc (order + sync shim + package-level variable registry)")
	flag.Parse()
	if *out == "" {
		fmt.Fprintln(os.Stderr, "need -out")
		os.Exit(2)
	}
	os.MkdirAll(*out, 0o755)
	cfg := &packages.Config{
		Mode: packages.NeedName | packages.NeedFiles | packages.NeedSyntax | packages.NeedTypes | packages.NeedTypesInfo | packages.NeedImports | packages.NeedDeps,
		Dir:  *repo,
		Env:  append(os.Environ(), "GOFLAGS=-mod=mod", "GOPROXY=off", "GOSUMDB=off"),
	}
	pkgs, err := packages.Load(cfg, "github.com/nyaruka/goflow/...")
	if err != nil {
		fmt.Fprintln(os.Stderr, "load:", err)
		os.Exit(2)
	}
	if packages.PrintErrors(pkgs) > 0 {
		os.Exit(2)
	}
	overlay := map[string]string{}
	var sites []site
	for _, pkg := range pkgs {
		if strings.Contains(pkg.PkgPath, "/antlr/gen") || strings.Contains(pkg.PkgPath, "/verifshim") {
			continue
		}
		for _, f := range pkg.Syntax {
			fname := pkg.Fset.File(f.Pos()).Name()
			if strings.HasSuffix(fname, "_test.go") || !strings.HasPrefix(fname, *repo) {
				continue
			}
			src, err := os.ReadFile(fname)
			if err != nil {
				fmt.Fprintln(os.Stderr, err)
				os.Exit(2)
			}
			var sps []splice
			rel, _ := filepath.Rel(*repo, fname)
			tf := pkg.Fset.File(f.Pos())
			// enclosing function names
			var funcStack []string
			ast.Inspect(f, func(n ast.Node) bool {
				if fd, ok := n.(*ast.FuncDecl); ok {
					name := fd.Name.Name
					if fd.Recv != nil && len(fd.Recv.List) > 0 {
						name = types.ExprString(fd.Recv.List[0].Type) + "." + name
					}
					funcStack = []string{name}
				}
				rs, ok := n.(*ast.RangeStmt)
				if !ok {
					return true
				}
				tv, ok := pkg.TypesInfo.Types[rs.X]
				if !ok {
					return true
				}
				mt, isMap := tv.Type.Underlying().(*types.Map)
				if !isMap {
					return true
				}
				fn := "?"
				if len(funcStack) > 0 {
					fn = funcStack[0]
				}
				line := tf.Line(rs.For)
				id := fmt.Sprintf("%s:%s#%d", strings.TrimSuffix(rel, ".go"), fn, countSites(sites, rel, fn))
				sites = append(sites, site{ID: id, File: rel, Line: line, Func: fn, Key: mt.Key().String()})
				k, v := "_", "_"
				if rs.Key != nil {
					k = types.ExprString(rs.Key)
				}
				if rs.Value != nil {
					v = types.ExprString(rs.Value)
				}
				op := ":="
				if rs.Tok == token.ASSIGN {
					op = "="
				}
				xs := string(src[tf.Offset(rs.X.Pos()):tf.Offset(rs.X.End())])
				var hdr string
				if k == "_" && v == "_" {
					hdr = fmt.Sprintf("for _, e__ := range mcorder.Entries(%s, %q) { if _, _, ok__ := e__.Get(); !ok__ { continue }; ", xs, id)
				} else if op == ":=" {
					hdr = fmt.Sprintf("for _, e__ := range mcorder.Entries(%s, %q) { %s, %s, ok__ := e__.Get(); if !ok__ { continue }; ", xs, id, k, v)
				} else {
					hdr = fmt.Sprintf("for _, e__ := range mcorder.Entries(%s, %q) { var ok__ bool; %s, %s, ok__ = e__.Get(); if !ok__ { continue }; ", xs, id, k, v)
				}
				sps = append(sps, splice{tf.Offset(rs.For), tf.Offset(rs.Body.Lbrace) + 1, hdr})
				return true
			})
			usesSync := false
			if *mode == "conc" {
				for _, imp := range f.Imports {
					if imp.Path.Value == `"sync"` {
						usesSync = true
						// keep the local name `sync`, bind it to the cooperative shim
						sps = append(sps, splice{tf.Offset(imp.Pos()), tf.Offset(imp.End()), `sync "github.com/nyaruka/goflow/verifshim/mcsync"`})
						syncFiles++
					}
				}
			}
			if len(sps) == 0 {
				continue
			}
			onlySync := usesSync && len(sps) == 1
			sort.Slice(sps, func(a, b int) bool { return sps[a].start > sps[b].start })
			text := string(src)
			for _, sp := range sps {
				text = text[:sp.start] + sp.text + text[sp.end:]
			}
			// add the import right after the package clause
			if !onlySync {
				pe := tf.Offset(f.Name.End())
				text = text[:pe] + "\nimport mcorder \"github.com/nyaruka/goflow/verifshim/mcorder\"\n" + text[pe:]
			}
			dst := filepath.Join(*out, strings.ReplaceAll(rel, "/", "__"))
			if err := os.WriteFile(dst, []byte(text), 0o644); err != nil {
				fmt.Fprintln(os.Stderr, err)
				os.Exit(2)
			}
			overlay[fname] = dst
		}
	}
	// the virtual shim packages
	shimPkgs := []string{"mcorder"}
	if *mode == "conc" {
		shimPkgs = append(shimPkgs, "mcsync", "mcglobals")
		// R-globals: per package, a generated file registering pointers to all package-level variables
		for _, pkg := range pkgs {
			if strings.Contains(pkg.PkgPath, "/antlr/gen") || strings.Contains(pkg.PkgPath, "/verifshim") || strings.Contains(pkg.PkgPath, "/cmd/") || pkg.Name == "main" || len(pkg.Syntax) == 0 {
				continue
			}
			var names []string
			dir := ""
			for _, f := range pkg.Syntax {
				fname := pkg.Fset.File(f.Pos()).Name()
				if strings.HasSuffix(fname, "_test.go") || !strings.HasPrefix(fname, *repo) {
					continue
				}
				dir = filepath.Dir(fname)
				for _, d := range f.Decls {
					gd, ok := d.(*ast.GenDecl)
					if !ok || gd.Tok != token.VAR {
						continue
					}
					for _, sp := range gd.Specs {
						for _, n := range sp.(*ast.ValueSpec).Names {
							if n.Name != "_" {
								names = append(names, n.Name)
							}
						}
					}
				}
			}
			if len(names) == 0 || dir == "" {
				continue
			}
			sort.Strings(names)
			var sb strings.Builder
			fmt.Fprintf(&sb, "package %s\n\nimport mcglobals \"github.com/nyaruka/goflow/verifshim/mcglobals\"\n\nfunc init() {\n\tmcglobals.Register(%q, map[string]any{\n", pkg.Name, pkg.PkgPath)
			for _, n := range names {
				fmt.Fprintf(&sb, "\t\t%q: &%s,\n", n, n)
			}
			sb.WriteString("\t})\n}\n")
			rel, _ := filepath.Rel(*repo, dir)
			dst := filepath.Join(*out, "globals__"+strings.ReplaceAll(rel, "/", "__")+".go")
			os.WriteFile(dst, []byte(sb.String()), 0o644)
			overlay[filepath.Join(dir, "zz_verif_globals.go")] = dst
			globalVars += len(names)
		}
	}
	var shimFiles []string
	for _, sp := range shimPkgs {
		fs, _ := filepath.Glob(filepath.Join(*shim, sp, "*.go"))
		for _, sf := range fs {
			overlay[filepath.Join(*repo, "verifshim", sp, filepath.Base(sf))] = sf
			shimFiles = append(shimFiles, sf)
		}
	}
	ob, _ := json.MarshalIndent(map[string]any{"Replace": overlay}, "", " ")
	os.WriteFile(filepath.Join(*out, "overlay.json"), ob, 0o644)
	sb, _ := json.MarshalIndent(sites, "", " ")
	os.WriteFile(filepath.Join(*out, "sites.json"), sb, 0o644)
	fmt.Printf("vrewrite: mode=%s %d map-range sites, %d files importing sync rebound, %d package-level variables registered\n", *mode, len(sites), syncFiles, globalVars)
}

var syncFiles, globalVars int

func countSites(sites []site, file, fn string) int {
	n := 0
	for _, s := range sites {
		if s.File == file && s.Func == fn {
			n++
		}
	}
	return n
}
