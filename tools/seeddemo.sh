#!/bin/bash
# usage: tools/seeddemo.sh <seed-dir> <package-dir-in-repo>   - runs a seed's demonstration with and without its patch
export GOFLAGS=-mod=mod GOPROXY=off GOSUMDB=off GOTOOLCHAIN=local
dir="$(realpath "$1")"; pkg="$2"
wt="/tmp/seeddemo-$$"
git -C /repo worktree add -q "$wt" HEAD || exit 2
trap 'git -C /repo worktree remove --force "$wt"' EXIT
mkdir -p "$wt/$pkg"; cp "$dir"/*_test.go "$wt/$pkg/"
race=""; [ -n "$DEMO_RACE" ] && race="-race"
echo "without: $(cd "$wt" && go test $race -vet=off -count=1 ./$pkg/ 2>&1 | grep -a "^ok\|^FAIL" | head -1 | cut -c1-100)"
git -C "$wt" apply "$dir/patch.diff" || { echo "patch does not apply"; exit 2; }
echo "with:    $(cd "$wt" && go test $race -vet=off -count=1 ./$pkg/ 2>&1 | grep -a "^ok\|^FAIL\|^--- FAIL" | head -2 | tr '\n' ' ' | cut -c1-200)"
