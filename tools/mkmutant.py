#!/usr/bin/env python3
"""usage: mkmutant.py <out.diff> <file> <old> <new> [<file> <old> <new> ...]
Creates a patch against /repo HEAD by exact string replacement (each old must occur exactly once)."""
import subprocess, sys, os, tempfile
out = os.path.abspath(sys.argv[1]); args = sys.argv[2:]
wt = tempfile.mkdtemp(prefix="mk-")
os.rmdir(wt)
subprocess.check_call(["git", "-C", "/repo", "worktree", "add", "-q", wt, "HEAD"])
try:
    for i in range(0, len(args), 3):
        f, old, new = args[i:i+3]
        p = os.path.join(wt, f); s = open(p).read()
        assert s.count(old) == 1, f"{f}: old occurs {s.count(old)} times"
        open(p, "w").write(s.replace(old, new))
    d = subprocess.check_output(["git", "-C", wt, "diff"])
    open(out, "wb").write(d)
    print(d.decode())
finally:
    subprocess.check_call(["git", "-C", "/repo", "worktree", "remove", "--force", wt])
