#!/usr/bin/env python3
"""usage: seedstore.py <CNN> <n> <first_verdict: caught|missed|vacuous> [note]
Stores a confirmed seeded change under /verif/seeded/<CNN>-<n>/ from what tools/seedtest.sh (log
/tmp/stlogs/<CNN>-<n>.log: repository tests, demonstration with and without, first run of the check) and
tools/seedcheck.sh (log /tmp/final/<CNN>-<n>.txt: the check as it is now) printed. Nothing is re-run."""
import json, os, re, shutil, sys, glob
cid, n, first = sys.argv[1:4]
note = sys.argv[4] if len(sys.argv) > 4 else ""
src = f"/tmp/seed-out/{cid}/change{n}"
dst = f"/verif/seeded/{cid}-{n}"
os.makedirs(dst, exist_ok=True)
for f in ["patch.diff", "demo.md"] + [os.path.basename(x) for x in glob.glob(src + "/*_test.go")]:
    shutil.copy(os.path.join(src, f), os.path.join(dst, f))
log = open(f"/tmp/stlogs/{cid}-{n}.log", errors="replace").read()
def section(title):
    m = re.search(r"== " + re.escape(title) + r"[^\n]*\n(.*?)(?=\n== |\Z)", log, re.S)
    return [l for l in (m.group(1).strip().splitlines() if m else []) if l.strip()]
def verdict(text):
    keys = [l.split("key=")[1].split(" count=")[0] for l in text.splitlines() if l.startswith("violation key=")]
    ex = [l for l in text.splitlines() if l.startswith("exit=")]
    vac = [l for l in text.splitlines() if l.startswith("VACUOUS")]
    v = {"exit": int(ex[-1].split("=")[1]) if ex else None, "keys_reported": keys[:12]}
    if vac:
        v["vacuity_guard"] = vac[:3]
    return v
pkg = re.search(r"demonstration package: (\S+)", log)
first_v = verdict(log[log.find("== check"):]) if "== check" in log else {}
final_path = f"/tmp/final/{cid}-{n}.txt"
final_v = verdict(open(final_path, errors="replace").read()) if os.path.exists(final_path) else first_v
agent = json.load(open(os.path.join(src, "meta.json")))
meta = {
    "property": cid,
    "summary": agent.get("summary"),
    "needs_to_manifest": agent.get("needs_to_manifest"),
    "written_by": "a fresh sub-agent that was given only the property's text and its own scratch worktree (nothing from /verif); fourth batch",
    "confirmed_by_me": {
        "patch_applies_to_repo_head": "patch-does-not-apply" not in log,
        "repository_tests_with_change": section("repository tests with the change") or ["(no failing test)"],
        "repository_tests_note": "go test -vet=off -count=1 ./... in a scratch worktree; cmd/docgen/docs TestGenerateDocs (pandoc absent) and utils/po TestLibrary (msgmerge absent in this restore of the sandbox) fail on the unchanged tree too",
        "demonstration_package": pkg.group(1) if pkg else None,
        "demonstration_with_change": section("demonstration with the change"),
        "demonstration_without_change": section("demonstration without the change"),
    },
    "what_i_ran": [
        f"tools/seedtest.sh {cid} {src}   (scratch worktree of /repo: git apply patch.diff; go test ./...; the demonstration with and without the change; VERIF_REPO=<worktree> ./check {cid} quick)",
        f"tools/seedcheck.sh {src}/patch.diff {cid}   (the check as committed at the end, against a scratch worktree with the change)",
    ],
    "first_verdict_of_the_check": first,
    "first_run": first_v,
    "final_verdict_of_the_check": dict(final_v, check=cid),
    "note": note,
}
json.dump(meta, open(os.path.join(dst, "meta.json"), "w"), indent=1, ensure_ascii=False)
print(cid, n, first, "->", final_v.get("exit"), final_v.get("keys_reported", [])[:2])
