#!/bin/bash
# MANIFEST.setup_cmd: build every check driver from files on disk (warms GOCACHE).
export GOFLAGS=-mod=mod GOPROXY=off GOSUMDB=off GOTOOLCHAIN=local
cd "$(dirname "${BASH_SOURCE[0]}")" || exit 2
mkdir -p bin evidence replays
rc=0
for d in cmd/c*; do
  lc=$(basename "$d")
  go build -o "bin/vcheck-$lc" "./$d" || rc=1
done
exit $rc
