// Package mcsync is injected into the goflow module by `go build -overlay`; files of goflow that
// import "sync" are rebound to it. Without a scheduler installed its types behave exactly like
// the sync ones (and count their use); with a scheduler, Lock/Unlock/Once are scheduling points of
// the cooperative scheduler and block cooperatively.
package mcsync

import (
	"sync"
)

// Scheduler is implemented by the explorer's cooperative scheduler.
type Scheduler interface {
	// Acquire blocks (cooperatively) until the resource is free and takes it.
	Acquire(res any, what string)
	// Release frees the resource; it is a scheduling point.
	Release(res any, what string)
}

// Sched is the installed scheduler (nil = free running).
var Sched Scheduler

// Held counts lock acquisitions currently held in free-running mode (used by sequential checks to
// know whether a write happened inside a critical section).
var Held int

type (
	WaitGroup = sync.WaitGroup
	Map       = sync.Map
	Pool      = sync.Pool
	Cond      = sync.Cond
	Locker    = sync.Locker
)

var (
	NewCond  = sync.NewCond
	OnceFunc = sync.OnceFunc
)

// Mutex is a cooperative mutex.
type Mutex struct {
	real sync.Mutex
}

func (m *Mutex) Lock() {
	if s := Sched; s != nil {
		s.Acquire(m, "mutex")
		return
	}
	m.real.Lock()
	Held++
}

func (m *Mutex) Unlock() {
	if s := Sched; s != nil {
		s.Release(m, "mutex")
		return
	}
	Held--
	m.real.Unlock()
}

func (m *Mutex) TryLock() bool {
	if Sched != nil {
		panic("mcsync: TryLock is not modelled")
	}
	return m.real.TryLock()
}

// RWMutex is modelled as an exclusive lock (readers are serialised too: sound for finding
// deadlocks and result differences, and it over-approximates mutual exclusion only).
type RWMutex struct{ Mutex }

func (m *RWMutex) RLock()   { m.Lock() }
func (m *RWMutex) RUnlock() { m.Unlock() }

// Once is a cooperative sync.Once: callers block until the first call has returned.
type Once struct {
	m    Mutex
	done bool
}

func (o *Once) Do(f func()) {
	o.m.Lock()
	defer o.m.Unlock()
	if !o.done {
		defer func() { o.done = true }()
		f()
	}
}
