// Package mcorder is injected into the goflow module by `go build -overlay` (it does not exist in
// the repository). Every range-over-map loop of goflow is rewritten to iterate over Entries(m,
// site): the keys in canonical sorted order, permuted by the explorer's policy for this dynamic
// iteration point. The Go specification leaves map iteration order unspecified, so every
// permutation is a legal behaviour of the original program.
package mcorder

import (
	"fmt"
	"sort"
)

// Point describes one dynamic iteration point.
type Point struct {
	Site string
	N    int
	Keys []string
}

// Policy returns the permutation (of 0..n-1) to apply to the canonical key order at this point, or
// nil for canonical order. It is set by the harness.
var Policy func(p *Point) []int

// Record, when set, is told about every dynamic point (after the policy was applied).
var Record func(p *Point)

// Entry is one map entry to visit; Get looks the value up at visit time, so entries deleted during
// the iteration are skipped exactly as the runtime would skip them.
type Entry[K comparable, V any] struct {
	m map[K]V
	k K
}

func (e Entry[K, V]) Get() (K, V, bool) {
	v, ok := e.m[e.k]
	return e.k, v, ok
}

// Entries returns the entries of m in the explorer-chosen order.
func Entries[M ~map[K]V, K comparable, V any](m M, site string) []Entry[K, V] {
	n := len(m)
	if n == 0 {
		return nil
	}
	type ks struct {
		k K
		s string
	}
	keys := make([]ks, 0, n)
	for k := range m {
		keys = append(keys, ks{k, keyString(k)})
	}
	sort.Slice(keys, func(i, j int) bool { return keys[i].s < keys[j].s })
	out := make([]Entry[K, V], n)
	var perm []int
	if n > 1 && (Policy != nil || Record != nil) {
		p := &Point{Site: site, N: n, Keys: make([]string, n)}
		for i := range keys {
			p.Keys[i] = keys[i].s
		}
		if Policy != nil {
			perm = Policy(p)
		}
		if Record != nil {
			Record(p)
		}
	}
	for i := range keys {
		j := i
		if perm != nil {
			j = perm[i]
		}
		out[i] = Entry[K, V]{m: m, k: keys[j].k}
	}
	return out
}

func keyString(k any) string {
	switch t := k.(type) {
	case string:
		return t
	case fmt.Stringer:
		return t.String()
	}
	return fmt.Sprint(k)
}
