// Package mcglobals is injected into the goflow module by `go build -overlay`. A generated file in
// every goflow package registers pointers to all of its package-level variables here, so the
// explorer finds shared roots mechanically (a scratch buffer hoisted to package scope by a later
// change is picked up without anyone listing it).
package mcglobals

var registry = map[string]map[string]any{}

func Register(pkg string, vars map[string]any) { registry[pkg] = vars }

// All returns package path -> variable name -> pointer to the variable.
func All() map[string]map[string]any { return registry }
