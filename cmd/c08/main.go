// Command c08 is the driver of the C08 check.
package main

import (
	"verif/mc"

	_ "verif/checks/c08"
)

func main() { mc.Main() }
