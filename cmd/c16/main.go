// Command c16 is the driver of the C16 check.
package main

import (
	"verif/mc"

	_ "verif/checks/c16"
)

func main() { mc.Main() }
