// Command c03 is the driver of the C03 check.
package main

import (
	"verif/mc"

	_ "verif/checks/c03"
)

func main() { mc.Main() }
