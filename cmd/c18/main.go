// Command c18 is the driver of the C18 check.
package main

import (
	"verif/mc"

	_ "verif/checks/c18"
)

func main() { mc.Main() }
