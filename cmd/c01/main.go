// Command c01 is the driver of the C01 check.
package main

import (
	"verif/mc"

	_ "verif/checks/c01"
)

func main() { mc.Main() }
