// Command c04 is the driver of the C04 check.
package main

import (
	"verif/mc"

	_ "verif/checks/c04"
)

func main() { mc.Main() }
