// Command c07 is the driver of the C07 check.
package main

import (
	"verif/mc"

	_ "verif/checks/c07"
)

func main() { mc.Main() }
