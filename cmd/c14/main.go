// Command c14 is the driver of the C14 check.
package main

import (
	"verif/mc"

	_ "verif/checks/c14"
)

func main() { mc.Main() }
