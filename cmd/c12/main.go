// Command c12 is the driver of the C12 check.
package main

import (
	"verif/mc"

	_ "verif/checks/c12"
)

func main() { mc.Main() }
