// Command c05 is the driver of the C05 check.
package main

import (
	"verif/mc"

	_ "verif/checks/c05"
)

func main() { mc.Main() }
