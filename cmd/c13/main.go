// Command c13 is the driver of the C13 check.
package main

import (
	"verif/mc"

	_ "verif/checks/c13"
)

func main() { mc.Main() }
