// Command c06 is the driver of the C06 check.
package main

import (
	"verif/mc"

	_ "verif/checks/c06"
)

func main() { mc.Main() }
