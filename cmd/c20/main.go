// Command c20 is the driver of the C20 check.
package main

import (
	"verif/mc"

	_ "verif/checks/c20"
)

func main() { mc.Main() }
