// Command c15 is the driver of the C15 check.
package main

import (
	"verif/mc"

	_ "verif/checks/c15"
)

func main() { mc.Main() }
