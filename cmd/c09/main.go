// Command c09 is the driver of the C09 check.
package main

import (
	"verif/mc"

	_ "verif/checks/c09"
)

func main() { mc.Main() }
