// Command c17 is the driver of the C17 check.
package main

import (
	"verif/mc"

	_ "verif/checks/c17"
)

func main() { mc.Main() }
