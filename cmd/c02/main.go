// Command c02 is the driver of the C02 check.
package main

import (
	"verif/mc"

	_ "verif/checks/c02"
)

func main() { mc.Main() }
