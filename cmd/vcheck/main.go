// Command vcheck is the single driver of all property checks.
package main

import (
	"verif/mc"

	_ "verif/checks/c01"
)

func main() { mc.Main() }
