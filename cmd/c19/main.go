// Command c19 is the driver of the C19 check.
package main

import (
	"verif/mc"

	_ "verif/checks/c19"
)

func main() { mc.Main() }
