// Command c11 is the driver of the C11 check.
package main

import (
	"verif/mc"

	_ "verif/checks/c11"
)

func main() { mc.Main() }
