// Command c10 is the driver of the C10 check.
package main

import (
	"verif/mc"

	_ "verif/checks/c10"
)

func main() { mc.Main() }
