// Package c18: localized text is chosen by the documented language fallback.
//
// Every case is one real engine session over a one-node flow whose localization document is
// generated; the oracle is the reference chain of the property statement (model.go).
package c18

import (
	"encoding/json"
	"fmt"
	"sort"
	"strings"
	"time"

	"github.com/nyaruka/goflow/flows"
	"verif/mc"
)

// ---- enumeration ------------------------------------------------------------------------------

// vectors calls f for every assignment of a state to each of the three translation languages.
func vectors(states []State, f func([3]State)) {
	for _, a := range states {
		for _, b := range states {
			for _, c := range states {
				f([3]State{a, b, c})
			}
		}
	}
}

func trOf(prop string, v [3]State) map[string][]string {
	m := map[string][]string{}
	for i, l := range trLangs {
		if t, ok := translation(prop, l, v[i]); ok {
			m[l] = t
		}
	}
	return m
}

func uniform(prop string, s State) map[string][]string { return trOf(prop, [3]State{s, s, s}) }

// the six settings with which the pairwise crosses are run in the quick tier: every shape of the
// preference chain (three distinct rungs in both orders, contact language not allowed, no contact
// language, contact language = default, no allowed languages)
var crossSettings = []Setting{
	{Contact: langB, Allowed: []string{langA, langB}, Base: langD},
	{Contact: langA, Allowed: []string{langB, langA}, Base: langD},
	{Contact: langC, Allowed: []string{langA, langB}, Base: langB},
	{Contact: "", Allowed: []string{langB}, Base: langA},
	{Contact: langB, Allowed: []string{langB, langA}, Base: langA},
	{Contact: langA, Allowed: nil, Base: langD},
}

func settingsOfBase(all []Setting, base string) []Setting {
	var out []Setting
	for _, s := range all {
		if s.Base == base {
			out = append(out, s)
		}
	}
	return out
}

func run(c *mc.Ctx) {
	idx := 0
	expired := false
	// flow runs one generated flow (a Config without setting) under the given settings; the unit of
	// sharding is the flow.
	flow := func(family string, cfg Config, settings []Setting) {
		if expired {
			return
		}
		mine := c.Mine(idx)
		idx++
		if !mine {
			return
		}
		if c.Expired() {
			expired = true
			return
		}
		checkFlow(c, family, cfg, settings)
	}
	all := AllSettings()
	bases := []string{langA, langB, langD}
	props := map[string][]State{"text": textStates, "attachments": listStates, "quick_replies": listStates}
	msgProps := []string{"text", "attachments", "quick_replies"}

	// family P (per property): every state vector of one property x the other properties
	// {untranslated, translated in every language} x the four base shapes x all 60 settings
	for _, action := range []string{"send_msg"} {
		for _, p := range msgProps {
			vectors(props[p], func(v [3]State) {
				for _, others := range []State{Absent, Same} {
					for shape := 0; shape < 4; shape++ {
						for _, base := range bases {
							cfg := Config{Action: action, BaseAtt: shape&1 != 0, BaseQR: shape&2 != 0, Tr: map[string]map[string][]string{}}
							for _, q := range msgProps {
								if q == p {
									cfg.Tr[q] = trOf(q, v)
								} else {
									cfg.Tr[q] = uniform(q, others)
								}
							}
							cfg.Base = base
							flow("send_msg:per-property:"+p, cfg, settingsOfBase(all, base))
						}
					}
				}
			})
		}
	}

	// family X (pairwise independence): full cross of the state vectors of two properties, the
	// third untranslated; quick: text x attachments at six settings, thorough: all three pairs at
	// all 60 settings
	pairs := [][2]string{{"text", "attachments"}}
	crossAt := crossSettings
	if c.Thorough() {
		pairs = [][2]string{{"text", "attachments"}, {"text", "quick_replies"}, {"attachments", "quick_replies"}}
		crossAt = all
	}
	for _, pr := range pairs {
		vectors(props[pr[0]], func(v0 [3]State) {
			vectors(props[pr[1]], func(v1 [3]State) {
				for _, base := range bases {
					ss := settingsOfBase(crossAt, base)
					if len(ss) == 0 {
						continue
					}
					cfg := Config{Action: "send_msg", Setting: Setting{Base: base}, BaseAtt: true, BaseQR: true, Tr: map[string]map[string][]string{
						pr[0]: trOf(pr[0], v0), pr[1]: trOf(pr[1], v1),
					}}
					flow("send_msg:cross:"+pr[0]+"x"+pr[1], cfg, ss)
				}
			})
		})
	}

	// family R (router): case arguments and category names of a switch router
	for _, p := range []string{"arguments", "name"} {
		q := map[string]string{"arguments": "name", "name": "arguments"}[p]
		vectors(listStates, func(v [3]State) {
			for _, others := range []State{Absent, Same} {
				for _, base := range bases {
					cfg := Config{Action: "router", Setting: Setting{Base: base}, Tr: map[string]map[string][]string{p: trOf(p, v), q: uniform(q, others)}}
					flow("router:"+p, cfg, settingsOfBase(all, base))
				}
			}
		})
	}

	// family V (say_msg in a voice flow): text
	vectors(textStates, func(v [3]State) {
		for _, base := range bases {
			cfg := Config{Action: "say_msg", Setting: Setting{Base: base}, Tr: map[string]map[string][]string{"text": trOf("text", v)}}
			flow("say_msg:text", cfg, settingsOfBase(all, base))
		}
	})

	// family O (other localized items): play_audio's URL (a text-less message: the locale names the
	// attachment's language), send_email's subject and body, set_run_result's category
	for _, x := range []struct{ action, prop, other string }{
		{"play_audio", "audio_url", ""}, {"send_email", "subject", "body"}, {"send_email", "body", "subject"}, {"set_run_result", "category", ""},
	} {
		vectors(listStates, func(v [3]State) {
			for _, others := range []State{Absent, Same} {
				if x.other == "" && others != Absent {
					continue
				}
				for _, base := range bases {
					cfg := Config{Action: x.action, Setting: Setting{Base: base}, Tr: map[string]map[string][]string{x.prop: trOf(x.prop, v)}}
					if x.other != "" {
						cfg.Tr[x.other] = uniform(x.other, others)
					}
					flow(x.action+":"+x.prop, cfg, settingsOfBase(all, base))
				}
			}
		})
	}

	// family B (send_broadcast: one translation per language of the flow, explicit chain [language, base])
	for _, p := range msgProps {
		vectors(props[p], func(v [3]State) {
			for _, others := range []State{Absent, Same} {
				for _, base := range bases {
					cfg := Config{Action: "send_broadcast", Setting: Setting{Base: base}, BaseAtt: true, BaseQR: true, Tr: map[string]map[string][]string{}}
					for _, q := range msgProps {
						if q == p {
							cfg.Tr[q] = trOf(q, v)
						} else {
							cfg.Tr[q] = uniform(q, others)
						}
					}
					// the broadcast does not look at the contact or the environment: two settings show that
					flow("send_broadcast:"+p, cfg, []Setting{{Contact: langB, Allowed: []string{langA, langB}, Base: base}, {Contact: "", Allowed: nil, Base: base}})
				}
			}
		})
	}

	// family E (the setting changes between sprints): a staged flow (message, wait + router, message,
	// ...) whose every item carries the same translations; the session starts under each of the 20
	// settings of the base language and every resume is one of the step alphabet. The unit of sharding
	// is (translations, base, start setting).
	staged := func(family string, v [3]State, depth int, alphabet []Step) {
		for _, base := range bases {
			for _, s := range settingsOfBase(all, base) {
				if expired {
					return
				}
				mine := c.Mine(idx)
				idx++
				if !mine {
					continue
				}
				if c.Expired() {
					expired = true
					return
				}
				cfg := Config{Action: "stages", Setting: s, BaseAtt: true, BaseQR: true, Tr: map[string]map[string][]string{}, Steps: make([]Step, depth)}
				for _, p := range []string{"text", "attachments", "quick_replies", "arguments", "name"} {
					cfg.Tr[p] = trOf(p, v)
				}
				sa, err := cfg.Assets()
				if err != nil {
					c.Violation("harness:assets:"+family, "assets: "+err.Error()+"\n"+mc.JSON(cfg), cfg)
					continue
				}
				var rec func(i int)
				rec = func(i int) {
					if i == depth {
						one := cfg
						one.Steps = append([]Step(nil), cfg.Steps...)
						checkOne(c, family, sa, one)
						return
					}
					for _, st := range alphabet {
						cfg.Steps[i] = st
						rec(i + 1)
					}
				}
				rec(0)
			}
		}
	}
	present := []State{Absent, Same}
	vectors(present, func(v [3]State) { staged("stages:one-resume", v, 1, stepAlphabet(false)) })
	if c.Thorough() {
		vectors(present, func(v [3]State) { staged("stages:two-resumes", v, 2, stepAlphabet(false)) })
	} else {
		staged("stages:two-resumes", [3]State{Same, Same, Same}, 2, stepAlphabet(true))
	}

	// family T (several destinations, a template): text vectors over {absent, translated} x base x
	// all_urns x template availability per channel x (20 settings x URN lists)
	avail := [][]string{nil, {langA}, {langB}, {langA, langB}}
	urnLists := [][]string{{"tel"}, {"twitter"}, {"tel", "twitter"}, {"twitter", "tel"}}
	thirdAvail := [][]string{nil}
	if c.Thorough() {
		thirdAvail = avail
		urnLists = nil
		var perm func(cur []string)
		perm = func(cur []string) {
			if len(cur) > 0 {
				urnLists = append(urnLists, append([]string(nil), cur...))
			}
			for _, ch := range destChannels {
				if !contains(cur, ch) {
					perm(append(cur, ch))
				}
			}
		}
		perm(nil)
	}
	vectors(present, func(v [3]State) {
		for _, base := range bases {
			for _, allURNs := range []bool{false, true} {
				for _, t0 := range avail {
					for _, t1 := range avail {
						for _, t2 := range thirdAvail {
							if expired {
								return
							}
							mine := c.Mine(idx)
							idx++
							if !mine {
								continue
							}
							if c.Expired() {
								expired = true
								return
							}
							cfg := Config{Action: "send_msg", Setting: Setting{Base: base}, Tr: map[string]map[string][]string{"text": trOf("text", v)},
								Dest: &Dest{AllURNs: allURNs, Templates: map[string][]string{"tel": t0, "twitter": t1, "facebook": t2}}}
							sa, err := cfg.Assets()
							if err != nil {
								c.Violation("harness:assets:send_msg:destinations", "assets: "+err.Error()+"\n"+mc.JSON(cfg), cfg)
								continue
							}
							for _, s := range settingsOfBase(all, base) {
								for _, ul := range urnLists {
									if !allURNs && len(ul) == 1 {
										continue // one URN: the same case as with all_urns
									}
									one := cfg
									one.Setting = s
									d := *cfg.Dest
									d.URNs = ul
									one.Dest = &d
									checkOne(c, "send_msg:destinations", sa, one)
								}
							}
						}
					}
				}
			}
		}
	})
	if expired {
		c.Cap("time budget reached: families are enumerated in a fixed order (per property, crosses, router, say_msg, other items, broadcast, stages, destinations) and every flow before the cap was checked under all its settings")
	}
}

// checkFlow builds the flow once and runs it under every setting.
func checkFlow(c *mc.Ctx, family string, cfg Config, settings []Setting) {
	sa, err := cfg.Assets()
	if err != nil {
		c.Violation("harness:assets:"+family, "assets: "+err.Error()+"\n"+mc.JSON(cfg), cfg)
		return
	}
	for _, s := range settings {
		cfg.Setting = s
		checkOne(c, family, sa, cfg)
	}
}

func checkOne(c *mc.Ctx, family string, sa flows.SessionAssets, cfg Config) {
	o := cfg.Execute(sa)
	c.Inc("evaluations")
	c.Inc("sessions:" + family)
	if o.HarnessErr != "" {
		c.Violation("harness:"+family+":"+mc.Hash(o.HarnessErr), o.HarnessErr+"\n"+mc.JSON(cfg), cfg)
		return
	}
	problems, notes := Judge(&cfg, o)
	for _, p := range problems {
		c.Violation(p.Key, fmt.Sprintf("%s\nconfig: %s\nobserved: %s", p.What, mc.JSON(cfg), mc.JSON(o)), cfg)
	}
	if len(problems) > 0 {
		return
	}
	nontrivial := false
	for _, n := range notes {
		c.Fact(n)
		if strings.Contains(n, ":decided-by:") && !strings.HasSuffix(n, "base-is-first-preference") {
			nontrivial = true
		}
		if strings.HasPrefix(n, "not-judged:") {
			c.Inc(n)
		}
	}
	if nontrivial {
		c.Inc("distinct_nontrivial")
	}
	c.Outcome(outcomeClass(notes))
	if c.WantSample() && strings.Contains(family, "cross") && nontrivial && len(cfg.Tr["text"]) >= 2 && len(cfg.Tr["attachments"]) >= 2 {
		c.Sample(map[string]any{"config": cfg, "observed": o, "decisions": notes})
	}
}

func outcomeClass(notes []string) string {
	var ds []string
	seen := map[string]bool{}
	for _, n := range notes {
		if (strings.Contains(n, ":decided-by:") || strings.HasPrefix(n, "locale-from:") || strings.HasPrefix(n, "dest:")) && !seen[n] {
			seen[n] = true
			ds = append(ds, n)
		}
	}
	sort.Strings(ds)
	return strings.Join(ds, " ")
}

// ---- replay and registration --------------------------------------------------------------------

func replayFn(c *mc.Ctx, raw json.RawMessage) (string, bool) {
	var cfg Config
	if err := json.Unmarshal(raw, &cfg); err != nil {
		return "bad replay: " + err.Error(), false
	}
	def := cfg.Definition()
	sa, err := cfg.Assets()
	if err != nil {
		return "assets: " + err.Error(), true
	}
	o := cfg.Execute(sa)
	db, _ := json.Marshal(def)
	prefs, _ := cfg.Setting.Prefs()
	out := fmt.Sprintf("config: %s\ndefinition: %s\npreference chain: %v\nobserved: %s\n", mc.JSON(cfg), db, prefs, mc.JSON(o))
	if o.HarnessErr != "" {
		return out + "HARNESS: " + o.HarnessErr, true
	}
	problems, notes := Judge(&cfg, o)
	out += "decisions: " + strings.Join(notes, ", ") + "\n"
	for _, p := range problems {
		out += fmt.Sprintf("PROBLEM %s: %s\n", p.Key, p.What)
	}
	return out, len(problems) > 0
}

func init() {
	mc.Register(&mc.Check{
		ID:    "C18",
		Level: "exploration",
		Rule: "every case is one session of the real engine over a one-node flow with a generated localization document, judged against the statement's reference chain (preferences = contact language if allowed, environment default language, flow base language; first preference that is the base language or has a non-empty translation wins; each property resolved on its own; locale from text, else attachments, else quick replies). " +
			"Settings: contact language {unset, A, B, C (never allowed)} x allowed languages {[], [A], [A,B], [B,A], [B]} x base language {A, B, D} = 60. Translation state of a property in each of the languages A, B, C: {absent, [], [\"\"], same length as base, different length than base} (text additionally [\"\", x], the only way to a text-less message) -> 125 (216) state vectors. " +
			"Enumerated exhaustively: (P) send_msg, for each of text / attachments / quick replies all its state vectors x the other two properties {untranslated, translated everywhere} x 4 base shapes (attachments and quick replies present or not) x 60 settings; " +
			"(X) full cross of the state vectors of two properties (quick: text x attachments at 6 settings covering every chain shape; thorough: all three pairs at all 60 settings); " +
			"(R) switch router: all state vectors of the case arguments x category name {untranslated, translated} and vice versa x 60 settings (the used arguments are read off the match, the category name off category_localized); " +
			"(V) say_msg in a voice flow: all 216 text vectors x 60 settings; (O) play_audio's URL, send_email's subject and body, set_run_result's category: all 125 vectors x 60 settings each; (B) send_broadcast: per property all state vectors x others {untranslated, translated} x 3 base languages x 2 settings, each language's content judged with the chain [that language, base]. " +
			"(E) the setting changes between sprints: a staged flow (stage = send_msg with text, attachments and quick replies, then - unless last - a wait and a switch router with a localized case argument and category name; all items carry the same translations, one of the 8 vectors over {absent, translated} per language A, B, C) x 3 base languages x the 20 start settings x every sequence of resumes over the step alphabet {the live session object is resumed, the session is serialized and read back first} x {no environment carried, an environment with one of the 5 allowed-language lists} x {no contact carried, the contact with one of the 4 languages} = 60 steps; every resume is a msg resume read from JSON as a host sends it. Quick: all one-resume sequences for all 8 vectors (28 800 sessions) and, for the fully translated vector, all two-resume sequences over the 12 steps that carry no contact (8 640); thorough: all 3 600 two-resume sequences for all 8 vectors. Every stage's router and message are judged with the chain of the setting in effect at that sprint (a carried environment / contact replaces the allowed languages / the contact's language from then on), identically for live and restored objects; the key names how the object got there (live or restored, and what has been carried to it since it was created) and whether the value is the one the replaced setting would have given. " +
			"(T) several destinations and a template: send_msg with a template (one literal variable) over text vectors {absent, translated}^3 x 3 base languages x all_urns {no, yes} x the template's translations per channel {none, A, B, A and B} for the channels tel and twitter (16; thorough: also a third channel facebook, 64) x 20 settings x the contact's URN lists {[tel], [twitter], [tel, twitter], [twitter, tel]} (thorough: all 15 ordered non-empty lists over the three channels). Every msg_created is judged on its own: a message that carries a templating must have the text of one of the template's translations for its destination's channel and a locale naming that translation's language; every other message must have the chain's text and a locale naming the language the chain took it from - wherever it stands among the destinations (the key names the position: only / first / after a templated one / after untemplated ones). A panic of the engine is a violation keyed by the panicking function and whether the environment has a default language. " +
			"Every (flow, setting, resumes / destinations) is distinct by construction; distinct_nontrivial counts the sessions in which some property was decided by a rung other than 'the first preference is the base language'.",
		Assumptions: []string{
			"a translation is non-empty iff it has at least one item and is not [\"\"] (the reading the statement's why-clause gives)",
			"the statement does not say what a router compares when the winning translation of the arguments has a different number of arguments than the base: those sessions are executed and counted but not judged",
			"a message whose text, attachments and quick replies are all empty has no language the statement could name: its locale is not judged; a say_msg whose text is empty creates no message and is not judged",
			"only literal texts are used (no expressions), so 'text-less' is unambiguous",
			"for send_broadcast the statement's chain is applied with the explicit preference list [translation language, base language]; which languages get a translation is not judged",
			"a message that carries a templating is the template's text, not the action's: the statement's chain does not apply to it; which of the channel's translations is picked (and that one is picked at all when the channel has some) is not judged, only that the locale names the language of the translation whose text the message has; attachments and quick replies of templated messages are not judged",
			"a resume that carries an environment or the contact replaces the session's from that sprint on (resumes/base.go Apply); 'the environment's allowed languages' and 'the contact's language' of the statement are read as the ones in effect when the text is chosen",
			"clock, UUID and random sources are owned by the harness",
		},
		Run:    run,
		Replay: replayFn,
		Budget: map[string]time.Duration{"quick": 4 * time.Minute, "thorough": 25 * time.Minute},
		Guards: guards,
	})
}

func guards(r *mc.Result, tier string) []string {
	var f []string
	need := func(fact string) {
		if r.Facts[fact] == 0 {
			f = append(f, "never observed: "+fact)
		}
	}
	for _, p := range []string{"text", "attachments", "quick_replies", "arguments", "name", "say_text", "audio_url", "subject", "body", "category"} {
		for _, d := range []string{"contact-language-translation", "default-language-translation", "contact-language-is-base", "default-language-is-base", "base-after-all-preferences-empty", "base-is-first-preference"} {
			need(p + ":decided-by:" + d)
		}
		for _, s := range []string{"absent", "empty-list", "blank-item"} {
			need(p + ":skipped:" + s)
		}
		need(p + ":used-translation-of-different-length")
	}
	for _, x := range []string{"contact-language-not-allowed", "contact-language-unset", "no-allowed-languages", "contact-language-is-default"} {
		need("chain:" + x)
	}
	for _, x := range []string{"text", "attachments", "quick_replies"} {
		need("locale-from:" + x)
	}
	need("locale:text-and-attachments-in-different-languages")
	need("locale:textless-attachments-and-quick-replies-in-different-languages")
	need("base-language-translation-ignored")
	need("broadcast:language-with-own-translation")
	need("broadcast:language-falls-back-to-base")
	need("not-judged:router-arguments-of-different-length")
	for _, obj := range []string{"live", "restored"} {
		for _, what := range []string{"environment", "contact", "environment-and-contact"} {
			need("stages:" + obj + ":new-" + what + "-makes-the-contact-language-allowed")
			need("stages:" + obj + ":new-" + what + "-makes-the-contact-language-not-allowed")
		}
		need("stages:" + obj + ":new-contact-replaces-an-allowed-contact-language-by-another")
		need("stages:" + obj + ":new-environment-moves-the-default-language")
		need("stages:" + obj + ":carried-setting-keeps-the-chain")
		need("stages:" + obj + ":resume-carries-nothing")
	}
	need("stages:live-resume-of-a-restored-session")
	for _, x := range []string{"templated", "untemplated", "template-language-differs-from-the-action-text's", "untemplated-after-templated-in-another-language", "templated-after-untemplated", "templated-after-templated-in-another-language"} {
		need("dest:" + x)
	}
	return f
}
