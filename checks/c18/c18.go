// Package c18: (not built yet)
package c18
