package c18

// Family E: the setting is not fixed for the life of a session. A host may send a new environment
// (and a new copy of the contact) with every resume, and it may keep the session object alive
// between calls or serialize it and read it back. The statement speaks of "the environment's allowed
// languages" and "the contact's language": the ones in effect when the text is chosen.

import (
	"encoding/json"
	"fmt"

	"github.com/nyaruka/goflow/flows"
	"github.com/nyaruka/goflow/flows/events"
	"verif/checks/c07/lab"
	"verif/world"
)

// Step is one resume of a staged session.
type Step struct {
	Restore    bool     `json:"restore,omitempty"`           // the session is serialized and read back before this resume (else the live object is resumed)
	Env        bool     `json:"env,omitempty"`               // the resume carries an environment ...
	Allowed    []string `json:"allowed_languages,omitempty"` // ... with these allowed languages
	NewContact bool     `json:"contact,omitempty"`           // the resume carries the contact ...
	Contact    string   `json:"contact_language,omitempty"`  // ... with this language ("" = unset)
}

var allowedLists = [][]string{nil, {langA}, {langA, langB}, {langB, langA}, {langB}}
var contactLangs = []string{"", langA, langB, langC}

// stepAlphabet: {live, restored} x environment {not carried, one of the 5 allowed lists} x contact
// {not carried, one of the 4 languages} = 60 (envOnly: 12).
func stepAlphabet(envOnly bool) []Step {
	var out []Step
	for _, restore := range []bool{false, true} {
		for e := -1; e < len(allowedLists); e++ {
			for ct := -1; ct < len(contactLangs); ct++ {
				if envOnly && ct >= 0 {
					continue
				}
				st := Step{Restore: restore}
				if e >= 0 {
					st.Env, st.Allowed = true, allowedLists[e]
				}
				if ct >= 0 {
					st.NewContact, st.Contact = true, contactLangs[ct]
				}
				out = append(out, st)
			}
		}
	}
	return out
}

func stageUUID(k int, what string) string { return world.UUID(fmt.Sprintf("c18-s%d-%s", k, what)) }

// stagesDefinition renders the staged flow: stage k sends a localized message (text, attachments,
// quick replies) and - unless it is the last - waits for a message and routes it through a switch
// with a localized case argument and a localized category name; every exit leads to stage k+1.
func (c *Config) stagesDefinition() J {
	n := len(c.Steps) + 1
	loc := J{}
	put := func(item, prop string) {
		for l, t := range c.Tr[prop] {
			lj, _ := loc[l].(J)
			if lj == nil {
				lj = J{}
				loc[l] = lj
			}
			ij, _ := lj[item].(J)
			if ij == nil {
				ij = J{}
				lj[item] = ij
			}
			ij[prop] = anys(t)
		}
	}
	nodes := []any{}
	for k := 0; k < n; k++ {
		a := J{"uuid": stageUUID(k, "a"), "type": "send_msg", "text": c.base("text")[0]}
		if c.BaseAtt {
			a["attachments"] = anys(c.base("attachments"))
		}
		if c.BaseQR {
			a["quick_replies"] = anys(c.base("quick_replies"))
		}
		for _, p := range []string{"text", "attachments", "quick_replies"} {
			put(stageUUID(k, "a"), p)
		}
		node := J{"uuid": stageUUID(k, "n"), "actions": []any{a}}
		if k == n-1 {
			node["exits"] = []any{J{"uuid": stageUUID(k, "e0")}}
		} else {
			next := stageUUID(k+1, "n")
			node["exits"] = []any{J{"uuid": stageUUID(k, "e0"), "destination_uuid": next}, J{"uuid": stageUUID(k, "e1"), "destination_uuid": next}}
			node["router"] = J{
				"type": "switch", "wait": J{"type": "msg"}, "operand": "@input.text", "result_name": fmt.Sprintf("S%d", k),
				"cases": []any{J{"uuid": stageUUID(k, "case"), "type": "has_any_word", "arguments": anys(c.base("arguments")), "category_uuid": stageUUID(k, "cat")}},
				"categories": []any{
					J{"uuid": stageUUID(k, "cat"), "name": c.base("name")[0], "exit_uuid": stageUUID(k, "e0")},
					J{"uuid": stageUUID(k, "other"), "name": "Other", "exit_uuid": stageUUID(k, "e1")},
				},
				"default_category_uuid": stageUUID(k, "other"),
			}
			put(stageUUID(k, "case"), "arguments")
			put(stageUUID(k, "cat"), "name")
		}
		nodes = append(nodes, node)
	}
	return J{
		"uuid": flowUUID, "name": "Subject", "spec_version": "13.6.0", "language": c.Base, "type": "messaging",
		"localization": loc, "nodes": nodes,
	}
}

func contactJSON(lang string) J {
	contact := world.DefaultContact()
	if lang == "" {
		delete(contact, "language")
	} else {
		contact["language"] = lang
	}
	return contact
}

func envJSON(allowed []string) J {
	env := world.DefaultEnv()
	if len(allowed) > 0 {
		env["allowed_languages"] = anys(allowed)
	} else {
		delete(env, "allowed_languages")
	}
	return env
}

// executeStages starts the session under the config's setting and applies the steps: every resume
// is a message resume as a host would send it (JSON), optionally carrying an environment / the contact.
func (c *Config) executeStages(sa flows.SessionAssets) *Observed {
	o := &Observed{}
	trig := lab.Trigger{Kind: "manual", Flow: flowUUID, Contact: contactJSON(c.Setting.Contact), Env: envJSON(c.Setting.Allowed)}
	steps := make([]lab.Step, len(c.Steps))
	for i, st := range c.Steps {
		r := J{
			"type": "msg", "resumed_on": fmt.Sprintf("2025-05-04T12:%02d:00Z", 40+i),
			"msg": J{"uuid": world.UUID(fmt.Sprintf("c18-in-%d", i)), "urn": "tel:+12065551212", "channel": J{"uuid": world.ChanTel, "name": "Tel"}, "text": routerInput},
		}
		if st.Env {
			r["environment"] = envJSON(st.Allowed)
		}
		if st.NewContact {
			r["contact"] = contactJSON(st.Contact)
		}
		b, err := json.Marshal(r)
		if err != nil {
			o.HarnessErr = "resume: " + err.Error()
			return o
		}
		steps[i] = lab.Step{Restore: st.Restore, Resume: b}
	}
	x := lab.ExecSteps(sa, trig.JSON(), 0, steps)
	if x.Panic != "" {
		o.Panic = x.Panic
		return o
	}
	if x.Err != nil || x.Panic != "" || x.Session == nil {
		o.HarnessErr = fmt.Sprintf("session did not run: err=%v panic=%s", x.Err, x.Panic)
		return o
	}
	if len(x.Sprints) != len(steps)+1 {
		o.HarnessErr = fmt.Sprintf("%d sprints for %d resumes", len(x.Sprints), len(steps))
		return o
	}
	if x.Session.Status() != flows.SessionStatusCompleted {
		o.HarnessErr = "session status " + string(x.Session.Status())
		return o
	}
	o.Results = map[string]Res{}
	for i, sp := range x.Sprints {
		msgs := []Msg{}
		for _, e := range sp.Events() {
			switch ev := e.(type) {
			case *events.MsgCreatedEvent:
				msgs = append(msgs, msgOf(ev.Msg))
			case *events.RunResultChangedEvent:
				o.Results[ev.Name] = Res{Value: ev.Value, Cat: ev.Category, InSprint: i}
			case *events.ErrorEvent:
				o.Errors = append(o.Errors, ev.Text)
			}
		}
		o.Sprints = append(o.Sprints, msgs)
	}
	// the localized category is not on the event: it is read off the saved result
	for k := range c.Steps {
		name := fmt.Sprintf("S%d", k)
		if saved := x.Session.Runs()[0].Results().Get("s" + fmt.Sprint(k)); saved != nil {
			r := o.Results[name]
			if r.Value != saved.Value || r.Cat != saved.Category {
				o.HarnessErr = fmt.Sprintf("result %s: the event says %q/%q, the run %q/%q", name, r.Value, r.Cat, saved.Value, saved.Category)
				return o
			}
			r.CatLoc = saved.CategoryLocalized
			o.Results[name] = r
		}
	}
	return o
}

func (s Setting) contactAllowed() bool { return s.Contact != "" && contains(s.Allowed, s.Contact) }

func (s Setting) defaultLang() string {
	if len(s.Allowed) > 0 {
		return s.Allowed[0]
	}
	return ""
}

// judgeStages walks the stages with the setting in effect at each: a resume that carries an
// environment replaces the allowed languages, one that carries the contact replaces the contact's
// language, from that sprint on. Stage k's router (k >= 1 counts from the first resume) and message are
// judged with the chain of that setting, whether the session object was kept alive or re-read.
func judgeStages(c *Config, o *Observed) (problems []Problem, notes []string) {
	n := len(c.Steps) + 1
	eff := c.Setting
	tag := "first-sprint"
	envSince, contactSince := false, false // carried by a resume since this session object was created
	var old *Setting                       // the setting before the most recent change
	for k := 0; k < n; k++ {
		if k > 0 {
			st := c.Steps[k-1]
			obj := "live"
			if st.Restore {
				obj, envSince, contactSince = "restored", false, false
			}
			before := eff
			if st.Env {
				eff.Allowed, envSince = st.Allowed, true
			}
			if st.NewContact {
				eff.Contact, contactSince = st.Contact, true
			}
			if st.Env || st.NewContact {
				old = &before
				was, is := before.contactAllowed(), eff.contactAllowed()
				what := "environment"
				if st.NewContact {
					what = "contact"
					if st.Env {
						what = "environment-and-contact"
					}
				}
				switch {
				case !was && is:
					notes = append(notes, "stages:"+obj+":new-"+what+"-makes-the-contact-language-allowed")
				case was && !is:
					notes = append(notes, "stages:"+obj+":new-"+what+"-makes-the-contact-language-not-allowed")
				case was && is && before.Contact != eff.Contact:
					notes = append(notes, "stages:"+obj+":new-"+what+"-replaces-an-allowed-contact-language-by-another")
				}
				if before.defaultLang() != eff.defaultLang() {
					notes = append(notes, "stages:"+obj+":new-environment-moves-the-default-language")
				}
				pb, _ := before.Prefs()
				pa, _ := eff.Prefs()
				if equal(pb, pa) {
					notes = append(notes, "stages:"+obj+":carried-setting-keeps-the-chain")
				}
			} else {
				notes = append(notes, "stages:"+obj+":resume-carries-nothing")
			}
			tag = obj
			if envSince {
				tag += "+environment"
			}
			if contactSince {
				tag += "+contact"
			}
			if k > 1 && !st.Restore && c.Steps[k-2].Restore {
				notes = append(notes, "stages:live-resume-of-a-restored-session")
			}
		}
		j := newJudger(c, eff, "stages:"+tag+":")
		if old != nil {
			ol, ola := old.Prefs()
			j.viaOld = func(prop string, got []string, first bool) bool {
				d := resolve(ol, ola, c.Base, c.base(prop), c.Tr[prop])
				if first {
					return len(got) > 0 && len(d.Val) > 0 && got[0] == d.Val[0]
				}
				return equal(got, d.Val)
			}
		}
		if k > 0 {
			var res *Res
			if r, ok := o.Results[fmt.Sprintf("S%d", k-1)]; ok && r.InSprint == k {
				res = &r
			}
			j.router("router", res)
		}
		if k >= len(o.Sprints) || len(o.Sprints[k]) != 1 {
			have := -1
			if k < len(o.Sprints) {
				have = len(o.Sprints[k])
			}
			j.problem("send_msg:messages:"+fmt.Sprint(have), fmt.Sprintf("sprint %d: want exactly one msg_created, have %d", k, have))
		} else {
			j.msg("send_msg", o.Sprints[k][0])
		}
		problems = append(problems, j.problems...)
		notes = append(notes, j.notes...)
		if len(problems) > 0 {
			return // later stages are judged only when the earlier ones are right
		}
	}
	return
}
