package c18

// Family T: one send_msg, several created messages. With all_urns the action creates a message for
// every sendable URN of the contact, and with a template each destination whose channel has a
// translation of the template gets the template's text instead of the action's. The statement's last
// clause speaks of every created message: its locale names the language its own text was taken from.

import (
	"encoding/json"
	"fmt"
	"strings"

	"github.com/nyaruka/goflow/assets"
	"github.com/nyaruka/goflow/assets/static"
	"github.com/nyaruka/goflow/flows"
	"verif/checks/c07/lab"
	"verif/world"
)

// Dest describes the destinations of a send_msg with a template.
type Dest struct {
	AllURNs   bool                `json:"all_urns"`
	URNs      []string            `json:"urns"`      // the contact's URNs in order, by channel: tel | twitter | facebook
	Templates map[string][]string `json:"templates"` // channel -> languages in which the template is translated for that channel
}

var destChannels = []string{"tel", "twitter", "facebook"}

var destURN = map[string]string{"tel": "tel:+12065551212", "twitter": "twitter:ann", "facebook": "facebook:12345"}

var chanFacebook = world.UUID("c18-chan-facebook")

func destChannelRef(ch string) J {
	switch ch {
	case "tel":
		return J{"uuid": world.ChanTel, "name": "Tel"}
	case "twitter":
		return J{"uuid": world.ChanTwitter, "name": "Twitter"}
	case "facebook":
		return J{"uuid": chanFacebook, "name": "Facebook"}
	}
	panic("unknown channel " + ch)
}

// templateLocale is the locale under which a translation of the template in a language is registered
// (one with, one without a country).
func templateLocale(lang string) string {
	if lang == langA {
		return lang + "-US"
	}
	return lang
}

const templateVar = "V"

func templateText(ch, lang string) string { return "TPL-" + ch + "-" + lang }

// templatePreview is the text of a message built from the translation for a channel in a language.
func templatePreview(ch, lang string) string { return templateText(ch, lang) + " " + templateVar }

func (d *Dest) decorate(action J) {
	action["all_urns"] = d.AllURNs
	action["template"] = J{"uuid": world.TemplateA, "name": "affirmation"}
	action["template_variables"] = []any{templateVar}
}

func (d *Dest) urns() []any {
	out := []any{}
	for _, ch := range d.URNs {
		out = append(out, destURN[ch])
	}
	return out
}

// destSource replaces the channels and templates of the fixed base assets.
type destSource struct {
	assets.Source
	over assets.Source
}

func (s *destSource) Channels() ([]assets.Channel, error)   { return s.over.Channels() }
func (s *destSource) Templates() ([]assets.Template, error) { return s.over.Templates() }

// Assets builds the session assets of the case's flow (for a send_msg with destinations: three
// sending channels and the template with exactly the stated translations).
func (c *Config) Assets() (flows.SessionAssets, error) {
	if c.Dest == nil {
		return lab.NewSA(c.Definition())
	}
	trs := []any{}
	for _, ch := range destChannels {
		for _, l := range c.Dest.Templates[ch] {
			trs = append(trs, J{"channel": destChannelRef(ch), "locale": templateLocale(l), "status": "approved",
				"components": []any{J{"name": "body", "type": "body/text", "content": templateText(ch, l) + " {{1}}", "variables": J{"1": 0}}},
				"variables":  []any{J{"type": "text"}}})
		}
	}
	doc := J{
		"channels": []any{
			J{"uuid": world.ChanTel, "name": "Tel", "address": "+12065550000", "schemes": []any{"tel"}, "roles": []any{"send", "receive"}, "country": "US"},
			J{"uuid": world.ChanTwitter, "name": "Twitter", "address": "nyaruka", "schemes": []any{"twitter"}, "roles": []any{"send", "receive"}},
			J{"uuid": chanFacebook, "name": "Facebook", "address": "page", "schemes": []any{"facebook"}, "roles": []any{"send", "receive"}},
		},
		"templates": []any{J{"uuid": world.TemplateA, "name": "affirmation", "translations": trs}},
	}
	b, err := json.Marshal(doc)
	if err != nil {
		return nil, err
	}
	over, err := static.NewSource(b)
	if err != nil {
		return nil, err
	}
	return lab.NewSAOver(func(src assets.Source) assets.Source { return &destSource{Source: src, over: over} }, c.Definition())
}

func destChannelOf(urn string) string {
	if i := strings.Index(urn, ":"); i > 0 {
		return urn[:i]
	}
	return ""
}

// judgeDestinations judges every created message of a send_msg with a template on its own: a message
// that carries a templating has the template's text - it must be the text of one of the translations
// registered for that destination's channel, and its locale must name that translation's language
// (which translation is picked is not judged); any other message has the action's content - chosen by
// the chain - and its locale names the language the chain took the text from.
func judgeDestinations(j *judger, o *Observed) {
	d := j.c.Dest
	want := len(d.URNs)
	if !d.AllURNs && want > 1 {
		want = 1
	}
	if len(o.Msgs) != want {
		j.problem(fmt.Sprintf("send_msg:destinations:messages:want=%d:got=%d", want, len(o.Msgs)), fmt.Sprintf("want %d msg_created (all_urns=%v, URNs %v), have %d", want, d.AllURNs, d.URNs, len(o.Msgs)))
		return
	}
	seen := map[string]bool{}
	var earlier []string // languages of the template translations used by earlier destinations
	untemplatedBefore := false
	for i, m := range o.Msgs {
		ch := destChannelOf(m.URN)
		if !contains(d.URNs, ch) || seen[ch] {
			j.problem("send_msg:destinations:urn", fmt.Sprintf("message %d goes to %q: not a URN of the contact, or a second message to it", i, m.URN))
			return
		}
		seen[ch] = true
		pos := "only"
		switch {
		case want == 1:
		case i == 0:
			pos = "first"
		case len(earlier) > 0:
			pos = "after-a-templated-one"
		default:
			pos = "after-untemplated-ones"
		}
		item := "send_msg:destination[" + pos + "]"
		if m.Templated {
			lang := ""
			for _, l := range d.Templates[ch] {
				if m.Text == templatePreview(ch, l) {
					lang = l
				}
			}
			if lang == "" {
				j.problem(item+":templated:text-is-no-translation-for-the-channel", fmt.Sprintf("message %d to %s carries a templating but its text %q is none of the translations for that channel (%v)", i, m.URN, m.Text, d.Templates[ch]))
				continue
			}
			j.notes = append(j.notes, "dest:templated")
			dT := resolve(j.langs, j.labels, j.c.Base, j.c.base("text"), j.c.Tr["text"])
			if dT.Lang != lang {
				j.notes = append(j.notes, "dest:template-language-differs-from-the-action-text's")
			}
			if untemplatedBefore {
				j.notes = append(j.notes, "dest:templated-after-untemplated")
			}
			if len(earlier) > 0 && !contains(earlier, lang) {
				j.notes = append(j.notes, "dest:templated-after-templated-in-another-language")
			}
			if got := localeLang(m.Locale); got != lang {
				g := "another-language"
				switch {
				case got == "":
					g = "no-locale"
				case contains(earlier, got):
					g = "language-of-an-earlier-destination's-template"
				case got == dT.Lang:
					g = "language-of-the-action-text"
				}
				j.problem(item+":templated:locale:want=language-of-the-template-text:got="+g,
					fmt.Sprintf("message %d to %s: locale %q, but its text %q is the template's translation in %s", i, m.URN, m.Locale, m.Text, lang))
			}
			earlier = append(earlier, lang)
			continue
		}
		// the action's own content
		if len(d.Templates[ch]) > 0 {
			j.notes = append(j.notes, "dest:untemplated-on-a-channel-with-translations")
		} else {
			j.notes = append(j.notes, "dest:untemplated")
		}
		if len(earlier) > 0 {
			dT := resolve(j.langs, j.labels, j.c.Base, j.c.base("text"), j.c.Tr["text"])
			if !contains(earlier, dT.Lang) {
				j.notes = append(j.notes, "dest:untemplated-after-templated-in-another-language")
			}
		}
		e := append([]string(nil), earlier...)
		j.otherLang = func(lang string) string {
			if contains(e, lang) {
				return "language-of-an-earlier-destination's-template"
			}
			return ""
		}
		j.msg(item, m)
		j.otherLang = nil
		untemplatedBefore = true
	}
}
