package c18

import (
	"fmt"
	"sort"
	"strings"

	"github.com/nyaruka/goflow/flows"
	"github.com/nyaruka/goflow/flows/events"
	"verif/checks/c07/lab"
	"verif/mc"
	"verif/world"
)

type J = lab.J

// The languages of the C18 world: A, B, C carry translations; C is never an allowed language; D is a
// base language without translations.
const langA, langB, langC, langD = "eng", "fra", "spa", "kin"

var trLangs = []string{langA, langB, langC}

// Setting is one of the 60 (contact language, allowed languages, base language) set-ups.
type Setting struct {
	Contact string   `json:"contact_language"` // "" = unset
	Allowed []string `json:"allowed_languages"`
	Base    string   `json:"base_language"`
}

// AllSettings enumerates the 60 settings.
func AllSettings() []Setting {
	var out []Setting
	for _, base := range []string{langA, langB, langD} {
		for _, allowed := range [][]string{nil, {langA}, {langA, langB}, {langB, langA}, {langB}} {
			for _, contact := range []string{"", langA, langB, langC} {
				out = append(out, Setting{Contact: contact, Allowed: allowed, Base: base})
			}
		}
	}
	return out
}

func contains(xs []string, x string) bool {
	for _, y := range xs {
		if x == y {
			return true
		}
	}
	return false
}

// Prefs is the preference list of the statement: the contact's language if it is one of the
// environment's allowed languages, then the environment's default language (the first allowed
// language), then the flow's base language.
func (s Setting) Prefs() (langs, labels []string) {
	if s.Contact != "" && contains(s.Allowed, s.Contact) {
		langs, labels = append(langs, s.Contact), append(labels, "contact")
	}
	if len(s.Allowed) > 0 {
		langs, labels = append(langs, s.Allowed[0]), append(labels, "default")
	}
	return append(langs, s.Base), append(labels, "base")
}

// State is the state of one property's translation in one language.
type State int

const (
	Absent     State = iota // no entry
	EmptyList               // []
	Blank                   // [""]
	Same                    // as many items as the base
	DiffLen                 // a different number of items than the base
	EmptyFirst              // ["", x] (text only): the translation is there but its text is empty
)

var listStates = []State{Absent, EmptyList, Blank, Same, DiffLen}
var textStates = []State{Absent, EmptyList, Blank, Same, DiffLen, EmptyFirst}

// translation returns the translation of a property in a language for a state.
func translation(prop, lang string, s State) ([]string, bool) {
	switch s {
	case Absent:
		return nil, false
	case EmptyList:
		return []string{}, true
	case Blank:
		return []string{""}, true
	case EmptyFirst:
		return []string{"", "T-" + lang + "-x"}, true
	}
	var same, diff []string
	switch prop {
	case "text":
		same, diff = []string{"T-" + lang}, []string{"T-" + lang, "T-" + lang + "-2"}
	case "attachments":
		a := func(n string) string { return "image/jpeg:http://x.io/" + lang + n + ".jpg" }
		same, diff = []string{a("")}, []string{a("-1"), a("-2")}
	case "quick_replies":
		same, diff = []string{"Q-" + lang + "-1", "Q-" + lang + "-2"}, []string{"Q-" + lang + "-1", "Q-" + lang + "-2", "Q-" + lang + "-3"}
	case "arguments":
		same, diff = []string{"w" + lang}, []string{"w" + lang, "zz"}
	case "name":
		same, diff = []string{"N-" + lang}, []string{"N-" + lang, "N-" + lang + "-2"}
	case "subject", "body", "category":
		same, diff = []string{prop + "-" + lang}, []string{prop + "-" + lang, prop + "-" + lang + "-2"}
	case "audio_url":
		same, diff = []string{"http://x.io/" + lang + ".mp3"}, []string{"http://x.io/" + lang + ".mp3", "http://x.io/" + lang + "-2.mp3"}
	default:
		panic("unknown property " + prop)
	}
	if s == Same {
		return same, true
	}
	return diff, true
}

// Config is one case and its replay artefact.
type Config struct {
	Action  string `json:"action"` // send_msg | say_msg | send_broadcast | router | ... | stages (sprints.go)
	Setting `json:"setting"`
	BaseAtt bool                           `json:"base_attachments,omitempty"`   // the action has an attachment
	BaseQR  bool                           `json:"base_quick_replies,omitempty"` // the action has quick replies
	Tr      map[string]map[string][]string `json:"translations"`                 // property -> language -> translation
	Steps   []Step                         `json:"steps,omitempty"`              // stages: the resumes (sprints.go)
	Dest    *Dest                          `json:"destinations,omitempty"`       // send_msg to several destinations with a template (destinations.go)
}

func (c *Config) base(prop string) []string {
	switch prop {
	case "text":
		return []string{"T-base"}
	case "attachments":
		if c.BaseAtt {
			return []string{"image/jpeg:http://x.io/base.jpg"}
		}
		return []string{}
	case "quick_replies":
		if c.BaseQR {
			return []string{"Q-base-1", "Q-base-2"}
		}
		return []string{}
	case "arguments":
		return []string{"wbase"}
	case "name":
		return []string{"N-base"}
	case "subject", "body", "category":
		return []string{prop + "-base"}
	case "audio_url":
		return []string{"http://x.io/base.mp3"}
	}
	panic("unknown property " + prop)
}

// ---- the reference chain ------------------------------------------------------------------------

func nonEmpty(t []string) bool { return len(t) > 0 && !(len(t) == 1 && t[0] == "") }

func stateName(t []string, present bool) string {
	switch {
	case !present:
		return "absent"
	case len(t) == 0:
		return "empty-list"
	case len(t) == 1 && t[0] == "":
		return "blank-item"
	}
	return "translated"
}

// Decision is the outcome of the reference chain for one property.
type Decision struct {
	Val   []string
	Lang  string
	Rung  string   // which rule decided
	Notes []string // coverage notes
}

// resolve applies the statement: the first preference that is the base language or has a non-empty
// translation wins, otherwise the base text is used.
func resolve(langs, labels []string, baseLang string, base []string, tr map[string][]string) Decision {
	d := Decision{}
	for i, l := range langs {
		if l == baseLang {
			d.Val, d.Lang = base, baseLang
			switch {
			case labels[i] != "base":
				d.Rung = labels[i] + "-language-is-base"
			case i == 0:
				d.Rung = "base-is-first-preference"
			default:
				d.Rung = "base-after-all-preferences-empty"
			}
			if nonEmpty(tr[baseLang]) {
				d.Notes = append(d.Notes, "base-language-translation-ignored")
			}
			return d
		}
		t, present := tr[l]
		if nonEmpty(t) {
			d.Val, d.Lang, d.Rung = t, l, labels[i]+"-language-translation"
			if len(t) != len(base) {
				d.Notes = append(d.Notes, "used-translation-of-different-length")
			}
			return d
		}
		d.Notes = append(d.Notes, "skipped:"+stateName(t, present))
	}
	d.Val, d.Lang, d.Rung = base, baseLang, "base-after-all-preferences-empty"
	return d
}

// ---- the subject ----------------------------------------------------------------------------------

var (
	flowUUID   = world.UUID("c18-flow")
	nodeUUID   = world.UUID("c18-n0")
	actionUUID = world.UUID("c18-a0")
	caseUUID   = world.UUID("c18-case")
	catMatch   = world.UUID("c18-cat-match")
	catOther   = world.UUID("c18-cat-other")
)

const routerInput = "wbase weng wfra wspa wkin"

func anys(xs []string) []any {
	out := []any{}
	for _, x := range xs {
		out = append(out, x)
	}
	return out
}

// Definition renders the one-node flow with its localization document.
func (c *Config) Definition() J {
	if c.Action == "stages" {
		return c.stagesDefinition()
	}
	node := J{"uuid": nodeUUID, "exits": []any{J{"uuid": world.UUID("c18-e0")}}}
	typ := "messaging"
	items := map[string]string{} // property -> localized item UUID
	switch c.Action {
	case "send_msg", "send_broadcast":
		a := J{"uuid": actionUUID, "type": c.Action, "text": c.base("text")[0]}
		if c.BaseAtt {
			a["attachments"] = anys(c.base("attachments"))
		}
		if c.BaseQR {
			a["quick_replies"] = anys(c.base("quick_replies"))
		}
		if c.Action == "send_broadcast" {
			a["urns"] = []any{"tel:+12065550123"}
		}
		if c.Dest != nil {
			c.Dest.decorate(a)
		}
		node["actions"] = []any{a}
		items["text"], items["attachments"], items["quick_replies"] = actionUUID, actionUUID, actionUUID
	case "say_msg":
		typ = "voice"
		node["actions"] = []any{J{"uuid": actionUUID, "type": "say_msg", "text": c.base("text")[0]}}
		items["text"] = actionUUID
	case "play_audio":
		typ = "voice"
		node["actions"] = []any{J{"uuid": actionUUID, "type": "play_audio", "audio_url": c.base("audio_url")[0]}}
		items["audio_url"] = actionUUID
	case "send_email":
		node["actions"] = []any{J{"uuid": actionUUID, "type": "send_email", "addresses": []any{"bob@nyaruka.com"}, "subject": c.base("subject")[0], "body": c.base("body")[0]}}
		items["subject"], items["body"] = actionUUID, actionUUID
	case "set_run_result":
		node["actions"] = []any{J{"uuid": actionUUID, "type": "set_run_result", "name": "Res", "value": "v", "category": c.base("category")[0]}}
		items["category"] = actionUUID
	case "router":
		node["actions"] = []any{}
		node["exits"] = []any{J{"uuid": world.UUID("c18-e0")}, J{"uuid": world.UUID("c18-e1")}}
		node["router"] = J{
			"type": "switch", "operand": "@input.text", "result_name": "Res",
			"cases": []any{J{"uuid": caseUUID, "type": "has_any_word", "arguments": anys(c.base("arguments")), "category_uuid": catMatch}},
			"categories": []any{
				J{"uuid": catMatch, "name": c.base("name")[0], "exit_uuid": world.UUID("c18-e0")},
				J{"uuid": catOther, "name": "Other", "exit_uuid": world.UUID("c18-e1")},
			},
			"default_category_uuid": catOther,
		}
		items["arguments"], items["name"] = caseUUID, catMatch
	default:
		panic("unknown action " + c.Action)
	}
	loc := J{}
	props := make([]string, 0, len(c.Tr))
	for p := range c.Tr {
		props = append(props, p)
	}
	sort.Strings(props)
	for _, p := range props {
		item, ok := items[p]
		if !ok {
			continue
		}
		for l, t := range c.Tr[p] {
			lj, _ := loc[l].(J)
			if lj == nil {
				lj = J{}
				loc[l] = lj
			}
			ij, _ := lj[item].(J)
			if ij == nil {
				ij = J{}
				lj[item] = ij
			}
			ij[p] = anys(t)
		}
	}
	return J{
		"uuid": flowUUID, "name": "Subject", "spec_version": "13.6.0", "language": c.Base, "type": typ,
		"localization": loc, "nodes": []any{node},
	}
}

// Msg is a created message as observed.
type Msg struct {
	Text         string   `json:"text"`
	Attachments  []string `json:"attachments"`
	QuickReplies []string `json:"quick_replies"`
	Locale       string   `json:"locale"`
	URN          string   `json:"urn,omitempty"`
	Templated    bool     `json:"templated,omitempty"` // the message carries a templating: its text is the template's
}

// Observed is what the engine produced.
type Observed struct {
	HarnessErr string         `json:"harness_err,omitempty"`
	Panic      string         `json:"panic,omitempty"`     // the engine panicked while running the session
	Msgs       []Msg          `json:"msgs,omitempty"`      // msg_created / ivr_created
	Broadcast  map[string]Msg `json:"broadcast,omitempty"` // broadcast_created translations
	BcBase     string         `json:"broadcast_base,omitempty"`
	HasResult  bool           `json:"has_result,omitempty"`
	ResValue   string         `json:"res_value,omitempty"`
	ResCat     string         `json:"res_category,omitempty"`
	ResCatLoc  string         `json:"res_category_localized,omitempty"`
	Errors     []string       `json:"error_events,omitempty"`
	Emails     []Email        `json:"emails,omitempty"`
	Sprints    [][]Msg        `json:"sprints,omitempty"` // stages: msg_created per sprint
	Results    map[string]Res `json:"results,omitempty"` // stages: the result of every stage's router
}

// Res is a saved result as observed.
type Res struct {
	Value    string `json:"value"`
	Cat      string `json:"category"`
	CatLoc   string `json:"category_localized"`
	InSprint int    `json:"in_sprint"`
}

// Email is an email_sent event as observed.
type Email struct {
	Subject string `json:"subject"`
	Body    string `json:"body"`
}

func msgOf(m *flows.MsgOut) Msg {
	o := Msg{Text: m.Text(), Locale: string(m.Locale()), Attachments: []string{}, QuickReplies: []string{}, URN: string(m.URN()), Templated: m.Templating() != nil}
	for _, a := range m.Attachments() {
		o.Attachments = append(o.Attachments, string(a))
	}
	o.QuickReplies = append(o.QuickReplies, m.QuickReplies()...)
	return o
}

// Execute runs the flow under the config's setting.
func (c *Config) Execute(sa flows.SessionAssets) *Observed {
	if c.Action == "stages" {
		return c.executeStages(sa)
	}
	o := &Observed{}
	contact := world.DefaultContact()
	if c.Contact == "" {
		delete(contact, "language")
	} else {
		contact["language"] = c.Contact
	}
	env := world.DefaultEnv()
	if len(c.Allowed) > 0 {
		env["allowed_languages"] = anys(c.Allowed)
	} else {
		delete(env, "allowed_languages")
	}
	if c.Dest != nil {
		contact["urns"] = c.Dest.urns()
	}
	trig := lab.Trigger{Kind: "manual", Flow: flowUUID, Contact: contact, Env: env}
	switch c.Action {
	case "say_msg", "play_audio":
		trig.Kind = "voice"
	case "router":
		trig.Kind, trig.MsgText = "msg", routerInput
	}
	x := lab.Exec(sa, trig.JSON(), 0)
	if x.Panic != "" {
		o.Panic = x.Panic
		return o
	}
	if x.Err != nil || x.Panic != "" || x.Session == nil {
		o.HarnessErr = fmt.Sprintf("session did not run: err=%v panic=%s", x.Err, x.Panic)
		return o
	}
	if x.Session.Status() != flows.SessionStatusCompleted {
		o.HarnessErr = "session status " + string(x.Session.Status())
		return o
	}
	for _, e := range x.Last().Events() {
		switch ev := e.(type) {
		case *events.MsgCreatedEvent:
			o.Msgs = append(o.Msgs, msgOf(ev.Msg))
		case *events.IVRCreatedEvent:
			o.Msgs = append(o.Msgs, msgOf(ev.Msg))
		case *events.BroadcastCreatedEvent:
			o.Broadcast = map[string]Msg{}
			o.BcBase = string(ev.BaseLanguage)
			for l, t := range ev.Translations {
				m := Msg{Text: t.Text, Attachments: []string{}, QuickReplies: []string{}}
				for _, a := range t.Attachments {
					m.Attachments = append(m.Attachments, string(a))
				}
				m.QuickReplies = append(m.QuickReplies, t.QuickReplies...)
				o.Broadcast[string(l)] = m
			}
		case *events.EmailSentEvent:
			o.Emails = append(o.Emails, Email{Subject: ev.Subject, Body: ev.Body})
		case *events.ErrorEvent:
			o.Errors = append(o.Errors, ev.Text)
		}
	}
	if res := x.Session.Runs()[0].Results().Get("res"); res != nil {
		o.HasResult, o.ResValue, o.ResCat, o.ResCatLoc = true, res.Value, res.Category, res.CategoryLocalized
	}
	return o
}

// ---- the oracle -------------------------------------------------------------------------------

// Problem is one disagreement with the statement.
type Problem struct{ Key, What string }

func equal(a, b []string) bool {
	if len(a) != len(b) {
		return false
	}
	for i := range a {
		if a[i] != b[i] {
			return false
		}
	}
	return true
}

// source tells where an observed value comes from, relative to the chain (for signature keys).
func (c *Config) source(prop string, got []string, langs, labels []string, first bool) string {
	cmp := func(v []string) bool {
		if first {
			return len(v) > 0 && len(got) > 0 && v[0] == got[0]
		}
		return equal(v, got)
	}
	if cmp(c.base(prop)) {
		return "base-text"
	}
	for i, l := range langs {
		if t, ok := c.Tr[prop][l]; ok && l != c.Base && cmp(t) {
			return labels[i] + "-language-translation(" + stateName(t, true) + ")"
		}
	}
	for _, l := range trLangs {
		if t, ok := c.Tr[prop][l]; ok && cmp(t) {
			if l == c.Base {
				return "base-language-translation"
			}
			return "translation-of-a-language-outside-the-chain"
		}
	}
	if len(got) == 0 || (first && got[0] == "") {
		return "nothing"
	}
	return "other"
}

func localeLang(locale string) string {
	if i := strings.Index(locale, "-"); i >= 0 {
		return locale[:i]
	}
	return locale
}

// judger judges the items of one session against the chain of one setting (a staged session has a
// judger per stage, since the setting changes on the way).
type judger struct {
	c             *Config
	langs, labels []string
	pfx           string // key prefix (stages: how the session object got to this stage)
	// viaOld, if set, recognizes a value the chain of the replaced setting would have produced
	viaOld func(prop string, got []string, first bool) bool
	// otherLang, if set, names a language the chain does not know (e.g. that of a template used earlier)
	otherLang func(lang string) string
	problems  []Problem
	notes     []string
}

func newJudger(c *Config, s Setting, pfx string) *judger {
	j := &judger{c: c, pfx: pfx}
	j.langs, j.labels = s.Prefs()
	// facts about the chain's shape
	switch {
	case s.Contact == "":
		j.notes = append(j.notes, "chain:contact-language-unset")
	case !contains(s.Allowed, s.Contact):
		j.notes = append(j.notes, "chain:contact-language-not-allowed")
	case s.Allowed[0] == s.Contact:
		j.notes = append(j.notes, "chain:contact-language-is-default")
	}
	if len(s.Allowed) == 0 {
		j.notes = append(j.notes, "chain:no-allowed-languages")
	}
	return j
}

func (j *judger) decide(prop, label string) Decision {
	d := resolve(j.langs, j.labels, j.c.Base, j.c.base(prop), j.c.Tr[prop])
	j.notes = append(j.notes, label+":decided-by:"+d.Rung)
	for _, n := range d.Notes {
		if n == "base-language-translation-ignored" {
			j.notes = append(j.notes, n)
		} else {
			j.notes = append(j.notes, label+":"+n)
		}
	}
	return d
}

func (j *judger) problem(key, what string) {
	j.problems = append(j.problems, Problem{j.pfx + key, what})
}

func (j *judger) bad(item, prop string, d Decision, got []string, first bool, what string) {
	src := j.c.source(prop, got, j.langs, j.labels, first)
	if j.viaOld != nil && j.viaOld(prop, got, first) {
		src = "as-under-the-replaced-setting"
	}
	j.problem(fmt.Sprintf("%s:%s:want=%s:got=%s", item, prop, d.Rung, src),
		fmt.Sprintf("%s: the chain %v decides %s by %q (language %s): want %q, got %q", what, j.langs, prop, d.Rung, d.Lang, d.Val, got))
}

// content judges text, attachments and quick replies of a created message that was built from the
// action's own (localized) content and returns the decisions; ok is false when one of them is wrong.
func (j *judger) content(item string, m Msg) (dT, dA, dQ Decision, ok bool) {
	dT, dA, dQ = j.decide("text", "text"), j.decide("attachments", "attachments"), j.decide("quick_replies", "quick_replies")
	n := len(j.problems)
	if m.Text != dT.Val[0] {
		j.bad(item, "text", dT, []string{m.Text}, true, "message text")
	}
	if !equal(m.Attachments, dA.Val) {
		j.bad(item, "attachments", dA, m.Attachments, false, "message attachments")
	}
	if !equal(m.QuickReplies, dQ.Val) {
		j.bad(item, "quick_replies", dQ, m.QuickReplies, false, "message quick replies")
	}
	return dT, dA, dQ, len(j.problems) == n
}

// localeSource tells which part of the message the locale has to name: the text; text-less:
// attachments, then quick replies ("" for an empty message).
func localeSource(dT, dA, dQ Decision) (from, want string) {
	switch {
	case dT.Val[0] != "":
		return "text", dT.Lang
	case len(dA.Val) > 0:
		return "attachments", dA.Lang
	case len(dQ.Val) > 0:
		return "quick_replies", dQ.Lang
	}
	return "", ""
}

// msg judges one msg_created of a send_msg whose content is the action's: content, then locale.
func (j *judger) msg(item string, m Msg) {
	dT, dA, dQ, ok := j.content(item, m)
	if !ok {
		return // the locale follows from the content: judged only when the content is right
	}
	// the locale names the language used for the text; text-less: attachments, then quick replies
	from, want := localeSource(dT, dA, dQ)
	if from == "" {
		j.notes = append(j.notes, "not-judged:locale-of-an-empty-message")
		return
	}
	j.notes = append(j.notes, "locale-from:"+from)
	if from == "text" && len(dA.Val) > 0 && dA.Lang != dT.Lang {
		j.notes = append(j.notes, "locale:text-and-attachments-in-different-languages")
	}
	if from == "attachments" && len(dQ.Val) > 0 && dA.Lang != dQ.Lang {
		j.notes = append(j.notes, "locale:textless-attachments-and-quick-replies-in-different-languages")
	}
	if got := localeLang(m.Locale); got != want {
		var is []string
		for _, x := range []struct {
			n string
			d Decision
		}{{"text", dT}, {"attachments", dA}, {"quick_replies", dQ}} {
			if x.d.Lang == got {
				is = append(is, x.n)
			}
		}
		g := "another-language"
		if got == "" {
			g = "no-locale"
		} else if o := j.otherLang; o != nil && o(got) != "" {
			g = o(got)
		} else if len(is) > 0 {
			g = "language-of-" + strings.Join(is, "+")
		}
		j.problem(fmt.Sprintf("%s:locale:want=language-of-%s:got=%s", item, from, g),
			fmt.Sprintf("locale %q: the message's %s was taken from language %s (text %s, attachments %s, quick replies %s)", m.Locale, from, want, dT.Lang, dA.Lang, dQ.Lang))
	}
}

// router judges the result a switch router over localized case arguments and category names saved
// (res nil: none): the match names the argument that was compared, category_localized the name.
func (j *judger) router(item string, res *Res) {
	c := j.c
	dArgs := j.decide("arguments", "arguments")
	if len(dArgs.Val) != len(c.base("arguments")) {
		j.notes = append(j.notes, "not-judged:router-arguments-of-different-length")
		return
	}
	dName := j.decide("name", "name")
	if res == nil {
		j.problem(item+":result:missing", "the router saved no result")
		return
	}
	word := dArgs.Val[0]
	if res.Cat != c.base("name")[0] || res.Value != word {
		got := []string{res.Value}
		if res.Cat != c.base("name")[0] {
			got = []string{}
		}
		j.bad(item, "arguments", dArgs, got, true, "router comparison (the match names the argument that was compared)")
		return
	}
	eff := res.CatLoc
	if eff == "" {
		eff = res.Cat
	}
	if eff != dName.Val[0] {
		j.bad(item, "name", dName, []string{eff}, true, "localized category name")
	}
}

// Judge compares the observation with the reference chain; notes are coverage facts.
func Judge(c *Config, o *Observed) (problems []Problem, notes []string) {
	if o.Panic != "" {
		// no text was chosen at all; the signature is the panicking function and the shape of the chain
		item := c.Action
		if c.Dest != nil {
			item += ":destinations"
		}
		chain := "with-default-language"
		if len(c.Allowed) == 0 {
			chain = "environment-without-default-language"
		}
		return []Problem{{Key: item + ":panic:" + mc.PanicSite(o.Panic) + ":" + chain, What: "the engine panicked: " + o.Panic}}, nil
	}
	if c.Action == "stages" {
		return judgeStages(c, o)
	}
	j := newJudger(c, c.Setting, "")
	defer func() { problems, notes = j.problems, j.notes }()
	langs, labels := j.langs, j.labels
	decide := j.decide
	bad := func(prop string, d Decision, got []string, first bool, what string) {
		j.bad(c.Action, prop, d, got, first, what)
	}
	problem := func(p Problem) { j.problem(p.Key, p.What) }

	switch c.Action {
	case "send_msg":
		if c.Dest != nil {
			judgeDestinations(j, o)
			return
		}
		if len(o.Msgs) != 1 {
			problem(Problem{"send_msg:messages:" + fmt.Sprint(len(o.Msgs)), fmt.Sprintf("want exactly one msg_created, have %d", len(o.Msgs))})
			return
		}
		j.msg("send_msg", o.Msgs[0])

	case "say_msg":
		dT := decide("text", "say_text")
		if strings.TrimSpace(dT.Val[0]) == "" {
			j.notes = append(j.notes, "not-judged:say_msg-without-text")
			return
		}
		if len(o.Msgs) != 1 {
			problem(Problem{"say_msg:messages:" + fmt.Sprint(len(o.Msgs)), fmt.Sprintf("want exactly one ivr_created, have %d", len(o.Msgs))})
			return
		}
		m := o.Msgs[0]
		if m.Text != dT.Val[0] {
			bad("text", dT, []string{m.Text}, true, "spoken text")
			return
		}
		if got := localeLang(m.Locale); got != dT.Lang {
			problem(Problem{
				Key:  "say_msg:locale:want=language-of-text:got=" + map[bool]string{true: "no-locale", false: "another-language"}[got == ""],
				What: fmt.Sprintf("locale %q: the text was taken from language %s", m.Locale, dT.Lang),
			})
		}

	case "play_audio":
		dU := decide("audio_url", "audio_url")
		if len(o.Msgs) != 1 {
			problem(Problem{"play_audio:messages:" + fmt.Sprint(len(o.Msgs)), fmt.Sprintf("want exactly one ivr_created, have %d", len(o.Msgs))})
			return
		}
		m := o.Msgs[0]
		if !equal(m.Attachments, []string{"audio:" + dU.Val[0]}) {
			got := []string{}
			for _, a := range m.Attachments {
				got = append(got, strings.TrimPrefix(a, "audio:"))
			}
			bad("audio_url", dU, got, true, "played audio")
			return
		}
		// a text-less message: the locale names the language of its attachment
		if got := localeLang(m.Locale); got != dU.Lang {
			problem(Problem{
				Key:  "play_audio:locale:want=language-of-attachments:got=" + map[bool]string{true: "no-locale", false: "another-language"}[got == ""],
				What: fmt.Sprintf("locale %q: the audio was taken from language %s", m.Locale, dU.Lang),
			})
		}

	case "send_email":
		dS, dB := decide("subject", "subject"), decide("body", "body")
		if len(o.Emails) != 1 {
			problem(Problem{"send_email:emails:" + fmt.Sprint(len(o.Emails)), fmt.Sprintf("want exactly one email_sent, have %d", len(o.Emails))})
			return
		}
		if o.Emails[0].Subject != dS.Val[0] {
			bad("subject", dS, []string{o.Emails[0].Subject}, true, "email subject")
		}
		if o.Emails[0].Body != dB.Val[0] {
			bad("body", dB, []string{o.Emails[0].Body}, true, "email body")
		}

	case "set_run_result":
		dC := decide("category", "category")
		if !o.HasResult || o.ResCat != c.base("category")[0] {
			problem(Problem{"set_run_result:result:missing", "the action saved no result with the base category"})
			return
		}
		eff := o.ResCatLoc
		if eff == "" {
			eff = o.ResCat
		}
		if eff != dC.Val[0] {
			bad("category", dC, []string{eff}, true, "localized category of the result")
		}

	case "router":
		var res *Res
		if o.HasResult {
			res = &Res{Value: o.ResValue, Cat: o.ResCat, CatLoc: o.ResCatLoc}
		}
		j.router("router", res)

	case "send_broadcast":
		if o.Broadcast == nil {
			problem(Problem{"send_broadcast:event:missing", "no broadcast_created event"})
			return
		}
		if _, ok := o.Broadcast[c.Base]; !ok || o.BcBase != c.Base {
			problem(Problem{"send_broadcast:base-language:missing", fmt.Sprintf("base language %s has no translation in the event (base_language=%s)", c.Base, o.BcBase)})
		}
		var ls []string
		for l := range o.Broadcast {
			ls = append(ls, l)
		}
		sort.Strings(ls)
		for _, l := range ls {
			m := o.Broadcast[l]
			own := false
			for _, p := range []string{"text", "attachments", "quick_replies"} {
				d := resolve([]string{l, c.Base}, []string{"own", "base"}, c.Base, c.base(p), c.Tr[p])
				if d.Lang == l && l != c.Base {
					own = true
				}
				got, first := m.QuickReplies, false
				switch p {
				case "text":
					got, first = []string{m.Text}, true
				case "attachments":
					got = m.Attachments
				}
				ok := equal(got, d.Val)
				if first {
					ok = got[0] == d.Val[0]
				}
				if !ok {
					problem(Problem{
						Key:  fmt.Sprintf("send_broadcast:%s:want=%s:got=%s", p, d.Rung, c.source(p, got, []string{l, c.Base}, []string{"own", "base"}, first)),
						What: fmt.Sprintf("broadcast translation for %s: %s want %q (by %s), got %q", l, p, d.Val, d.Rung, got),
					})
				}
			}
			if l != c.Base {
				if own {
					j.notes = append(j.notes, "broadcast:language-with-own-translation")
				} else {
					j.notes = append(j.notes, "broadcast:language-falls-back-to-base")
				}
			}
		}
	}
	_, _ = langs, labels
	return
}
