package c11

import (
	"strconv"
	"strings"

	"github.com/antlr4-go/antlr/v4"
	gen "github.com/nyaruka/goflow/antlr/gen/excellent3"
)

// The token vocabulary. A token sequence is turned into an expression by plain concatenation (the
// space is a token of its own, so every sequence is enumerated with and without spaces between its
// parts). Adjacent tokens may merge in the lexer (`a`+`B` is the name `aB`, `<`+`=` is `<=`,
// `1`+`.`+`1` is the decimal 1.1): that is wanted, the enumeration is over the strings.
var vocab = []string{
	"a", "B", "f(", "1", "1.50", `"s"`, `"q\"\\"`, "\"é\\n\\\"\"", "true", "FALSE", "NULL",
	"-", "+", "*", "/", "^", "&", "=", "!=", "<", ">",
	"(", ")", "[", "]", ".", ",", "=>", " ",
	// atoms longer than any limit a printer could plausibly apply (used by the "long" pass only)
	longText300, longText12k, longText70k, longName, longNumber,
}

// Long atoms. A text literal of n characters is made of position counters (so that cutting it anywhere
// gives a different value) and closes with a two-byte letter; 300 exceeds every limit up to 256, 12 000
// exceeds goflow's own limits (640 field characters, 10 000 template characters / result bytes), 70 000
// exceeds a 16-bit length. The long name is bound at the top of every evaluation context; the long
// number has 40 integer and 40 fractional digits.
var (
	longText300 = longLiteral(300)
	longText12k = longLiteral(12000)
	longText70k = longLiteral(70000)
	longName    = "n" + strings.Repeat("ame_", 75)
	longNumber  = strings.Repeat("1234567890", 4) + "." + strings.Repeat("0123456789", 4)
	longTokens  = []string{longText300, longText12k, longText70k, longName, longNumber}
)

func longLiteral(n int) string {
	var sb strings.Builder
	for i := 0; sb.Len() < n-1; i++ {
		sb.WriteString(strconv.Itoa(i))
		sb.WriteByte(',')
	}
	return `"` + sb.String()[:n-1] + "é" + `"`
}

// symName is the name of a vocabulary symbol in evidence and replays (the long atoms are not spelled out).
func symName(t string) string {
	switch t {
	case longText300:
		return "<text literal of 300 characters>"
	case longText12k:
		return "<text literal of 12000 characters>"
	case longText70k:
		return "<text literal of 70000 characters>"
	case longName:
		return "<name of 301 characters>"
	case longNumber:
		return "<number of 40+40 digits>"
	}
	return t
}

var (
	tokEQ, tokGT, tokSpace int
	nVocab                 = len(vocab)
)

func init() {
	for i, t := range vocab {
		switch t {
		case "=":
			tokEQ = i
		case ">":
			tokGT = i
		case " ":
			tokSpace = i
		}
	}
}

func join(toks []int) string {
	var sb strings.Builder
	for _, t := range toks {
		sb.WriteString(vocab[t])
	}
	return sb.String()
}

func tokStrings(toks []int) []string {
	out := make([]string, len(toks))
	for i, t := range toks {
		out[i] = symName(vocab[t])
	}
	return out
}

// status of a string under the real (generated) parser
const (
	stOK      = iota // parses without error
	stViable         // the first syntax error is at EOF: a proper prefix of something
	stTailBad        // the first syntax error is at one of the last two tokens: only a continuation that re-tokenizes them can help
	stDead           // the first syntax error is at a token that no extension can change
)

type bail struct{}

type firstErr struct {
	*antlr.DefaultErrorListener
	tokType, start, stop int
}

func (l *firstErr) SyntaxError(rec antlr.Recognizer, sym any, line, col int, msg string, e antlr.RecognitionException) {
	l.tokType, l.start, l.stop = -2, -1, -1
	if t, ok := sym.(antlr.Token); ok && t != nil {
		l.tokType, l.start, l.stop = t.GetTokenType(), t.GetStart(), t.GetStop()
	}
	panic(bail{})
}

// classify runs goflow's generated lexer and parser on s (exactly as excellent.Parse sets them up)
// and stops at the first syntax error. For stTailBad it returns the tail of s that a continuation
// may still re-tokenize: the text from the start of the second-to-last token (the lexer looks at most
// one token ahead: `1.` is INTEGER DOT but `1.1` is one DECIMAL).
func classify(s string) (st int, tail string) {
	l := &firstErr{}
	lexer := gen.NewExcellent3Lexer(antlr.NewInputStream(s))
	stream := antlr.NewCommonTokenStream(lexer, 0)
	p := gen.NewExcellent3Parser(stream)
	p.RemoveErrorListeners()
	p.AddErrorListener(l)
	ok := func() (ok bool) {
		defer func() {
			if r := recover(); r != nil {
				if _, is := r.(bail); !is {
					panic(r)
				}
				ok = false
			}
		}()
		p.Parse()
		return true
	}()
	if ok {
		return stOK, ""
	}
	if l.tokType == antlr.TokenEOF {
		return stViable, ""
	}
	stream.Fill()
	all := stream.GetAllTokens() // whitespace is skipped by the lexer; the last one is EOF
	n := len(all) - 1
	// index of the offending token among the real tokens
	oi := -1
	for i := 0; i < n; i++ {
		if all[i].GetStart() == l.start {
			oi = i
			break
		}
	}
	if oi < 0 || oi < n-2 {
		return stDead, "" // neither the last nor the second-to-last token: no continuation changes it
	}
	from := 0
	if n >= 2 {
		from = all[n-2].GetStart()
	}
	rs := []rune(s)
	return stTailBad, string(rs[from:])
}

func lexTexts(s string) []string {
	lexer := gen.NewExcellent3Lexer(antlr.NewInputStream(s))
	lexer.RemoveErrorListeners()
	var out []string
	for t := lexer.NextToken(); t.GetTokenType() != antlr.TokenEOF; t = lexer.NextToken() {
		out = append(out, t.GetText())
	}
	return out
}

// mergeRow answers, for a tail of one or two tokens, which vocabulary tokens change the existing
// tokens when appended (the tokens of tail are not a prefix of the tokens of tail+y). Only those
// continuations can repair an error at one of the last two tokens. Answers are computed on demand
// (a pass asks only about its own symbols) and kept.
type mergeRow struct {
	tail string
	base []string
	v    []int8 // 0 = not asked yet, 1 = merges, 2 = does not
}

var mergeCache = map[string]*mergeRow{}

func merging(tail string) *mergeRow {
	if m, ok := mergeCache[tail]; ok {
		return m
	}
	m := &mergeRow{tail: tail, base: lexTexts(tail), v: make([]int8, nVocab)}
	mergeCache[tail] = m
	return m
}

func (m *mergeRow) at(y int) bool {
	if m.v[y] == 0 {
		ext := lexTexts(m.tail + vocab[y])
		same := len(ext) >= len(m.base)
		for i := 0; same && i < len(m.base); i++ {
			same = ext[i] == m.base[i]
		}
		m.v[y] = 2
		if !same {
			m.v[y] = 1
		}
	}
	return m.v[y] == 1
}

// walker enumerates every vocabulary sequence of length <= maxLen whose concatenation is not cut off
// by the prefix test. visit is called for every sequence that parses.
type walker struct {
	maxLen     int
	shardDepth int
	mine       func(idx int) bool
	order      []int
	visit      func(toks []int, s string)
	stop       func() bool
	stopped    bool

	classified, parseable, viable, tailbad, dead int64
	perLen                                       [16]int64
}

func (w *walker) run() {
	toks := make([]int, 0, w.maxLen)
	w.rec(toks, 0, 0, stViable, "", w.shardDepth == 0)
}

// offset of the index space of depth d (so that node keys are unique across depths)
func depthOffset(d int) int {
	off, p := 0, 1
	for k := 0; k < d; k++ {
		off += p
		p *= nVocab
	}
	return off
}

// rec explores the children of the node toks (already classified as st). Above shardDepth every
// shard walks the (tiny) top of the tree and a node is owned (counted, visited) by the shard its
// key maps to; a node at shardDepth is classified only by its owner, who then owns its whole
// subtree (inOwned).
func (w *walker) rec(toks []int, idx int, depth int, st int, tail string, inOwned bool) {
	if depth >= w.maxLen || w.stopped {
		return
	}
	var allowed *mergeRow
	if st == stTailBad {
		allowed = merging(tail)
	}
	for _, y := range w.order {
		if depth > 0 && y == tokGT && toks[depth-1] == tokEQ {
			continue // `=`+`>` is the same string as the token `=>` (enumerated one level up)
		}
		if allowed != nil && !allowed.at(y) {
			continue
		}
		cidx := idx*nVocab + y
		cdepth := depth + 1
		owned, childOwned := inOwned, inOwned
		if !inOwned {
			owned = w.mine(cidx + depthOffset(cdepth))
			if cdepth == w.shardDepth {
				if !owned {
					continue
				}
				childOwned = true
				if w.stop != nil && w.stop() {
					w.stopped = true
					return
				}
			}
		}
		ctoks := append(toks, y)
		s := join(ctoks)
		cst, clast := classify(s)
		if w.classified&4095 == 4095 && w.stop != nil && w.stop() {
			w.stopped = true
			return
		}
		if owned {
			w.classified++
			switch cst {
			case stOK:
				w.parseable++
				w.perLen[cdepth]++
				w.visit(ctoks, s)
			case stViable:
				w.viable++
			case stTailBad:
				w.tailbad++
			case stDead:
				w.dead++
			}
		}
		if cst != stDead {
			w.rec(ctoks, cidx, cdepth, cst, clast, childOwned)
		}
	}
}
