package c11

import (
	"strings"

	"github.com/nyaruka/goflow/excellent"
)

// Renames whose new name is the old name plus a lookup: a -> a.m (what Migrate13_3 does with
// webhook -> webhook.json). The reference model: every reference to the context's a (not to a
// parameter of an enclosing anonymous function) becomes the lookup of m on a - whatever follows it,
// in particular a lookup of a genuine member that is also called m.

func extTo(m string) string { return "a." + m }

// renameFreeExt rewrites the tree x the way the reference model says and returns its (possibly new) root.
func renameFreeExt(x excellent.Expression, m string) excellent.Expression {
	var rec func(x excellent.Expression, bound []string) excellent.Expression
	rec = func(x excellent.Expression, bound []string) excellent.Expression {
		switch t := x.(type) {
		case *excellent.ContextReference:
			if strings.EqualFold(t.Name, "a") {
				for _, b := range bound {
					if strings.EqualFold(b, "a") {
						return x
					}
				}
				return &excellent.DotLookup{Container: t, Lookup: m}
			}
			return x
		case *excellent.AnonFunction:
			bound = append(append([]string{}, bound...), t.Args...)
		}
		for _, s := range slots(x) {
			s.set(rec(s.get(), bound))
		}
		return x
	}
	return rec(x, nil)
}

type extRef struct {
	desc    string
	lookups int // number of consecutive dot lookups of m directly on the reference
}

// extRefsOf lists the references of a tree in evaluation order, each with the number of lookups of
// m that directly follow it (a.m.m.x: 2).
func extRefsOf(x excellent.Expression, m string) []extRef {
	var out []extRef
	var walk func(x excellent.Expression, bound []string, above int)
	walk = func(x excellent.Expression, bound []string, above int) {
		switch t := x.(type) {
		case *excellent.ContextReference:
			d := "other"
			if strings.EqualFold(t.Name, "a") {
				d = "a"
			}
			for _, b := range bound {
				if strings.EqualFold(b, t.Name) {
					d = "bound-parameter-" + d
					break
				}
			}
			out = append(out, extRef{d + ":" + strings.ToLower(t.Name), above})
			return
		case *excellent.DotLookup:
			if strings.EqualFold(t.Lookup, m) {
				walk(t.Container, bound, above+1)
				return
			}
		case *excellent.AnonFunction:
			bound = append(append([]string{}, bound...), t.Args...)
		}
		for _, s := range slots(x) {
			walk(s.get(), bound, 0)
		}
	}
	walk(x, nil, 0)
	return out
}

// diffExtRefs names the first difference between the references of the expected and the actual
// tree of a rename a -> a.m ("" = the same references, each followed by the same number of m's).
func diffExtRefs(exp, act excellent.Expression, m string) string {
	re, ra := extRefsOf(exp, m), extRefsOf(act, m)
	if len(re) != len(ra) {
		return "number-of-references-differs"
	}
	class := func(d string) string { return d[:strings.Index(d, ":")] }
	for i := range re {
		if re[i].desc != ra[i].desc {
			return "ref:" + class(re[i].desc) + "->" + class(ra[i].desc)
		}
		if re[i].lookups != ra[i].lookups {
			d := "ref:" + class(re[i].desc)
			switch {
			case class(re[i].desc) != "a":
				d += ":lookups-differ"
			case ra[i].lookups == re[i].lookups-1:
				d += ":lookup-not-added"
			case ra[i].lookups == re[i].lookups+1:
				d += ":lookup-added-twice"
			default:
				d += ":lookups-differ"
			}
			// the shape of the reference before the rename: plain, or already followed by a member of that name
			if class(re[i].desc) == "a" {
				if re[i].lookups >= 2 {
					d += ":reference-followed-by-a-member-of-that-name"
				} else {
					d += ":plain-reference"
				}
			}
			return d
		}
	}
	return ""
}
