package c11

import (
	"sort"
	"strconv"
	"strings"

	"github.com/nyaruka/goflow/excellent"
)

// Helpers over goflow's syntax tree used only to name violations (signature keys): a parallel walk
// that classifies the first differences between two trees, and the reduction of a tree to the
// smallest subtree that still shows a failure.

type slot struct {
	name string
	get  func() excellent.Expression
	set  func(excellent.Expression)
}

func sl(name string, p *excellent.Expression) slot {
	return slot{name, func() excellent.Expression { return *p }, func(e excellent.Expression) { *p = e }}
}

// slots returns the child positions of a node (in evaluation order).
func slots(x excellent.Expression) []slot {
	switch t := x.(type) {
	case *excellent.DotLookup:
		return []slot{sl("container", &t.Container)}
	case *excellent.ArrayLookup:
		return []slot{sl("container", &t.Container), sl("key", &t.Lookup)}
	case *excellent.FunctionCall:
		out := []slot{sl("func", &t.Func)}
		for i := range t.Params {
			out = append(out, sl("arg", &t.Params[i]))
		}
		return out
	case *excellent.AnonFunction:
		return []slot{sl("body", &t.Body)}
	case *excellent.Concatenation:
		return []slot{sl("0", &t.Exp1), sl("1", &t.Exp2)}
	case *excellent.Addition:
		return []slot{sl("0", &t.Exp1), sl("1", &t.Exp2)}
	case *excellent.Subtraction:
		return []slot{sl("0", &t.Exp1), sl("1", &t.Exp2)}
	case *excellent.Multiplication:
		return []slot{sl("0", &t.Exp1), sl("1", &t.Exp2)}
	case *excellent.Division:
		return []slot{sl("0", &t.Exp1), sl("1", &t.Exp2)}
	case *excellent.Exponent:
		return []slot{sl("0", &t.Expression), sl("1", &t.Exponent)}
	case *excellent.Negation:
		return []slot{sl("0", &t.Exp)}
	case *excellent.Equality:
		return []slot{sl("0", &t.Exp1), sl("1", &t.Exp2)}
	case *excellent.InEquality:
		return []slot{sl("0", &t.Exp1), sl("1", &t.Exp2)}
	case *excellent.LessThan:
		return []slot{sl("0", &t.Exp1), sl("1", &t.Exp2)}
	case *excellent.LessThanOrEqual:
		return []slot{sl("0", &t.Exp1), sl("1", &t.Exp2)}
	case *excellent.GreaterThan:
		return []slot{sl("0", &t.Exp1), sl("1", &t.Exp2)}
	case *excellent.GreaterThanOrEqual:
		return []slot{sl("0", &t.Exp1), sl("1", &t.Exp2)}
	case *excellent.Parentheses:
		return []slot{sl("0", &t.Exp)}
	}
	return nil
}

func isDigits(s string) bool {
	for _, r := range s {
		if r < '0' || r > '9' {
			return false
		}
	}
	return s != ""
}

// label is the abstract class of a node: its type plus the attributes that select a printing or
// parsing path (integer vs name lookup, case of a name, escapes in and length of a text, scale of a number).
func label(x excellent.Expression) string {
	switch t := x.(type) {
	case *excellent.ContextReference:
		l := "ref"
		if strings.EqualFold(t.Name, "a") {
			l = "ref:a"
		}
		if strings.ToLower(t.Name) != t.Name {
			l += ":upper"
		}
		return l
	case *excellent.DotLookup:
		if isDigits(t.Lookup) {
			return "dot:int"
		}
		return "dot:name"
	case *excellent.ArrayLookup:
		return "index"
	case *excellent.FunctionCall:
		return "call/" + strconv.Itoa(len(t.Params))
	case *excellent.AnonFunction:
		for _, a := range t.Args {
			if strings.EqualFold(a, "a") {
				return "fn:binds-a"
			}
		}
		return "fn"
	case *excellent.Concatenation:
		return "&"
	case *excellent.Addition:
		return "+"
	case *excellent.Subtraction:
		return "-"
	case *excellent.Multiplication:
		return "*"
	case *excellent.Division:
		return "/"
	case *excellent.Exponent:
		return "^"
	case *excellent.Negation:
		return "neg"
	case *excellent.Equality:
		return "="
	case *excellent.InEquality:
		return "!="
	case *excellent.LessThan:
		return "<"
	case *excellent.LessThanOrEqual:
		return "<="
	case *excellent.GreaterThan:
		return ">"
	case *excellent.GreaterThanOrEqual:
		return ">="
	case *excellent.Parentheses:
		return "paren"
	case *excellent.TextLiteral:
		s := t.Value.Native()
		l := "text"
		if strconv.Quote(s) != `"`+s+`"` {
			l += ":escaped"
		}
		for _, r := range s {
			if r > 127 {
				l += ":nonascii"
				break
			}
		}
		if len(s) > 64 {
			l += ":long"
		}
		return l
	case *excellent.NumberLiteral:
		d := t.Value.Native()
		switch {
		case d.Exponent() >= 0:
			return "num:int"
		case d.String() != d.StringFixed(-d.Exponent()):
			return "num:trailing-zeros"
		}
		return "num:decimal"
	case *excellent.BooleanLiteral:
		return "bool"
	case *excellent.NullLiteral:
		return "null"
	}
	return "?"
}

func typeName(x excellent.Expression) string {
	l := label(x)
	if i := strings.IndexAny(l, ":/"); i >= 0 {
		return l[:i]
	}
	return l
}

// diffTrees classifies the differences between an expected and an actual tree. Differences that
// cannot be observed (case of a reference or parameter name) are not differences.
func diffTrees(exp, act excellent.Expression) []string {
	set := map[string]bool{}
	var walk func(e, a excellent.Expression, where string, bound []string)
	isBound := func(name string, bound []string) bool {
		for _, b := range bound {
			if strings.EqualFold(b, name) {
				return true
			}
		}
		return false
	}
	refDesc := func(name string, bound []string) string {
		d := "other"
		switch strings.ToLower(name) {
		case "a":
			d = "a"
		case "z":
			d = "z"
		}
		if isBound(name, bound) {
			d = "bound-parameter-" + d
		}
		return d
	}
	walk = func(e, a excellent.Expression, where string, bound []string) {
		if len(set) >= 4 {
			return
		}
		if typeName(e) != typeName(a) {
			set[where+":"+typeName(e)+"->"+typeName(a)] = true
			return
		}
		switch et := e.(type) {
		case *excellent.ContextReference:
			at := a.(*excellent.ContextReference)
			if !strings.EqualFold(et.Name, at.Name) {
				d := "ref:" + refDesc(et.Name, bound) + "->" + refDesc(at.Name, bound)
				if !strings.Contains(d, "bound-parameter") {
					d = where + ":" + d // which position of which operation holds the reference
				}
				set[d] = true
			}
		case *excellent.DotLookup:
			if et.Lookup != a.(*excellent.DotLookup).Lookup {
				set[where+":dot:key-differs"] = true
			}
		case *excellent.TextLiteral:
			if et.Value.Native() != a.(*excellent.TextLiteral).Value.Native() {
				set[label(e)+":value-differs"] = true
			}
		case *excellent.NumberLiteral:
			d1, d2 := et.Value.Native(), a.(*excellent.NumberLiteral).Value.Native()
			if !d1.Equal(d2) {
				set["num:value-differs"] = true
			} else if d1.Exponent() != d2.Exponent() {
				set["num:scale-differs"] = true
			}
		case *excellent.BooleanLiteral:
			if et.Value.Native() != a.(*excellent.BooleanLiteral).Value.Native() {
				set["bool:value-differs"] = true
			}
		case *excellent.AnonFunction:
			at := a.(*excellent.AnonFunction)
			if !strings.EqualFold(strings.Join(et.Args, ","), strings.Join(at.Args, ",")) {
				set["fn:parameters-differ"] = true
			}
			bound = append(append([]string{}, bound...), et.Args...)
		}
		se, sa := slots(e), slots(a)
		if len(se) != len(sa) {
			set[label(e)+":arity-differs"] = true
			return
		}
		for i := range se {
			walk(se[i].get(), sa[i].get(), typeName(e)+"."+se[i].name, bound)
		}
	}
	walk(exp, act, "top", nil)
	var out []string
	for k := range set {
		out = append(out, k)
	}
	sort.Strings(out)
	return out
}

// minimalFailing descends to the smallest subtree for which fails still holds.
func minimalFailing(x excellent.Expression, fails func(excellent.Expression) bool) excellent.Expression {
	for {
		next := excellent.Expression(nil)
		for _, s := range slots(x) {
			if k := s.get(); fails(k) {
				next = k
				break
			}
		}
		if next == nil {
			return x
		}
		x = next
	}
}

// abstract prints the tree with every child that can be replaced by a plain reference `b` (an atom,
// valid in every position) without losing the failure shown as `*`. The tree is modified.
func abstract(root excellent.Expression, fails func(excellent.Expression) bool) string {
	var walk func(x excellent.Expression, depth int) string
	walk = func(x excellent.Expression, depth int) string {
		ss := slots(x)
		if len(ss) == 0 {
			return label(x)
		}
		parts := []string{label(x)}
		for _, s := range ss {
			old := s.get()
			if r, ok := old.(*excellent.ContextReference); ok && r.Name == "b" {
				parts = append(parts, "*")
				continue
			}
			s.set(&excellent.ContextReference{Name: "b"})
			if fails(root) {
				parts = append(parts, "*")
				continue
			}
			s.set(old)
			if depth >= 3 {
				parts = append(parts, "…")
			} else {
				parts = append(parts, walk(old, depth+1))
			}
		}
		return "(" + strings.Join(parts, " ") + ")"
	}
	return walk(root, 0)
}
