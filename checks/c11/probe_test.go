package c11

import (
	"fmt"
	"testing"
	"time"
)

func TestProbe(t *testing.T) {
	for _, L := range []int{3, 4, 5} {
		order := make([]int, nVocab)
		for i := range order {
			order[i] = i
		}
		w := &walker{maxLen: L, shardDepth: 0, mine: func(int) bool { return true }, order: order, visit: func(toks []int, s string) {}}
		t0 := time.Now()
		w.run()
		d := time.Since(t0)
		fmt.Printf("L=%d classified=%d ok=%d viable=%d tailbad=%d dead=%d perLen=%v time=%v per=%v\n", L, w.classified, w.parseable, w.viable, w.tailbad, w.dead, w.perLen[:L+1], d, d/time.Duration(w.classified))
	}
	for _, s := range []string{"a(", "a +", "a + )", "a.0.1", "a.0 .1", "a.true", "a.truea", "a 1.", "(a)=", "(a)=>"} {
		st, last := classify(s)
		fmt.Printf("%q -> %d %q\n", s, st, last)
	}
}
