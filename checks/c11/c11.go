// Package c11: (not built yet)
package c11
