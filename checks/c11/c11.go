// Package c11: printing and re-parsing an Excellent expression preserves its meaning; identity and
// reference-renaming rewrites of templates preserve / change exactly what they should.
//
// Exploration: every sequence of vocabulary tokens up to a length bound is concatenated and given to
// goflow's real parser; a prefix is abandoned only when the parser's first syntax error lies at a
// token that no continuation can change (see enum.go), so exactly the parseable expressions of the
// bound (and their prefixes) are visited. The oracle (oracle.go) runs on each parseable expression.
package c11

import (
	"encoding/json"
	"fmt"
	"math/rand"
	"sort"
	"strings"
	"time"

	"verif/mc"
)

// A pass enumerates all sequences of length <= maxLen over a sub-vocabulary. Sequences that an
// earlier pass of the same tier already contains are walked through but not evaluated again.
type pass struct {
	name     string
	tokens   []string
	maxLen   int
	evalLen  int // Evaluator.Template on original vs rewritten templates for lengths <= evalLen
	bruteLen int // the prefix pruning is cross-checked against the unpruned enumeration up to this length
}

// full is the vocabulary without FALSE and NULL (true stands for the keyword literals there); the
// keywords pass combines all three with the symbols a keyword can stand next to.
var full = without(without(vocab, "FALSE", "NULL"), longTokens...)

// the long pass: every long atom with the symbols that can stand next to an atom. The 70 000
// character literal takes a quarter of a second per expression and is left to the thorough tier.
var longQuick = []string{"a", `"s"`, longText300, longText12k, longName, longNumber, "f(", "(", ")", "[", "]", ".", ",", "&", "=", " "}
var longThorough = append(append([]string{}, longQuick...), longText70k)
var keywords = []string{"a", "true", "FALSE", "NULL", "1", `"s"`, "f(", "(", ")", "[", "]", ".", ",", "&", "=", "-", " "}
var core = []string{"a", "1", "-", "^", "*", "+", "<", "=", "&", "(", ")"}

func without(all []string, drop ...string) []string {
	var out []string
	for _, t := range all {
		keep := true
		for _, d := range drop {
			if t == d {
				keep = false
			}
		}
		if keep {
			out = append(out, t)
		}
	}
	return out
}

func passes(tier string) []pass {
	if tier == "quick" {
		return []pass{
			{"full", full, 6, 5, 4},
			{"keywords", keywords, 6, 5, 0},
			{"operators", core, 8, 0, 0},
			{"long", longQuick, 4, 3, 3},
		}
	}
	return []pass{
		{"full", full, 7, 6, 5},
		{"keywords", keywords, 7, 6, 0},
		{"operators", core, 10, 0, 0},
		{"long", longThorough, 5, 4, 3},
	}
}

func indexes(tokens []string) []int {
	var out []int
	for _, t := range tokens {
		found := false
		for i, v := range vocab {
			if v == t {
				out = append(out, i)
				found = true
			}
		}
		if !found {
			panic("not in vocabulary: " + t)
		}
	}
	return out
}

type replay struct {
	Tokens     []string `json:"tokens,omitempty"`
	Expression string   `json:"expression,omitempty"`
	Key        string   `json:"key,omitempty"`
	// the migration family (migrate.go)
	Family   string `json:"family,omitempty"`
	Template string `json:"template,omitempty"`
	Frame    string `json:"frame,omitempty"`
	First    string `json:"first_lookup,omitempty"`
}

type runner struct {
	c        *mc.Ctx
	symHits  []int64
	nodeHits [nNodeTypes]int64
	earlier  []pass
	evalLen  int
	inVocab  [][]bool // per earlier pass
}

func (r *runner) coveredEarlier(toks []int) bool {
	for pi, p := range r.earlier {
		if len(toks) > p.maxLen {
			continue
		}
		all := true
		for _, t := range toks {
			if !r.inVocab[pi][t] {
				all = false
				break
			}
		}
		if all {
			return true
		}
	}
	return false
}

func (r *runner) visit(toks []int, s string) {
	c := r.c
	if r.coveredEarlier(toks) {
		return
	}
	stages := stageExpr | stageStruct
	if len(toks) <= r.evalLen {
		stages |= stageEval
	}
	t0 := time.Now()
	vs, info := checkExpr(s, stages)
	if d := time.Since(t0); d > 2*time.Second {
		c.Inc("expressions_slower_than_2s")
		c.Note(fmt.Sprintf("slow expression (%v): %s", d.Round(time.Second), clip(s)))
	}
	c.Inc("distinct_nontrivial")
	if stages&stageEval != 0 {
		c.Inc("expressions_with_templates_evaluated")
	}
	for _, t := range toks {
		r.symHits[t]++
	}
	for n := 0; n < nNodeTypes; n++ {
		if info.nodes&(1<<n) != 0 {
			r.nodeHits[n]++
		}
	}
	if info.printed != s {
		c.Inc("printed_form_differs_from_input")
	}
	if info.noEval {
		c.Inc("not_evaluated_exponent_with_long_number")
		if info.noEvalDif {
			c.Inc("not_evaluated_and_printed_tree_differs")
		}
	}
	if info.errDiffer {
		c.Inc("both_fail_with_different_messages")
	}
	if info.scannedT1 {
		c.Inc("templates_scanned_as_one_expression")
	} else {
		c.Inc("templates_not_scanned_as_expression(C12)")
	}
	if info.hasRefA {
		c.Inc("expressions_with_reference_to_rename")
	}
	if info.isPath && stages&stageEval != 0 {
		c.Inc("identifier_templates")
	}
	c.Outcome(strings.Join(info.classes[:], ","))
	c.Add("renames_to_lookup_compared", int64(info.extRenames))
	c.Add("renames_to_lookup_of_a_reference_followed_by_that_member", int64(info.extFollowed))
	if info.longAtom {
		c.Inc("expressions_with_a_long_atom")
	}
	if c.WantSample() && len(toks) >= 5 && info.printed != s && info.hasRefA && len(s) < 200 {
		c.Sample(map[string]any{"tokens": tokStrings(toks), "expression": s, "printed": info.printed, "value_classes": info.classes})
	}
	for _, v := range vs {
		c.Violation(v.key, v.what, replay{Tokens: tokStrings(toks), Expression: s, Key: v.key})
	}
}

// ---- cross-check of the prefix pruning ----------------------------------------------------------

// bruteCheck enumerates every sequence up to length L over the pass vocabulary WITHOUT pruning and
// verifies that each one that parses would have been reached by the pruned walk.
func (r *runner) bruteCheck(order []int, L int) {
	c := r.c
	var rec func(toks []int, s string, depth int, st int, last string, reach bool, idx int)
	rec = func(toks []int, s string, depth int, st int, last string, reach bool, idx int) {
		if depth >= L {
			return
		}
		for _, y := range order {
			if depth > 0 && y == tokGT && toks[depth-1] == tokEQ {
				continue
			}
			cidx := idx*nVocab + y
			if depth == 1 && !c.Mine(cidx) {
				continue
			}
			creach := reach && st != stDead && !(st == stTailBad && !merging(last).at(y))
			ctoks := append(toks, y)
			cs := s + vocab[y]
			cst, clast := classify(cs)
			if depth >= 1 {
				c.Inc("unpruned_sequences_cross_checked")
			}
			if cst == stOK && depth >= 1 {
				c.Inc("unpruned_parseable")
				if !creach {
					c.Violation("harness:pruning-loses-parseable-sequence", fmt.Sprintf("%q parses but the prefix test would have abandoned one of its prefixes", cs), replay{Tokens: tokStrings(ctoks), Expression: cs, Key: "harness:pruning"})
				}
			}
			rec(ctoks, cs, depth+1, cst, clast, creach, cidx)
		}
	}
	rec(make([]int, 0, L), "", 0, stViable, "", true, 0)
}

func run(c *mc.Ctx) {
	started := time.Now()
	defer func() {
		c.Max("slowest_shard_s", int64(time.Since(started).Seconds()))
		c.Add("shard_s_sum", int64(time.Since(started).Seconds()))
	}()
	ps := passes(c.Tier)
	r := &runner{c: c, symHits: make([]int64, nVocab)}
	c.Add("evaluations", 0)
	for pi, p := range ps {
		order := indexes(p.tokens)
		if c.Seed != 0 {
			rand.New(rand.NewSource(c.Seed)).Shuffle(len(order), func(i, j int) { order[i], order[j] = order[j], order[i] })
		}
		r.earlier = ps[:pi]
		r.inVocab = nil
		for _, ep := range r.earlier {
			in := make([]bool, nVocab)
			for _, i := range indexes(ep.tokens) {
				in[i] = true
			}
			r.inVocab = append(r.inVocab, in)
		}
		r.evalLen = p.evalLen
		shardDepth := 3
		if p.maxLen >= 7 {
			shardDepth = 4
		}
		w := &walker{maxLen: p.maxLen, shardDepth: shardDepth, mine: c.Mine, order: order, visit: r.visit, stop: c.Expired}
		w.run()
		c.Add("evaluations", w.classified)
		c.Add("sequences_parsed:"+p.name, w.classified)
		c.Add("parseable:"+p.name, w.parseable)
		c.Add("prefix_viable:"+p.name, w.viable)
		c.Add("abandoned_error_at_last_token:"+p.name, w.tailbad)
		c.Add("abandoned_error_before_last_token:"+p.name, w.dead)
		for l := 1; l <= p.maxLen; l++ {
			c.Add(fmt.Sprintf("parseable:%s:len%d", p.name, l), w.perLen[l])
		}
		c.Max("max_tokens:"+p.name, int64(p.maxLen))
		if w.stopped {
			c.Cap(fmt.Sprintf("time budget reached in pass %q (all token sequences of length <= %d over %d symbols): subtrees are visited in a fixed order; the enumeration stopped part-way", p.name, p.maxLen, len(p.tokens)))
			break
		}
		if p.bruteLen > 0 {
			r.bruteCheck(order, p.bruteLen)
		}
	}
	if !c.Expired() {
		runMigration(c)
	}
	for i, n := range r.symHits {
		if n > 0 {
			c.Add("symbol:"+symName(vocab[i]), n)
			c.Fact("symbol:" + symName(vocab[i]))
		}
	}
	for i, n := range r.nodeHits {
		if n > 0 {
			c.Add("node:"+nodeNames[i], n)
			c.Fact("node:" + nodeNames[i])
		}
	}
}

func replayFn(c *mc.Ctx, raw json.RawMessage) (string, bool) {
	var rp replay
	if err := json.Unmarshal(raw, &rp); err != nil {
		return "bad replay: " + err.Error(), false
	}
	var sb strings.Builder
	if rp.Family == "migration" {
		vs, rewritten, class := checkMigration(rp.Template, rp.Frame, rp.First)
		fmt.Fprintf(&sb, "13.2 flow with the template %q\nMigrate13_3 makes it: %q (original evaluates: %s)\n", rp.Template, rewritten, class)
		for _, v := range vs {
			fmt.Fprintf(&sb, "PROBLEM %s: %s\n", v.key, v.what)
		}
		return sb.String(), len(vs) > 0
	}
	if rp.Key == "harness:pruning" {
		st, _ := classify(rp.Expression)
		return fmt.Sprintf("expression %q: parser status %d (0 = parses)", rp.Expression, st), st == stOK
	}
	st, _ := classify(rp.Expression)
	fmt.Fprintf(&sb, "expression: %q (tokens %q)\n", rp.Expression, rp.Tokens)
	if st != stOK {
		fmt.Fprintf(&sb, "does not parse: the property says nothing about it\n")
		return sb.String(), false
	}
	vs, info := checkExpr(rp.Expression, stageAll)
	fmt.Fprintf(&sb, "prints as: %q\nvalue classes per context: %v\n", info.printed, info.classes)
	for _, v := range vs {
		fmt.Fprintf(&sb, "PROBLEM %s: %s\n", v.key, v.what)
	}
	return sb.String(), len(vs) > 0
}

func guards(r *mc.Result, tier string) []string {
	var f []string
	for _, t := range vocab {
		if t == longText70k && tier == "quick" {
			continue
		}
		if r.Facts["symbol:"+symName(t)] == 0 {
			f = append(f, "no parseable expression used the symbol "+symName(t))
		}
	}
	for _, n := range nodeNames {
		if r.Facts["node:"+n] == 0 {
			f = append(f, "no syntax tree contained a "+n)
		}
	}
	need := map[string]int64{
		"distinct_nontrivial":                                      100000,
		"printed_form_differs_from_input":                          1000,
		"expressions_with_reference_to_rename":                     1000,
		"templates_scanned_as_one_expression":                      100000,
		"expressions_with_templates_evaluated":                     5000,
		"identifier_templates":                                     10,
		"unpruned_parseable":                                       1000,
		"expressions_with_a_long_atom":                             500,
		"renames_to_lookup_compared":                               2000,
		"renames_to_lookup_of_a_reference_followed_by_that_member": 500,
		"migration:templates":                                      1554,
		"migration:templates_rewritten_and_with_a_value":           1000,
	}
	var names []string
	for k := range need {
		names = append(names, k)
	}
	sort.Strings(names)
	for _, k := range names {
		if r.Counters[k] < need[k] {
			f = append(f, fmt.Sprintf("counter %s = %d, expected at least %d", k, r.Counters[k], need[k]))
		}
	}
	for _, l := range migLookups {
		if r.Facts["migration:first-lookup="+l.kind] == 0 {
			f = append(f, "no migrated template had a reference followed by "+l.kind)
		}
	}
	for _, fr := range migFrames {
		if r.Facts["migration:frame="+fr.name] == 0 {
			f = append(f, "no migrated template had the frame "+fr.name)
		}
	}
	// values, errors and functions must all have been produced
	var classes string
	for k := range r.Outcomes {
		classes += k + ";"
	}
	for _, cl := range []string{"error", "text", "number", "boolean", "nil", "function", "object", "array"} {
		if !strings.Contains(classes, cl) {
			f = append(f, "no expression evaluated to "+cl)
		}
	}
	return f
}

func init() {
	mc.Register(&mc.Check{
		ID:    "C11",
		Level: "exploration",
		Rule: "every sequence of vocabulary tokens up to 6 (quick) / 7 (thorough) tokens is concatenated and parsed by goflow's parser; the vocabulary has 27 symbols: names a/B, call f(, numbers 1 and 1.50, three string literals incl. escapes and non-ASCII, true, every operator (- + * / ^ & = != < >, with <= and >= formed by adjacent tokens), ( ) [ ] . , => and the space as a token of its own. A prefix is abandoned only if the first syntax error is at a token no continuation can re-tokenize (cross-checked against the unpruned enumeration up to 4/5 tokens). Two further passes take a 17-symbol vocabulary with all keyword literals true/FALSE/NULL to the same length and an 11-symbol operator/parenthesis vocabulary to 8/10 tokens. A fourth pass (long) takes atoms longer than any limit a printer could plausibly apply - text literals of 300 and 12 000 characters (thorough: also 70 000) made of position counters, a name of 301 characters (bound in every context) and a number of 40+40 digits - with a, \"s\", f( ( ) [ ] . , & = and the space to 4/5 tokens. " +
			"evaluations = token sequences given to the parser; distinct_nontrivial = distinct sequences that parse (each is a different string; `=`+`>` is skipped as it equals the token `=>`; a sequence belonging to an earlier pass is not counted again), each run through: print, re-parse, print again, evaluation of both trees in 3 environments x 4 contexts binding a,b,f (object, array, number, text; function f), refactor.Template with a forced identity rewrite and with ContextRefRename(a->z) on `x @(e) y` compared by references, structure and evaluation under the renamed context; for the shorter lengths also Evaluator.Template on original vs rewritten `x @(e) y`, `@(e)@(e)` and `hi @e y`. " +
			"The rename family also has the shape the 13.3 migration uses, new name = old name plus a lookup: ContextRefRename(a->a.a) and (a->a.b) on every expression with a free reference to a - the vocabulary forms a.a, a.B, a.a.a .. so references already followed by a genuine member of that name are enumerated - compared with a reference model (every free a becomes the lookup, whatever follows it) by references with the number of such lookups behind each, structure, and evaluation under the context in which a's value is bound to a.a / a.b (in `x @(e) y`, and for the shorter lengths by Evaluator.Template in all three frames). " +
			"A last family runs the real Migrate13_3 on a 13.2 flow: webhook / WebHook followed by every chain of 0..3 lookups over .json .JSON .id .0 [\"json\"] [\"id\"], in 3 template frames (identifier, expression, expression with a second reference plus an identifier) = 1554 templates, each put in 5 places of the flow (action text, list item, translation, router operand, case argument); the migrated template with the response body bound to webhook.json must evaluate to what the original does with the body bound to webhook (the body nests json/id/0 four levels deep with a different text at every leaf), and all places must agree.",
		Assumptions: []string{
			"bounded: token vocabulary and sequence length as stated in the rule; contexts are the 4 stated shapes",
			"'fails alike' is read as: both evaluations fail (messages are not compared, differing messages are counted)",
			"values are compared by dynamic type, Render, Format and JSON; anonymous functions by calling them with 0..3 arguments",
			"an expression containing both `^` and a number literal >= 100 or of more than 3 digits (111, 1111, 1.501.. formed by adjacent tokens) is printed, re-parsed and its rewrites are compared structurally, but it is not evaluated: powers like x ^ 1111111 or 111 ^ 111 ^ 1.50 take minutes and gigabytes (C04's subject); the evidence counts them and any expression that took more than 2 s",
			"a template that the scanner does not cut at the expression (string literal ending in an escaped backslash) is text for goflow: its rewrite is compared by evaluation only; the scanner itself is C12's subject",
			"Evaluator.Template comparisons run on lengths <= 5 (quick) / <= 6 (thorough) of the 27- and 17-symbol vocabularies and <= 3 / <= 4 of the long pass; longer sequences are checked at expression level and through refactor.Template structurally",
			"the renames a->a.a and a->a.b are evaluated in the default environment only (the 4 contexts): number and date formats play no part in renaming; a->z stays on 3 environments",
			"the migration family judges by evaluation only: a template whose expression does not parse (webhook.0.0 is read as a decimal) is left alone by the migration and fails alike before and after",
		},
		Run:    run,
		Replay: replayFn,
		Guards: guards,
		Budget: map[string]time.Duration{"quick": 12 * time.Minute, "thorough": 45 * time.Minute}, // caps only: the machine is shared, normal runs take a fraction
	})
}
