package c11

import (
	"fmt"
	"strings"
	"time"

	"github.com/nyaruka/goflow/envs"
	"github.com/nyaruka/goflow/excellent"
	"github.com/nyaruka/goflow/excellent/refactor"
	"github.com/nyaruka/goflow/excellent/types"
	"github.com/shopspring/decimal"
	"verif/mc"
)

// ---- evaluation contexts -------------------------------------------------------------------

type evalCtx struct {
	name    string
	ctx     *types.XObject // binds a, b, f
	renamed *types.XObject // the same with a's value bound to z instead
	// the same with a's value bound to a.<member> instead (a is an object holding only that member):
	// the context a template renamed a -> a.<member> has to be evaluated in
	renamedTo map[string]*types.XObject
}

// extMembers are the members m of the renames a -> a.m (the shape of the 13.3 migration's
// webhook -> webhook.json: the new name is the old one plus a lookup). `a` and `b` are names the
// vocabulary can already put behind `a.` (as `a.a`, and in upper case as `a.B`), so references that
// are followed by a genuine member of that name before the rename are enumerated.
var extMembers = []string{"a", "b"}

func num(s string) *types.XNumber { return types.NewXNumber(decimal.RequireFromString(s)) }

func firstError(args []types.XValue) types.XValue {
	for _, a := range args {
		if types.IsXError(a) {
			return a
		}
	}
	return nil
}

func buildContexts() []evalCtx {
	// f joins the rendering of its arguments; returns the first error argument
	fJoin := types.NewXFunction("f", func(env envs.Environment, args ...types.XValue) types.XValue {
		if e := firstError(args); e != nil {
			return e
		}
		parts := make([]string, len(args))
		for i, a := range args {
			parts[i] = types.Render(a)
		}
		return types.NewXText("f<" + strings.Join(parts, "|") + ">")
	})
	// f returns its first argument unchanged (so that functions and containers flow through)
	fIdent := types.NewXFunction("f", func(env envs.Environment, args ...types.XValue) types.XValue {
		if len(args) == 0 {
			return nil
		}
		return args[0]
	})
	inner := types.NewXObject(map[string]types.XValue{"b": types.NewXText("deep"), "1": num("7"), "a": types.NewXText("aa")})
	specs := []struct {
		name string
		m    map[string]types.XValue
	}{
		{"object", map[string]types.XValue{
			"a": types.NewXObject(map[string]types.XValue{"b": num("2"), "s": types.NewXText("x"), "1": types.NewXText("one"), "a": inner,
				"q\"\\": types.NewXText("quoted"), "é\n\"": types.NewXText("accent")}),
			"b": types.NewXText("s"),
			"f": fJoin,
		}},
		{"array", map[string]types.XValue{
			"a": types.NewXArray(num("10"), types.NewXText("s"), inner),
			"b": num("1"),
			"f": fIdent,
		}},
		{"number", map[string]types.XValue{
			"a": num("2"),
			"b": types.NewXText("1.50"),
			"f": types.NewXText("notfunc"),
		}},
		{"text", map[string]types.XValue{
			"a": types.NewXText("é\n\""),
			"b": nil,
		}},
	}
	var out []evalCtx
	for _, sp := range specs {
		sp.m[longName] = types.NewXText("bound to the long name")
		r := map[string]types.XValue{}
		for k, v := range sp.m {
			if k == "a" {
				r["z"] = v
			} else {
				r[k] = v
			}
		}
		to := map[string]*types.XObject{}
		for _, m := range extMembers {
			rm := map[string]types.XValue{}
			for k, v := range sp.m {
				if k == "a" {
					rm["a"] = types.NewXObject(map[string]types.XValue{m: v})
				} else {
					rm[k] = v
				}
			}
			to[m] = types.NewXObject(rm)
		}
		out = append(out, evalCtx{name: sp.name, ctx: types.NewXObject(sp.m), renamed: types.NewXObject(r), renamedTo: to})
	}
	return out
}

func buildEnvs() []envs.Environment {
	tz, err := time.LoadLocation("America/Guayaquil")
	if err != nil {
		tz = time.FixedZone("X", -5*3600)
	}
	return []envs.Environment{
		envs.NewBuilder().Build(),
		envs.NewBuilder().WithNumberFormat(&envs.NumberFormat{DecimalSymbol: ",", DigitGroupingSymbol: "."}).WithDateFormat(envs.DateFormatDayMonthYear).WithTimezone(tz).Build(),
		envs.NewBuilder().WithNumberFormat(&envs.NumberFormat{DecimalSymbol: ".", DigitGroupingSymbol: " "}).WithDateFormat(envs.DateFormatMonthDayYear).WithTimeFormat(envs.TimeFormatHourMinuteAmPm).Build(),
	}
}

var (
	theCtxs = buildContexts()
	theEnvs = buildEnvs()
	tops    = []string{"a", "b", "f"}
	topsRen = []string{"z", "b", "f"}
	evalr   = excellent.NewEvaluator()
)

// ---- observing values -------------------------------------------------------------------------

// fingerprint renders everything observable about a value: dynamic type, canonical and formatted
// text, JSON; errors are all alike ("fails alike"); an anonymous function is observed by calling it.
func fingerprint(env envs.Environment, v types.XValue, depth int) string {
	if types.IsNil(v) {
		return "nil"
	}
	switch t := v.(type) {
	case *types.XError:
		return "error"
	case *types.XFunction:
		if t.Name() != "<anon>" || depth >= 2 {
			return "function:" + t.Name()
		}
		var sb strings.Builder
		sb.WriteString("function:<anon>")
		for _, args := range [][]types.XValue{{}, {num("2")}, {num("2"), types.NewXText("t")}, {types.NewXText("u"), num("3"), nil}} {
			var r types.XValue
			if p := mc.Guard(func() { r = t.Call(env, args) }); p != "" {
				sb.WriteString("|panic")
				continue
			}
			sb.WriteString("|" + fingerprint(env, r, depth+1))
		}
		return sb.String()
	}
	js, _ := v.MarshalJSON()
	return fmt.Sprintf("%T|%s|%s|%s", v, v.Render(), v.Format(env), js)
}

func valueClass(v types.XValue) string {
	if types.IsNil(v) {
		return "nil"
	}
	switch v.(type) {
	case *types.XError:
		return "error"
	case *types.XFunction:
		return "function"
	case *types.XText:
		return "text"
	case *types.XNumber:
		return "number"
	case *types.XBoolean:
		return "boolean"
	case *types.XArray:
		return "array"
	case *types.XObject:
		return "object"
	}
	return fmt.Sprintf("%T", v)
}

func evalTree(env envs.Environment, ctx *types.XObject, x excellent.Expression) (fp, class, msg string) {
	var v types.XValue
	if p := mc.Guard(func() { v = x.Evaluate(env, excellent.NewScope(ctx, nil), &excellent.Warnings{}) }); p != "" {
		return "panic:" + mc.PanicSite(p), "panic", p
	}
	if xe, ok := v.(*types.XError); ok && xe != nil {
		msg = xe.Error()
	}
	return fingerprint(env, v, 0), valueClass(v), msg
}

func evalTemplate(env envs.Environment, ctx *types.XObject, t string) string {
	var out string
	var err error
	if p := mc.Guard(func() { out, _, err = evalr.Template(env, ctx, t, nil) }); p != "" {
		return "panic:" + mc.PanicSite(p)
	}
	if err != nil {
		return "error|" + out
	}
	return "ok|" + out
}

// ---- independent structural dump of a syntax tree --------------------------------------------------

const (
	nRef = iota
	nDot
	nArr
	nCall
	nAnon
	nConcat
	nAdd
	nSub
	nMul
	nDiv
	nExp
	nNeg
	nEq
	nNeq
	nLT
	nLTE
	nGT
	nGTE
	nParen
	nText
	nNum
	nBool
	nNull
	nNodeTypes
)

var nodeNames = [nNodeTypes]string{"ContextReference", "DotLookup", "ArrayLookup", "FunctionCall", "AnonFunction", "Concatenation", "Addition",
	"Subtraction", "Multiplication", "Division", "Exponent", "Negation", "Equality", "InEquality", "LessThan", "LessThanOrEqual", "GreaterThan",
	"GreaterThanOrEqual", "Parentheses", "TextLiteral", "NumberLiteral", "BooleanLiteral", "NullLiteral"}

type shaper struct {
	sb      strings.Builder
	rename  func(string) string // applied to the names of references to the context (nil = none)
	bound   []string            // parameters of the enclosing anonymous functions (these shadow the context)
	seen    uint32              // node types seen
	freeRen bool                // a free reference was renamed
	digits  int                 // longest number literal (digits of the coefficient)
	bad     string
}

func (s *shaper) isBound(name string) bool {
	for _, b := range s.bound {
		if strings.EqualFold(b, name) {
			return true
		}
	}
	return false
}

func (s *shaper) bin(tag string, n int, a, b excellent.Expression) {
	s.seen |= 1 << n
	s.sb.WriteString("(" + tag + " ")
	s.walk(a)
	s.sb.WriteByte(' ')
	s.walk(b)
	s.sb.WriteByte(')')
}

func (s *shaper) walk(x excellent.Expression) {
	switch t := x.(type) {
	case *excellent.ContextReference:
		s.seen |= 1 << nRef
		name := t.Name
		if s.rename != nil && !s.isBound(name) {
			if n2 := s.rename(name); n2 != name {
				name, s.freeRen = n2, true
			}
		}
		// a reference is looked up case-insensitively and printed in lower case: its identity is the folded name
		s.sb.WriteString("(ref " + strings.ToLower(name) + ")")
	case *excellent.DotLookup:
		s.seen |= 1 << nDot
		s.sb.WriteString("(dot ")
		s.walk(t.Container)
		s.sb.WriteString(" " + strings.ToLower(t.Lookup) + ")")
	case *excellent.ArrayLookup:
		s.bin("idx", nArr, t.Container, t.Lookup)
	case *excellent.FunctionCall:
		s.seen |= 1 << nCall
		s.sb.WriteString("(call ")
		s.walk(t.Func)
		for _, p := range t.Params {
			s.sb.WriteByte(' ')
			s.walk(p)
		}
		s.sb.WriteByte(')')
	case *excellent.AnonFunction:
		s.seen |= 1 << nAnon
		s.sb.WriteString("(fn [" + strings.ToLower(strings.Join(t.Args, ",")) + "] ")
		n := len(s.bound)
		s.bound = append(s.bound, t.Args...)
		s.walk(t.Body)
		s.bound = s.bound[:n]
		s.sb.WriteByte(')')
	case *excellent.Concatenation:
		s.bin("&", nConcat, t.Exp1, t.Exp2)
	case *excellent.Addition:
		s.bin("+", nAdd, t.Exp1, t.Exp2)
	case *excellent.Subtraction:
		s.bin("-", nSub, t.Exp1, t.Exp2)
	case *excellent.Multiplication:
		s.bin("*", nMul, t.Exp1, t.Exp2)
	case *excellent.Division:
		s.bin("/", nDiv, t.Exp1, t.Exp2)
	case *excellent.Exponent:
		s.bin("^", nExp, t.Expression, t.Exponent)
	case *excellent.Negation:
		s.seen |= 1 << nNeg
		s.sb.WriteString("(neg ")
		s.walk(t.Exp)
		s.sb.WriteByte(')')
	case *excellent.Equality:
		s.bin("=", nEq, t.Exp1, t.Exp2)
	case *excellent.InEquality:
		s.bin("!=", nNeq, t.Exp1, t.Exp2)
	case *excellent.LessThan:
		s.bin("<", nLT, t.Exp1, t.Exp2)
	case *excellent.LessThanOrEqual:
		s.bin("<=", nLTE, t.Exp1, t.Exp2)
	case *excellent.GreaterThan:
		s.bin(">", nGT, t.Exp1, t.Exp2)
	case *excellent.GreaterThanOrEqual:
		s.bin(">=", nGTE, t.Exp1, t.Exp2)
	case *excellent.Parentheses:
		s.seen |= 1 << nParen
		s.sb.WriteString("(paren ")
		s.walk(t.Exp)
		s.sb.WriteByte(')')
	case *excellent.TextLiteral:
		s.seen |= 1 << nText
		s.sb.WriteString(fmt.Sprintf("(text %q)", t.Value.Native()))
	case *excellent.NumberLiteral:
		s.seen |= 1 << nNum
		if n := len(t.Value.Native().Coefficient().String()); n > s.digits {
			s.digits = n
		}
		if t.Value.Native().Abs().Cmp(decimal.New(100, 0)) >= 0 {
			s.digits = 99 // a large number
		}
		// the decimal's value, not its scale: 1.50 and 1.5 are the same number in every operation
		s.sb.WriteString("(num " + t.Value.Native().String() + ")")
	case *excellent.BooleanLiteral:
		s.seen |= 1 << nBool
		s.sb.WriteString(fmt.Sprintf("(bool %v)", t.Value.Native()))
	case *excellent.NullLiteral:
		s.seen |= 1 << nNull
		s.sb.WriteString("(null)")
	default:
		s.bad = fmt.Sprintf("%T", x)
		s.sb.WriteString("(?)")
	}
}

// maxDigits is the longest number literal of the tree.
func maxDigits(x excellent.Expression) int {
	s := &shaper{}
	s.walk(x)
	return s.digits
}

func shapeOf(x excellent.Expression, rename func(string) string) (shape string, seen uint32, renamedFree bool) {
	s := &shaper{rename: rename}
	s.walk(x)
	if s.bad != "" {
		return "unknown node type " + s.bad, s.seen, s.freeRen
	}
	return s.sb.String(), s.seen, s.freeRen
}

func renameAZ(name string) string {
	if strings.EqualFold(name, "a") {
		return "z"
	}
	return name
}

// ---- the oracle -----------------------------------------------------------------------------------

type viol struct {
	key  string // root-cause signature: what was observed + where the trees differ / the smallest failing tree shape
	what string
}

const (
	stageExpr   = 1 << iota // parse / print / re-parse / fixed point / evaluation in every context
	stageStruct             // refactor.Template (identity, rename) on `x @(e) y`, observed structurally and by evaluating the trees
	stageEval               // Evaluator.Template on original vs rewritten templates
	stageAll    = stageExpr | stageStruct | stageEval
)

type exprInfo struct {
	printed     string
	nodes       uint32
	classes     [4]string // value class under env 0 in each context
	errDiffer   bool      // both sides failed but with different messages (counted, not a violation)
	scannedT1   bool      // the scanner saw `x @(e) y` as body, expression e, body
	hasRefA     bool
	isPath      bool
	noEval      bool // contains both an exponentiation and a number >= 100 or of more than 3 digits: not evaluated (see Assumptions)
	noEvalDif   bool // ... and its printed form has a different tree
	longAtom    bool // contains a text literal, name or number of more than 64 characters
	extRenames  int  // renames a -> a.m whose result was compared with the reference model
	extFollowed int  // ... of an expression in which a reference to a is directly followed by a member called m
}

func hasLongAtom(x excellent.Expression) bool {
	long := false
	x.Visit(func(e excellent.Expression) {
		switch t := e.(type) {
		case *excellent.TextLiteral:
			long = long || len(t.Value.Native()) > 64
		case *excellent.ContextReference:
			long = long || len(t.Name) > 64
		case *excellent.DotLookup:
			long = long || len(t.Lookup) > 64
		case *excellent.NumberLiteral:
			long = long || len(t.Value.Native().String()) > 64
		}
	})
	return long
}

func parse(e string) (x excellent.Expression, err error, panicked string) {
	panicked = mc.Guard(func() { x, err = excellent.Parse(e, nil) })
	return
}

// parseOr parses e unless it is the text whose (unmodified) tree is already at hand.
func parseOr(e, known string, knownTree excellent.Expression) (excellent.Expression, error, string) {
	if knownTree != nil && e == known {
		return knownTree, nil, ""
	}
	return parse(e)
}

func printTree(x excellent.Expression) (s string, panicked string) {
	panicked = mc.Guard(func() { s = x.String() })
	return
}

type scanTok struct {
	typ excellent.XTokenType
	val string
}

func scan(t string, tl []string) []scanTok {
	var out []scanTok
	excellent.VisitTemplate(t, tl, false, func(tt excellent.XTokenType, tok string) error {
		out = append(out, scanTok{tt, tok})
		return nil
	})
	return out
}

func isOneExpr(toks []scanTok, pre, e, post string) bool {
	return len(toks) == 3 && toks[0] == (scanTok{excellent.BODY, pre}) && toks[1] == (scanTok{excellent.EXPRESSION, e}) && toks[2] == (scanTok{excellent.BODY, post})
}

func refactorT(t string, tl []string, tx func(excellent.Expression) bool) (out string, err error, panicked string) {
	panicked = mc.Guard(func() { out, err = refactor.Template(t, tl, tx) })
	return
}

func isPathExpr(e string) bool {
	if e == "" || e[0] == '.' || e[len(e)-1] == '.' {
		return false
	}
	for _, r := range e {
		if !(r == '.' || r == '_' || (r >= '0' && r <= '9') || (r >= 'a' && r <= 'z') || (r >= 'A' && r <= 'Z')) {
			return false
		}
	}
	return !(e[0] >= '0' && e[0] <= '9')
}

// renameFree is the reference model of the renaming: references to the context's a (not to a
// parameter of an enclosing anonymous function, which shadows the context) become z.
func renameFree(x excellent.Expression, bound []string) {
	switch t := x.(type) {
	case *excellent.ContextReference:
		if strings.EqualFold(t.Name, "a") {
			for _, b := range bound {
				if strings.EqualFold(b, "a") {
					return
				}
			}
			t.Name = "z"
		}
		return
	case *excellent.AnonFunction:
		bound = append(append([]string{}, bound...), t.Args...)
	}
	for _, s := range slots(x) {
		renameFree(s.get(), bound)
	}
}

func shapeStr(x excellent.Expression) string {
	s, _, _ := shapeOf(x, nil)
	return s
}

type refAt struct{ where, desc string }

// refsOf lists the references of a tree in evaluation order with the position that holds them.
func refsOf(x excellent.Expression) []refAt {
	var out []refAt
	var walk func(x excellent.Expression, where string, bound []string)
	walk = func(x excellent.Expression, where string, bound []string) {
		switch t := x.(type) {
		case *excellent.ContextReference:
			d := "other:" + strings.ToLower(t.Name)
			switch strings.ToLower(t.Name) {
			case "a", "z":
				d = strings.ToLower(t.Name)
			}
			for _, b := range bound {
				if strings.EqualFold(b, t.Name) {
					d = "bound-parameter-" + d
					where = ""
					break
				}
			}
			out = append(out, refAt{where, d})
			return
		case *excellent.AnonFunction:
			bound = append(append([]string{}, bound...), t.Args...)
		}
		for _, s := range slots(x) {
			w := typeName(x) + "." + s.name
			if typeName(x) == "paren" {
				w = where // parentheses are transparent
			}
			walk(s.get(), w, bound)
		}
	}
	walk(x, "top", nil)
	return out
}

// diffRefs names the first difference between the references of the expected and the actual tree.
func diffRefs(exp, act excellent.Expression) string {
	re, ra := refsOf(exp), refsOf(act)
	if len(re) != len(ra) {
		return "number-of-references-differs"
	}
	for i := range re {
		if re[i].desc != ra[i].desc {
			strip := func(d string) string {
				if i := strings.Index(d, "other:"); i >= 0 {
					return d[:i] + "other"
				}
				return d
			}
			d := "ref:" + strip(re[i].desc) + "->" + strip(ra[i].desc)
			if re[i].where != "" && !strings.Contains(d, "bound-parameter") {
				d = re[i].where + ":" + d
			}
			return d
		}
	}
	return ""
}

func unparseable(t excellent.Expression) bool {
	p, pn := printTree(t)
	if pn != "" {
		return false
	}
	_, err, pn2 := parse(p)
	return pn2 == "" && err != nil
}

func joinDiff(d []string) string {
	if len(d) == 0 {
		return "no-tree-difference"
	}
	return strings.Join(d, "+")
}

// smallestShape names a failure that has no second tree to compare with: the abstract shape of the
// smallest subtree of e's syntax tree that still fails.
func smallestShape(e string, fails func(excellent.Expression) bool) string {
	x, err, pn := parse(e) // a fresh tree: abstract modifies it
	if err != nil || pn != "" {
		return "?"
	}
	if !fails(x) {
		return "whole-expression-only"
	}
	m := minimalFailing(x, fails)
	return abstract(m, fails)
}

var (
	expensiveKeys int
	inShape       bool // set while a signature is being computed: nested failures need no names
)

// exprStage checks the first sentence of the property on the tree x of expression e.
func exprStage(e string, x excellent.Expression, info *exprInfo, add func(key, format string, a ...any)) (x2 excellent.Expression) {
	p := info.printed
	x2, err2, pn2 := parse(p)
	switch {
	case pn2 != "":
		add("expr:reparse-panics:"+mc.PanicSite(pn2), "printed form %q: excellent.Parse panics: %s", p, pn2)
		return nil
	case err2 != nil:
		shape := ""
		if !inShape {
			shape = smallestShape(e, unparseable)
		}
		add("expr:reparse-fails:"+shape, "prints as %q which does not parse: %v", p, err2)
		return nil
	}
	p2, pn3 := printTree(x2)
	if pn3 != "" {
		add("expr:print-panics:"+mc.PanicSite(pn3), "String() of the re-parsed tree panics: %s", pn3)
		return x2
	}
	if p2 != p {
		add("expr:print-not-fixed-point:"+joinDiff(diffTrees(x, x2)), "prints as %q, which prints as %q", p, p2)
	}
	if info.noEval {
		info.noEvalDif = len(diffTrees(x, x2)) > 0
		return x2
	}
	for ei, env := range theEnvs {
		for ci, c := range theCtxs {
			f1, c1, m1 := evalTree(env, c.ctx, x)
			f2, c2, m2 := evalTree(env, c.ctx, x2)
			if ei == 0 {
				info.classes[ci] = c1
			}
			if f1 != f2 {
				add("expr:value-differs:"+joinDiff(diffTrees(x, x2)), "printed form %q evaluates differently in context %s/env %d (%s vs %s): original %s, printed %s", p, c.name, ei, c1, c2, clip(f1), clip(f2))
				return x2
			} else if c1 == "error" && m1 != m2 {
				info.errDiffer = true
			}
		}
	}
	return x2
}

func clip(s string) string {
	if len(s) > 160 {
		return s[:160] + "…"
	}
	return s
}

// checkExpr evaluates the property on one parseable expression. stages selects what is observed.
func checkExpr(e string, stages int) (vs []viol, info exprInfo) {
	seen := map[string]bool{}
	add := func(key, format string, a ...any) {
		if !seen[key] {
			seen[key] = true
			vs = append(vs, viol{key, fmt.Sprintf("expression %q: ", e) + fmt.Sprintf(format, a...)})
		}
	}
	x, err, pn := parse(e)
	if pn != "" {
		add("expr:parse-panics:"+mc.PanicSite(pn), "excellent.Parse panics: %s", pn)
		return
	}
	if err != nil {
		add("harness:parse-disagrees", "the generated parser accepts it but excellent.Parse returns %v", err)
		return
	}
	p, pn := printTree(x)
	if pn != "" {
		add("expr:print-panics:"+mc.PanicSite(pn), "String() panics: %s", pn)
		return
	}
	info.printed = p
	shape1, nodes, _ := shapeOf(x, nil)
	info.nodes = nodes
	expectRenamed, _, hasFreeA := shapeOf(x, renameAZ)
	info.hasRefA = hasFreeA
	info.isPath = isPathExpr(e)
	info.longAtom = hasLongAtom(x)
	// x ^ 1111111 takes minutes and gigabytes, 111 ^ 111 ^ 1.50 minutes (C04's subject): a tree with an
	// exponentiation and a number literal >= 100 or of more than 3 digits is compared, not evaluated
	info.noEval = nodes&(1<<nExp) != 0 && maxDigits(x) > 3

	var xPrinted excellent.Expression // the tree of the printed form (not modified by anything below)
	if stages&stageExpr != 0 {
		xPrinted = exprStage(e, x, &info, add)
		if len(vs) > 0 {
			// the rewrites below are built from the same print: what they would show is this violation again
			return
		}
	}

	sameEverywhere := func(xa excellent.Expression, renamedCtx bool) (bool, string) {
		if info.noEval {
			return true, ""
		}
		for ei, env := range theEnvs {
			for _, c := range theCtxs {
				cb := c.ctx
				if renamedCtx {
					cb = c.renamed
				}
				f1, _, _ := evalTree(env, c.ctx, x)
				f2, _, _ := evalTree(env, cb, xa)
				if f1 != f2 {
					return false, fmt.Sprintf("context %s/env %d: original %s, rewritten %s", c.name, ei, clip(f1), clip(f2))
				}
			}
		}
		return true, ""
	}
	// names a template-level failure by the smallest subtree whose own print, as an expression, shows it
	shapeFor := func(prefix string, st int) string {
		if inShape {
			return ""
		}
		if expensiveKeys >= 150 {
			return "unminimized"
		}
		expensiveKeys++
		inShape = true
		defer func() { inShape = false }()
		return smallestShape(e, func(t excellent.Expression) bool {
			pt, pnt := printTree(t)
			if pnt != "" {
				return false
			}
			if cst, _ := classify(pt); cst != stOK {
				return false
			}
			tv, _ := checkExpr(pt, st)
			for _, v := range tv {
				if strings.HasPrefix(v.key, prefix) {
					return true
				}
			}
			return false
		})
	}

	if stages&stageStruct != 0 {
		T := "x @(" + e + ") y"
		// Structural observation on `x @(e) y`, for the case that the scanner cuts the template at the
		// expression (when it does not, goflow treats the text as body and there is nothing to rewrite:
		// the evaluation comparison below covers that case, and C12 owns the scanner).
		info.scannedT1 = isOneExpr(scan(T, tops), "x ", e, " y")
		// identity that reports "changed" and so forces the re-print
		r1, err1, pn1 := refactorT(T, tops, func(excellent.Expression) bool { return true })
		rr, errR, pnR := refactorT(T, tops, refactor.ContextRefRename("a", "z"))
		switch {
		case pn1 != "":
			add("tpl:refactor-panics:"+mc.PanicSite(pn1), "refactor.Template(%q) panics: %s", T, pn1)
		case pnR != "":
			add("tpl:refactor-panics:"+mc.PanicSite(pnR), "refactor.Template(%q, rename) panics: %s", T, pnR)
		case info.scannedT1:
			if err1 != nil || errR != nil {
				add("tpl:refactor-errors", "refactor.Template(%q) fails: identity %v, rename %v", T, err1, errR)
			}
			// identity: the rewritten template is again text/expression/text and its expression has the same
			// value as e in every context (the same syntax tree, or else compared by evaluation)
			if r1 != T {
				if !strings.HasPrefix(r1, "x @(") || !strings.HasSuffix(r1, ") y") {
					add("tpl:identity-breaks-frame:"+shapeFor("tpl:identity-breaks-frame", stageStruct), "identity rewrite of %q gives %q", T, r1)
				} else {
					e1 := r1[len("x @(") : len(r1)-len(") y")]
					if !isOneExpr(scan(r1, tops), "x ", e1, " y") {
						add("tpl:identity-not-rescanned-as-expression:"+shapeFor("tpl:identity-not-rescanned", stageStruct), "identity rewrite of %q gives %q, which the scanner no longer sees as text, one expression, text", T, r1)
					} else if x1, errp, pnp := parseOr(e1, p, xPrinted); pnp != "" || errp != nil {
						add("tpl:identity-unparseable:"+shapeFor("tpl:identity-unparseable", stageStruct), "identity rewrite of %q gives %q whose expression does not parse: %v %s", T, r1, errp, pnp)
					} else if sh, _, _ := shapeOf(x1, nil); sh != shape1 {
						if same, why := sameEverywhere(x1, false); !same {
							add("tpl:identity-changes-value:"+joinDiff(diffTrees(x, x1)), "identity rewrite of %q gives %q: syntax tree %s became %s; %s", T, r1, shape1, sh, why)
						}
					}
				}
			}
			// rename: exactly the references to the context's a become z (a re-print that changes no
			// reference is not a change), and the result means under the context with a's value bound to z
			// what the original means under the original context
			if rr != T {
				if !strings.HasPrefix(rr, "x @(") || !strings.HasSuffix(rr, ") y") {
					add("tpl:rename-breaks-frame:"+shapeFor("tpl:rename-breaks-frame", stageStruct), "rename a->z of %q gives %q", T, rr)
				} else {
					er := rr[len("x @(") : len(rr)-len(") y")]
					if !isOneExpr(scan(rr, topsRen), "x ", er, " y") {
						add("tpl:rename-not-rescanned-as-expression:"+shapeFor("tpl:rename-not-rescanned", stageStruct), "rename a->z of %q gives %q, which the scanner no longer sees as text, one expression, text", T, rr)
					} else if xr, errp, pnp := parse(er); pnp != "" || errp != nil {
						add("tpl:rename-unparseable:"+shapeFor("tpl:rename-unparseable", stageStruct), "rename a->z of %q gives %q whose expression does not parse: %v %s", T, rr, errp, pnp)
					} else {
						// exactly the references to the context's a are renamed: the references of the result, in
						// order, are those of the original with the free a's replaced (the rest of the tree may be
						// re-printed differently as long as it means the same)
						expected := func() excellent.Expression {
							xe, _, _ := parse(e)
							renameFree(xe, nil)
							return xe
						}
						d := ""
						if sh := shapeStr(xr); sh != expectRenamed { // identical trees have identical references
							d = diffRefs(expected(), xr)
						}
						if d != "" {
							add("tpl:rename-changes-wrong-references:"+d, "rename a->z of %q gives %q: expected syntax tree %s, got %s", T, rr, expectRenamed, shapeStr(xr))
						} else if same, why := sameEverywhere(xr, true); !same {
							add("tpl:rename-changes-meaning:"+joinDiff(diffTrees(expected(), xr)), "rename a->z of %q gives %q, which under the context with a's value bound to z differs: %s", T, rr, why)
						}
					}
				}
			} else if info.hasRefA {
				add("tpl:rename-changes-wrong-references:nothing-renamed:"+shapeFor("tpl:rename-changes-wrong-references:nothing-renamed", stageStruct), "%q refers to a, but rename a->z returns it unchanged", T)
			}
			// rename to the old name plus a lookup (a -> a.m, the shape of Migrate13_3's webhook -> webhook.json):
			// exactly the references to the context's a become a.m - also one that is already followed by a
			// member called m - and the result means under the context with a's value bound to a.m what the
			// original means under the original context (a result that is returned unchanged is compared like any other)
			if info.hasRefA && len(vs) == 0 {
				var orig []string // the original's value per context (default environment), computed once
				for _, m := range extMembers {
					op := "tpl:rename-to-lookup(a->" + extTo(m) + ")"
					rx, errX, pnX := refactorT(T, tops, refactor.ContextRefRename("a", extTo(m)))
					switch {
					case pnX != "":
						add(op+"-panics:"+mc.PanicSite(pnX), "refactor.Template(%q, rename a->%s) panics: %s", T, extTo(m), pnX)
					case errX != nil:
						add(op+"-errors", "refactor.Template(%q, rename a->%s) fails: %v", T, extTo(m), errX)
					case !strings.HasPrefix(rx, "x @(") || !strings.HasSuffix(rx, ") y"):
						add(op+"-breaks-frame:"+shapeFor(op+"-breaks-frame", stageStruct), "rename a->%s of %q gives %q", extTo(m), T, rx)
					default:
						ex := rx[len("x @(") : len(rx)-len(") y")]
						if !isOneExpr(scan(rx, tops), "x ", ex, " y") {
							add(op+"-not-rescanned-as-expression:"+shapeFor(op+"-not-rescanned", stageStruct), "rename a->%s of %q gives %q, which the scanner no longer sees as text, one expression, text", extTo(m), T, rx)
						} else if xx, errp, pnp := parse(ex); pnp != "" || errp != nil {
							add(op+"-unparseable:"+shapeFor(op+"-unparseable", stageStruct), "rename a->%s of %q gives %q whose expression does not parse: %v %s", extTo(m), T, rx, errp, pnp)
						} else {
							xe, _, _ := parse(e)
							info.extRenames++
							for _, r := range extRefsOf(xe, m) {
								if strings.HasPrefix(r.desc, "a:") && r.lookups > 0 {
									info.extFollowed++
									break
								}
							}
							xe = renameFreeExt(xe, m)
							d := ""
							if shapeStr(xx) != shapeStr(xe) { // identical trees have identical references
								d = diffExtRefs(xe, xx, m)
							}
							if d != "" {
								add(op+"-changes-wrong-references:"+d, "rename a->%s of %q gives %q: expected syntax tree %s, got %s", extTo(m), T, rx, clip(shapeStr(xe)), clip(shapeStr(xx)))
							} else if !info.noEval {
								env := theEnvs[0]
								if orig == nil {
									for _, c := range theCtxs {
										f, _, _ := evalTree(env, c.ctx, x)
										orig = append(orig, f)
									}
								}
								for ci, c := range theCtxs {
									if f2, _, _ := evalTree(env, c.renamedTo[m], xx); f2 != orig[ci] {
										add(op+"-changes-meaning:"+joinDiff(diffTrees(xe, xx)), "rename a->%s of %q gives %q, which under the context with a's value bound to %s differs in context %s: original %s, rewritten %s", extTo(m), T, rx, extTo(m), c.name, clip(orig[ci]), clip(f2))
										break
									}
								}
							}
						}
					}
				}
			}
		}
		if len(vs) > 0 {
			return
		}
	}

	if stages&stageEval != 0 && !info.noEval {
		type tpl struct {
			name, pre, mid, post string
			n                    int // number of copies of the expression
		}
		tpls := []tpl{{"x @(e) y", "x @(", "", ") y", 1}, {"@(e)@(e)", "@(", ")@(", ")", 2}}
		if info.isPath {
			tpls = append(tpls, tpl{"hi @e y", "hi @", "", " y", 1})
		}
		env := theEnvs[0]
		for _, t := range tpls {
			T := t.pre + e + t.post
			if t.n == 2 {
				T = t.pre + e + t.mid + e + t.post
			}
			r0, _, pn0 := refactorT(T, tops, func(excellent.Expression) bool { return false })
			r1, _, pn1 := refactorT(T, tops, func(excellent.Expression) bool { return true })
			rr, _, pnR := refactorT(T, tops, refactor.ContextRefRename("a", "z"))
			if pn0 != "" || pn1 != "" || pnR != "" {
				add("tpleval:refactor-panics:"+mc.PanicSite(pn0+pn1+pnR), "refactor.Template(%q) panics: %s", T, pn0+pn1+pnR)
				continue
			}
			rx := map[string]string{} // renamed a -> a.m
			if info.hasRefA {
				for _, m := range extMembers {
					r, _, pnX := refactorT(T, tops, refactor.ContextRefRename("a", extTo(m)))
					if pnX != "" {
						add("tpleval:refactor-panics:"+mc.PanicSite(pnX), "refactor.Template(%q, rename a->%s) panics: %s", T, extTo(m), pnX)
						continue
					}
					rx[m] = r
				}
			}
			for _, c := range theCtxs {
				o := evalTemplate(env, c.ctx, T)
				if r0 != T {
					if o0 := evalTemplate(env, c.ctx, r0); o0 != o {
						k := "tpleval:unchanged-rewrite-changes-value:" + t.name
						add(k+":"+shapeFor(k, stageEval), "template %q evaluates to %q in context %s; rewritten by a transformation that reports no change it is %q and evaluates to %q", T, o, c.name, r0, o0)
					}
				}
				if r1 != T {
					if o1 := evalTemplate(env, c.ctx, r1); o1 != o {
						k := "tpleval:identity-changes-value:" + t.name
						add(k+":"+shapeFor(k, stageEval), "template %q evaluates to %q in context %s, its identity rewrite %q to %q", T, o, c.name, r1, o1)
					}
				}
				// under the context in which a's value is bound to z instead, the renamed template means the same
				if oR := evalTemplate(env, c.renamed, rr); oR != o {
					k := "tpleval:rename-changes-meaning:" + t.name
					add(k+":"+shapeFor(k, stageEval), "template %q evaluates to %q in context %s; renamed a->z it is %q which evaluates to %q with a's value bound to z", T, o, c.name, rr, oR)
				}
				// ... and likewise the template renamed a -> a.m under the context in which a's value is bound to a.m
				for _, m := range extMembers {
					if r, ok := rx[m]; ok {
						if oX := evalTemplate(env, c.renamedTo[m], r); oX != o {
							k := "tpleval:rename-to-lookup(a->" + extTo(m) + ")-changes-meaning:" + t.name
							add(k+":"+shapeFor(k, stageEval), "template %q evaluates to %q in context %s; renamed a->%s it is %q which evaluates to %q with a's value bound to %s", T, clip(o), c.name, extTo(m), clip(r), clip(oX), extTo(m))
						}
					}
				}
			}
		}
	}
	return
}
