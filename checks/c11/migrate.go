package c11

import (
	"encoding/json"
	"fmt"
	"strings"

	"github.com/nyaruka/goflow/excellent/types"
	"github.com/nyaruka/goflow/flows/definition/migrations"
	"verif/mc"
)

// The 13.3 migration itself (flows/definition/migrations Migrate13_3: every template of a flow is
// rewritten with refactor.Template(.., ["webhook"], ContextRefRename("webhook", "webhook.json"))).
//
// Space: a reference `webhook` (also written WebHook) followed by every chain of 0..3 lookups over
// the alphabet below - which has the member that the migration adds, in both notations and in upper
// case, next to another member and an integer key - set into each of three template frames, and the
// template put into every kind of place of a 13.2 flow that the migration visits (action text, an
// item of a list, a translation, a router operand, a case argument).
//
// Oracle: before 13.3 `webhook` is the parsed body of the response, from 13.3 on the body is
// `webhook.json`. So the migrated template evaluated with the body V bound to webhook.json gives what
// the original template gives with V bound to webhook. V is a nest of objects four levels deep
// with the members json, id and 0 at every level and its own path as the text at every leaf, so every
// chain leads to a different value.
var migLookups = []struct{ text, kind string }{
	{".json", "dot-added-member"},
	{".JSON", "dot-added-member-upper-case"},
	{".id", "dot-other-member"},
	{".0", "dot-integer"},
	{`["json"]`, "index-added-member"},
	{`["id"]`, "index-other-member"},
}

var migRefs = []string{"webhook", "WebHook"}

var migFrames = []struct{ name, pre, post string }{
	{"identifier", "Hi @", " there"},
	{"expression", "Hi @(", ") there"},
	{"expression-with-second-reference", `@(`, ` & "|" & webhook.id) then @webhook`},
}

var migPlaces = []string{"action-text", "list-item", "translation", "router-operand", "case-argument"}

type migCase struct {
	ref    int
	chain  []int
	frame  int
	tpl    string
	first  string // kind of the first lookup ("none" for the bare reference): what the rename sees next to the reference
	nChain int
}

func migCases() []migCase {
	var out []migCase
	var chains [][]int
	var rec func(c []int)
	rec = func(c []int) {
		chains = append(chains, append([]int{}, c...))
		if len(c) == 3 {
			return
		}
		for i := range migLookups {
			rec(append(c, i))
		}
	}
	rec(nil)
	for ri := range migRefs {
		for _, ch := range chains {
			for fi, f := range migFrames {
				r := migRefs[ri]
				first := "none"
				for i, l := range ch {
					r += migLookups[l].text
					if i == 0 {
						first = migLookups[l].kind
					}
				}
				out = append(out, migCase{ref: ri, chain: ch, frame: fi, tpl: f.pre + r + f.post, first: first, nChain: len(ch)})
			}
		}
	}
	return out
}

func migBody(path string, depth int) types.XValue {
	if depth == 0 {
		return types.NewXText("<" + path + ">")
	}
	return types.NewXObject(map[string]types.XValue{
		"json": migBody(path+"j", depth-1),
		"id":   migBody(path+"i", depth-1),
		"0":    migBody(path+"0", depth-1),
	})
}

var (
	migV      = migBody("", 4)
	migBefore = types.NewXObject(map[string]types.XValue{"webhook": migV})
	migAfter  = types.NewXObject(map[string]types.XValue{"webhook": types.NewXObject(map[string]types.XValue{"json": migV})})
)

// migrate13_3 puts the template into every place of a small 13.2 flow, runs the real migration and
// returns what became of it in each place.
func migrate13_3(tpl string) (byPlace map[string]string, problem string) {
	q, _ := json.Marshal(tpl)
	def := fmt.Sprintf(`{
		"uuid": "8ca44c09-791d-453a-9799-a70dd3303306", "name": "T", "spec_version": "13.2.0", "language": "eng", "type": "messaging",
		"localization": {"spa": {"f01d693b-2af2-49fb-a38d-146eb00937e9": {"text": [%[1]s]}}},
		"nodes": [
			{"uuid": "a58be63b-907d-4a1a-856b-0bb5579d7507",
			 "actions": [{"uuid": "f01d693b-2af2-49fb-a38d-146eb00937e9", "type": "send_msg", "text": %[1]s, "quick_replies": ["no", %[1]s]}],
			 "exits": [{"uuid": "118221f7-e637-4cdb-83ca-7f0a5aae98c6"}]},
			{"uuid": "8362a6c6-a2f8-4a0f-b7f5-3a1b3e6d4e0a",
			 "router": {"type": "switch", "operand": %[1]s, "default_category_uuid": "37d8813f-1402-4ad2-9cc2-e9054a96525b",
				"categories": [{"uuid": "37d8813f-1402-4ad2-9cc2-e9054a96525b", "name": "Other", "exit_uuid": "0680b01f-ba0b-48f4-a688-d2f963130126"}],
				"cases": [{"uuid": "98503572-25bf-40ce-ad72-8836b6549a38", "type": "has_any_word", "arguments": ["x", %[1]s], "category_uuid": "37d8813f-1402-4ad2-9cc2-e9054a96525b"}]},
			 "exits": [{"uuid": "0680b01f-ba0b-48f4-a688-d2f963130126"}]}
		]}`, q)
	var migrated migrations.Flow
	if p := mc.Guard(func() {
		f, err := migrations.ReadFlow([]byte(def))
		if err != nil {
			problem = "harness: the flow does not read: " + err.Error()
			return
		}
		migrated, err = migrations.Migrate13_3(f, nil)
		if err != nil {
			problem = "error: " + err.Error()
		}
	}); p != "" {
		return nil, "panic:" + mc.PanicSite(p)
	}
	if problem != "" {
		return nil, problem
	}
	at := func(v any, path ...any) string {
		for _, p := range path {
			switch k := p.(type) {
			case string:
				m, _ := v.(map[string]any)
				v = m[k]
			case int:
				a, _ := v.([]any)
				if k >= len(a) {
					return "<missing>"
				}
				v = a[k]
			}
		}
		s, ok := v.(string)
		if !ok {
			return "<missing>"
		}
		return s
	}
	root := map[string]any(migrated)
	return map[string]string{
		"action-text":    at(root, "nodes", 0, "actions", 0, "text"),
		"list-item":      at(root, "nodes", 0, "actions", 0, "quick_replies", 1),
		"translation":    at(root, "localization", "spa", "f01d693b-2af2-49fb-a38d-146eb00937e9", "text", 0),
		"router-operand": at(root, "nodes", 1, "router", "operand"),
		"case-argument":  at(root, "nodes", 1, "router", "cases", 0, "arguments", 1),
	}, ""
}

// checkMigration evaluates the property on one template.
func checkMigration(tpl, frame, first string) (vs []viol, rewritten string, class string) {
	add := func(key, format string, a ...any) {
		vs = append(vs, viol{key, fmt.Sprintf("13.2 flow with the template %q: ", tpl) + fmt.Sprintf(format, a...)})
	}
	got, problem := migrate13_3(tpl)
	if problem != "" {
		add("migrate13_3:"+strings.SplitN(problem, ":", 2)[0]+":"+frame, "Migrate13_3: %s", problem)
		return vs, "", "problem"
	}
	rewritten = got["action-text"]
	for _, p := range migPlaces {
		if got[p] != rewritten {
			add("migrate13_3:places-disagree:"+p, "the action text becomes %q but the %s becomes %q", rewritten, p, got[p])
		}
	}
	// (a template the migration leaves as it is - because its expression does not parse, like webhook.0.0
	// which the lexer reads as a decimal - is judged like every other: by what it evaluates to)
	env := theEnvs[0]
	before := evalTemplate(env, migBefore, tpl)
	after := evalTemplate(env, migAfter, rewritten)
	class = before[:strings.Index(before, "|")]
	if rewritten == tpl {
		class += "-unchanged"
	}
	if before != after {
		add("migrate13_3:changes-meaning:first-lookup="+first, "with the response body bound to webhook it evaluates to %q; migrated it is %q, which with the same body bound to webhook.json evaluates to %q", clip(before), rewritten, clip(after))
	}
	return vs, rewritten, class
}

func runMigration(c *mc.Ctx) {
	cases := migCases()
	for i, mcse := range cases {
		if !c.Mine(i) {
			continue
		}
		vs, rewritten, class := checkMigration(mcse.tpl, migFrames[mcse.frame].name, mcse.first)
		c.Inc("evaluations")
		c.Inc("distinct_nontrivial")
		c.Inc("migration:templates")
		c.Inc(fmt.Sprintf("migration:templates:lookups%d", mcse.nChain))
		c.Outcome("migration:" + class)
		c.Fact("migration:first-lookup=" + mcse.first)
		c.Fact("migration:frame=" + migFrames[mcse.frame].name)
		if class == "ok" {
			c.Inc("migration:templates_rewritten_and_with_a_value")
		}
		if c.WantSample() && mcse.nChain == 3 && i%97 == 0 {
			c.Sample(map[string]any{"family": "migration", "template": mcse.tpl, "migrated": rewritten, "value_class": class})
		}
		for _, v := range vs {
			c.Violation(v.key, v.what, replay{Family: "migration", Template: mcse.tpl, Frame: migFrames[mcse.frame].name, First: mcse.first, Key: v.key})
		}
	}
}
