// Package c02: (not built yet)
package c02
