// Package c02: persisting a session between waits is transparent.
package c02

import (
	"encoding/json"
	"errors"
	"fmt"
	"strings"
	"time"

	"github.com/nyaruka/goflow/assets"
	"github.com/nyaruka/goflow/flows"
	"github.com/nyaruka/goflow/flows/engine"
	"verif/checks/sm"
	"verif/mc"
	"verif/world"
)

func init() {
	world.ActionSets["ticket"] = func(f, i int) []any {
		return []any{world.J{"uuid": world.ActUUID(f, i, 0), "type": "open_ticket", "topic": world.J{"uuid": world.TopicB, "name": "Support"}, "body": "help @input.text", "result_name": "Ticket"}}
	}
	world.ActionSets["webhook"] = func(f, i int) []any {
		return []any{world.J{"uuid": world.ActUUID(f, i, 0), "type": "call_webhook", "method": "GET", "url": "http://example.com/x", "result_name": "wh"}}
	}
	world.ActionSets["usewh"] = func(f, i int) []any {
		return []any{
			world.J{"uuid": world.ActUUID(f, i, 0), "type": "set_run_result", "name": "masked_wh", "value": "@webhook"},
			world.J{"uuid": world.ActUUID(f, i, 1), "type": "set_run_result", "name": "masked_le", "value": "@legacy_extra"},
		}
	}
	world.ActionSets["ctx"] = func(f, i int) []any {
		return []any{world.J{"uuid": world.ActUUID(f, i, 0), "type": "send_msg",
			"text": "p=@parent.results.role.value c=@child.results.answer.value i=@input.text r=@resume.type t=@trigger.type s=@run.status a=@results.answer.value n=@contact.name v=@node.visit_count k=@(count(run.path)) wh=@results.wh.value tk=@results.ticket.category"},
			world.J{"uuid": world.ActUUID(f, i, 1), "type": "set_run_result", "name": "ctxdump",
				"value": "@(json(parent)) @(json(child)) @(json(run)) @(json(contact)) @(json(input)) @(json(trigger)) @(json(resume)) @(json(node)) @(json(fields)) @(json(urns)) @(json(ticket))"}}
	}
	// resolves the contact's destinations (a message), then clears the channel affinity of its URNs
	world.ActionSets["clearchan"] = func(f, i int) []any {
		return []any{
			world.J{"uuid": world.ActUUID(f, i, 0), "type": "send_msg", "text": "before @contact.channel.name"},
			world.J{"uuid": world.ActUUID(f, i, 1), "type": "set_contact_channel", "channel": nil},
			world.J{"uuid": world.ActUUID(f, i, 2), "type": "send_msg", "text": "after @contact.channel.name"},
		}
	}
	world.ActionSets["now"] = func(f, i int) []any {
		return []any{
			world.J{"uuid": world.ActUUID(f, i, 0), "type": "set_run_result", "name": "When", "value": "@(now()) @(1234.5) @(format_datetime(now())) @(format_number(1234.5)) @(today())"},
			world.J{"uuid": world.ActUUID(f, i, 1), "type": "set_contact_field", "field": world.J{"key": "joined", "name": "Joined"}, "value": "@(now())"},
		}
	}
}

// the resume menu: the default one plus a msg resume that carries a changed environment (date/time
// formats, timezone, number format), as hosts send when the workspace settings changed
var menu = append(append([]string{}, world.Events...), "env:alt:a")

// envGroupsMark marks the roots with environment-dependent query groups (the default sender URN,
// spelled out, so that the root is otherwise unchanged)
const envGroupsMark = "tel:+12065551212"

// menuFor is the resume menu of a root: roots with environment-dependent groups also get an
// expiration and a timeout that carry a timezone 14 hours ahead and nothing else
func menuFor(r *world.Root) []string {
	if r.MsgURN == envGroupsMark {
		return append(append([]string{}, menu...), "env:far:!expire", "env:far:a")
	}
	return menu
}

var kinds = []string{"A:ticket", "A:webhook", "A:usewh", "A:ctx", "A:now", "Eo", "Es", "W", "WT"}
var triggers = []string{"manual", "manual_batch", "msg", "flow_action", "flow_action_batch"}

type replay struct {
	Root   world.Root `json:"root"`
	Events []string   `json:"events"`
	// Pattern bit i set = the host restarts (marshal + read) before applying Events[i]
	Pattern int `json:"pattern"`
}

func hasWait(fs world.FlowSet) bool {
	for _, f := range fs.Flows {
		for _, n := range f.Nodes {
			if n.Kind == "W" || n.Kind == "WT" {
				return true
			}
		}
	}
	return false
}

func roots(tier string) []world.Root {
	n1 := 1
	var sets []world.FlowSet
	for _, fs := range world.EnumFlowSets(kinds, 2, n1) {
		if hasWait(fs) {
			sets = append(sets, fs)
		}
	}
	var out []world.Root
	for i := range sets {
		for _, tr := range triggers {
			out = append(out, world.Root{Flows: &sets[i], Trigger: tr, Opt: world.Options{MaxSteps: 8}})
		}
		// sub-flows: also with a 1 ns clock step, so that several runs are modified within the same
		// microsecond/millisecond (ties after any loss of timestamp precision)
		multi := false
		for _, n := range sets[i].Flows[0].Nodes {
			if n.Kind == "Eo" || n.Kind == "Es" {
				multi = true
			}
		}
		if multi {
			out = append(out, world.Root{Flows: &sets[i], Trigger: "manual", Opt: world.Options{MaxSteps: 8}, Step: 1})
		}
		// a low resume limit: whether a resume is still accepted must not depend on restarts or on
		// earlier rejected resumes
		out = append(out, world.Root{Flows: &sets[i], Trigger: "manual", Opt: world.Options{MaxSteps: 8, MaxResumes: 2}})
	}
	// localized results: a contact whose language has translations of the router categories (longer
	// than a category name may be, one with a line break), so that saved results carry them
	// The contact of this family also carries state that lives in objects a live session keeps and a
	// restored one rebuilds: an earlier last_seen_on (shared with the trigger's copy of the contact) and
	// a tel URN with an affinity to the second tel channel (resolved destinations).
	spa := world.DefaultContact()
	spa["language"] = "spa"
	spa["last_seen_on"] = "2024-01-01T00:00:00.000000000Z"
	spa["urns"] = []any{"tel:+12065551212?channel=" + world.ChanTel2, "twitter:ann"}
	loc := world.EnumFlowSets([]string{"A:ctx", "A:clearchan", "Eo", "W", "WT"}, 2, 1)
	for i := range loc {
		if !hasWait(loc[i]) {
			continue
		}
		for j := range loc[i].Flows {
			loc[i].Flows[j].Localized = true
		}
		// (a second tel channel, which the contact's tel URN has an affinity to)
		a := world.WithFlows(world.BaseAssets(), world.RenderFlows(loc[i]))
		a["channels"] = append(append([]any{}, a["channels"].([]any)...),
			world.J{"uuid": world.ChanTel2, "name": "Tel Two", "address": "+12065550002", "schemes": []any{"tel"}, "roles": []any{"send", "receive"}, "country": "US"})
		for _, tr := range []string{"manual", "msg"} {
			out = append(out, world.Root{Flows: &loc[i], Assets: a, Trigger: tr, Contact: spa, Opt: world.Options{MaxSteps: 8}})
		}
		// the host's clock reports its instants in a zone other than UTC: what a live run holds and
		// what a re-read run holds must render alike (@run.created_on and friends are dumped raw)
		out = append(out, world.Root{Flows: &loc[i], Assets: a, Trigger: "manual", Contact: spa, Opt: world.Options{MaxSteps: 8}, ClockZone: "America/Bogota"})
		// query-based groups whose membership depends on the environment (calendar day of created_on):
		// these roots also get resumes that carry a far timezone and nothing else (see menuFor)
		ag := world.J{}
		for k, v := range a {
			ag[k] = v
		}
		ag["groups"] = append(append([]any{}, a["groups"].([]any)...),
			world.J{"uuid": world.UUID("c02.g.day"), "name": "Created That Day", "query": `created_on = "2020-01-01"`},
			world.J{"uuid": world.UUID("c02.g.after"), "name": "Created Later", "query": `created_on > "2020-01-01"`})
		out = append(out, world.Root{Flows: &loc[i], Assets: ag, Trigger: "manual", Contact: spa, Opt: world.Options{MaxSteps: 8}, MsgURN: envGroupsMark})
	}
	return out
}

// observation of one execution of (events, pattern)
type obs struct {
	contexts []string // per call: forced expression context (without @webhook, @legacy_extra)
	sprints  []string // per call: error | events+segments JSON (masked)
	final    string   // masked session JSON
	waiting  bool
	fixFail  string // marshal/read/marshal fixpoint failure
	err      string
	hist     []world.Step
}

func maskWalk(v any) any {
	switch t := v.(type) {
	case map[string]any:
		if n, ok := t["name"].(string); ok && strings.HasPrefix(n, "masked_") {
			for _, k := range []string{"value", "input", "extra"} {
				if _, has := t[k]; has {
					t[k] = "MASKED"
				}
			}
		}
		for k, x := range t {
			t[k] = maskWalk(x)
		}
		return t
	case []any:
		for i, x := range t {
			t[i] = maskWalk(x)
		}
		return t
	}
	return v
}

func mask(b []byte) string {
	if !strings.Contains(string(b), "masked_") {
		return string(b)
	}
	var v any
	if err := json.Unmarshal(b, &v); err != nil {
		return string(b)
	}
	out, _ := json.Marshal(maskWalk(v))
	return string(out)
}

func sprintJSON(sp flows.Sprint, err error) string {
	if err != nil {
		return "ERR:" + err.Error()
	}
	if sp == nil {
		return "nil"
	}
	eb, _ := json.Marshal(sp.Events())
	type seg struct {
		Flow, Node, Exit, Operand, Dest string
		Time                            time.Time
	}
	var segs []seg
	for _, s := range sp.Segments() {
		segs = append(segs, seg{string(s.Flow().UUID()), string(s.Node().UUID()), string(s.Exit().UUID()), s.Operand(), string(s.Destination().UUID()), s.Time()})
	}
	sb, _ := json.Marshal(segs)
	return mask(eb) + "|" + string(sb)
}

// fixpoint checks marshal(read(marshal(s))) == marshal(s).
func fixpoint(x *world.Exec) string {
	m1, err := json.Marshal(x.Session)
	if err != nil {
		return "marshal error: " + err.Error()
	}
	s2, err := x.Eng.ReadSession(x.SA, m1, assets.IgnoreMissing)
	if err != nil {
		return "read error: " + err.Error()
	}
	m2, err := json.Marshal(s2)
	if err != nil {
		return "re-marshal error: " + err.Error()
	}
	if string(m1) != string(m2) {
		return "differs in " + diffMember(m1, m2)
	}
	return ""
}

func execute(root *world.Root, events []string, pattern int, checkFix bool) *obs {
	o := &obs{}
	hist := []world.Step{{}}
	for i, ev := range events {
		hist = append(hist, world.Step{Ev: ev, Restart: pattern&(1<<i) != 0})
	}
	o.hist = hist
	p := mc.Guard(func() {
		x, err := root.Start(hist[0])
		if err != nil {
			o.err = "harness: " + err.Error()
			return
		}
		o.sprints = append(o.sprints, sprintJSON(x.Sprint, x.Err))
		for _, st := range hist[1:] {
			if x.Err != nil && !isRejection(x.Err) {
				break
			}
			if checkFix && o.fixFail == "" {
				o.fixFail = fixpoint(x)
			}
			if err := x.Apply(st); err != nil {
				o.err = "harness: " + err.Error()
				return
			}
			o.sprints = append(o.sprints, sprintJSON(x.Sprint, x.Err))
		}
		// The expression context is observed where expressions can observe it: inside sprints, through
		// the A:ctx action that dumps every context member as JSON. The context of an idle session
		// (Session.CurrentContext() between sprints) is deliberately not compared: @resume of a live
		// session still shows the previous resume while a restored one shows none, which no template
		// can see, so demanding equality there would be more than the property states.
		if x.Err == nil || isRejection(x.Err) {
			if checkFix && o.fixFail == "" {
				o.fixFail = fixpoint(x)
			}
			b, _ := json.Marshal(x.Session)
			o.final = mask(b)
			o.waiting = x.Session.Status() == flows.SessionStatusWaiting
		}
	})
	if p != "" {
		o.err = "panic: " + p
	}
	return o
}

// the two context members the statement allows to differ, plus results masked by construction
var ctxSkip = map[string]bool{".webhook": true, ".legacy_extra": true, ".results.masked_wh": true, ".results.masked_le": true,
	".run.results.masked_wh": true, ".run.results.masked_le": true, ".child.results.masked_wh": true, ".child.results.masked_le": true,
	".parent.results.masked_wh": true, ".parent.results.masked_le": true}

func contextOf(x *world.Exec) string {
	if x.Err != nil || x.Session == nil {
		return ""
	}
	ctx := x.Session.CurrentContext()
	if ctx == nil {
		return "<nil>"
	}
	return sm.DumpContext(x.Session.MergedEnvironment(), ctx, ctxSkip, 6)
}

func firstLineDiff(a, b string) (string, string) {
	la, lb := strings.Split(a, "\n"), strings.Split(b, "\n")
	for i := 0; i < len(la) || i < len(lb); i++ {
		x, y := "", ""
		if i < len(la) {
			x = la[i]
		}
		if i < len(lb) {
			y = lb[i]
		}
		if x != y {
			return x, y
		}
	}
	return "", ""
}

// isRejection reports whether the error is a rejected resume (engine error), after which the session
// is still resumable.
func isRejection(err error) bool {
	var ee *engine.Error
	return errors.As(err, &ee)
}

func diffMember(a, b []byte) string {
	var ma, mb map[string]json.RawMessage
	json.Unmarshal(a, &ma)
	json.Unmarshal(b, &mb)
	for _, k := range []string{"status", "runs", "contact", "input", "environment", "trigger", "wait", "uuid", "type"} {
		if string(ma[k]) != string(mb[k]) {
			if k == "runs" {
				var ra, rb []map[string]json.RawMessage
				json.Unmarshal(ma[k], &ra)
				json.Unmarshal(mb[k], &rb)
				if len(ra) != len(rb) {
					return "runs:count"
				}
				for i := range ra {
					for _, rk := range []string{"status", "path", "events", "results", "parent_uuid", "flow", "created_on", "modified_on", "exited_on", "uuid"} {
						if string(ra[i][rk]) != string(rb[i][rk]) {
							return "runs." + rk
						}
					}
				}
			}
			return k
		}
	}
	return "other"
}

// eventTypes lists the event types of a sprint observation (for signature keys).
func eventTypes(s string) []string {
	if strings.HasPrefix(s, "ERR:") {
		return []string{"go-error"}
	}
	i := strings.LastIndex(s, "|")
	if i < 0 {
		return nil
	}
	var evs []map[string]any
	json.Unmarshal([]byte(s[:i]), &evs)
	var out []string
	for _, e := range evs {
		t, _ := e["type"].(string)
		if t == "error" || t == "failure" {
			txt, _ := e["text"].(string)
			t += "(" + slug(txt, 5) + ")"
		}
		out = append(out, t)
	}
	return out
}

func slug(s string, n int) string {
	f := strings.Fields(s)
	if len(f) > n {
		f = f[:n]
	}
	out := strings.ToLower(strings.Join(f, "-"))
	return strings.Map(func(r rune) rune {
		if (r >= 'a' && r <= 'z') || (r >= '0' && r <= '9') || r == '-' {
			return r
		}
		return -1
	}, out)
}

// firstEventDiff describes the first differing event between two sprint observations.
func firstEventDiff(a, b string) string {
	ta, tb := eventTypes(a), eventTypes(b)
	for i := 0; i < len(ta) || i < len(tb); i++ {
		x, y := "-", "-"
		if i < len(ta) {
			x = ta[i]
		}
		if i < len(tb) {
			y = tb[i]
		}
		if x != y {
			return "live=" + x + ":restored=" + y
		}
	}
	// same types: find which event's payload differs
	ia, ib := strings.LastIndex(a, "|"), strings.LastIndex(b, "|")
	if ia > 0 && ib > 0 {
		var ea, eb []map[string]json.RawMessage
		json.Unmarshal([]byte(a[:ia]), &ea)
		json.Unmarshal([]byte(b[:ib]), &eb)
		for i := range ea {
			if i < len(eb) {
				for k, v := range ea[i] {
					if string(eb[i][k]) != string(v) {
						var t string
						json.Unmarshal(ea[i]["type"], &t)
						return "same-types:payload-of-" + t + "." + k
					}
				}
			}
		}
		if a[ia:] != b[ib:] {
			return "same-events:segments"
		}
	}
	return "same-types:payload"
}

func compare(c *mc.Ctx, root *world.Root, events []string, pattern int, live, o *obs) {
	rp := replay{Root: *root, Events: events, Pattern: pattern}
	ctx := fmt.Sprintf("\nflows: %s\ntrigger=%s events=%v restart-pattern=%b", root.Flows.String(), root.Trigger, events, pattern)
	if o.err != "" || live.err != "" {
		if o.err != live.err {
			c.Violation("restart-diverges:failure:"+slug(o.err+live.err, 4), "live: "+live.err+"\nrestored: "+o.err+ctx, rp)
		}
		return
	}
	c.Inc("differential_comparisons")
	for i := range live.sprints {
		if i >= len(o.sprints) || live.sprints[i] != o.sprints[i] {
			other := "(missing)"
			if i < len(o.sprints) {
				other = o.sprints[i]
			}
			c.Violation("restart-diverges:sprint:"+firstEventDiff(live.sprints[i], other),
				fmt.Sprintf("sprint %d differs between the live and the restarted execution\nlive:     %s\nrestored: %s%s", i, trim(live.sprints[i], 900), trim(other, 900), ctx), rp)
			return
		}
	}
	for i := range live.contexts {
		if i < len(o.contexts) && live.contexts[i] != o.contexts[i] {
			la, lb := firstLineDiff(live.contexts[i], o.contexts[i])
			path := la
			if path == "" {
				path = lb
			}
			if j := strings.Index(path, "="); j > 0 {
				path = path[:j]
			}
			if len(path) > 60 {
				path = path[:60]
			}
			c.Violation("restart-diverges:context:"+path,
				fmt.Sprintf("expression context after call %d differs between the live and the restarted execution\nlive:     %s\nrestored: %s%s", i, trim(la, 400), trim(lb, 400), ctx), rp)
			return
		}
	}
	if live.final != o.final {
		c.Violation("restart-diverges:final-session-json:"+diffMember([]byte(live.final), []byte(o.final)),
			fmt.Sprintf("resulting session JSON differs (%s)\nlive:     %s\nrestored: %s%s", diffMember([]byte(live.final), []byte(o.final)), trim(live.final, 900), trim(o.final, 900), ctx), rp)
	}
}

func trim(s string, n int) string {
	if len(s) > n {
		return s[:n] + "…"
	}
	return s
}

func run(c *mc.Ctx) {
	rs := roots(c.Tier)
	depth := 2
	if c.Thorough() {
		depth = 4
	}
	for i := range rs {
		if !c.Mine(i) {
			continue
		}
		if c.Expired() {
			c.Cap("time budget reached; every root before the cap was explored completely")
			break
		}
		root := &rs[i]
		c.Inc("roots")
		nontrivial := false
		var explore func(events []string)
		explore = func(events []string) {
			k := len(events)
			live := execute(root, events, 0, true)
			c.Inc("states")
			c.Inc("transitions")
			c.Inc("evaluations")
			if live.fixFail != "" {
				c.Violation("marshal-read-marshal-not-fixpoint:"+slug(live.fixFail, 4), "marshal(read(marshal(s))) != marshal(s): "+live.fixFail+fmt.Sprintf("\nflows: %s trigger=%s events=%v", root.Flows.String(), root.Trigger, events), replay{Root: *root, Events: events})
			}
			c.Inc("fixpoint_checks")
			for p := 1; p < 1<<k; p++ {
				o := execute(root, events, p, false)
				c.Inc("states")
				c.Inc("transitions")
				c.Inc("evaluations")
				compare(c, root, events, p, live, o)
				nontrivial = true
			}
			if k > 0 {
				c.Outcome(fmt.Sprintf("depth=%d waiting=%v", k, live.waiting))
				if c.WantSample() && k == 2 {
					c.Sample(map[string]any{"flows": root.Flows.String(), "trigger": root.Trigger, "events": events, "patterns_compared": 1 << k, "last_sprint": trim(live.sprints[len(live.sprints)-1], 400)})
				}
			}
			for _, s := range live.sprints {
				for _, t := range eventTypes(s) {
					switch {
					case t == "ticket_opened":
						c.Fact("ticket_opened")
					case t == "webhook_called":
						c.Fact("webhook_called")
					case strings.HasPrefix(t, "error(cant-open-tickets"):
						c.Fact("batch_ticket_refused")
					case t == "flow_entered":
						c.Fact("flow_entered")
					}
				}
			}
			if live.err == "" && live.waiting && k < depth {
				for _, ev := range menuFor(root) {
					explore(append(append([]string{}, events...), ev))
				}
			}
		}
		explore(nil)
		if nontrivial {
			c.Inc("distinct_nontrivial")
		}
	}
}

func replayFn(c *mc.Ctx, raw json.RawMessage) (string, bool) {
	var rp replay
	if err := json.Unmarshal(raw, &rp); err != nil {
		return "bad replay: " + err.Error(), false
	}
	live := execute(&rp.Root, rp.Events, 0, true)
	o := execute(&rp.Root, rp.Events, rp.Pattern, false)
	before := c.NumViolationKeys()
	if live.fixFail != "" {
		return "fixpoint failure: " + live.fixFail, true
	}
	compare(c, &rp.Root, rp.Events, rp.Pattern, live, o)
	out := fmt.Sprintf("flows: %s\ntrigger=%s events=%v pattern=%b\nlive sprints: %v\nrestored sprints: %v\n", rp.Root.Flows.String(), rp.Root.Trigger, rp.Events, rp.Pattern, live.sprints, o.sprints)
	return out, c.NumViolationKeys() > before
}

func init() {
	mc.Register(&mc.Check{
		ID:    "C02",
		Level: "model_checking",
		Rule: "crash-point enumeration on the real engine: roots = canonical flow sets (<= 2(+1) nodes, containing a wait) over an action alphabet that reads non-persisted state (open_ticket/batch, call_webhook, @webhook/@legacy_extra in masked results only, now(), parent/child/input/resume context, sub-flows) x 5 trigger kinds (incl. batch and flow_action); " +
			"every resume history up to depth 3/4 over {msg a, msg zz, wait_timeout, run_expiration} x EVERY subset of its waits at which the host restarts (marshal + ReadSession): 2^k patterns, each compared byte-for-byte (events, segments, session JSON) with the never-restart execution; marshal/read/marshal fixpoint at every wait. " +
			"states = (history, restart-pattern) executions; distinct_nontrivial = roots with at least one resume.",
		Assumptions: []string{"@webhook and @legacy_extra appear only in results named masked_*, whose values are masked and never routed on", "restarting does not consume clock ticks or UUIDs (otherwise byte comparison would be too strict; none observed)"},
		Run:         run,
		Replay:      replayFn,
		Budget:      map[string]time.Duration{"quick": 8 * time.Minute, "thorough": 30 * time.Minute},
		Guards: func(r *mc.Result, tier string) []string {
			var f []string
			for _, fact := range []string{"ticket_opened", "webhook_called", "batch_ticket_refused", "flow_entered"} {
				if r.Facts[fact] == 0 {
					f = append(f, "never observed: "+fact)
				}
			}
			if r.Counters["differential_comparisons"] == 0 {
				f = append(f, "no differential comparisons")
			}
			return f
		},
	})
}
