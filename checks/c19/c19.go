// Package c19: (not built yet)
package c19
