// Package c19: redacted URNs are invisible to expressions (non-interference on every reachable
// expression context).
package c19

import (
	"encoding/json"
	"fmt"
	"sort"
	"strings"
	"time"

	"github.com/nyaruka/goflow/contactql"
	"github.com/nyaruka/goflow/envs"
	"github.com/nyaruka/goflow/excellent/functions"
	"github.com/nyaruka/goflow/excellent/types"
	"github.com/nyaruka/goflow/flows"
	"verif/checks/sm"
	"verif/mc"
	"verif/world"
)

func init() {
	// saves what expressions can see of URNs into results, so that later steps read them back
	world.ActionSets["saveurn"] = func(f, i int) []any {
		// one result per context area: a failing lookup (no parent, no child, no input) only loses its own result
		return []any{
			world.J{"uuid": world.ActUUID(f, i, 0), "type": "set_run_result", "name": "Seen",
				"value": "@urns.tel|@contact.urn|@(format_urn(contact.urn))|@contact|@(urn_parts(contact.urn).path)"},
			world.J{"uuid": world.ActUUID(f, i, 2), "type": "set_run_result", "name": "Seen Input", "value": "@input.urn"},
			world.J{"uuid": world.ActUUID(f, i, 3), "type": "set_run_result", "name": "Seen Parent", "value": "@parent.urns.tel|@parent.contact.urn"},
			world.J{"uuid": world.ActUUID(f, i, 4), "type": "set_run_result", "name": "Seen Child", "value": "@child.contact.urn|@child.urns.tel"},
			world.J{"uuid": world.ActUUID(f, i, 1), "type": "send_msg", "text": "@contact @contact.urn @contact.urns @urns @(json(urns)) @(json(input)) @parent.urns @parent.contact.urn @(json(trigger))"},
		}
	}
	world.ActionSets["chan"] = func(f, i int) []any {
		return []any{world.J{"uuid": world.ActUUID(f, i, 0), "type": "set_contact_channel", "channel": world.J{"uuid": world.ChanTel, "name": "Tel"}}}
	}
	world.ActionSets["addurn"] = func(f, i int) []any {
		return []any{world.J{"uuid": world.ActUUID(f, i, 0), "type": "add_contact_urn", "scheme": "tel", "path": "@input.text"}}
	}
}

var kinds = []string{"A:saveurn", "A:chan", "A:addurn", "Eo", "Es", "W"}

// the two worlds differ only in URN paths and display names (same schemes, same country)
type twin struct {
	tel, tel2, twitterid, msgURN, parentTel, refreshedTel, nameless string
}

var twins = [2]twin{
	{tel: "tel:+12065551212", tel2: "tel:+12065553434", twitterid: "twitterid:111#ann", msgURN: "tel:+12065551212", parentTel: "tel:+12065553333", refreshedTel: "tel:+12065557777"},
	{tel: "tel:+12025559876", tel2: "tel:+12025550101", twitterid: "twitterid:222#bob", msgURN: "tel:+12025559876", parentTel: "tel:+12025554444", refreshedTel: "tel:+12025558888"},
}

// assets: two tel channels whose match prefixes tell the twins' numbers apart (206 vs 202)
func assetsWith(flowDefs []any) world.J {
	a := world.BaseAssets()
	a["channels"] = []any{
		world.J{"uuid": world.ChanTel, "name": "Tel", "address": "+12065550000", "schemes": []any{"tel"}, "roles": []any{"send", "receive"}, "country": "US", "match_prefixes": []any{"1206"}},
		world.J{"uuid": world.ChanTel2, "name": "Tel Two", "address": "+12025550000", "schemes": []any{"tel"}, "roles": []any{"send", "receive"}, "country": "US", "match_prefixes": []any{"1202"}},
		world.J{"uuid": world.ChanTwitter, "name": "Twitter", "address": "nyaruka", "schemes": []any{"twitterid"}, "roles": []any{"send", "receive"}},
	}
	a["flows"] = flowDefs
	return a
}

type rootSpec struct {
	Flows    world.FlowSet `json:"flows"`
	Trigger  string        `json:"trigger"`
	Policy   string        `json:"policy"`
	Nameless bool          `json:"nameless"`
	NoID     bool          `json:"no_id"`            // the contact has no id (unsaved / simulator contacts)
	Pinned   bool          `json:"pinned"`           // the contact's tel URN is already pinned to a channel
	MsgOther bool          `json:"msg_other_scheme"` // messages arrive from the contact's twitterid URN instead of tel
	Coincide bool          `json:"coincide"`         // in the second twin the two tel URNs have the same path (in the first they differ)
}

func (rs *rootSpec) world(t twin) *world.Root {
	env := world.DefaultEnv()
	env["redaction_policy"] = rs.Policy
	tel := t.tel
	if rs.Pinned {
		tel += "?channel=" + world.ChanTel
	}
	tel2 := t.tel2
	if rs.Coincide && t == twins[1] {
		tel2 = t.tel // whether two paths are equal is also something the paths say
	}
	contact := world.J{"uuid": world.UUID("contact"), "id": 1234, "name": "Ann", "language": "eng", "status": "active",
		"created_on": "2020-01-01T12:00:00.000000000Z", "urns": []any{tel, t.twitterid, tel2}}
	if rs.Nameless {
		delete(contact, "name")
	}
	if rs.NoID {
		delete(contact, "id")
	}
	parent := world.ParentSummary()
	parent["contact"].(world.J)["urns"] = []any{t.parentTel}
	refreshed := world.RefreshedContact()
	refreshed["urns"] = []any{t.refreshedTel}
	fs := rs.Flows
	msgURN := t.msgURN
	if rs.MsgOther {
		msgURN = t.twitterid
	}
	return &world.Root{Assets: assetsWith(world.RenderFlows(fs)), Trigger: rs.Trigger, Contact: contact, Env: env,
		Opt: world.Options{MaxSteps: 8}, MsgURN: msgURN, Parent: parent, Refreshed: refreshed}
}

func (rs *rootSpec) String() string {
	return fmt.Sprintf("%s | trigger=%s policy=%s nameless=%v no-id=%v pinned=%v msg-other-scheme=%v coincide=%v", rs.Flows.String(), rs.Trigger, rs.Policy, rs.Nameless, rs.NoID, rs.Pinned, rs.MsgOther, rs.Coincide)
}

type replay struct {
	Spec rootSpec     `json:"spec"`
	Hist []world.Step `json:"history"`
}

func hasKind(fs world.FlowSet, pred func(string) bool) bool {
	for _, f := range fs.Flows {
		for _, n := range f.Nodes {
			if pred(n.Kind) {
				return true
			}
		}
	}
	return false
}

func specs(tier string) []rootSpec {
	var out []rootSpec
	sets := world.EnumFlowSets(kinds, 2, 1)
	for _, fs := range sets {
		// only flows that look at URNs at all
		if !hasKind(fs, func(k string) bool { return k == "A:saveurn" }) {
			continue
		}
		for _, tr := range []string{"manual", "msg", "flow_action"} {
			for _, pol := range []string{"urns", "none"} {
				out = append(out, rootSpec{Flows: fs, Trigger: tr, Policy: pol})
			}
		}
		out = append(out, rootSpec{Flows: fs, Trigger: "msg", Policy: "urns", Nameless: true})
		out = append(out, rootSpec{Flows: fs, Trigger: "manual", Policy: "urns", Nameless: true, NoID: true})
		out = append(out, rootSpec{Flows: fs, Trigger: "manual", Policy: "urns", Pinned: true})
		out = append(out, rootSpec{Flows: fs, Trigger: "msg", Policy: "urns", MsgOther: true})
		out = append(out, rootSpec{Flows: fs, Trigger: "manual", Policy: "urns", Coincide: true})
	}
	return out
}

// twinText replaces everything twin-specific that is *allowed* to differ in a dump by the same
// placeholder? No: nothing is allowed to differ under redaction, so dumps are compared verbatim.

// leaves returns the fully forced context of an execution.
func leaves(x *world.Exec) []sm.ContextLeaf {
	ctx := x.Session.CurrentContext()
	if ctx == nil {
		return nil
	}
	return sm.WalkContext(x.Session.MergedEnvironment(), ctx, nil, 7)
}

// pathClass turns a context path into a signature component: indices and keys generalised.
func pathClass(p string) string {
	var sb strings.Builder
	inIdx := false
	for _, r := range p {
		switch {
		case r == '[':
			inIdx = true
			sb.WriteString("[i]")
		case r == ']':
			inIdx = false
		case inIdx:
		default:
			sb.WriteRune(r)
		}
	}
	return sb.String()
}

// sourceClass maps a differing context path to the object it originates from, so that one leak has
// one signature: leaf and rendering suffixes are dropped, the contact reached through run/child/
// parent is the same code as the session contact, and ancestors' renderings (which embed their
// children) are attributed to "rendering-of-ancestor".
func sourceClass(p string) string {
	p = pathClass(p)
	for _, suf := range []string{".__render__", ".__default__", ".__count__"} {
		p = strings.TrimSuffix(p, suf)
	}
	for _, pre := range []string{".run.contact", ".child.contact", ".parent.contact"} {
		if strings.HasPrefix(p, pre) {
			p = ".contact" + strings.TrimPrefix(p, pre)
		}
	}
	for _, pre := range []string{".run.results", ".child.results", ".parent.results"} {
		if strings.HasPrefix(p, pre) {
			p = ".results" + strings.TrimPrefix(p, pre)
		}
	}
	switch {
	case strings.HasPrefix(p, ".contact.channel"):
		return "contact.channel"
	case strings.HasPrefix(p, ".contact.urn"), strings.HasPrefix(p, ".urns"):
		return "contact.urns"
	case strings.HasPrefix(p, ".results"):
		return "results(saved-from-an-earlier-template)"
	case strings.HasPrefix(p, ".input"):
		return "input" + strings.TrimPrefix(p, ".input")
	case p == "" || p == ".contact" || p == ".run" || p == ".child" || p == ".parent":
		return "rendering-of-ancestor" + p
	}
	return strings.TrimPrefix(p, ".")
}

// templateOutputs lists what templates produced in the last sprint: message texts and quick replies
// and saved result values (the msg's own urn field is routing data, not template output).
func templateOutputs(x *world.Exec) []string {
	var out []string
	for _, e := range x.Sprint.Events() {
		b, _ := json.Marshal(e)
		var ev map[string]any
		json.Unmarshal(b, &ev)
		switch ev["type"] {
		case "msg_created":
			if m, ok := ev["msg"].(map[string]any); ok {
				out = append(out, fmt.Sprintf("msg_created.text=%v", m["text"]))
			}
		case "run_result_changed":
			out = append(out, fmt.Sprintf("run_result_changed.value=%v|%v", ev["name"], ev["value"]))
		case "error":
			out = append(out, fmt.Sprintf("error.text=%v", ev["text"]))
		}
	}
	return out
}

func trunc(s string, n int) string {
	if len(s) > n {
		return s[:n] + "…"
	}
	return s
}

var corpusFuncs []string

func corpus() []string {
	if corpusFuncs == nil {
		for name := range functions.XFUNCTIONS {
			corpusFuncs = append(corpusFuncs, name)
		}
		sort.Strings(corpusFuncs)
	}
	return corpusFuncs
}

// envFacts is everything a function can read from the environment.
func envFacts(env envs.Environment) string {
	return fmt.Sprintf("country=%s locale=%v tz=%s df=%s tf=%s langs=%v policy=%s", env.DefaultCountry(), env.DefaultLocale(), env.Timezone(), env.DateFormat(), env.TimeFormat(), env.AllowedLanguages(), env.RedactionPolicy())
}

func judge(c *mc.Ctx, rs *rootSpec, hist []world.Step, doCorpus bool, count bool) []sm.Problem {
	var ps []sm.Problem
	add := func(key, what string, args ...any) {
		ps = append(ps, sm.Problem{Key: key, What: fmt.Sprintf(what, args...)})
	}
	var xs [2]*world.Exec
	for i := range twins {
		t := sm.Replay(rs.world(twins[i]), hist)
		if t.HarnessErr != nil {
			add("harness:"+mc.Hash(t.HarnessErr.Error()), "harness (twin %d): %v", i, t.HarnessErr)
			return ps
		}
		if t.Panic != "" {
			add("panic:"+mc.PanicSite(t.Panic), "twin %d panicked: %s", i, t.Panic)
			return ps
		}
		xs[i] = t.X
	}
	if (xs[0].Err != nil) != (xs[1].Err != nil) {
		add("twins-diverge:go-error", "one twin returned a Go error: %v / %v", xs[0].Err, xs[1].Err)
		return ps
	}
	if xs[0].Err != nil {
		return ps
	}
	la, lb := leaves(xs[0]), leaves(xs[1])
	// the policy in force is the one of the session's CURRENT environment (a resume may have changed it)
	redacted := xs[0].Session.Environment().RedactionPolicy() == envs.RedactionPolicyURNs
	if redacted != (xs[1].Session.Environment().RedactionPolicy() == envs.RedactionPolicyURNs) {
		add("twins-diverge:redaction-policy", "the twins report different redaction policies")
	}
	// the oracle's own account of the policy: a resume that was accepted (no error above) and carried
	// an environment with the policy switched on puts the policy in force, whatever the session reports
	if last := hist[len(hist)-1].Ev; len(hist) > 1 && strings.HasPrefix(last, "env:urns") && !redacted {
		add("resume-environment-not-in-force:redaction-policy", "the resume %q was accepted and carried an environment whose redaction policy hides URNs, but the session's environment still reports policy %q", last, xs[0].Session.Environment().RedactionPolicy())
		redacted = true
	}
	differs := 0
	firstDiff := ""
	ctxSources := map[string]bool{} // sources of difference the context walk already reported
	n := len(la)
	if len(lb) < n {
		n = len(lb)
	}
	for i := 0; i < n; i++ {
		if la[i] != lb[i] {
			differs++
			if firstDiff == "" {
				firstDiff = la[i].Path
				if la[i].Path != lb[i].Path {
					firstDiff = "shape:" + la[i].Path
				}
			}
			if cl := sourceClass(la[i].Path); redacted && rs.Policy == "none" && (strings.HasPrefix(cl, "results(") || strings.HasPrefix(cl, "rendering-of-ancestor")) {
				// the policy was switched on mid-session: a result saved BEFORE the switch legitimately
				// holds what expressions could see then; what templates produce AFTER the switch is
				// compared directly below (sprint outputs)
				if count {
					c.Inc("stale_results_not_judged")
				}
				continue
			}
			if redacted {
				ctxSources[sourceClass(la[i].Path)] = true
				add("context-depends-on-urn:"+sourceClass(la[i].Path), "under redaction the context differs between twins at %s:\n  twin A: %s\n  twin B: %s", la[i].Path, la[i].Value, lb[i].Value)
			}
		}
	}
	if len(la) != len(lb) {
		differs++
		if redacted {
			add("context-shape-depends-on-urn", "under redaction the context trees have different sizes: %d vs %d leaves", len(la), len(lb))
		}
	}
	// what the templates of the LAST sprint produced (message texts, saved result values) must be
	// identical for the twins when the policy was in force during that sprint
	if redacted && xs[0].Sprint != nil && xs[1].Sprint != nil {
		oa, ob := templateOutputs(xs[0]), templateOutputs(xs[1])
		if count {
			c.Add("sprint_template_outputs_compared", int64(len(oa)))
		}
		for i := 0; i < len(oa) && i < len(ob); i++ {
			if oa[i] != ob[i] {
				kind := strings.SplitN(oa[i], "=", 2)[0]
				add("sprint-output-depends-on-urn:"+kind, "under redaction a template of the last sprint produced different output for the twins:\n  twin A: %s\n  twin B: %s", trunc(oa[i], 300), trunc(ob[i], 300))
				break
			}
		}
		if len(oa) != len(ob) {
			add("sprint-output-depends-on-urn:count", "under redaction the twins' last sprints produced %d vs %d template outputs", len(oa), len(ob))
		}
	}
	ea, eb := envFacts(xs[0].Session.MergedEnvironment()), envFacts(xs[1].Session.MergedEnvironment())
	if ea != eb {
		add("environment-differs-between-twins", "environment facts differ: %s / %s", ea, eb)
	}
	if count {
		c.Add("context_leaves_compared", int64(n))
		if redacted {
			c.Fact("redacted_state")
		} else if differs > 0 {
			c.Fact("unredacted_twins_differ")
		}
		c.Outcome(fmt.Sprintf("policy-in-force-redacts=%v twins-differ=%v", redacted, differs > 0))
		if redacted && rs.Policy == "none" {
			c.Fact("redaction_switched_on_by_a_resume")
		}
	}
	if !redacted && differs == 0 && len(la) > 0 {
		// without the policy expressions do see the URNs
		add("unredacted-context-does-not-see-urns", "without the redaction policy the twins' contexts are identical: expressions do not see the URNs")
	}
	// nameless contacts are shown by id under redaction
	if redacted && rs.Nameless && xs[0].Session.Contact() != nil && xs[0].Session.Contact().Name() == "" {
		for _, l := range la {
			if l.Path == ".contact.__default__" {
				if count {
					c.Fact("nameless_formatted")
				}
				want := "1234"
				if rs.NoID {
					want = "0"
				}
				if l.Value != want {
					add("nameless-contact-not-shown-by-id", "a contact without a name formats as %q under redaction, expected its id %s", l.Value, want)
				}
			}
		}
	}
	// second, independent layer: a generated corpus of templates over every context path x every
	// function with one argument
	if doCorpus {
		ctxA, ctxB := xs[0].Session.CurrentContext(), xs[1].Session.CurrentContext()
		if ctxA != nil && ctxB != nil {
			envA, envB := xs[0].Session.MergedEnvironment(), xs[1].Session.MergedEnvironment()
			paths := map[string]bool{}
			for _, l := range la {
				p := strings.TrimPrefix(l.Path, ".")
				for _, suf := range []string{".__render__", ".__default__", ".__count__"} {
					p = strings.TrimSuffix(p, suf)
				}
				if p != "" && !strings.Contains(p, " ") {
					paths[p] = true
				}
			}
			var plist []string
			for p := range paths {
				plist = append(plist, p)
			}
			sort.Strings(plist)
			ev := xs[0].Eng.Evaluator()
			for _, p := range plist {
				tpls := []string{"@(" + p + ")", "@(json(" + p + "))"}
				for _, f := range corpus() {
					tpls = append(tpls, "@("+f+"("+p+"))")
				}
				for _, tpl := range tpls {
					var oa, ob string
					pa := mc.Guard(func() { oa, _, _ = ev.Template(envA, ctxA, tpl, nil) })
					pb := mc.Guard(func() { ob, _, _ = ev.Template(envB, ctxB, tpl, nil) })
					if count {
						c.Inc("corpus_templates")
					}
					if redacted && (oa != ob || (pa != "") != (pb != "")) {
						fn := "path"
						if i := strings.Index(tpl[2:], "("); i > 0 {
							fn = tpl[2 : 2+i]
						}
						src := sourceClass("." + p)
						// the corpus is an independent second layer: what the context walk already reported
						// for this state (or an ancestor's rendering embedding it) is not reported twice
						if ctxSources[src] || (strings.HasPrefix(src, "rendering-of-ancestor") && len(ctxSources) > 0) {
							continue
						}
						// as in the context walk: when the policy was switched on mid-session, a result saved
						// before the switch (and renderings embedding it) legitimately holds what expressions
						// could see then
						if rs.Policy == "none" && (strings.HasPrefix(src, "results(") || strings.HasPrefix(src, "rendering-of-ancestor")) {
							if count {
								c.Inc("stale_results_not_judged")
							}
							continue
						}
						_ = fn
						add("template-depends-on-urn:"+src, "under redaction template %s evaluates differently for the twins: %q vs %q", tpl, oa, ob)
					}
				}
			}
		}
	}
	return ps
}

func run(c *mc.Ctx) {
	ss := specs(c.Tier)
	depth := 2
	if c.Thorough() {
		depth = 3
	}
	for i := range ss {
		if !c.Mine(i) {
			continue
		}
		if c.Expired() {
			c.Cap("time budget reached; every root before the cap was explored completely")
			break
		}
		rs := &ss[i]
		rootA := rs.world(twins[0])
		nstates := 0
		events := []string{"msg:+12065550199", "refresh:a", "expire"}
		regimes := []bool{true}
		if rs.Policy == "none" && rs.Trigger == "manual" {
			// the policy is switched on while the session waits, by a resume carrying the new
			// environment: on the live object as well as on a restored one
			events = append(events, "env:urns:a")
			regimes = []bool{true, false}
		}
		cfg := sm.Cfg{Ctx: c, Depth: depth, Events: events, Regimes: regimes, ChoiceBound: 0}
		cfg.OnNewState = func(t *sm.Trans) {
			nstates++
			// corpus layer: all states in the thorough tier, the start state of every 8th root in quick
			doCorpus := (c.Thorough() && i%4 == 0) || (i%64 == 0 && len(t.Hist) <= 2 && nstates <= 2)
			c.Inc("evaluations")
			c.Inc("twin_states")
			for _, p := range judge(c, rs, t.Hist, doCorpus, true) {
				c.Violation(p.Key, p.What+"\nroot: "+rs.String()+"\nhistory: "+mc.JSON(t.Hist), replay{Spec: *rs, Hist: t.Hist})
			}
			if c.WantSample() && len(t.Hist) == 2 {
				c.Sample(map[string]any{"root": rs.String(), "history": t.Hist})
			}
		}
		st := sm.Search(rootA, cfg)
		c.Inc("roots")
		c.Add("states", int64(st.States))
		c.Add("transitions", int64(st.Transitions))
		if st.States > 1 {
			c.Inc("distinct_nontrivial")
		}
	}
	if c.Shard == 0 {
		for _, p := range judgeQueries(c) {
			c.Violation(p.Key, p.What, map[string]any{"queries": true})
		}
	}
}

// judgeQueries: contact queries on URNs are rejected under redaction and accepted without it.
func judgeQueries(c *mc.Ctx) []sm.Problem {
	var ps []sm.Problem
	sa, _, err := world.BuildAssets(assetsWith([]any{}))
	if err != nil {
		return []sm.Problem{{Key: "harness:assets", What: err.Error()}}
	}
	mkEnv := func(pol string) envs.Environment {
		e := world.DefaultEnv()
		e["redaction_policy"] = pol
		b, _ := json.Marshal(e)
		env, _ := envs.ReadEnvironment(b)
		return env
	}
	red, plain := mkEnv("urns"), mkEnv("none")
	props := []string{"urn", "tel", "twitter", "twitterid", "whatsapp", "mailto", "facebook", "telegram", "urns.tel", "urns.twitterid", "urns.whatsapp"}
	ops := []string{"=", "!=", "~"}
	for _, p := range props {
		for _, op := range ops {
			for _, val := range []string{"12065551212", "ann", `"206"`} {
				q := fmt.Sprintf("%s %s %s", p, op, val)
				c.Inc("urn_queries")
				_, errR := contactql.ParseQuery(red, q, sa.Fields())
				_, errP := contactql.ParseQuery(plain, q, sa.Fields())
				form := "bare-scheme"
				if p == "urn" {
					form = "urn-attribute"
				} else if strings.HasPrefix(p, "urns.") {
					form = "urns-prefix"
				}
				if errR == nil {
					ps = append(ps, sm.Problem{Key: "query-on-urns-accepted-under-redaction:" + form, What: "query `" + q + "` is accepted under the URN redaction policy"})
				}
				if errP != nil && op != "~" {
					ps = append(ps, sm.Problem{Key: "query-on-urns-rejected-without-redaction:" + p, What: "query `" + q + "` is rejected without the policy: " + errP.Error()})
				}
				// inside a boolean combination too
				q2 := `name = "x" OR (` + q + `)`
				if _, err := contactql.ParseQuery(red, q2, sa.Fields()); err == nil {
					ps = append(ps, sm.Problem{Key: "query-on-urns-accepted-under-redaction:nested:" + form, What: "query `" + q2 + "` is accepted under the URN redaction policy"})
				}
			}
		}
	}
	// implicit conditions must not become URN conditions under redaction
	for _, q := range []string{"+12065551212", "12065551212", "tel:+12065551212", "twitter:ann", "0788123123"} {
		c.Inc("urn_queries")
		parsed, err := contactql.ParseQuery(red, q, sa.Fields())
		if err == nil {
			insp := contactql.Inspect(parsed)
			for _, sch := range insp.Schemes {
				ps = append(ps, sm.Problem{Key: "implicit-query-becomes-urn-condition-under-redaction", What: fmt.Sprintf("implicit query `%s` queries URN scheme %s under redaction (%s)", q, sch, parsed.String())})
			}
			for _, a := range insp.Attributes {
				if a == "urn" {
					ps = append(ps, sm.Problem{Key: "implicit-query-becomes-urn-condition-under-redaction", What: fmt.Sprintf("implicit query `%s` queries urn under redaction (%s)", q, parsed.String())})
				}
			}
		}
	}
	c.Fact("queries_checked")
	return ps
}

func replayFn(c *mc.Ctx, raw json.RawMessage) (string, bool) {
	var probe struct {
		Queries bool `json:"queries"`
	}
	json.Unmarshal(raw, &probe)
	var ps []sm.Problem
	out := ""
	if probe.Queries {
		ps = judgeQueries(c)
		out = "queries on URNs under both policies"
	} else {
		var rp replay
		if err := json.Unmarshal(raw, &rp); err != nil {
			return err.Error(), false
		}
		ps = judge(c, &rp.Spec, rp.Hist, true, false)
		out = "root: " + rp.Spec.String() + " history: " + mc.JSON(rp.Hist)
	}
	for _, p := range ps {
		out += "\nPROBLEM " + p.Key + ": " + p.What
	}
	return out, len(ps) > 0
}

var _ = types.XTextEmpty
var _ flows.Session

func init() {
	mc.Register(&mc.Check{
		ID:    "C19",
		Level: "model_checking",
		Rule: "non-interference checked on every reachable state: twin worlds that differ only in URN paths/display names (contact URNs, message URN, parent run's contact, refreshed contact; two tel channels whose match prefixes tell the twins' numbers apart) are driven in lockstep by a BFS over the real engine (canonical flow sets <= 2(+1) nodes over {save-what-expressions-see-of-URNs, set channel, add URN from input, sub-flows, waits} x {manual,msg,flow_action} x policies {urns,none}, nameless and channel-pinned variants; resumes {msg, msg with refreshed contact, run_expiration}; depth 2/3). " +
			"In every state the fully forced expression context (every property incl. deprecated ones and defaults, every lazy array element, Render and Format) and the environment facts must be identical under policy urns and must differ under policy none; a generated corpus (every context path x every registered function with one argument, plus json()) is evaluated on both twins as an independent layer; contact queries on URNs must be rejected under the policy. distinct_nontrivial = roots with more than one state.",
		Assumptions: []string{"evaluation is a pure function of context, environment and the harness-owned seams, so identical forced contexts imply identical template values", "the template corpus is evaluated on a subset of states (quick: the first two states of every 64th root; thorough: all states of every 4th root)"},
		Run:         run,
		Replay:      replayFn,
		Single:      sm.Single,
		SingleTicks: true,
		Classify:    sm.SkipHangs,
		HangLimit:   15 * time.Second,
		SingleLimit: 30 * time.Second,
		MaxBadCases: 2,
		MemLimitKB:  8 << 20,
		Budget:      map[string]time.Duration{"quick": 5 * time.Minute, "thorough": 25 * time.Minute},
		Guards: func(r *mc.Result, tier string) []string {
			var f []string
			for _, fact := range []string{"redacted_state", "unredacted_twins_differ", "nameless_formatted", "queries_checked", "redaction_switched_on_by_a_resume"} {
				if r.Facts[fact] == 0 {
					f = append(f, "never observed: "+fact)
				}
			}
			if r.Counters["corpus_templates"] == 0 {
				f = append(f, "template corpus not evaluated")
			}
			return f
		},
	})
}
