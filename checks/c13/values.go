package c13

import (
	"fmt"
	"math/big"
	"strings"
	"time"

	"github.com/nyaruka/gocommon/dates"
	"github.com/nyaruka/goflow/envs"
	"github.com/nyaruka/goflow/excellent/operators"
	"github.com/nyaruka/goflow/excellent/types"
	"github.com/nyaruka/goflow/flows"
	"github.com/shopspring/decimal"
	"verif/mc"
)

// ---------------------------------------------------------------------------------------------
// numbers
// ---------------------------------------------------------------------------------------------

var bigCoefs = []string{
	"9223372036854775807", "9223372036854775808", "18446744073709551615", "18446744073709551616",
	"99999999999999999999", "100000000000000000000", "123456789012345678901234567890", "100000000000000000000000000000",
}

func mustBig(s string) *big.Int {
	b, ok := new(big.Int).SetString(s, 10)
	if !ok {
		panic("c13: bad coefficient " + s)
	}
	return b
}

func numberCoefs() []*big.Int {
	var out []*big.Int
	for i := -1100; i <= 1100; i++ {
		out = append(out, big.NewInt(int64(i)))
	}
	for _, s := range bigCoefs {
		out = append(out, mustBig(s), new(big.Int).Neg(mustBig(s)))
	}
	return out
}

func expRange(tier string) (int32, int32) {
	if tier == "thorough" {
		return -400, 400
	}
	return -30, 30
}

var ten = big.NewInt(10)

// sameDec compares two decimals coefficient x 10^exponent with integer arithmetic only.
func sameDec(ac *big.Int, ae int32, bc *big.Int, be int32) bool {
	if ac.Sign() == 0 || bc.Sign() == 0 {
		return ac.Sign() == bc.Sign()
	}
	if ae > be {
		ac = new(big.Int).Mul(ac, new(big.Int).Exp(ten, big.NewInt(int64(ae-be)), nil))
	} else if be > ae {
		bc = new(big.Int).Mul(bc, new(big.Int).Exp(ten, big.NewInt(int64(be-ae)), nil))
	}
	return ac.Cmp(bc) == 0
}

func numShape(text string) string {
	s := ""
	if strings.HasPrefix(text, "-") {
		s = "negative-"
	}
	if strings.Contains(text, ".") {
		return s + "fraction"
	}
	return s + "integer"
}

func isTrue(v types.XValue) bool {
	b, ok := v.(*types.XBoolean)
	return ok && b.Native()
}

func describe(v types.XValue) string {
	if v == nil {
		return "nil"
	}
	return types.String(v)
}

func runNumbers(c *mc.Ctx, u *units) {
	es := newEnvSpec(dateFormats[0], timeFormats[0], "UTC")
	lo, hi := expRange(c.Tier)
	for _, coef := range numberCoefs() {
		if !u.mine() {
			continue
		}
		if expired(c, "numbers") {
			return
		}
		for e := lo; e <= hi; e++ {
			outcome, ps := evalNumber(c, es, coef, e)
			c.Inc("evaluations")
			c.Inc("numbers")
			c.Outcome(outcome)
			c.Inc("distinct_nontrivial")
			if len(ps) > 0 {
				report(c, ps, replay{Kind: "number", Coef: coef.String(), Exp: e})
			} else if c.WantSample() && e == -3 && coef.BitLen() > 64 {
				c.Sample(map[string]any{"kind": "number", "coef": coef.String(), "exp": e, "outcome": outcome})
			}
		}
	}
}

func evalNumber(c *mc.Ctx, es *envSpec, coef *big.Int, exp int32) (string, []problem) {
	n := types.NewXNumber(decimal.NewFromBigInt(coef, exp))
	var text string
	var back *types.XNumber
	var xerr *types.XError
	var fv *flows.Value
	var eqText, eqBack types.XValue
	pan := mc.Guard(func() {
		xt, e1 := types.ToXText(es.env, n)
		if e1 != nil {
			xerr = e1
			return
		}
		text = xt.Native()
		back, xerr = types.ToXNumber(es.env, xt)
		if text != "" {
			fv = flows.FieldValues{}.Parse(es.env, nil, nil, text)
		}
		eqText = operators.Equal(es.env, n, xt)
		if xerr == nil {
			eqBack = operators.Equal(es.env, n, back)
		}
	})
	id := fmt.Sprintf("number %se%d", coef.String(), exp)
	if pan != "" {
		return "number:panic", []problem{{"number:panic:" + mc.PanicSite(pan), id + " panicked: " + pan}}
	}
	if text == "" {
		return "number:empty-rendering", []problem{{"number:empty-rendering", id + " renders to the empty text"}}
	}
	shape := numShape(text)
	// coverage facts
	switch {
	case strings.Contains(text, "."):
		c.Fact("number:fraction")
		if strings.HasPrefix(strings.TrimPrefix(text, "-"), "0.") {
			c.Fact("number:leading-zero-fraction")
		}
	default:
		c.Fact("number:integer")
		if exp > 0 && coef.Sign() != 0 {
			c.Fact("number:integer-trailing-zeros")
		}
	}
	if coef.Sign() < 0 {
		c.Fact("number:negative")
	}
	if coef.Sign() == 0 && exp != 0 {
		c.Fact("number:zero-with-scale")
	}
	if coef.BitLen() > 64 {
		c.Fact("number:beyond-uint64")
	}
	var ps []problem
	if xerr != nil {
		ps = append(ps, problem{"number:rendering-not-readable:" + shape, fmt.Sprintf("%s renders to %q which does not convert back to a number: %v", id, text, xerr)})
		return "number:not-readable:" + shape, ps
	}
	bn := back.Native()
	if !sameDec(coef, exp, bn.Coefficient(), bn.Exponent()) {
		ps = append(ps, problem{"number:roundtrip-changed-value:" + shape, fmt.Sprintf("%s renders to %q which converts back to a different number %s", id, text, bn.String())})
	} else {
		if fv == nil || fv.Number == nil {
			ps = append(ps, problem{"field-parser:number-not-read:" + shape, fmt.Sprintf("%s renders to %q; ToXNumber reads it but the contact-field parser reads no number", id, text)})
		} else if fn := fv.Number.Native(); !sameDec(coef, exp, fn.Coefficient(), fn.Exponent()) {
			ps = append(ps, problem{"field-parser:number-differs-from-conversion", fmt.Sprintf("%s renders to %q; the contact-field parser reads %s", id, text, fn.String())})
		}
	}
	if !isTrue(eqText) {
		ps = append(ps, problem{"equal:value-not-equal-to-own-rendering:number", fmt.Sprintf("%s = %q (its own canonical rendering) evaluates to %s", id, text, describe(eqText))})
	}
	if !isTrue(eqBack) {
		ps = append(ps, problem{"equal:value-not-equal-to-roundtripped:number", fmt.Sprintf("%s = number(%q) evaluates to %s", id, text, describe(eqBack))})
	}
	return "number:ok:" + shape, ps
}

// pairs for the '=' operator
func pairNumbers() (coefs []*big.Int, exps []int32) {
	for _, s := range []string{"0", "1", "-1", "5", "10", "-10", "12", "15", "100", "1200", "123456789", "18446744073709551616"} {
		coefs = append(coefs, mustBig(s))
	}
	for e := int32(-6); e <= 6; e++ {
		exps = append(exps, e)
	}
	return
}

func runNumberPairs(c *mc.Ctx, u *units) {
	es := newEnvSpec(dateFormats[0], timeFormats[0], "UTC")
	coefs, exps := pairNumbers()
	for _, ac := range coefs {
		for _, ae := range exps {
			if !u.mine() {
				continue
			}
			if expired(c, "number pairs") {
				return
			}
			for _, bc := range coefs {
				for _, be := range exps {
					outcome, ps := evalNumberPair(c, es, ac, ae, bc, be)
					c.Inc("evaluations")
					c.Inc("number_pairs")
					c.Outcome(outcome)
					if len(ps) > 0 {
						report(c, ps, replay{Kind: "number-pair", Coef: ac.String(), Exp: ae, Coef2: bc.String(), Exp2: be})
					} else {
						c.Inc("distinct_nontrivial")
					}
				}
			}
		}
	}
}

func evalNumberPair(c *mc.Ctx, es *envSpec, ac *big.Int, ae int32, bc *big.Int, be int32) (string, []problem) {
	a := types.NewXNumber(decimal.NewFromBigInt(ac, ae))
	b := types.NewXNumber(decimal.NewFromBigInt(bc, be))
	var eq types.XValue
	var ra, rb string
	pan := mc.Guard(func() {
		eq = operators.Equal(es.env, a, b)
		ra, rb = a.Render(), b.Render()
	})
	id := fmt.Sprintf("%se%d = %se%d", ac, ae, bc, be)
	if pan != "" {
		return "number-pair:panic", []problem{{"equal:panic:" + mc.PanicSite(pan), id + " panicked: " + pan}}
	}
	same := sameDec(ac, ae, bc, be)
	sameText := ra == rb
	if same && (ae != be) {
		c.Fact("number:same-value-different-scale-pair")
	}
	if !same {
		c.Fact("number:different-value-pair")
	}
	var ps []problem
	if _, isBool := eq.(*types.XBoolean); !isBool {
		ps = append(ps, problem{"equal:not-a-boolean:number", id + " evaluates to " + describe(eq)})
	} else if isTrue(eq) != sameText {
		ps = append(ps, problem{"equal:disagrees-with-renderings:number", fmt.Sprintf("%s evaluates to %s but the canonical renderings are %q and %q", id, describe(eq), ra, rb)})
	}
	if same && !sameText {
		ps = append(ps, problem{"number:rendering-not-canonical", fmt.Sprintf("%s: the same number renders as %q and as %q", id, ra, rb)})
	}
	if !same && sameText {
		ps = append(ps, problem{"number:different-numbers-render-the-same", fmt.Sprintf("%s: different numbers both render as %q", id, ra)})
	}
	return fmt.Sprintf("number-pair:equal=%v", isTrue(eq)), ps
}

// ---------------------------------------------------------------------------------------------
// datetimes
// ---------------------------------------------------------------------------------------------

type gridSpec struct{ years, months, days, hours, minutes, seconds, nanos []int }

func gridOf(tier string) gridSpec {
	ny := fixedNow.Year()
	if tier == "thorough" {
		return gridSpec{
			years:   []int{1, 2, 99, 100, 999, 1000, 1582, 1850, 1883, 1899, 1900, 1901, 1969, 1970, 1999, 2000, ny - 1, ny, ny + 1, 2068, 2069, 2100, 9999},
			months:  []int{1, 2, 3, 6, 11, 12},
			days:    []int{1, 2, 12, 13, 28, 29, 30, 31},
			hours:   []int{0, 1, 9, 10, 11, 12, 13, 21, 23},
			minutes: []int{0, 1, 59},
			seconds: []int{0, 59},
			nanos:   []int{0, 1, 999, 1000, 999999000, 999999999},
		}
	}
	return gridSpec{
		years:   []int{1, 99, 100, 999, 1000, 1850, 1899, 1900, 1969, 1970, 1999, 2000, ny - 1, ny, ny + 1, 2068, 2069, 9999},
		months:  []int{1, 2, 12},
		days:    []int{1, 12, 13, 28, 29, 31},
		hours:   []int{0, 1, 11, 12, 13, 23},
		minutes: []int{0, 59},
		seconds: []int{0, 59},
		nanos:   []int{0, 1, 999999999},
	}
}

func daysIn(y, m int) int {
	return time.Date(y, time.Month(m)+1, 0, 0, 0, 0, 0, time.UTC).Day()
}

// trInstant is an instant near an offset transition of a zone.
type trInstant struct {
	t     time.Time
	zone  string
	label string // gap-last-instant-before | gap-first-instant-after | ""
}

var trDeltas = []time.Duration{-time.Hour, -30 * time.Minute, -61 * time.Second, -time.Second, -time.Nanosecond, 0,
	time.Second, 59 * time.Second, 30 * time.Minute, time.Hour - time.Nanosecond, time.Hour, 90 * time.Minute}

// transitions lists every instant 1800..2040 at which the UTC offset of the zone changes.
func transitions(tz *time.Location) []time.Time {
	var out []time.Time
	t := time.Date(1800, 1, 1, 0, 0, 0, 0, time.UTC)
	limit := time.Date(2040, 1, 1, 0, 0, 0, 0, time.UTC)
	for t.Before(limit) {
		_, end := t.In(tz).ZoneBounds()
		if end.IsZero() {
			break
		}
		if !end.After(t) { // defensive: never loop on a boundary that does not advance
			t = t.Add(48 * time.Hour)
			continue
		}
		_, before := end.Add(-time.Nanosecond).In(tz).Zone()
		_, after := end.In(tz).Zone()
		if before != after && end.Before(limit) {
			out = append(out, end)
		}
		t = end
	}
	return out
}

func transitionInstants(tzn string) []trInstant {
	tz := zone(tzn)
	var out []trInstant
	for _, tt := range transitions(tz) {
		_, before := tt.Add(-time.Nanosecond).In(tz).Zone()
		_, after := tt.In(tz).Zone()
		for _, d := range trDeltas {
			x := trInstant{t: tt.Add(d).In(tz), zone: tzn}
			if after > before && d == -time.Nanosecond {
				x.label = "gap-last-instant-before"
			}
			if after > before && d == 0 {
				x.label = "gap-first-instant-after"
			}
			out = append(out, x)
		}
	}
	return out
}

// foldInfo reports whether the wall-clock reading of t in tz is shared with another instant (the
// clock was set back across it) and, if so, whether t is the second occurrence.
func foldInfo(t time.Time, tz *time.Location) (ambiguous, second bool) {
	lt := t.In(tz)
	_, off := lt.Zone()
	start, end := lt.ZoneBounds()
	if !start.IsZero() {
		_, offPrev := start.Add(-time.Nanosecond).In(tz).Zone()
		if offPrev != off {
			t2 := lt.Add(time.Duration(off-offPrev) * time.Second)
			if _, o2 := t2.In(tz).Zone(); t2.Before(start) && o2 == offPrev {
				return true, true
			}
		}
	}
	if !end.IsZero() && end.After(lt) {
		_, offNext := end.In(tz).Zone()
		if offNext != off {
			t2 := lt.Add(time.Duration(off-offNext) * time.Second)
			if _, o2 := t2.In(tz).Zone(); !t2.Before(end) && o2 == offNext {
				return true, false
			}
		}
	}
	return false, false
}

func inDomain(t time.Time, tz *time.Location) bool {
	y := t.Year()
	if y < 1 || y > 9999 {
		return false
	}
	y = t.In(tz).Year()
	return y >= 1 && y <= 9999
}

func runDateTimes(c *mc.Ctx, u *units) {
	g := gridOf(c.Tier)
	zs := zonesOf(c.Tier)
	// calendar grid taken in each value zone, against every environment
	for _, vzn := range zs {
		vz := zone(vzn)
		for _, y := range g.years {
			for _, ezn := range zs {
				if !u.mine() {
					continue
				}
				if expired(c, "datetimes") {
					return
				}
				es := envsFor(ezn)
				for _, m := range g.months {
					dim := daysIn(y, m)
					for _, d := range g.days {
						if d > dim {
							continue
						}
						for _, h := range g.hours {
							for _, mi := range g.minutes {
								for _, s := range g.seconds {
									for _, ns := range g.nanos {
										t := time.Date(y, time.Month(m), d, h, mi, s, ns, vz)
										if t.Hour() != h { // the wall-clock reading does not exist in the value zone (gap)
											c.Inc("grid_points_in_a_gap_of_the_value_zone")
										}
										dateTimeCases(c, es, t, vzn, nil)
									}
								}
							}
						}
					}
				}
			}
		}
	}
	// instants around every offset transition of every zone, held in that zone and in UTC
	for _, zn := range zs {
		tis := transitionInstants(zn)
		c.Max("transitions:"+zn, int64(len(tis)/len(trDeltas)))
		for _, vzn := range []string{zn, "UTC"} {
			if vzn == "UTC" && zn == "UTC" {
				continue
			}
			for _, ezn := range zs {
				const chunk = 240
				for lo := 0; lo < len(tis); lo += chunk {
					if !u.mine() {
						continue
					}
					if expired(c, "datetimes") {
						return
					}
					es := envsFor(ezn)
					for i := lo; i < lo+chunk && i < len(tis); i++ {
						ti := tis[i]
						dateTimeCases(c, es, ti.t.In(zone(vzn)), vzn, &ti)
					}
				}
			}
		}
	}
}

func dateTimeCases(c *mc.Ctx, es []*envSpec, t time.Time, vzn string, tr *trInstant) {
	if !inDomain(t, es[0].tz) {
		c.Inc("instants_outside_years_1_9999_skipped")
		return
	}
	for _, e := range es {
		for _, form := range [2]string{"iso", "env"} {
			outcome, ps := evalDateTime(c, e, t, form, tr)
			c.Inc("evaluations")
			c.Outcome(outcome)
			if form == "iso" {
				c.Inc("datetime_iso_cases")
			} else {
				c.Inc("datetime_env_cases")
			}
			if len(ps) > 0 {
				report(c, ps, e.fill(replay{Kind: "datetime", Form: form, Unix: t.Unix(), Nanos: t.Nanosecond(), VZone: vzn}))
			}
			if form == "env" || e.first {
				c.Inc("distinct_nontrivial")
			}
		}
	}
}

// isoPrecision reads off an ISO datetime or time text how precisely it shows the time: the number
// of fraction digits after the seconds, else seconds, else minutes.
func isoPrecision(text string) time.Duration {
	rest := text
	if i := strings.IndexByte(text, 'T'); i >= 0 {
		rest = text[i+1:]
	}
	if len(rest) >= 8 && rest[2] == ':' && rest[5] == ':' {
		if len(rest) > 9 && rest[8] == '.' {
			n := 0
			for j := 9; j < len(rest) && rest[j] >= '0' && rest[j] <= '9'; j++ {
				n++
			}
			prec := time.Second
			for ; n > 0 && prec > 1; n-- {
				prec /= 10
			}
			return prec
		}
		return time.Second
	}
	return time.Minute
}

// truncateTo drops what a text of the given precision does not show, on the wall clock of t's zone.
func truncateTo(t time.Time, prec time.Duration) time.Time {
	if prec >= time.Minute {
		return t.Add(-time.Duration(t.Second())*time.Second - time.Duration(t.Nanosecond()))
	}
	return t.Add(-time.Duration(t.Nanosecond() % int(prec)))
}

func absDur(d time.Duration) time.Duration {
	if d < 0 {
		return -d
	}
	return d
}

func diffClass(d time.Duration) string {
	ad := absDur(d)
	switch {
	case ad < time.Second:
		return "sub-second"
	case ad < time.Minute:
		return "seconds"
	case ad < time.Hour:
		return "minutes"
	case ad == time.Hour:
		return "1-hour"
	case ad == 12*time.Hour:
		return "12-hours"
	case ad < 24*time.Hour:
		return "hours"
	}
	return "days-or-more"
}

func evalDateTime(c *mc.Ctx, es *envSpec, t time.Time, form string, tr *trInstant) (string, []problem) {
	d := types.NewXDateTime(t)
	var text string
	var p *types.XDateTime
	var xerr *types.XError
	var fv *flows.Value
	var eqText, eqBack types.XValue
	pan := mc.Guard(func() {
		if form == "iso" {
			xt, e1 := types.ToXText(es.env, d)
			if e1 != nil {
				xerr = e1
				return
			}
			text = xt.Native()
		} else {
			text = d.Format(es.env)
		}
		if text == "" {
			return
		}
		xt := types.NewXText(text)
		p, xerr = types.ToXDateTime(es.env, xt)
		fv = flows.FieldValues{}.Parse(es.env, nil, nil, text)
		if form == "iso" {
			eqText = operators.Equal(es.env, d, xt)
			if xerr == nil {
				eqBack = operators.Equal(es.env, d, p)
			}
		}
	})
	id := fmt.Sprintf("datetime %s [%s] in environment %s, %s form", t.Format("2006-01-02T15:04:05.000000000Z07:00:00"), t.Location(), es.label, form)
	if pan != "" {
		return "datetime:panic", []problem{{"datetime-" + form + ":panic:" + mc.PanicSite(pan), id + " panicked: " + pan}}
	}
	if text == "" {
		return "datetime:empty-rendering", []problem{{"datetime-" + form + ":empty-rendering", id + " renders to the empty text"}}
	}
	lt := t.In(es.tz)
	// coverage facts
	if lt.Year() < 1000 {
		c.Fact("year-below-1000")
	}
	if lt.Year() == 9999 {
		c.Fact("year-9999")
	}
	if t.Nanosecond()%1000 != 0 {
		c.Fact("sub-microsecond-nanos")
	}
	_, voff := t.Zone()
	if voff%60 != 0 {
		c.Fact("value-zone-offset-with-seconds")
	}
	if form == "env" {
		if es.h12 {
			if lt.Hour() == 0 {
				c.Fact("rendered-12am")
			} else if lt.Hour() == 12 {
				c.Fact("rendered-12pm")
			}
		} else {
			if lt.Hour() == 0 {
				c.Fact("rendered-midnight-24h")
			} else if lt.Hour() == 12 {
				c.Fact("rendered-noon-24h")
			}
		}
		if lt.Day() <= 12 {
			c.Fact("day-could-be-month")
		} else {
			c.Fact("day-cannot-be-month")
		}
		if lt.Month() == 2 && lt.Day() == 29 {
			c.Fact("feb-29")
		}
	}
	amb, second := false, false
	if tr != nil && form == "env" && tr.zone == es.tzn {
		amb, second = foldInfo(t, es.tz)
		if amb && second {
			c.Fact("fold-second-occurrence:" + es.tzn)
		} else if amb {
			c.Fact("fold-first-occurrence:" + es.tzn)
		}
		if tr.label != "" {
			c.Fact(tr.label + ":" + es.tzn)
		}
		if midnightMissing(lt.Year(), int(lt.Month()), lt.Day(), es.tz) {
			c.Fact("day-without-midnight:" + es.tzn)
		}
		if c.WantSample() && amb {
			c.Sample(map[string]any{"kind": "datetime", "form": form, "environment": es.label, "value": t.Format(time.RFC3339Nano), "rendered": text, "parsed_back": describe(p)})
		}
	}

	var ps []problem
	outcome := "datetime-" + form + ":ok"
	if xerr != nil {
		if form == "iso" {
			ps = append(ps, problem{"iso-render:not-readable", fmt.Sprintf("%s renders to %q which does not convert back: %v", id, text, xerr)})
		} else if lt.Year() < 1000 && es.df != envs.DateFormatYearMonthDay {
			ps = append(ps, problem{"env-format:year-below-1000-not-readable", fmt.Sprintf("%s renders to %q which does not convert back: %v", id, text, xerr)})
		} else {
			ps = append(ps, problem{"env-format:datetime-not-readable:" + string(es.df) + ":" + string(es.tf), fmt.Sprintf("%s renders to %q which does not convert back: %v", id, text, xerr)})
		}
		return "datetime-" + form + ":not-readable", ps
	}
	pt := p.Native()
	if form == "iso" {
		want := truncateTo(t, isoPrecision(text))
		if !pt.Equal(want) {
			diff := pt.Sub(want)
			if voff%60 != 0 && diff == time.Duration(voff%60)*time.Second {
				ps = append(ps, problem{"iso-render:zone-offset-has-seconds", fmt.Sprintf("%s renders to %q (the zone offset %s loses its seconds) which converts back to an instant %v away", id, text, t.Format("-07:00:00"), diff)})
				outcome = "datetime-iso:offset-seconds-lost"
			} else {
				ps = append(ps, problem{"iso-render:datetime-changed:" + diffClass(diff), fmt.Sprintf("%s renders to %q which converts back to %s, %v away from the original at microsecond precision", id, text, pt.Format(time.RFC3339Nano), diff)})
				outcome = "datetime-iso:changed"
			}
		}
		if !isTrue(eqText) {
			ps = append(ps, problem{"equal:value-not-equal-to-own-rendering:datetime", fmt.Sprintf("%s = %q (its own canonical rendering) evaluates to %s", id, text, describe(eqText))})
		}
		if !isTrue(eqBack) {
			ps = append(ps, problem{"equal:value-not-equal-to-roundtripped:datetime", fmt.Sprintf("%s = datetime(%q) evaluates to %s", id, text, describe(eqBack))})
		}
	} else {
		sub := time.Duration(lt.Nanosecond())
		if es.unit == time.Minute {
			sub += time.Duration(lt.Second()) * time.Second
		}
		want := lt.Add(-sub)
		if !pt.Equal(want) {
			backText := p.Format(es.env)
			_, offWant := want.Zone()
			_, offOrig := lt.Zone()
			pl := pt.In(es.tz)
			switch {
			case offWant != offOrig && backText == text:
				// an offset transition falls inside the truncated unit, so "the original at the rendered
				// precision" is not a single instant: any instant with the same reading is accepted
				c.Inc("offset_transition_inside_rendered_unit_accepted")
				outcome = "datetime-env:transition-inside-unit"
			case backText == text && foldAmbiguous(want, es.tz):
				ps = append(ps, problem{"env-format:dst-fold-ambiguous", fmt.Sprintf("%s renders to %q, a wall-clock reading that occurs twice in the zone; it converts back to the other occurrence %s (%v away)", id, text, pt.Format(time.RFC3339), pt.Sub(want))})
				outcome = "datetime-env:fold-other-occurrence"
			case midnightMissing(lt.Year(), int(lt.Month()), lt.Day(), es.tz) && sameYMD(pl, lt.AddDate(0, 0, -1)):
				ps = append(ps, problem{"date-parse:midnight-in-dst-gap-gives-previous-day", fmt.Sprintf("%s renders to %q; midnight of that day does not exist in the zone (DST gap) and the text converts back to the previous day: %s", id, text, pt.Format(time.RFC3339))})
				outcome = "datetime-env:previous-day"
			default:
				var cls string
				if !sameYMD(pl, lt) {
					switch {
					case int(pl.Month()) == lt.Day() && pl.Day() == int(lt.Month()):
						cls = "date-part:" + string(es.df) + ":day-month-swapped"
					case pl.Year() != lt.Year() && pl.Month() == lt.Month() && pl.Day() == lt.Day():
						cls = "date-part:" + string(es.df) + ":year"
					default:
						cls = "date-part:" + string(es.df) + ":other"
					}
				} else {
					cls = "time-part:" + string(es.tf) + ":" + diffClass(pt.Sub(want))
				}
				ps = append(ps, problem{"env-format:datetime-changed:" + cls, fmt.Sprintf("%s renders to %q which converts back to %s, %v away from the original at the rendered precision (%s)", id, text, pt.Format(time.RFC3339Nano), pt.Sub(want), want.Format(time.RFC3339Nano))})
				outcome = "datetime-env:changed"
			}
		}
	}
	// the contact-field parser must read what the conversion reads
	if fv == nil || fv.Datetime == nil {
		ps = append(ps, problem{"field-parser:datetime-not-read:" + form, fmt.Sprintf("%s renders to %q; ToXDateTime reads it but the contact-field parser reads no datetime", id, text)})
	} else if !fv.Datetime.Native().Equal(pt) {
		ps = append(ps, problem{"field-parser:datetime-differs-from-conversion:" + form, fmt.Sprintf("%s renders to %q; ToXDateTime reads %s, the contact-field parser %s", id, text, pt.Format(time.RFC3339Nano), fv.Datetime.Native().Format(time.RFC3339Nano))})
	}
	if len(ps) == 0 {
		if form == "iso" {
			c.Fact(es.fDtIso)
		} else {
			c.Fact(es.fDtEnv)
		}
	}
	return outcome, ps
}

func sameYMD(a, b time.Time) bool {
	return a.Year() == b.Year() && a.Month() == b.Month() && a.Day() == b.Day()
}

// midnightMissing reports whether 00:00 of the given day does not exist on the wall clock of tz.
func midnightMissing(y, m, d int, tz *time.Location) bool {
	t := time.Date(y, time.Month(m), d, 0, 0, 0, 0, tz)
	return t.Hour() != 0 || t.Minute() != 0 || t.Day() != d
}

func foldAmbiguous(t time.Time, tz *time.Location) bool {
	a, _ := foldInfo(t, tz)
	return a
}

// datetime pairs for '='
func pairInstants() []time.Time {
	base := time.Date(2021, 11, 7, 5, 30, 0, 0, time.UTC) // 01:30 EDT, first occurrence of a fold hour
	var out []time.Time
	for _, d := range []time.Duration{0, time.Nanosecond, 999 * time.Nanosecond, time.Microsecond, time.Second, time.Hour} {
		for _, z := range []string{"UTC", "America/New_York", "Asia/Kathmandu"} {
			out = append(out, base.Add(d).In(zone(z)))
		}
	}
	out = append(out, time.Date(1850, 6, 1, 12, 0, 0, 0, zone("America/New_York")), time.Date(1850, 6, 1, 12, 0, 2, 0, zone("America/New_York")),
		time.Date(1, 1, 2, 0, 0, 0, 0, time.UTC), time.Date(9999, 12, 30, 23, 59, 59, 999999999, time.UTC))
	return out
}

func runDateTimePairs(c *mc.Ctx, u *units) {
	es := newEnvSpec(dateFormats[2], timeFormats[1], "America/New_York")
	ins := pairInstants()
	for _, a := range ins {
		if !u.mine() {
			continue
		}
		for _, b := range ins {
			outcome, ps := evalDateTimePair(c, es, a, b)
			c.Inc("evaluations")
			c.Inc("datetime_pairs")
			c.Outcome(outcome)
			if len(ps) > 0 {
				report(c, ps, es.fill(replay{Kind: "datetime-pair", Unix: a.Unix(), Nanos: a.Nanosecond(), VZone: a.Location().String(), Unix2: b.Unix(), Nanos2: b.Nanosecond(), VZone2: b.Location().String()}))
			} else {
				c.Inc("distinct_nontrivial")
			}
		}
	}
}

func evalDateTimePair(c *mc.Ctx, es *envSpec, a, b time.Time) (string, []problem) {
	xa, xb := types.NewXDateTime(a), types.NewXDateTime(b)
	var eq types.XValue
	var ra, rb string
	pan := mc.Guard(func() {
		eq = operators.Equal(es.env, xa, xb)
		ra, rb = xa.Render(), xb.Render()
	})
	id := fmt.Sprintf("datetime %s = datetime %s", a.Format(time.RFC3339Nano), b.Format(time.RFC3339Nano))
	if pan != "" {
		return "datetime-pair:panic", []problem{{"equal:panic:" + mc.PanicSite(pan), id + " panicked: " + pan}}
	}
	if a.Equal(b) && a.Location() != b.Location() {
		c.Fact("datetime-pair:same-instant-different-zone")
	}
	if ra == rb {
		c.Fact("datetime-pair:same-rendering")
	}
	var ps []problem
	if _, isBool := eq.(*types.XBoolean); !isBool {
		ps = append(ps, problem{"equal:not-a-boolean:datetime", id + " evaluates to " + describe(eq)})
	} else if isTrue(eq) != (ra == rb) {
		ps = append(ps, problem{"equal:disagrees-with-renderings:datetime", fmt.Sprintf("%s evaluates to %s but the canonical renderings are %q and %q", id, describe(eq), ra, rb)})
	}
	return fmt.Sprintf("datetime-pair:equal=%v", isTrue(eq)), ps
}

// ---------------------------------------------------------------------------------------------
// dates and times of day
// ---------------------------------------------------------------------------------------------

func runDates(c *mc.Ctx, u *units) {
	g := gridOf(c.Tier)
	for _, y := range g.years {
		for _, zn := range zonesOf(c.Tier) {
			if !u.mine() {
				continue
			}
			if expired(c, "dates") {
				return
			}
			es := envsFor(zn)
			for m := 1; m <= 12; m++ {
				for d := 1; d <= daysIn(y, m); d++ {
					dt := dates.NewDate(y, m, d)
					for _, e := range es {
						for _, form := range [2]string{"iso", "env"} {
							outcome, ps := evalDate(c, e, dt, form)
							c.Inc("evaluations")
							c.Inc("date_cases")
							c.Outcome(outcome)
							if len(ps) > 0 {
								report(c, ps, e.fill(replay{Kind: "date", Form: form, Date: []int{y, m, d}}))
							}
							if form == "env" || e.first {
								c.Inc("distinct_nontrivial")
							}
						}
					}
				}
			}
		}
	}
}

func evalDate(c *mc.Ctx, es *envSpec, dt dates.Date, form string) (string, []problem) {
	d := types.NewXDate(dt)
	var text string
	var p *types.XDate
	var xerr *types.XError
	var eqText, eqBack types.XValue
	pan := mc.Guard(func() {
		if form == "iso" {
			xt, e1 := types.ToXText(es.env, d)
			if e1 != nil {
				xerr = e1
				return
			}
			text = xt.Native()
		} else {
			text = d.Format(es.env)
		}
		if text == "" {
			return
		}
		xt := types.NewXText(text)
		p, xerr = types.ToXDate(es.env, xt)
		if form == "iso" {
			eqText = operators.Equal(es.env, d, xt)
		}
		if xerr == nil {
			eqBack = operators.Equal(es.env, d, p)
		}
	})
	id := fmt.Sprintf("date %04d-%02d-%02d in environment %s, %s form", dt.Year, dt.Month, dt.Day, es.label, form)
	if pan != "" {
		return "date:panic", []problem{{"date-" + form + ":panic:" + mc.PanicSite(pan), id + " panicked: " + pan}}
	}
	if text == "" {
		return "date:empty-rendering", []problem{{"date-" + form + ":empty-rendering", id + " renders to the empty text"}}
	}
	var ps []problem
	if xerr != nil {
		switch {
		case form == "iso":
			ps = append(ps, problem{"iso-render:date-not-readable", fmt.Sprintf("%s renders to %q which does not convert back: %v", id, text, xerr)})
		case dt.Year < 1000 && es.df != envs.DateFormatYearMonthDay:
			ps = append(ps, problem{"env-format:year-below-1000-not-readable", fmt.Sprintf("%s renders to %q which does not convert back: %v", id, text, xerr)})
		default:
			ps = append(ps, problem{"env-format:date-not-readable:" + string(es.df), fmt.Sprintf("%s renders to %q which does not convert back: %v", id, text, xerr)})
		}
		return "date-" + form + ":not-readable", ps
	}
	outcome := "date-" + form + ":ok"
	if pd := p.Native(); pd.Year != dt.Year || pd.Month != dt.Month || pd.Day != dt.Day {
		cls := "other"
		prev := time.Date(dt.Year, dt.Month, dt.Day-1, 0, 0, 0, 0, time.UTC)
		if midnightMissing(dt.Year, int(dt.Month), dt.Day, es.tz) && pd.Year == prev.Year() && pd.Month == prev.Month() && pd.Day == prev.Day() {
			ps = append(ps, problem{"date-parse:midnight-in-dst-gap-gives-previous-day", fmt.Sprintf("%s renders to %q; midnight of that day does not exist in the zone (DST gap) and the text converts back to the previous day %s", id, text, pd.String())})
			return "date-" + form + ":previous-day", ps
		}
		if int(pd.Month) == dt.Day && pd.Day == int(dt.Month) {
			cls = "day-month-swapped"
		} else if pd.Month == dt.Month && pd.Day == dt.Day {
			cls = "year"
		}
		if form == "iso" {
			ps = append(ps, problem{"iso-render:date-changed:" + cls, fmt.Sprintf("%s renders to %q which converts back to %s", id, text, pd.String())})
		} else {
			ps = append(ps, problem{"env-format:date-changed:" + string(es.df) + ":" + cls, fmt.Sprintf("%s renders to %q which converts back to %s", id, text, pd.String())})
		}
		outcome = "date-" + form + ":changed"
	}
	if form == "iso" && !isTrue(eqText) {
		ps = append(ps, problem{"equal:value-not-equal-to-own-rendering:date", fmt.Sprintf("%s = %q (its own canonical rendering) evaluates to %s", id, text, describe(eqText))})
	}
	if outcome == "date-"+form+":ok" && !isTrue(eqBack) {
		ps = append(ps, problem{"equal:value-not-equal-to-roundtripped:date", fmt.Sprintf("%s = date(%q) evaluates to %s", id, text, describe(eqBack))})
	}
	if len(ps) == 0 {
		if form == "iso" {
			c.Fact(es.fDateIso)
		} else {
			c.Fact(es.fDateEnv)
		}
	}
	return outcome, ps
}

func timeGrid(tier string) (hours, minutes, seconds, nanos []int) {
	for h := 0; h < 24; h++ {
		hours = append(hours, h)
	}
	if tier == "thorough" {
		for m := 0; m < 60; m++ {
			minutes = append(minutes, m)
		}
		return hours, minutes, []int{0, 1, 9, 10, 30, 59}, []int{0, 1, 999, 1000, 100000000, 120000000, 999999000, 999999999}
	}
	return hours, []int{0, 1, 9, 10, 30, 59}, []int{0, 1, 9, 10, 59}, []int{0, 1, 1000, 120000000, 999999000, 999999999}
}

func runTimes(c *mc.Ctx, u *units) {
	hours, minutes, seconds, nanos := timeGrid(c.Tier)
	for _, h := range hours {
		for _, zn := range zonesOf(c.Tier) {
			if !u.mine() {
				continue
			}
			if expired(c, "times") {
				return
			}
			es := envsFor(zn)
			for _, m := range minutes {
				for _, s := range seconds {
					for _, ns := range nanos {
						tod := dates.NewTimeOfDay(h, m, s, ns)
						for _, e := range es {
							for _, form := range [2]string{"iso", "env"} {
								outcome, ps := evalTime(c, e, tod, form)
								c.Inc("evaluations")
								c.Inc("time_cases")
								c.Outcome(outcome)
								if len(ps) > 0 {
									report(c, ps, e.fill(replay{Kind: "time", Form: form, Time: []int{h, m, s, ns}}))
								}
								if form == "env" || e.first {
									c.Inc("distinct_nontrivial")
								}
							}
						}
					}
				}
			}
		}
	}
}

func evalTime(c *mc.Ctx, es *envSpec, tod dates.TimeOfDay, form string) (string, []problem) {
	x := types.NewXTime(tod)
	var text string
	var p *types.XTime
	var xerr *types.XError
	var eqText, eqBack types.XValue
	pan := mc.Guard(func() {
		if form == "iso" {
			xt, e1 := types.ToXText(es.env, x)
			if e1 != nil {
				xerr = e1
				return
			}
			text = xt.Native()
		} else {
			text = x.Format(es.env)
		}
		if text == "" {
			return
		}
		xt := types.NewXText(text)
		p, xerr = types.ToXTime(es.env, xt)
		if form == "iso" {
			eqText = operators.Equal(es.env, x, xt)
			if xerr == nil {
				eqBack = operators.Equal(es.env, x, p)
			}
		}
	})
	id := fmt.Sprintf("time %02d:%02d:%02d.%09d in environment %s, %s form", tod.Hour, tod.Minute, tod.Second, tod.Nanos, es.label, form)
	if pan != "" {
		return "time:panic", []problem{{"time-" + form + ":panic:" + mc.PanicSite(pan), id + " panicked: " + pan}}
	}
	if text == "" {
		return "time:empty-rendering", []problem{{"time-" + form + ":empty-rendering", id + " renders to the empty text"}}
	}
	var ps []problem
	if xerr != nil {
		if form == "iso" {
			ps = append(ps, problem{"iso-render:time-not-readable", fmt.Sprintf("%s renders to %q which does not convert back: %v", id, text, xerr)})
		} else {
			ps = append(ps, problem{"env-format:time-not-readable:" + string(es.tf), fmt.Sprintf("%s renders to %q which does not convert back: %v", id, text, xerr)})
		}
		return "time-" + form + ":not-readable", ps
	}
	want := tod
	switch {
	case form == "iso":
		switch prec := isoPrecision(text); {
		case prec >= time.Minute:
			want.Second, want.Nanos = 0, 0
		default:
			want.Nanos -= want.Nanos % int(prec)
		}
	case es.unit == time.Minute:
		want.Second, want.Nanos = 0, 0
	default:
		want.Nanos = 0
	}
	outcome := "time-" + form + ":ok"
	if pt := p.Native(); pt != want {
		secs := func(t dates.TimeOfDay) time.Duration {
			return time.Duration(t.Hour)*time.Hour + time.Duration(t.Minute)*time.Minute + time.Duration(t.Second)*time.Second + time.Duration(t.Nanos)
		}
		cls := diffClass(secs(pt) - secs(want))
		if form == "iso" {
			ps = append(ps, problem{"iso-render:time-changed:" + cls, fmt.Sprintf("%s renders to %q which converts back to %s", id, text, pt.String())})
		} else {
			ps = append(ps, problem{"env-format:time-changed:" + string(es.tf) + ":" + cls, fmt.Sprintf("%s renders to %q which converts back to %s, not the original at the rendered precision (%s)", id, text, pt.String(), want.String())})
		}
		outcome = "time-" + form + ":changed"
	}
	if form == "iso" {
		if !isTrue(eqText) {
			ps = append(ps, problem{"equal:value-not-equal-to-own-rendering:time", fmt.Sprintf("%s = %q (its own canonical rendering) evaluates to %s", id, text, describe(eqText))})
		}
		if !isTrue(eqBack) {
			ps = append(ps, problem{"equal:value-not-equal-to-roundtripped:time", fmt.Sprintf("%s = time(%q) evaluates to %s", id, text, describe(eqBack))})
		}
	}
	if len(ps) == 0 {
		if form == "iso" {
			c.Fact(es.fTimeIso)
		} else {
			c.Fact(es.fTimeEnv)
		}
	}
	return outcome, ps
}
