// Package c13: (not built yet)
package c13
