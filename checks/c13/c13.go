// Package c13: values survive their stored text and JSON forms.
//
// The check enumerates, exhaustively within stated grids, (1) decimals, (2) instants x value zone x
// environment, (3) calendar dates and times of day x environment, (4) JSON documents over a leaf/key
// alphabet and over a character alphabet, and (5) pairs of values for the '=' operator, and runs every case through the real
// render -> parse (or parse_json -> json) round trip of goflow. The oracle is written against the
// property statement only:
//
//   - number:   ToXNumber(ToXText(n)) is the same decimal as n (compared with big.Int arithmetic,
//     not with goflow's Equals); the contact-field parser (flows.FieldValues.Parse) reads the same
//     number from the same text.
//   - datetime: ToXDateTime(env, text) is the same instant as the original *truncated to what the text
//     shows*: as many fraction digits as the ISO text (Render) carries - six today -, minutes or seconds for the environment format
//     (Format(env)), the truncation being done on the wall clock of the zone the text was written in.
//     Instants whose year is outside 1..9999 in the value zone or the environment zone are outside the
//     statement's quantifier and are skipped (counted).
//     DST folds: the environment formats carry no offset, so in an hour the clock repeats both instants
//     render to one text and only one of them can come back. The statement quantifies over "all
//     instants ... in any timezone" and asks for "the same value", and "precision" is read as time
//     granularity, not as licence to lose the offset: the case is therefore reported - under its own
//     key env-format:dst-fold-ambiguous, only when the text read back is the identical wall-clock
//     reading and that reading provably occurs twice in the zone - as a genuine but inherent defect
//     (no repair short of changing the format). When an offset transition falls strictly inside the
//     truncated minute/second (LMT changes at odd seconds) "the original at the rendered precision"
//     is not one instant; any instant with the same reading is accepted (counted).
//   - date / time: likewise for XDate and XTime (ISO form and environment date resp. time format).
//   - JSON: json(parse_json(doc)) decodes (encoding/json, UseNumber) to the same tree as doc, where
//     objects are compared as key -> value maps in which the LAST duplicate key wins (ECMA-262
//     JSON.parse / encoding/json semantics; RFC 8259 leaves duplicates open, every mainstream reader
//     keeps the last), keys differing only in case are different keys, numbers are compared as
//     decimals (so 1E+2 == 100, 0.10 == 0.1, -0 == 0), strings as sequences of code points after
//     unescaping, a lone surrogate escape being read as U+FFFD (what encoding/json and every
//     UTF-8-based reader makes of it). A document that json.Valid accepts but parse_json rejects has not
//     survived either and is reported. Besides the structural family (every document shape over a few
//     strings) there is the character sweep (jsonchars.go: a few document shapes over every code point
//     of a stated set, in every written form, as member NAME, as string value and as both, at top level
//     and nested in objects and arrays) with the same oracle; its failure signatures carry the role and
//     the class of the swept character.
//   - '=':      operators.Equal(a, b) is true exactly when the canonical renderings (Render) of a and b
//     are the same text; a value equals its own rendering as text and the value parsed back from it;
//     for numbers the rendering is canonical: two decimals render to the same text exactly when they
//     are the same number.
package c13

import (
	"encoding/json"
	"fmt"
	"sort"
	"strings"
	"time"

	"github.com/nyaruka/gocommon/dates"
	"github.com/nyaruka/goflow/envs"
	"verif/mc"
)

// the clock goflow's date parser consults (two-digit-year pivot, time fill) is owned by the check
var fixedNow = time.Date(2026, 6, 15, 12, 30, 45, 123456789, time.UTC)

type problem struct{ key, what string }

// envSpec is one environment configuration: date format x time format x timezone.
type envSpec struct {
	df    envs.DateFormat
	tf    envs.TimeFormat
	tzn   string
	tz    *time.Location
	env   envs.Environment
	label string
	unit  time.Duration // precision the time format renders
	h12   bool
	first bool // first date/time format combination (used to count ISO cases honestly)
	// names of the "round trip succeeded" coverage facts
	fDtIso, fDtEnv, fDateIso, fDateEnv, fTimeIso, fTimeEnv string
}

var dateFormats = []envs.DateFormat{envs.DateFormatYearMonthDay, envs.DateFormatMonthDayYear, envs.DateFormatDayMonthYear}
var timeFormats = []envs.TimeFormat{envs.TimeFormatHourMinute, envs.TimeFormatHourMinuteAmPm, envs.TimeFormatHourMinuteSecond, envs.TimeFormatHourMinuteSecondAmPm}

var quickZones = []string{"UTC", "America/New_York", "Asia/Kathmandu", "Africa/Kigali", "Pacific/Apia", "America/Sao_Paulo"}
var thoroughZones = []string{"UTC", "America/New_York", "Asia/Kathmandu", "Africa/Kigali", "Pacific/Apia", "America/Sao_Paulo", "Australia/Lord_Howe"}

func zonesOf(tier string) []string {
	if tier == "thorough" {
		return thoroughZones
	}
	return quickZones
}

var zoneCache = map[string]*time.Location{}

func zone(name string) *time.Location {
	if z := zoneCache[name]; z != nil {
		return z
	}
	z, err := time.LoadLocation(name)
	if err != nil {
		panic("c13: timezone database lacks " + name + ": " + err.Error())
	}
	zoneCache[name] = z
	return z
}

var envCache = map[string]*envSpec{}

func newEnvSpec(df envs.DateFormat, tf envs.TimeFormat, tzn string) *envSpec {
	label := string(df) + "|" + string(tf) + "|" + tzn
	if e := envCache[label]; e != nil {
		return e
	}
	tz := zone(tzn)
	e := &envSpec{df: df, tf: tf, tzn: tzn, tz: tz, label: label,
		env: envs.NewBuilder().WithDateFormat(df).WithTimeFormat(tf).WithTimezone(tz).Build()}
	e.unit = time.Minute
	if strings.Contains(string(tf), "ss") {
		e.unit = time.Second
	}
	e.h12 = strings.Contains(string(tf), "aa")
	e.first = df == dateFormats[0] && tf == timeFormats[0]
	e.fDtIso, e.fDtEnv = "roundtrip-ok:datetime-iso:"+label, "roundtrip-ok:datetime-env:"+label
	e.fDateIso, e.fDateEnv = "roundtrip-ok:date-iso:"+label, "roundtrip-ok:date-env:"+label
	e.fTimeIso, e.fTimeEnv = "roundtrip-ok:time-iso:"+label, "roundtrip-ok:time-env:"+label
	envCache[label] = e
	return e
}

// envsFor returns the 12 date x time format environments of one zone.
func envsFor(tzn string) []*envSpec {
	var out []*envSpec
	for _, df := range dateFormats {
		for _, tf := range timeFormats {
			out = append(out, newEnvSpec(df, tf, tzn))
		}
	}
	return out
}

// replay is the artefact from which one case is re-executed.
type replay struct {
	Kind   string `json:"kind"` // number | number-pair | datetime | datetime-pair | date | time | json | json-char | json-pair
	Form   string `json:"form,omitempty"`
	DF     string `json:"date_format,omitempty"`
	TF     string `json:"time_format,omitempty"`
	TZ     string `json:"timezone,omitempty"`
	Coef   string `json:"coef,omitempty"`
	Exp    int32  `json:"exp,omitempty"`
	Coef2  string `json:"coef2,omitempty"`
	Exp2   int32  `json:"exp2,omitempty"`
	Unix   int64  `json:"unix,omitempty"`
	Nanos  int    `json:"nanos,omitempty"`
	VZone  string `json:"value_zone,omitempty"`
	Unix2  int64  `json:"unix2,omitempty"`
	Nanos2 int    `json:"nanos2,omitempty"`
	VZone2 string `json:"value_zone2,omitempty"`
	Date   []int  `json:"date,omitempty"`
	Time   []int  `json:"time,omitempty"`
	Doc    string `json:"doc,omitempty"`
	Doc2   string `json:"doc2,omitempty"`
	// json-char: the swept code point ("U+XXXX"), its written form (Form), its position in the string and the
	// place of the string in the document; Doc is the resulting document (informative, rebuilt on replay)
	Char string `json:"char,omitempty"`
	Pos  string `json:"position,omitempty"`
	Ctx  string `json:"context,omitempty"`
}

func (es *envSpec) fill(rp replay) replay {
	rp.DF, rp.TF, rp.TZ = string(es.df), string(es.tf), es.tzn
	return rp
}

func report(c *mc.Ctx, ps []problem, rp replay) {
	for _, p := range ps {
		c.Violation(p.key, p.what+"\ncase: "+mc.JSON(rp), rp)
	}
}

// units hands out work-unit numbers; a worker executes the units that are its own.
type units struct {
	c *mc.Ctx
	n int
}

func (u *units) mine() bool {
	m := u.c.Mine(u.n)
	u.n++
	return m
}

func run(c *mc.Ctx) {
	dates.SetNowFunc(dates.NewFixedNow(fixedNow))
	u := &units{c: c}
	runNumbers(c, u)
	runNumberPairs(c, u)
	runDateTimes(c, u)
	runDateTimePairs(c, u)
	runDates(c, u)
	runTimes(c, u)
	runJSON(c, u)
	runJSONChars(c, u)
	runJSONPairs(c, u)
	c.Max("work_units", int64(u.n))
}

func expired(c *mc.Ctx, part string) bool {
	if c.Expired() {
		c.Cap("time budget reached in part '" + part + "'; parts run in the fixed order numbers, number pairs, datetimes, datetime pairs, dates, times, JSON, JSON character sweep, JSON pairs and every work unit before the cap was enumerated completely")
		return true
	}
	return false
}

func replayFn(c *mc.Ctx, raw json.RawMessage) (string, bool) {
	dates.SetNowFunc(dates.NewFixedNow(fixedNow))
	var rp replay
	if err := json.Unmarshal(raw, &rp); err != nil {
		return "bad replay: " + err.Error(), false
	}
	var es *envSpec
	if rp.TZ != "" {
		es = newEnvSpec(envs.DateFormat(rp.DF), envs.TimeFormat(rp.TF), rp.TZ)
	} else {
		es = newEnvSpec(dateFormats[0], timeFormats[0], "UTC")
	}
	var ps []problem
	var outcome string
	switch rp.Kind {
	case "number":
		outcome, ps = evalNumber(c, es, mustBig(rp.Coef), rp.Exp)
	case "number-pair":
		outcome, ps = evalNumberPair(c, es, mustBig(rp.Coef), rp.Exp, mustBig(rp.Coef2), rp.Exp2)
	case "datetime":
		t := time.Unix(rp.Unix, int64(rp.Nanos)).In(zone(rp.VZone))
		outcome, ps = evalDateTime(c, es, t, rp.Form, nil)
	case "datetime-pair":
		a := time.Unix(rp.Unix, int64(rp.Nanos)).In(zone(rp.VZone))
		b := time.Unix(rp.Unix2, int64(rp.Nanos2)).In(zone(rp.VZone2))
		outcome, ps = evalDateTimePair(c, es, a, b)
	case "date":
		outcome, ps = evalDate(c, es, dates.NewDate(rp.Date[0], rp.Date[1], rp.Date[2]), rp.Form)
	case "time":
		outcome, ps = evalTime(c, es, dates.NewTimeOfDay(rp.Time[0], rp.Time[1], rp.Time[2], rp.Time[3]), rp.Form)
	case "json":
		outcome, ps = evalJSON(c, es, rp.Doc, nil)
	case "json-char":
		r, ok := parseCharName(rp.Char)
		if !ok {
			return "bad replay: code point " + rp.Char, false
		}
		var doc string
		outcome, ps, doc = evalJSONChar(c, es, r, rp.Form, rp.Pos, rp.Ctx)
		rp.Doc = doc
	case "json-pair":
		outcome, ps = evalJSONPair(c, es, rp.Doc, rp.Doc2)
	default:
		return "unknown replay kind " + rp.Kind, false
	}
	var sb strings.Builder
	fmt.Fprintf(&sb, "case: %s\noutcome: %s\n", mc.JSON(rp), outcome)
	for _, p := range ps {
		fmt.Fprintf(&sb, "PROBLEM %s: %s\n", p.key, p.what)
	}
	return sb.String(), len(ps) > 0
}

func guards(r *mc.Result, tier string) []string {
	var f []string
	need := func(fact string) {
		if r.Facts[fact] == 0 {
			f = append(f, "never observed: "+fact)
		}
	}
	// each format x zone exercised, for every value kind, with a successful round trip
	for _, z := range zonesOf(tier) {
		for _, df := range dateFormats {
			for _, tf := range timeFormats {
				l := string(df) + "|" + string(tf) + "|" + z
				need("roundtrip-ok:datetime-iso:" + l)
				need("roundtrip-ok:datetime-env:" + l)
				need("roundtrip-ok:date-iso:" + l)
				need("roundtrip-ok:date-env:" + l)
				need("roundtrip-ok:time-iso:" + l)
				need("roundtrip-ok:time-env:" + l)
			}
		}
	}
	for _, z := range []string{"America/New_York", "Pacific/Apia"} {
		need("fold-first-occurrence:" + z)
		need("fold-second-occurrence:" + z)
		need("gap-last-instant-before:" + z)
		need("gap-first-instant-after:" + z)
	}
	need("day-without-midnight:America/Sao_Paulo")
	for _, x := range []string{"rendered-12am", "rendered-12pm", "rendered-noon-24h", "rendered-midnight-24h", "year-below-1000", "year-9999",
		"value-zone-offset-with-seconds", "sub-microsecond-nanos", "day-could-be-month", "day-cannot-be-month", "feb-29",
		"number:integer", "number:fraction", "number:negative", "number:zero-with-scale", "number:leading-zero-fraction", "number:integer-trailing-zeros",
		"number:beyond-uint64", "number:same-value-different-scale-pair", "number:different-value-pair",
		"datetime-pair:same-instant-different-zone", "datetime-pair:same-rendering",
		"json:duplicate-key", "json:case-variant-keys", "json:depth-3", "json:nested-object-in-array", "json:nested-array-in-object", "json:spaced-serialisation",
		"json-pair:equal-rendering", "json-pair:different-rendering"} {
		need(x)
	}
	for _, l := range allLeaves {
		need("json:leaf-used:" + l.kind)
		if l.kind != "string-lone-surrogate" {
			need("json:leaf-survived:" + l.kind)
		}
	}
	for _, k := range allKeys {
		need("json:key-used:" + k.kind)
		if k.kind != "default" && k.kind != "lone-surrogate" {
			need("json:key-survived:" + k.kind)
		}
	}
	// the character sweep: every class of code point stood as a member name, as a value and as both, and came back;
	// every written form, position and context was used
	for _, cl := range charClasses(tier) {
		for _, role := range []string{"key", "value", "both"} {
			need("json-char:used:" + role + ":" + cl)
			need("json-char:survived:" + role + ":" + cl)
		}
	}
	for _, x := range charForms {
		need("json-char:form:" + x)
	}
	for _, x := range charPositions {
		need("json-char:position:" + x)
	}
	for _, cx := range charContexts {
		need("json-char:context:" + cx.name)
	}
	for _, k := range []string{"numbers", "number_pairs", "datetime_iso_cases", "datetime_env_cases", "date_cases", "time_cases", "json_docs", "json_char_docs", "json_pairs"} {
		if r.Counters[k] == 0 {
			f = append(f, "no cases of kind "+k)
		}
	}
	sort.Strings(f)
	return f
}

func init() {
	mc.Register(&mc.Check{
		ID:    "C13",
		Level: "exploration",
		Rule: "bounded exhaustive enumeration of value grids on the real conversion code: (1) decimals coefficient x exponent (every integer coefficient |c| <= 1100 plus 2^63-1, 2^63, 2^64, 20- and 30-digit ones, both signs; exponent -30..30 quick, -400..400 thorough), render -> ToXNumber and the contact-field parser; " +
			"(2) instants = calendar grid (years incl. 1, 99, 999, 1000, LMT era, now-1..now+1, 2068/2069, 9999 x months x days x hours x minutes x seconds x nanos) taken in each value zone, plus 12 instants around EVERY offset transition 1800-2040 of every zone (all DST gaps and folds, LMT changes, the day Apia skipped), each x every environment = 3 date formats x 4 time formats x zone, in ISO form and in the environment format; " +
			"(3) every calendar date of the year grid and a time-of-day grid x every environment x {ISO, environment format}; (4) every JSON document of depth <= 2 and width <= 2 over the full leaf and key alphabets (20 leaves; 14 member names incl. empty, __default__, case variants, escaped/raw non-ASCII, a lone surrogate, and names made of NUL, a control character without a short escape, an escaped newline, raw DEL, an escaped surrogate pair and a raw unprintable astral character) in two serialisations, and every document of depth 3 (width <= 2) over a reduced alphabet (whose member names include the control-character one, so such names also stand in objects nested in objects and arrays), through parse_json -> json; " +
			"(4b) the character sweep: every code point of a stated set (quick: U+0000..U+07FF complete - all C0 controls, DEL, C1 - plus blocks around every boundary: first 3-byte, U+2000..U+206F, just below/above the surrogates, non-characters, U+FEFF, U+FFF0..U+FFFF incl. U+FFFD, first astral, emoji, unassigned astral, tag characters U+E0000..U+E007F, astral private use, the last 16 code points; 2496 in all; thorough: every Unicode scalar value) x every written form JSON allows for it {raw, short escape, \\uXXXX lower-case, \\uXXXX upper-case; surrogate pair for astral} x position in the string {alone, leading, trailing, inner} x 14 places of the string in a document {member NAME: of the top-level object, between other members, of an object in an object, in an array, in an array in an object, in an object in an array; string VALUE: top level, in array, in object, and the two depth-3 nestings; NAME and VALUE of the same member: top level, in array, in object} through parse_json -> json (code points outside the quick set, thorough tier: positions {alone, inner} x 6 of the places); " +
			"(5) pairs for '=': number grid squared, datetime set squared, small JSON documents squared. " +
			"A case is distinct by construction (no tuple is enumerated twice; ISO-form cases are counted once per instant x value zone x environment zone, not per date/time format, since the ISO text does not depend on the formats) and non-trivial when the round trip was actually executed on a non-empty rendering and compared (out-of-domain instants are not counted).",
		Assumptions: []string{
			"value grids, zones {UTC, America/New_York, Asia/Kathmandu, Africa/Kigali, Pacific/Apia, America/Sao_Paulo (+Australia/Lord_Howe thorough)} and the JSON leaf/key alphabets are representative; depth-3 JSON documents use a reduced alphabet",
			"character sweep: the quick tier's code point set (all of U+0000..U+07FF and 15 boundary blocks) represents every class of code point a JSON reader/writer distinguishes (the thorough tier takes every scalar value); the swept character occurs once per string, next to ASCII letters only; lone surrogates are not swept (they are a member of the leaf and key alphabets)",
			"environments are built with the default locale (en): am/pm markers of other locales are not in the statement's quantifier and not explored",
			"the host's IANA timezone database is used by both goflow and the oracle; decimal exponents are kept within +-400 (1e2147483648 is outside the decimal type)",
			"the clock consulted by goflow's date parser is fixed at 2026-06-15 (dates.SetNowFunc)",
			"JSON equivalence: last duplicate key wins, numbers compared as decimals, lone surrogate escapes read as U+FFFD",
		},
		Run:    run,
		Replay: replayFn,
		Guards: guards,
		Budget: map[string]time.Duration{"quick": 4 * time.Minute, "thorough": 60 * time.Minute},
	})
}
