package c13

import (
	"encoding/json"
	"fmt"
	"reflect"
	"strings"
	"unicode"

	"verif/mc"
)

// ---------------------------------------------------------------------------------------------
// the character sweep: one code point x written form x position in the string x place of the
// string in a document (object KEY, string VALUE, or both), through parse_json -> json
//
// The structural family (jsondocs.go) enumerates every document shape over a handful of strings;
// this family is its transpose: a handful of document shapes over every code point of a stated
// set, so that a writer or reader that treats one class of characters differently (a control
// character that has no short JSON escape, DEL, a character the writer considers unprintable, the
// code point decoders use as their error marker, a non-character, the end of the code space)
// meets a member NAME - not only a string value - made of it, at top level and nested.
// ---------------------------------------------------------------------------------------------

type runeRange struct{ lo, hi rune }

// detailedRanges is the code point set of the quick tier (2544 code points). Every one of them is
// taken in every written form, position and context. The thorough tier adds every other Unicode
// scalar value (U+0000..U+10FFFF without the surrogates) in a reduced set of positions/contexts.
var detailedRanges = []runeRange{
	{0x0000, 0x07FF},     // everything UTF-8 writes in one or two bytes: ASCII, C0, DEL, C1, Latin..NKo
	{0x0800, 0x080F},     // first three-byte code points
	{0x2000, 0x206F},     // general punctuation: spaces, zero-width and bidi controls, U+2028/U+2029
	{0x3000, 0x300F},     // ideographic space and CJK punctuation
	{0xD7F0, 0xD7FF},     // just below the surrogates
	{0xE000, 0xE00F},     // just above the surrogates (private use)
	{0xFDD0, 0xFDEF},     // non-characters
	{0xFEF0, 0xFEFF},     // ... U+FEFF byte order mark
	{0xFFF0, 0xFFFF},     // specials: interlinear controls, U+FFFD replacement character, U+FFFE/U+FFFF
	{0x10000, 0x1000F},   // first code points that need a surrogate pair
	{0x1F600, 0x1F60F},   // printable astral (emoji)
	{0x1FFF0, 0x1FFFF},   // unassigned astral and the non-characters closing plane 1
	{0xE0000, 0xE007F},   // tag characters: astral, assigned, not printable
	{0xF0000, 0xF000F},   // astral private use
	{0x10FFF0, 0x10FFFF}, // the end of the code space
}

var allScalarRanges = []runeRange{{0x0000, 0xD7FF}, {0xE000, 0x10FFFF}}

func inDetailed(r rune) bool {
	for _, rr := range detailedRanges {
		if r >= rr.lo && r <= rr.hi {
			return true
		}
	}
	return false
}

// charClass names the class of a code point from the point of view of a JSON reader or writer.
func charClass(r rune) string {
	switch {
	case r == 0:
		return "nul"
	case r == '\b' || r == '\f' || r == '\n' || r == '\r' || r == '\t':
		return "c0-control-with-short-escape"
	case r < 0x20:
		return "c0-control-without-short-escape"
	case r == 0x7F:
		return "del"
	case r == '"' || r == '\\':
		return "quote-or-backslash"
	case r == '/':
		return "solidus"
	case r == '<' || r == '>' || r == '&':
		return "html-special"
	case r == ' ':
		return "ascii-space"
	case r < 0x7F:
		return "ascii-printable"
	case r <= 0x9F:
		return "c1-control"
	case r == 0x2028 || r == 0x2029:
		return "line-or-paragraph-separator"
	case r == 0xFFFD:
		return "replacement-character"
	}
	plane := "bmp-"
	if r > 0xFFFF {
		plane = "astral-"
	}
	switch {
	case r&0xFFFE == 0xFFFE || (r >= 0xFDD0 && r <= 0xFDEF):
		return plane + "noncharacter"
	case unicode.Is(unicode.Co, r):
		return plane + "private-use"
	case unicode.Is(unicode.Cf, r):
		return plane + "format-character"
	case unicode.IsSpace(r):
		return plane + "space"
	case !unicode.IsPrint(r):
		return plane + "unassigned-or-unprintable"
	}
	return plane + "printable"
}

// charClasses lists the classes present in a tier's code point set (for the vacuity guards).
func charClasses(tier string) []string {
	seen := map[string]bool{}
	var out []string
	rs := detailedRanges
	if tier == "thorough" {
		rs = allScalarRanges
	}
	for _, rr := range rs {
		for r := rr.lo; r <= rr.hi; r++ {
			if cl := charClass(r); !seen[cl] {
				seen[cl] = true
				out = append(out, cl)
			}
		}
	}
	return out
}

// written forms of one code point inside a JSON string
var charForms = []string{"raw", "short-escape", "u-escape-lower", "u-escape-upper"}

var shortEscapes = map[rune]string{'\b': "b", '\f': "f", '\n': "n", '\r': "r", '\t': "t", '"': `"`, '\\': `\`, '/': "/"}

func uEscape(r rune, upper bool) string {
	unit := func(u rune) string {
		h := fmt.Sprintf("%04x", u)
		if upper {
			h = strings.ToUpper(h)
		}
		return esc(h)
	}
	if r > 0xFFFF {
		v := r - 0x10000
		return unit(0xD800+(v>>10)) + unit(0xDC00+(v&0x3FF))
	}
	return unit(r)
}

// writtenForm gives the text of code point r in the given form; ok is false when JSON has no such
// form for r or when the form coincides with one listed before it (no case is enumerated twice).
func writtenForm(r rune, form string) (string, bool) {
	switch form {
	case "raw":
		if r < 0x20 || r == '"' || r == '\\' {
			return "", false
		}
		return string(r), true
	case "short-escape":
		s, has := shortEscapes[r]
		return string(rune(92)) + s, has
	case "u-escape-lower":
		return uEscape(r, false), true
	case "u-escape-upper":
		lo, up := uEscape(r, false), uEscape(r, true)
		return up, up != lo
	}
	panic("c13: unknown written form " + form)
}

// positions of the code point in the string: the written text and what it decodes to
var charPositions = []string{"alone", "leading", "trailing", "inner"}

func atPosition(pos, written string, r rune) (text, decoded string) {
	switch pos {
	case "alone":
		return `"` + written + `"`, string(r)
	case "leading":
		return `"` + written + `a"`, string(r) + "a"
	case "trailing":
		return `"a` + written + `"`, "a" + string(r)
	case "inner":
		return `"a` + written + `b"`, "a" + string(r) + "b"
	}
	panic("c13: unknown position " + pos)
}

// contexts: where the string S stands in the document
type charContext struct {
	name, role string
	reduced    bool // also used for the code points outside the detailed set (thorough tier)
}

var charContexts = []charContext{
	{"key:top", "key", true},
	{"key:top-between-members", "key", false},
	{"key:in-object", "key", true},
	{"key:in-array", "key", true},
	{"key:in-array-in-object", "key", false},
	{"key:in-object-in-array", "key", false},
	{"value:top", "value", true},
	{"value:in-array", "value", false},
	{"value:in-object", "value", true},
	{"value:in-object-in-array", "value", false},
	{"value:in-array-in-object", "value", false},
	{"both:top", "both", false},
	{"both:in-array", "both", true},
	{"both:in-object", "both", false},
}

func charContextByName(name string) (charContext, bool) {
	for _, cx := range charContexts {
		if cx.name == name {
			return cx, true
		}
	}
	return charContext{}, false
}

// inContext writes the document that holds the string (text S, decoding to s) in the given context and
// the tree the document means. Members are assigned in document order, so that when s coincides with a
// fixed neighbour key the model keeps the last one, as the oracle's statement of equivalence says.
func inContext(ctx, S, s string) (string, any) {
	one, two, zero := json.Number("1"), json.Number("2"), json.Number("0")
	obj := func(kvs ...any) map[string]any {
		m := map[string]any{}
		for i := 0; i < len(kvs); i += 2 {
			m[kvs[i].(string)] = kvs[i+1]
		}
		return m
	}
	switch ctx {
	case "key:top":
		return `{` + S + `:1}`, obj(s, one)
	case "key:top-between-members":
		return `{"A":0,` + S + `:1,"z":2}`, obj("A", zero, s, one, "z", two)
	case "key:in-object":
		return `{"o":{` + S + `:1},"p":2}`, obj("o", obj(s, one), "p", two)
	case "key:in-array":
		return `[{` + S + `:1},{"k":2}]`, []any{obj(s, one), obj("k", two)}
	case "key:in-array-in-object":
		return `{"o":[{` + S + `:1}]}`, obj("o", []any{obj(s, one)})
	case "key:in-object-in-array":
		return `[{"o":{` + S + `:1}}]`, []any{obj("o", obj(s, one))}
	case "value:top":
		return S, s
	case "value:in-array":
		return `[` + S + `,1]`, []any{s, one}
	case "value:in-object":
		return `{"a":` + S + `}`, obj("a", s)
	case "value:in-object-in-array":
		return `[{"a":` + S + `}]`, []any{obj("a", s)}
	case "value:in-array-in-object":
		return `{"o":[` + S + `]}`, obj("o", []any{s})
	case "both:top":
		return `{` + S + `:` + S + `}`, obj(s, s)
	case "both:in-array":
		return `[{` + S + `:` + S + `}]`, []any{obj(s, s)}
	case "both:in-object":
		return `{"o":{` + S + `:` + S + `}}`, obj("o", obj(s, s))
	}
	panic("c13: unknown context " + ctx)
}

// documents of this family that the structural family enumerates too (top-level strings that are
// leaves of its alphabet): executed, but not counted as distinct a second time
var structuralLeafTexts = func() map[string]bool {
	m := map[string]bool{}
	for _, l := range allLeaves {
		m[l.text] = true
	}
	return m
}()

// evalJSONChar runs one case of the sweep. The failure signatures are those of evalJSON with the role
// and the class of the swept character appended: a writer that mangles control characters in member
// names and one that mangles astral characters in values are different causes.
func evalJSONChar(c *mc.Ctx, es *envSpec, r rune, form, pos, ctx string) (outcome string, ps []problem, doc string) {
	cx, ok := charContextByName(ctx)
	if !ok {
		return "json:harness", []problem{{"harness:unknown-context", ctx}}, ""
	}
	written, ok := writtenForm(r, form)
	if !ok {
		return "json:harness", []problem{{"harness:no-such-written-form", fmt.Sprintf("U+%04X has no form %s", r, form)}}, ""
	}
	S, s := atPosition(pos, written, r)
	doc, model := inContext(ctx, S, s)
	// the harness must have written what it meant: the reference decoder reads the intended tree
	ref, err := refDecode(doc)
	if err != nil {
		return "json:harness", []problem{{"harness:reference-decoder-rejects-document", fmt.Sprintf("document %s: %v", doc, err)}}, doc
	}
	if !reflect.DeepEqual(ref, model) {
		return "json:harness", []problem{{"harness:model-disagrees-with-reference-decoder", fmt.Sprintf("document %s: intended %v, encoding/json %v", doc, model, ref)}}, doc
	}
	outcome, ps = evalJSON(c, es, doc, nil)
	suffix := ":char-in-" + cx.role + "=" + charClass(r)
	for i := range ps {
		if !strings.HasPrefix(ps[i].key, "harness:") {
			ps[i].key += suffix
			ps[i].what = fmt.Sprintf("U+%04X (%s) written %s, %s, context %s: %s", r, charClass(r), form, pos, ctx, ps[i].what)
		}
	}
	return outcome, ps, doc
}

func jsonCharCase(c *mc.Ctx, es *envSpec, r rune, form, pos string, cx charContext) {
	outcome, ps, doc := evalJSONChar(c, es, r, form, pos, cx.name)
	cl := charClass(r)
	c.Inc("evaluations")
	c.Inc("json_char_docs")
	c.Outcome(outcome)
	c.Fact("json-char:used:" + cx.role + ":" + cl)
	c.Fact("json-char:form:" + form)
	c.Fact("json-char:position:" + pos)
	c.Fact("json-char:context:" + cx.name)
	if len(ps) > 0 {
		report(c, ps, replay{Kind: "json-char", Char: fmt.Sprintf("U+%04X", r), Form: form, Pos: pos, Ctx: cx.name, Doc: doc})
		return
	}
	c.Fact("json-char:survived:" + cx.role + ":" + cl)
	if !structuralLeafTexts[doc] {
		c.Inc("distinct_nontrivial")
	}
	if c.WantSample() && cx.role == "key" && cl != "ascii-printable" && cl != "bmp-printable" && pos == "inner" {
		c.Sample(map[string]any{"kind": "json-char", "char": fmt.Sprintf("U+%04X", r), "doc": doc, "outcome": outcome})
	}
}

func runJSONChars(c *mc.Ctx, u *units) {
	es := newEnvSpec(dateFormats[0], timeFormats[0], "UTC")
	rs := detailedRanges
	if c.Thorough() {
		rs = allScalarRanges
	}
	const block = 64 // code points per work unit
	for _, rr := range rs {
		for lo := rr.lo; lo <= rr.hi; lo += block {
			if !u.mine() {
				continue
			}
			if expired(c, "JSON character sweep") {
				return
			}
			for r := lo; r < lo+block && r <= rr.hi; r++ {
				detailed := inDetailed(r)
				c.Inc("json_char_code_points")
				for _, form := range charForms {
					if _, ok := writtenForm(r, form); !ok {
						continue
					}
					for _, pos := range charPositions {
						if !detailed && pos != "alone" && pos != "inner" {
							continue
						}
						for _, cx := range charContexts {
							if !detailed && !cx.reduced {
								continue
							}
							jsonCharCase(c, es, r, form, pos, cx)
						}
					}
				}
			}
		}
	}
}

// parseCharName reads "U+XXXX".
func parseCharName(s string) (rune, bool) {
	var v int64
	if _, err := fmt.Sscanf(s, "U+%X", &v); err != nil || v < 0 || v > unicode.MaxRune || (v >= 0xD800 && v <= 0xDFFF) {
		return 0, false
	}
	return rune(v), true
}
