package c13

import (
	"encoding/json"
	"fmt"
	"math/big"
	"reflect"
	"sort"
	"strconv"
	"strings"
	"unicode/utf8"

	"github.com/nyaruka/goflow/excellent/functions"
	"github.com/nyaruka/goflow/excellent/operators"
	"github.com/nyaruka/goflow/excellent/types"
	"verif/mc"
)

// ---------------------------------------------------------------------------------------------
// alphabets
// ---------------------------------------------------------------------------------------------

type leafT struct{ kind, text string }
type keyT struct{ kind, text string }

// esc builds a JSON unicode escape sequence (backslash, 'u', four hex digits).
func esc(hex string) string { return string(rune(92)) + "u" + hex }

var allLeaves = []leafT{
	{"null", `null`}, {"true", `true`}, {"false", `false`},
	{"num-zero", `0`}, {"num-negative-zero", `-0`}, {"num-exponent", `1e5`}, {"num-exponent-upper-plus", `1E+2`},
	{"num-trailing-zero-fraction", `0.10`}, {"num-big-integer", `12345678901234567890`}, {"num-negative-exponent", `1.5e-7`},
	{"num-beyond-float64", `1e400`}, {"num-negative-fraction-exponent", `-1.0E-2`},
	{"string-empty", `""`}, {"string-raw-non-ascii", `"` + string(rune(0xE9)) + `"`}, {"string-escaped-non-ascii", `"` + esc("00e9") + `"`},
	{"string-surrogate-pair", `"` + esc("d83d") + esc("de00") + `"`}, {"string-lone-surrogate", `"` + esc("d800") + `"`}, {"string-nul", `"` + esc("0000") + `"`},
	{"string-escapes", `"a` + string(rune(92)) + `"b` + string(rune(92)) + string(rune(92)) + `c` + string(rune(92)) + `/d` + string(rune(92)) + `n"`},
	{"string-html-and-line-separator", `"<&>` + esc("2028") + `"`},
}

var allKeys = []keyT{
	{"plain", `"a"`}, {"upper", `"A"`}, {"empty", `""`}, {"default", `"__default__"`}, {"escaped-plain", `"` + esc("0061") + `"`},
	{"raw-non-ascii", `"` + string(rune(0xE9)) + `"`}, {"escaped-quote", `"` + string(rune(92)) + `""`}, {"lone-surrogate", `"` + esc("d800") + `"`},
	// member names made of characters a JSON writer has to treat specially (the character sweep in jsonchars.go takes
	// every code point through a few document shapes; these take a few code points through every document shape)
	{"escaped-nul", `"` + esc("0000") + `"`}, {"escaped-control", `"k` + esc("000b") + `"`}, {"escaped-newline", `"` + string(rune(92)) + `n"`},
	{"raw-del", `"` + string(rune(0x7F)) + `"`}, {"escaped-astral-pair", `"` + esc("d83d") + esc("de00") + `"`}, {"raw-astral-unprintable", `"t` + string(rune(0xE0001)) + `"`},
}

// checkAlphabets makes sure the escape sequences above reached the documents as escapes.
func checkAlphabets() {
	bs := string(rune(92))
	for _, l := range allLeaves {
		if !json.Valid([]byte(l.text)) {
			panic("c13: leaf is not valid JSON: " + l.text)
		}
		if strings.Contains(l.kind, "escape") || strings.Contains(l.kind, "surrogate") || l.kind == "string-nul" || l.kind == "string-html-and-line-separator" {
			if !strings.Contains(l.text, bs) {
				panic("c13: leaf " + l.kind + " lost its escape")
			}
		}
	}
	for _, k := range allKeys {
		if !json.Valid([]byte(k.text)) {
			panic("c13: key is not valid JSON: " + k.text)
		}
		if (strings.Contains(k.kind, "escaped") || k.kind == "lone-surrogate") && !strings.Contains(k.text, bs) {
			panic("c13: key " + k.kind + " lost its escape")
		}
	}
}

func pickLeaves(kinds ...string) []leafT {
	var out []leafT
	for _, k := range kinds {
		found := false
		for _, l := range allLeaves {
			if l.kind == k {
				out, found = append(out, l), true
			}
		}
		if !found {
			panic("c13: no leaf kind " + k)
		}
	}
	return out
}

func pickKeys(kinds ...string) []keyT {
	var out []keyT
	for _, k := range kinds {
		found := false
		for _, l := range allKeys {
			if l.kind == k {
				out, found = append(out, l), true
			}
		}
		if !found {
			panic("c13: no key kind " + k)
		}
	}
	return out
}

// reduced alphabets for the children of depth-3 documents
func deepAlphabet(tier string) ([]leafT, []keyT) {
	if tier == "thorough" {
		return pickLeaves("null", "num-exponent", "num-trailing-zero-fraction", "string-escaped-non-ascii", "string-lone-surrogate", "num-big-integer"),
			pickKeys("plain", "upper", "default", "escaped-plain", "escaped-control")
	}
	return pickLeaves("null", "num-exponent", "num-trailing-zero-fraction", "string-escaped-non-ascii"), pickKeys("plain", "upper", "default", "escaped-control")
}

// ---------------------------------------------------------------------------------------------
// document trees
// ---------------------------------------------------------------------------------------------

type node struct {
	leaf  *leafT
	arr   bool
	kids  []*node
	keys  []*keyT
	depth int
}

func (n *node) write(sb *strings.Builder, spaced bool) {
	sp := func() {
		if spaced {
			sb.WriteString(" ")
		}
	}
	switch {
	case n.leaf != nil:
		sb.WriteString(n.leaf.text)
	case n.arr:
		sb.WriteString("[")
		for i, k := range n.kids {
			if i > 0 {
				sb.WriteString(",")
			}
			sp()
			k.write(sb, spaced)
		}
		sp()
		sb.WriteString("]")
	default:
		sb.WriteString("{")
		for i, k := range n.kids {
			if i > 0 {
				sb.WriteString(",")
				if spaced {
					sb.WriteString("\n\t")
				}
			}
			sp()
			sb.WriteString(n.keys[i].text)
			sp()
			sb.WriteString(":")
			sp()
			k.write(sb, spaced)
		}
		sp()
		sb.WriteString("}")
	}
}

func (n *node) text(spaced bool) string {
	var sb strings.Builder
	if spaced {
		sb.WriteString(" ")
	}
	n.write(&sb, spaced)
	if spaced {
		sb.WriteString("\n")
	}
	return sb.String()
}

// alphabetValue is the reference decoder's reading of one alphabet symbol (a leaf or a key text). The symbols are few
// and their readings immutable scalars, so each is decoded once.
var alphabetValues = map[string]any{}

func alphabetValue(text string) any {
	if v, ok := alphabetValues[text]; ok {
		return v
	}
	v, err := refDecode(text)
	if err != nil {
		panic(err)
	}
	alphabetValues[text] = v
	return v
}

// model is the reference reading of a generated tree: last duplicate key wins.
func (n *node) model() any {
	switch {
	case n.leaf != nil:
		return alphabetValue(n.leaf.text)
	case n.arr:
		out := make([]any, len(n.kids))
		for i, k := range n.kids {
			out[i] = k.model()
		}
		return out
	default:
		out := map[string]any{}
		for i, k := range n.kids {
			out[alphabetValue(n.keys[i].text).(string)] = k.model()
		}
		return out
	}
}

func leafNodes(ls []leafT) []*node {
	var out []*node
	for i := range ls {
		out = append(out, &node{leaf: &ls[i], depth: 1})
	}
	return out
}

type member struct {
	key *keyT
	val *node
}

func members(children []*node, keys []keyT) []member {
	var out []member
	for i := range keys {
		for _, ch := range children {
			out = append(out, member{&keys[i], ch})
		}
	}
	return out
}

func mkArray(kids ...*node) *node {
	d := 0
	for _, k := range kids {
		d = max(d, k.depth)
	}
	return &node{arr: true, kids: kids, depth: d + 1}
}

func mkObject(ms ...member) *node {
	n := &node{}
	d := 0
	for _, m := range ms {
		n.kids = append(n.kids, m.val)
		n.keys = append(n.keys, m.key)
		d = max(d, m.val.depth)
	}
	n.depth = d + 1
	return n
}

// containers returns every array and object of width <= 2 over the given children and keys.
func containers(children []*node, keys []keyT) []*node {
	out := []*node{mkArray(), mkObject()}
	for _, a := range children {
		out = append(out, mkArray(a))
	}
	for _, a := range children {
		for _, b := range children {
			out = append(out, mkArray(a, b))
		}
	}
	ms := members(children, keys)
	for _, a := range ms {
		out = append(out, mkObject(a))
	}
	for _, a := range ms {
		for _, b := range ms {
			out = append(out, mkObject(a, b))
		}
	}
	return out
}

// ---------------------------------------------------------------------------------------------
// reference decoder and comparison
// ---------------------------------------------------------------------------------------------

func refDecode(s string) (any, error) {
	dec := json.NewDecoder(strings.NewReader(s))
	dec.UseNumber()
	var v any
	if err := dec.Decode(&v); err != nil {
		return nil, err
	}
	if dec.More() {
		return nil, fmt.Errorf("trailing data")
	}
	return v, nil
}

// decodeFirstWins reads a document like refDecode but keeps the FIRST of duplicate keys; it is used
// only to give the "wrong duplicate wins" failure one signature instead of one per value shape.
func decodeFirstWins(s string) (any, error) {
	dec := json.NewDecoder(strings.NewReader(s))
	dec.UseNumber()
	return readFirstWins(dec)
}

func readFirstWins(dec *json.Decoder) (any, error) {
	tok, err := dec.Token()
	if err != nil {
		return nil, err
	}
	d, isDelim := tok.(json.Delim)
	if !isDelim {
		return tok, nil
	}
	if d == '[' {
		arr := []any{}
		for dec.More() {
			v, err := readFirstWins(dec)
			if err != nil {
				return nil, err
			}
			arr = append(arr, v)
		}
		_, err = dec.Token()
		return arr, err
	}
	m := map[string]any{}
	for dec.More() {
		k, err := dec.Token()
		if err != nil {
			return nil, err
		}
		v, err := readFirstWins(dec)
		if err != nil {
			return nil, err
		}
		if _, seen := m[k.(string)]; !seen {
			m[k.(string)] = v
		}
	}
	_, err = dec.Token()
	return m, err
}

// parseNumberLiteral reads a JSON number literal as coefficient x 10^exponent.
func parseNumberLiteral(s string) (*big.Int, int32, bool) {
	mant, exp := s, int64(0)
	if i := strings.IndexAny(s, "eE"); i >= 0 {
		e, err := strconv.ParseInt(strings.TrimPrefix(s[i+1:], "+"), 10, 32)
		if err != nil {
			return nil, 0, false
		}
		mant, exp = s[:i], e
	}
	if i := strings.Index(mant, "."); i >= 0 {
		exp -= int64(len(mant) - i - 1)
		mant = mant[:i] + mant[i+1:]
	}
	c, ok := new(big.Int).SetString(mant, 10)
	if !ok || exp < -1<<30 || exp > 1<<30 {
		return nil, 0, false
	}
	return c, int32(exp), true
}

func numClass(lit string) string {
	c, _, ok := parseNumberLiteral(lit)
	switch {
	case !ok:
		return "unreadable"
	case strings.HasPrefix(lit, "-") && c.Sign() == 0:
		return "negative-zero"
	case strings.ContainsAny(lit, "eE"):
		return "exponent"
	case strings.Contains(lit, "."):
		return "fraction"
	case len(strings.TrimPrefix(lit, "-")) > 18:
		return "big-integer"
	}
	return "integer"
}

func strClass(s string) string {
	switch {
	case strings.ContainsRune(s, utf8.RuneError):
		return "lone-surrogate"
	case s == "":
		return "empty"
	}
	ctl, astral, nonASCII, special := false, false, false, false
	for _, r := range s {
		switch {
		case r < 0x20:
			ctl = true
		case r > 0xFFFF:
			astral = true
		case r > 0x7E:
			nonASCII = true
		case r == '"' || r == '\\' || r == '<' || r == '>' || r == '&':
			special = true
		}
	}
	switch {
	case ctl:
		return "control-char"
	case astral:
		return "astral"
	case nonASCII:
		return "non-ascii"
	case special:
		return "special-char"
	}
	return "plain"
}

func keyClass(k string) string {
	if k == "__default__" {
		return "default"
	}
	return strClass(k)
}

func typeClass(v any) string {
	switch t := v.(type) {
	case nil:
		return "null"
	case bool:
		return "boolean"
	case json.Number:
		return "number/" + numClass(string(t))
	case string:
		return "string/" + strClass(t)
	case []any:
		return "array"
	case map[string]any:
		return "object"
	}
	return fmt.Sprintf("%T", v)
}

func isLoneSurrogateString(v any) bool {
	s, ok := v.(string)
	return ok && strings.ContainsRune(s, utf8.RuneError)
}

// jsonDiff appends the classes of the differences between the expected and the observed tree.
func jsonDiff(exp, got any, out *[]string) {
	add := func(s string) { *out = append(*out, s) }
	if reflect.TypeOf(exp) != reflect.TypeOf(got) {
		if isLoneSurrogateString(exp) {
			add("lone-surrogate-string-lost")
		} else {
			add("type-changed:" + typeClass(exp) + "->" + strings.SplitN(typeClass(got), "/", 2)[0])
		}
		return
	}
	switch e := exp.(type) {
	case nil:
	case bool:
		if e != got.(bool) {
			add("boolean-changed")
		}
	case json.Number:
		ec, ee, ok1 := parseNumberLiteral(string(e))
		gc, ge, ok2 := parseNumberLiteral(string(got.(json.Number)))
		if !ok1 || !ok2 || !sameDec(ec, ee, gc, ge) {
			add("number-changed:" + numClass(string(e)))
		}
	case string:
		if e != got.(string) {
			if isLoneSurrogateString(e) {
				add("lone-surrogate-string-lost")
			} else {
				add("string-changed:" + strClass(e))
			}
		}
	case []any:
		g := got.([]any)
		if len(e) != len(g) {
			add("array-length-changed")
			return
		}
		for i := range e {
			jsonDiff(e[i], g[i], out)
		}
	case map[string]any:
		g := got.(map[string]any)
		// a lone-surrogate key that went missing stops the reader: it explains every missing member
		truncated := false
		var missing []string
		for k := range e {
			if _, ok := g[k]; !ok {
				missing = append(missing, k)
				if strings.ContainsRune(k, utf8.RuneError) {
					truncated = true
				}
			}
		}
		sort.Strings(missing)
		if truncated {
			add("lone-surrogate-key-truncates-object")
		} else {
			for _, k := range missing {
				switch {
				case isLoneSurrogateString(e[k]):
					add("lone-surrogate-string-lost")
				case k == "__default__":
					add("default-key-dropped")
				default:
					add("member-dropped:value=" + typeClass(e[k]))
				}
			}
		}
		var extra []string
		for k := range g {
			if _, ok := e[k]; !ok {
				extra = append(extra, k)
			}
		}
		sort.Strings(extra)
		for _, k := range extra {
			add("member-added:key=" + keyClass(k))
		}
		for k, ev := range e {
			if gv, ok := g[k]; ok {
				jsonDiff(ev, gv, out)
			}
		}
	}
}

// ---------------------------------------------------------------------------------------------
// the round trip
// ---------------------------------------------------------------------------------------------

var fnParseJSON = functions.Lookup("parse_json")
var fnJSON = functions.Lookup("json")

func evalJSON(c *mc.Ctx, es *envSpec, doc string, n *node) (string, []problem) {
	exp, err := refDecode(doc)
	if err != nil {
		return "json:harness", []problem{{"harness:reference-decoder-rejects-document", fmt.Sprintf("document %s: %v", doc, err)}}
	}
	if n != nil {
		if m := n.model(); !reflect.DeepEqual(m, exp) {
			return "json:harness", []problem{{"harness:model-disagrees-with-reference-decoder", fmt.Sprintf("document %s: generator model %v, encoding/json %v", doc, m, exp)}}
		}
	}
	var parsed, out types.XValue
	pan := mc.Guard(func() {
		parsed = fnParseJSON.Call(es.env, []types.XValue{types.NewXText(doc)})
		if !types.IsXError(parsed) {
			out = fnJSON.Call(es.env, []types.XValue{parsed})
		}
	})
	id := "document " + doc
	if pan != "" {
		return "json:panic", []problem{{"json:panic:" + mc.PanicSite(pan), id + " panicked: " + pan}}
	}
	if types.IsXError(parsed) {
		if isLoneSurrogateString(exp) {
			return "json:rejected", []problem{{"json:lone-surrogate-string-lost", fmt.Sprintf("%s is valid JSON but parse_json fails: %s", id, describe(parsed))}}
		}
		return "json:rejected", []problem{{"json:valid-document-rejected:" + typeClass(exp), fmt.Sprintf("%s is valid JSON but parse_json fails: %s", id, describe(parsed))}}
	}
	outText, isText := out.(*types.XText)
	if !isText {
		return "json:json()-failed", []problem{{"json:json()-failed:" + typeClass(exp), fmt.Sprintf("%s: json(parse_json(doc)) is %s", id, describe(out))}}
	}
	got, err := refDecode(outText.Native())
	if err != nil {
		return "json:output-invalid", []problem{{"json:output-not-valid-json", fmt.Sprintf("%s: json(parse_json(doc)) = %s is not valid JSON: %v", id, outText.Native(), err)}}
	}
	var diffs []string
	jsonDiff(exp, got, &diffs)
	if len(diffs) == 0 {
		if outText.Native() == strings.TrimSpace(doc) {
			return "json:ok:identical-text", nil
		}
		return "json:ok:equivalent", nil
	}
	// differences with a named cause of their own (default key, lone surrogates) keep their signature;
	// the remaining, generic ones are attributed to "the first duplicate won" when that reading of the
	// document explains the output completely
	generic := 0
	for _, d := range diffs {
		if d != "default-key-dropped" && !strings.HasPrefix(d, "lone-surrogate-") {
			generic++
		}
	}
	if generic > 0 {
		if fw, err := decodeFirstWins(doc); err == nil && !reflect.DeepEqual(fw, exp) {
			var fwDiffs []string
			if jsonDiff(fw, got, &fwDiffs); len(fwDiffs) == 0 {
				return "json:not-equivalent", []problem{{"json:duplicate-key-first-wins", fmt.Sprintf("%s: json(parse_json(doc)) = %s keeps the first of the duplicate keys, not the last", id, outText.Native())}}
			}
		}
	}
	var ps []problem
	seen := map[string]bool{}
	for _, d := range diffs {
		if !seen[d] {
			seen[d] = true
			ps = append(ps, problem{"json:" + d, fmt.Sprintf("%s: json(parse_json(doc)) = %s is not JSON-equivalent (%s)", id, outText.Native(), d)})
		}
	}
	return "json:not-equivalent", ps
}

func sameKey(a, b *keyT) bool {
	return a.kind == b.kind || (a.kind == "plain" && b.kind == "escaped-plain") || (a.kind == "escaped-plain" && b.kind == "plain")
}

// walk records which alphabet symbols a document uses (and, when it survived, that they survived).
func (n *node) walk(c *mc.Ctx, survived bool) {
	switch {
	case n.leaf != nil:
		c.Fact("json:leaf-used:" + n.leaf.kind)
		if survived {
			c.Fact("json:leaf-survived:" + n.leaf.kind)
		}
		return
	case !n.arr:
		for i, k := range n.keys {
			c.Fact("json:key-used:" + k.kind)
			for j := 0; j < i; j++ {
				if sameKey(n.keys[j], k) {
					c.Fact("json:duplicate-key")
				}
				a, b := n.keys[j].kind, k.kind
				if (a == "plain" && b == "upper") || (a == "upper" && b == "plain") {
					c.Fact("json:case-variant-keys")
				}
			}
			if n.kids[i].leaf == nil && n.kids[i].arr {
				c.Fact("json:nested-array-in-object")
			}
			// a member masked by a later duplicate is not part of the document's meaning: nothing in it
			// can be said to have survived
			masked := false
			for j := i + 1; j < len(n.keys); j++ {
				masked = masked || sameKey(k, n.keys[j])
			}
			if survived && !masked {
				c.Fact("json:key-survived:" + k.kind)
			}
			n.kids[i].walk(c, survived && !masked)
		}
		return
	default:
		for _, k := range n.kids {
			if k.leaf == nil && !k.arr {
				c.Fact("json:nested-object-in-array")
			}
		}
	}
	for _, k := range n.kids {
		k.walk(c, survived)
	}
}

func jsonCase(c *mc.Ctx, es *envSpec, n *node, spaced bool) {
	doc := n.text(spaced)
	outcome, ps := evalJSON(c, es, doc, n)
	c.Inc("evaluations")
	c.Inc("json_docs")
	c.Inc(fmt.Sprintf("json_docs_depth_%d", n.depth))
	c.Outcome(outcome)
	n.walk(c, len(ps) == 0)
	if n.depth >= 3 {
		c.Fact("json:depth-3")
	}
	if spaced {
		c.Fact("json:spaced-serialisation")
	}
	if len(ps) > 0 {
		report(c, ps, replay{Kind: "json", Doc: doc})
	} else {
		c.Inc("distinct_nontrivial")
		if c.WantSample() && n.depth >= 3 {
			c.Sample(map[string]any{"kind": "json", "doc": doc, "outcome": outcome})
		}
	}
}

func runJSON(c *mc.Ctx, u *units) {
	checkAlphabets()
	es := newEnvSpec(dateFormats[0], timeFormats[0], "UTC")
	// depth <= 2 over the full alphabets, compact and spaced
	leaves := leafNodes(allLeaves)
	shallow := append(append([]*node{}, leaves...), containers(leaves, allKeys)...)
	const chunk = 400
	for lo := 0; lo < len(shallow); lo += chunk {
		if !u.mine() {
			continue
		}
		if expired(c, "JSON") {
			return
		}
		for i := lo; i < lo+chunk && i < len(shallow); i++ {
			jsonCase(c, es, shallow[i], false)
			jsonCase(c, es, shallow[i], true)
		}
	}
	// depth 3: containers of width <= 2 whose children are the documents of depth <= 2 over the
	// reduced alphabets, at least one child being a container (the others were enumerated above)
	dl, dk := deepAlphabet(c.Tier)
	dleaves := leafNodes(dl)
	children := append(append([]*node{}, dleaves...), containers(dleaves, dk)...)
	c.Max("json_depth3_child_alphabet", int64(len(children)))
	deep := func(ns ...*node) bool {
		for _, n := range ns {
			if n.leaf == nil {
				return true
			}
		}
		return false
	}
	for _, a := range children {
		if !u.mine() {
			continue
		}
		if expired(c, "JSON") {
			return
		}
		if deep(a) {
			jsonCase(c, es, mkArray(a), false)
		}
		for _, b := range children {
			if deep(a, b) {
				jsonCase(c, es, mkArray(a, b), false)
			}
		}
	}
	ms := members(children, dk)
	for _, a := range ms {
		if !u.mine() {
			continue
		}
		if expired(c, "JSON") {
			return
		}
		if deep(a.val) {
			jsonCase(c, es, mkObject(a), false)
		}
		for _, b := range ms {
			if deep(a.val, b.val) {
				jsonCase(c, es, mkObject(a, b), false)
			}
		}
	}
}

// ---------------------------------------------------------------------------------------------
// '=' on values read from JSON
// ---------------------------------------------------------------------------------------------

func pairDocs() []string {
	var out []string
	for _, l := range allLeaves {
		if l.kind != "string-lone-surrogate" {
			out = append(out, l.text)
		}
	}
	return append(out, `1`, `1.0`, `100`, `"1"`, `"100"`, `"true"`, `"null"`, `[]`, `{}`, `[1]`, `[1.0]`, `[1,2]`, `[[1],2]`, `"[1]"`, `"[1, 2]"`,
		`{"a":1}`, `{"A":1}`, `{"a":1.0}`, `{"a":1,"b":2}`, `{"b":2,"a":1}`, `{"a":{"b":[1,"x"]}}`, `{"a":{"b":[1,"X"]}}`, `"{a: 1}"`)
}

func runJSONPairs(c *mc.Ctx, u *units) {
	es := newEnvSpec(dateFormats[0], timeFormats[0], "UTC")
	docs := pairDocs()
	for _, a := range docs {
		if !u.mine() {
			continue
		}
		for _, b := range docs {
			outcome, ps := evalJSONPair(c, es, a, b)
			c.Inc("evaluations")
			c.Inc("json_pairs")
			c.Outcome(outcome)
			if len(ps) > 0 {
				report(c, ps, replay{Kind: "json-pair", Doc: a, Doc2: b})
			} else {
				c.Inc("distinct_nontrivial")
			}
		}
	}
}

func evalJSONPair(c *mc.Ctx, es *envSpec, a, b string) (string, []problem) {
	var xa, xb, eq types.XValue
	var ra, rb string
	pan := mc.Guard(func() {
		xa = fnParseJSON.Call(es.env, []types.XValue{types.NewXText(a)})
		xb = fnParseJSON.Call(es.env, []types.XValue{types.NewXText(b)})
		if types.IsXError(xa) || types.IsXError(xb) {
			return
		}
		eq = operators.Equal(es.env, xa, xb)
		ra, rb = types.Render(xa), types.Render(xb)
	})
	id := fmt.Sprintf("parse_json(%s) = parse_json(%s)", a, b)
	if pan != "" {
		return "json-pair:panic", []problem{{"equal:panic:" + mc.PanicSite(pan), id + " panicked: " + pan}}
	}
	if types.IsXError(xa) || types.IsXError(xb) {
		return "json-pair:rejected", []problem{{"json:valid-document-rejected:pair", id + ": a document was rejected"}}
	}
	if ra == rb {
		c.Fact("json-pair:equal-rendering")
	} else {
		c.Fact("json-pair:different-rendering")
	}
	var ps []problem
	if _, isBool := eq.(*types.XBoolean); !isBool {
		ps = append(ps, problem{"equal:not-a-boolean:json", id + " evaluates to " + describe(eq)})
	} else if isTrue(eq) != (ra == rb) {
		ps = append(ps, problem{"equal:disagrees-with-renderings:json", fmt.Sprintf("%s evaluates to %s but the canonical renderings are %q and %q", id, describe(eq), ra, rb)})
	}
	return fmt.Sprintf("json-pair:equal=%v", isTrue(eq)), ps
}
