// Package c08: engine output is a deterministic function of its inputs (map iteration order is an
// environment answer owned by the explorer).
package c08

import (
	"encoding/json"
	"fmt"
	"os"
	"path/filepath"
	"sort"
	"strings"

	"github.com/nyaruka/gocommon/i18n"
	"github.com/nyaruka/gocommon/uuids"
	"github.com/nyaruka/goflow/assets"
	"github.com/nyaruka/goflow/assets/static"
	"github.com/nyaruka/goflow/contactql"
	"github.com/nyaruka/goflow/envs"
	"github.com/nyaruka/goflow/flows"
	"github.com/nyaruka/goflow/flows/definition"
	"github.com/nyaruka/goflow/flows/definition/migrations"
	"github.com/nyaruka/goflow/flows/engine"
	"github.com/nyaruka/goflow/flows/translation"
	"verif/world"
)

type J = world.J

// Scenario is one deterministic computation whose output bytes must not depend on map order.
type Scenario struct {
	Name string
	Run  func() (string, error)
}

// ---------------------------------------------------------------------------------------------
// hand-built engine worlds that stress maps
// ---------------------------------------------------------------------------------------------

func richFlow() J {
	f := 0
	u := func(s string) string { return world.UUID("c08." + s) }
	node0 := J{"uuid": world.NodeUUID(f, 0),
		"actions": []any{
			J{"uuid": u("a.msg"), "type": "send_msg", "text": "Hi @contact.name @fields.gender", "quick_replies": []any{"Yes", "No"}},
			J{"uuid": u("a.r1"), "type": "set_run_result", "name": "Zeta", "value": "1", "category": "One"},
			J{"uuid": u("a.r2"), "type": "set_run_result", "name": "Alpha", "value": "2", "category": "Two"},
			J{"uuid": u("a.r3"), "type": "set_run_result", "name": "Mid", "value": "3"},
			J{"uuid": u("a.f1"), "type": "set_contact_field", "field": J{"key": "gender", "name": "Gender"}, "value": "M"},
			J{"uuid": u("a.f2"), "type": "set_contact_field", "field": J{"key": "age", "name": "Age"}, "value": "44"},
			J{"uuid": u("a.f3"), "type": "set_contact_field", "field": J{"key": "state", "name": "State"}, "value": "Kigali"},
			J{"uuid": u("a.wh"), "type": "call_webhook", "method": "POST", "url": "http://example.com/hook", "body": "@(json(results))",
				"headers": J{"X-Zed": "@(1 / 0)", "X-Alpha": "@(\"a\" + 1)", "X-Mid": "fine", "X-Bad": "@(bad"}, "result_name": "Hook"},
			J{"uuid": u("a.dump"), "type": "send_msg", "text": "@results | @legacy_extra | @fields | @(json(results)) | @(json(fields)) | @urns | @(json(contact)) | @globals | @webhook | @webhook.headers | @(json(webhook))"},
			J{"uuid": u("a.tpl"), "type": "send_msg", "text": "Hi there", "template": J{"uuid": world.TemplateA, "name": "affirmation"}, "template_variables": []any{"@contact.name"}},
			J{"uuid": u("a.g"), "type": "add_contact_groups", "groups": []any{J{"uuid": world.GroupB, "name": "Group B"}, J{"uuid": world.GroupA, "name": "Group A"}}},
		},
		"exits": []any{J{"uuid": world.ExitUUID(f, 0, 0), "destination_uuid": world.NodeUUID(f, 1)}}}
	node1 := J{"uuid": world.NodeUUID(f, 1),
		"router": J{"type": "switch", "operand": "@input.text", "result_name": "Answer", "wait": J{"type": "msg", "timeout": J{"seconds": 60, "category_uuid": u("cat.t")}},
			"cases": []any{
				J{"uuid": u("case.1"), "type": "has_any_word", "arguments": []any{"yes @fields.gender"}, "category_uuid": u("cat.1")},
				J{"uuid": u("case.2"), "type": "has_group", "arguments": []any{world.GroupA, "Group A"}, "category_uuid": u("cat.2")},
				J{"uuid": u("case.3"), "type": "has_intent", "arguments": []any{"book_flight", "0.5"}, "category_uuid": u("cat.2")},
			},
			"categories": []any{
				J{"uuid": u("cat.1"), "name": "Yes", "exit_uuid": world.ExitUUID(f, 1, 0)},
				J{"uuid": u("cat.2"), "name": "Group", "exit_uuid": world.ExitUUID(f, 1, 0)},
				J{"uuid": u("cat.o"), "name": "Other", "exit_uuid": world.ExitUUID(f, 1, 1)},
				J{"uuid": u("cat.t"), "name": "No Response", "exit_uuid": world.ExitUUID(f, 1, 1)},
			},
			"default_category_uuid": u("cat.o")},
		"exits": []any{J{"uuid": world.ExitUUID(f, 1, 0), "destination_uuid": world.NodeUUID(f, 2)}, J{"uuid": world.ExitUUID(f, 1, 1)}}}
	node2 := J{"uuid": world.NodeUUID(f, 2),
		"actions": []any{
			J{"uuid": u("a.cls"), "type": "call_classifier", "classifier": J{"uuid": world.Classifier, "name": "Booking"}, "input": "@input.text", "result_name": "Intent"},
			J{"uuid": u("a.enter"), "type": "enter_flow", "flow": J{"uuid": world.FlowUUID(1), "name": "Child"}},
		},
		"router": J{"type": "switch", "operand": "@results.intent", "result_name": "Intent Split",
			"cases": []any{
				J{"uuid": u("case.i1"), "type": "has_intent", "arguments": []any{"book_hotel", "0.1"}, "category_uuid": u("cat.i1")},
				J{"uuid": u("case.i2"), "type": "has_top_intent", "arguments": []any{"book_flight", "0.1"}, "category_uuid": u("cat.i1")},
			},
			"categories":            []any{J{"uuid": u("cat.i1"), "name": "Intent", "exit_uuid": world.ExitUUID(f, 2, 0)}, J{"uuid": u("cat.i2"), "name": "Other", "exit_uuid": world.ExitUUID(f, 2, 0)}},
			"default_category_uuid": u("cat.i2")},
		"exits": []any{J{"uuid": world.ExitUUID(f, 2, 0)}}}
	loc := J{
		"fra": J{
			u("a.msg"):  J{"text": []any{"Salut @contact.name @fields.age"}, "quick_replies": []any{"Oui", "Non"}},
			u("case.1"): J{"arguments": []any{"oui @globals.org_name"}},
			u("cat.1"):  J{"name": []any{"Oui"}},
		},
		"spa": J{
			u("a.msg"):  J{"text": []any{"Hola @contact.name @fields.state"}},
			u("case.1"): J{"arguments": []any{"si @globals.secret"}},
			u("cat.o"):  J{"name": []any{"Otro"}},
		},
		"kin": J{
			u("a.dump"): J{"text": []any{"@fields.joined @parent.results.role"}},
		},
	}
	return J{"uuid": world.FlowUUID(0), "name": "Rich", "spec_version": "13.5.0", "language": "eng", "type": "messaging", "nodes": []any{node0, node1, node2}, "localization": loc}
}

func childFlows() []any {
	mk := func(i int, name string) J {
		spec := world.FlowSpec{Nodes: []world.Node{{Kind: "AR", Dests: []int{-1}}}}
		fl := world.Render(i, spec, 0)
		fl["name"] = name
		return fl
	}
	return []any{mk(1, "Child"), mk(2, "child"), mk(3, "CHILD")}
}

func richAssets() J {
	a := world.BaseAssets()
	a["flows"] = append([]any{richFlow()}, childFlows()...)
	return a
}

func sprintBytes(sp flows.Sprint, err error) string {
	if err != nil {
		return "ERR:" + err.Error()
	}
	eb, _ := json.Marshal(sp.Events())
	var segs []string
	for _, s := range sp.Segments() {
		segs = append(segs, fmt.Sprintf("%s>%s>%s>%s", s.Node().UUID(), s.Exit().UUID(), s.Operand(), s.Destination().UUID()))
	}
	return string(eb) + "|" + strings.Join(segs, ",")
}

func engineScenario(name string, root func() *world.Root, hist []world.Step, extra func(x *world.Exec, out *strings.Builder)) Scenario {
	return Scenario{Name: name, Run: func() (string, error) {
		r := root()
		r.FreshAssets = true
		var out strings.Builder
		x, err := r.Start(hist[0])
		if err != nil {
			return "", err
		}
		out.WriteString(sprintBytes(x.Sprint, x.Err))
		sj, _ := json.Marshal(x.Session)
		out.Write(sj)
		for _, st := range hist[1:] {
			if x.Err != nil {
				break
			}
			if err := x.Apply(st); err != nil {
				return "", err
			}
			out.WriteString(sprintBytes(x.Sprint, x.Err))
			sj, _ := json.Marshal(x.Session)
			out.Write(sj)
		}
		if extra != nil {
			extra(x, &out)
		}
		return out.String(), nil
	}}
}

func richContact(lang string) J {
	c := world.DefaultContact()
	c["language"] = lang
	c["fields"] = J{"gender": J{"text": "F"}, "age": J{"text": "30", "number": 30}, "joined": J{"text": "2020-01-01", "datetime": "2020-01-01T00:00:00Z"}}
	c["groups"] = []any{J{"uuid": world.GroupA, "name": "Group A"}}
	return c
}

// FlowAPIs applies every deterministic flow-level API to one loaded flow.
func flowAPIs(sa flows.SessionAssets, fl flows.Flow, out *strings.Builder) {
	b, _ := json.Marshal(fl.Inspect(sa))
	out.WriteString("INSPECT:")
	out.Write(b)
	out.WriteString("\nTEMPLATES:" + strings.Join(fl.ExtractTemplates(), "\x1f"))
	out.WriteString("\nLOCALIZABLES:" + strings.Join(fl.ExtractLocalizables(), "\x1f"))
	mb, _ := json.Marshal(fl)
	out.WriteString("\nMARSHAL:")
	out.Write(mb)
	langs := fl.Localization().Languages()
	sorted := make([]string, len(langs))
	for i, l := range langs {
		sorted[i] = string(l)
	}
	sort.Strings(sorted) // the order of Languages() itself is not claimed by anything; its uses are
	for _, l := range sorted {
		cl, err := fl.ChangeLanguage(i18n.Language(l))
		if err != nil {
			out.WriteString("\nCHANGELANG " + l + " ERR " + err.Error())
			continue
		}
		cb, _ := json.Marshal(cl)
		out.WriteString("\nCHANGELANG " + l + ":")
		out.Write(cb)
		po, err := translation.ExtractFromFlows("verif", i18n.Language(l), nil, fl)
		if err == nil {
			var sb strings.Builder
			po.Write(&sb)
			out.WriteString("\nPO " + l + ":" + sb.String())
		}
	}
}

// fileScenarios turns every asset file of the repository's own runner test data into scenarios:
// for every flow definition: migrate to latest (from its recorded version / legacy), clone with a
// fixed mapping, read, inspect, extract, change language, PO export.
func fileScenarios(repo string) []Scenario {
	var out []Scenario
	files, _ := filepath.Glob(filepath.Join(repo, "test/testdata/runner/*.json"))
	more, _ := filepath.Glob(filepath.Join(repo, "flows/definition/testdata/*.json"))
	files = append(files, more...)
	sort.Strings(files)
	for _, file := range files {
		if strings.Contains(filepath.Base(file), ".test") {
			continue
		}
		data, err := os.ReadFile(file)
		if err != nil {
			continue
		}
		var doc struct {
			Flows  []json.RawMessage `json:"flows"`
			Groups []struct {
				Query string `json:"query"`
			} `json:"groups"`
		}
		if json.Unmarshal(data, &doc) != nil || len(doc.Flows) == 0 {
			continue
		}
		file := file
		out = append(out, Scenario{Name: "file:" + filepath.Base(file), Run: func() (string, error) {
			world.Reset()
			var sb strings.Builder
			src, err := static.NewSource(data)
			if err != nil {
				return "", err
			}
			sa, err := engine.NewSessionAssets(envs.NewBuilder().Build(), src, nil)
			if err != nil {
				return "", err
			}
			for i, raw := range doc.Flows {
				var hdr struct {
					UUID string `json:"uuid"`
				}
				json.Unmarshal(raw, &hdr)
				migrated, err := migrations.MigrateToLatest(raw, migrations.DefaultConfig)
				if err != nil {
					sb.WriteString(fmt.Sprintf("\nFLOW %d MIGRATE ERR %v", i, err))
				} else {
					sb.WriteString(fmt.Sprintf("\nFLOW %d MIGRATED:", i))
					sb.Write(migrated)
					mapping := map[uuids.UUID]uuids.UUID{}
					// a fixed mapping for every UUID-looking dependency of the definition
					var any map[string]any
					if json.Unmarshal(migrated, &any) == nil {
						collectUUIDs(any, mapping)
					}
					cloned, err := migrations.Clone(migrated, mapping)
					if err == nil {
						sb.WriteString("\nCLONED:")
						sb.Write(cloned)
					}
				}
				if hdr.UUID == "" {
					continue
				}
				fl, err := sa.Flows().Get(assets.FlowUUID(hdr.UUID))
				if err != nil {
					sb.WriteString(fmt.Sprintf("\nFLOW %d LOAD ERR %v", i, err))
					continue
				}
				flowAPIs(sa, fl, &sb)
			}
			for _, g := range doc.Groups {
				if g.Query == "" {
					continue
				}
				q, err := contactql.ParseQuery(envs.NewBuilder().Build(), g.Query, sa.Fields())
				if err == nil {
					ib, _ := json.Marshal(contactql.Inspect(q))
					sb.WriteString("\nQUERY:" + q.String() + " " + string(ib))
				}
			}
			return sb.String(), nil
		}})
	}
	return out
}

// collectUUIDs maps the uuid of every {"uuid":..., "name":...} reference object to a fixed new UUID.
func collectUUIDs(v any, mapping map[uuids.UUID]uuids.UUID) {
	switch t := v.(type) {
	case map[string]any:
		if u, ok := t["uuid"].(string); ok {
			if _, hasName := t["name"]; hasName {
				mapping[uuids.UUID(u)] = uuids.UUID(world.UUID("clone-of-" + u))
			}
		}
		for _, x := range t {
			collectUUIDs(x, mapping)
		}
	case []any:
		for _, x := range t {
			collectUUIDs(x, mapping)
		}
	}
}

// addLanguages gives every translation dictionary (an object with an "eng" or "base" string member)
// two more languages, so that legacy migrations iterate over several languages.
func addLanguages(v any) any {
	switch t := v.(type) {
	case map[string]any:
		for _, base := range []string{"eng", "base"} {
			if sv, ok := t[base].(string); ok {
				if _, has := t["fra"]; !has {
					t["fra"] = sv + " (fra)"
				}
				if _, has := t["spa"]; !has {
					t["spa"] = sv + " (spa)"
				}
			}
		}
		for k, x := range t {
			t[k] = addLanguages(x)
		}
	case []any:
		for i, x := range t {
			t[i] = addLanguages(x)
		}
	}
	return v
}

// dropBase removes the base-language entry from translation dictionaries that have two other
// languages (only where the value is a category-like short text: message texts keep their base).
func dropBase(v any) any {
	switch t := v.(type) {
	case map[string]any:
		_, hasFra := t["fra"].(string)
		_, hasSpa := t["spa"].(string)
		if hasFra && hasSpa {
			for _, base := range []string{"eng", "base"} {
				if sv, ok := t[base].(string); ok && len(sv) < 24 {
					delete(t, base)
				}
			}
		}
		for k, x := range t {
			t[k] = dropBase(x)
		}
	case []any:
		for i, x := range t {
			t[i] = dropBase(x)
		}
	}
	return v
}

// migrationScenarios: every "original" definition of the repository's migration test data, and
// every legacy flow of the runner test data with two extra translation languages, migrated to latest
// and put through the flow APIs.
func migrationScenarios(repo string) []Scenario {
	var out []Scenario
	run := func(name string, defs []json.RawMessage) {
		out = append(out, Scenario{Name: name, Run: func() (string, error) {
			world.Reset()
			var sb strings.Builder
			sa, _, err := world.BuildAssets(world.BaseAssets())
			if err != nil {
				return "", err
			}
			for i, raw := range defs {
				migrated, err := migrations.MigrateToLatest(raw, migrations.DefaultConfig)
				if err != nil {
					sb.WriteString(fmt.Sprintf("\nDEF %d MIGRATE ERR %v", i, err))
					continue
				}
				sb.WriteString(fmt.Sprintf("\nDEF %d MIGRATED:", i))
				sb.Write(migrated)
				var any map[string]any
				mapping := map[uuids.UUID]uuids.UUID{}
				if json.Unmarshal(migrated, &any) == nil {
					collectUUIDs(any, mapping)
				}
				if cloned, err := migrations.Clone(migrated, mapping); err == nil {
					sb.WriteString("\nCLONED:")
					sb.Write(cloned)
				}
				fl, err := definition.ReadFlow(migrated, migrations.DefaultConfig)
				if err != nil {
					sb.WriteString(fmt.Sprintf("\nDEF %d READ ERR %v", i, err))
					continue
				}
				flowAPIs(sa, fl, &sb)
			}
			return sb.String(), nil
		}})
	}
	files, _ := filepath.Glob(filepath.Join(repo, "flows/definition/migrations/testdata/migrations/*.json"))
	sort.Strings(files)
	for _, file := range files {
		b, err := os.ReadFile(file)
		if err != nil {
			continue
		}
		var cases []struct {
			Original json.RawMessage `json:"original"`
		}
		if json.Unmarshal(b, &cases) != nil {
			continue
		}
		var defs []json.RawMessage
		for _, c := range cases {
			defs = append(defs, c.Original)
		}
		run("migration-testdata:"+filepath.Base(file), defs)
	}
	if all, airtime := legacyRuleSetDefs(repo); all != nil {
		run("legacy-rulesets:all", all)
		if airtime != nil {
			vs := airtimeVariants(airtime)
			var names []string
			for n := range vs {
				names = append(names, n)
			}
			sort.Strings(names)
			for _, n := range names {
				run("legacy-airtime:"+n, []json.RawMessage{vs[n]})
			}
		}
	}
	legacy, _ := filepath.Glob(filepath.Join(repo, "test/testdata/runner/legacy_*.json"))
	sort.Strings(legacy)
	for _, file := range legacy {
		if strings.Contains(filepath.Base(file), ".test") {
			continue
		}
		b, err := os.ReadFile(file)
		if err != nil {
			continue
		}
		var doc struct {
			Flows []any `json:"flows"`
		}
		if json.Unmarshal(b, &doc) != nil {
			continue
		}
		var defs []json.RawMessage
		for _, f := range doc.Flows {
			nb, _ := json.Marshal(addLanguages(f))
			defs = append(defs, nb)
		}
		run("legacy-multilang:"+filepath.Base(file), defs)
		// the same with the base-language entry removed from every translation dictionary that has
		// other languages: what stands in for the missing base text must not depend on map order
		var nobase []json.RawMessage
		for _, f := range doc.Flows {
			nb, _ := json.Marshal(dropBase(addLanguages(f)))
			nobase = append(nobase, nb)
		}
		run("legacy-multilang-without-base:"+filepath.Base(file), nobase)
	}
	return out
}

// groupWorld is a tiny world with a query-based group over a field; with fieldType "" the field does
// not exist (the same query text is then not valid for these assets).
func groupWorld(fieldType string) *world.Root {
	a := world.BaseAssets()
	var fields []any
	for _, f := range a["fields"].([]any) {
		if f.(J)["key"] != "age" {
			fields = append(fields, f)
		}
	}
	if fieldType != "" {
		fields = append(fields, J{"uuid": world.UUID("field-age"), "key": "age", "name": "Age", "type": fieldType})
	}
	a["fields"] = fields
	a["groups"] = append(a["groups"].([]any), J{"uuid": world.UUID("c08.adults"), "name": "Adults", "query": "age > 18"})
	spec := world.FlowSpec{Nodes: []world.Node{{Kind: "A", Dests: []int{-1}}}}
	a["flows"] = []any{world.Render(0, spec, 0)}
	c := world.DefaultContact()
	c["fields"] = J{"age": J{"text": "30", "number": 30}}
	c["groups"] = []any{J{"uuid": world.UUID("c08.adults"), "name": "Adults"}}
	return &world.Root{Assets: a, Trigger: "manual", Contact: c, FreshAssets: true}
}

func runRoot(r *world.Root) string {
	x, err := r.Start(world.Step{})
	if err != nil {
		return "ASSETS/TRIGGER ERROR: " + err.Error()
	}
	out := sprintBytes(x.Sprint, x.Err)
	if x.Err == nil {
		sj, _ := json.Marshal(x.Session)
		out += string(sj)
	}
	return out
}

// processStateScenarios: the same computation before and after the process did something else must
// give the same bytes ("results never depend on ... other incidental process state"). The
// something-else is chosen to share keys a cache might use: the same group query text over assets
// in which the field exists, has another type, or does not exist.
func processStateScenarios() []Scenario {
	var out []Scenario
	variants := []string{"number", "text", ""}
	for _, first := range variants {
		for _, other := range variants {
			if first == other {
				continue
			}
			first, other := first, other
			out = append(out, Scenario{Name: fmt.Sprintf("process-state:group-query field=%q after field=%q", first, other), Run: func() (string, error) {
				early := runRoot(groupWorld(first))
				runRoot(groupWorld(other))
				late := runRoot(groupWorld(first))
				if early != late {
					return "", fmt.Errorf("PROCESS-STATE: the same session gives different bytes after the process handled other assets that share the group query text\nbefore: %s\nafter:  %s", trimTo(early, 500), trimTo(late, 500))
				}
				return early, nil
			}})
		}
	}
	return out
}

func trimTo(s string, n int) string {
	if len(s) > n {
		return s[:n] + "…"
	}
	return s
}

// Scenarios lists all scenarios.
func Scenarios(repo string) []Scenario {
	var out []Scenario
	for _, lang := range []string{"eng", "fra", "spa"} {
		for _, tr := range []string{"manual", "msg", "flow_action"} {
			lang, tr := lang, tr
			for _, step := range []int64{0, -1} { // -1: zero clock step = equal timestamps everywhere
				for hi, hist := range [][]world.Step{{{}, {Ev: "msg:yes F"}}, {{}, {Ev: "msg:other", Restart: true}}, {{}, {Ev: "timeout"}}} {
					name := fmt.Sprintf("engine:rich lang=%s trigger=%s clockstep=%d hist=%d", lang, tr, step, hi)
					out = append(out, engineScenario(name, func() *world.Root {
						return &world.Root{Assets: richAssets(), Trigger: tr, Contact: richContact(lang), Opt: world.Options{MaxSteps: 50}, Step: step}
					}, hist, func(x *world.Exec, sb *strings.Builder) {
						// load every flow so that the lazily filled cache holds several case-variant names
						for i := 1; i <= 3; i++ {
							x.SA.Flows().Get(assets.FlowUUID(world.FlowUUID(i)))
						}
						for _, n := range []string{"child", "Child", "CHILD", "rich"} {
							fl, err := x.SA.Flows().FindByName(n)
							if err == nil {
								sb.WriteString("\nFINDBYNAME " + n + " -> " + string(fl.UUID()))
							}
						}
						fl, err := x.SA.Flows().Get(assets.FlowUUID(world.FlowUUID(0)))
						if err == nil {
							flowAPIs(x.SA, fl, sb)
						}
						if x.Session != nil && x.Err == nil {
							if ctx := x.Session.CurrentContext(); ctx != nil {
								cb, _ := json.Marshal(ctx)
								sb.WriteString("\nCONTEXT:")
								sb.Write(cb)
							}
						}
					}))
				}
			}
		}
	}
	out = append(out, fileScenarios(repo)...)
	out = append(out, migrationScenarios(repo)...)
	out = append(out, processStateScenarios()...)
	out = append(out, edgeScenarios()...)
	out = append(out, envStateScenarios()...)
	out = append(out, valueStateScenarios()...)
	out = append(out, objectHistoryScenarios()...)
	return out
}
