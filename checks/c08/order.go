//go:build order

package c08

import (
	"encoding/json"
	"fmt"
	"os/exec"
	"sort"
	"strings"

	"github.com/nyaruka/goflow/verifshim/mcorder"
	"verif/mc"
)

func permFor(policy string, n int) []int {
	p := make([]int, n)
	for i := range p {
		p[i] = i
	}
	switch policy {
	case "reverse":
		for i := range p {
			p[i] = n - 1 - i
		}
	case "rotate+1":
		for i := range p {
			p[i] = (i + 1) % n
		}
	case "rotate-1":
		for i := range p {
			p[i] = (i + n - 1) % n
		}
	case "swap01":
		p[0], p[1] = p[1], p[0]
	}
	return p
}

var policies = []string{"reverse", "rotate+1", "rotate-1", "swap01"}

type pointRec struct {
	site string
	n    int
}

// execute runs a scenario under a deviation: policy at site (all instances when point < 0, else only
// the point-th dynamic instance overall), optionally a second (site, policy).
func execute(sc *Scenario, rp *replay, record *[]pointRec) (string, error) {
	idx := 0
	mcorder.Policy = func(p *mcorder.Point) []int {
		i := idx
		idx++
		if rp == nil {
			return nil
		}
		if p.Site == rp.Site && (rp.Point < 0 || rp.Point == i) {
			return permFor(rp.Policy, p.N)
		}
		if rp.Site2 != "" && p.Site == rp.Site2 {
			return permFor(rp.Policy2, p.N)
		}
		return nil
	}
	mcorder.Record = nil
	if record != nil {
		mcorder.Record = func(p *mcorder.Point) { *record = append(*record, pointRec{p.Site, p.N}) }
	}
	defer func() { mcorder.Policy, mcorder.Record = nil, nil }()
	var out string
	var err error
	if p := mc.Guard(func() { out, err = sc.Run() }); p != "" {
		return "", fmt.Errorf("panic: %s", p)
	}
	return out, err
}

func firstDiff(a, b string) string {
	n := len(a)
	if len(b) < n {
		n = len(b)
	}
	i := 0
	for i < n && a[i] == b[i] {
		i++
	}
	lo := i - 120
	if lo < 0 {
		lo = 0
	}
	hi := func(s string) string {
		e := i + 120
		if e > len(s) {
			e = len(s)
		}
		return s[lo:e]
	}
	return fmt.Sprintf("first difference at byte %d\ncanonical: …%s…\ndeviating: …%s…", i, hi(a), hi(b))
}

func runOrder(c *mc.Ctx) {
	scs := Scenarios(c.Args["repo"])
	c.Add("scenarios_total", 0)
	sitesHit := map[string]bool{}
	for si := range scs {
		if !c.Mine(si) {
			continue
		}
		if c.Expired() {
			c.Cap("time budget reached; scenarios before the cap were explored completely")
			break
		}
		sc := &scs[si]
		var points []pointRec
		base, err := execute(sc, nil, &points)
		if err != nil && strings.HasPrefix(sc.Name, "process-state:") {
			// different bytes, or a failure of a computation that succeeds in a fresh process
			key := "process-state:" + strings.SplitN(strings.TrimPrefix(sc.Name, "process-state:"), " ", 2)[0]
			if !strings.HasPrefix(err.Error(), "PROCESS-STATE:") {
				key += ":fails-after-the-process-handled-other-assets"
			}
			c.Violation(key, sc.Name+"\n"+err.Error(), replay{Scenario: sc.Name})
			continue
		}
		if err != nil {
			c.Violation("harness:scenario-failed:"+mc.Hash(sc.Name), sc.Name+": "+err.Error(), nil)
			continue
		}
		c.Inc("scenarios")
		c.Inc("evaluations")
		c.Inc("states")
		c.Add("transitions", int64(len(points)))
		c.Add("dynamic_points", int64(len(points)))
		// determinism of the harness itself: canonical order twice
		again, _ := execute(sc, nil, nil)
		if again != base {
			c.Violation("harness:nondeterministic-under-canonical-order:"+mc.Hash(sc.Name), "the scenario gives different bytes twice under canonical order (a seam is not owned): "+sc.Name+"\n"+firstDiff(base, again), replay{Scenario: sc.Name})
			continue
		}
		// static sites hit with more than one key, and the largest n seen per site
		maxN := map[string]int{}
		for _, p := range points {
			if p.n > maxN[p.site] {
				maxN[p.site] = p.n
			}
		}
		var sites []string
		for s := range maxN {
			sites = append(sites, s)
			if !sitesHit[s] {
				sitesHit[s] = true
				c.Fact("site:" + s)
			}
		}
		sort.Strings(sites)
		dependent := false
		try := func(rp replay) {
			out, err := execute(sc, &rp, nil)
			c.Inc("evaluations")
			c.Inc("states")
			c.Inc("deviating_executions")
			if err != nil {
				c.Violation("order:"+rp.Site+":scenario-fails-under-deviation", sc.Name+": "+err.Error(), rp)
				dependent = true
				return
			}
			if out != base {
				dependent = true
				key := "order:" + rp.Site
				if rp.Site2 != "" {
					key = "order-pair:" + rp.Site + "+" + rp.Site2
				}
				c.Violation(key, fmt.Sprintf("output depends on the iteration order of the map ranged over at %s (policy %s, scenario %s)\n%s", rp.Site, rp.Policy, sc.Name, firstDiff(base, out)), rp)
			}
		}
		singleDependent := map[string]bool{}
		for _, s := range sites {
			before := dependent
			dependent = false
			for _, pol := range policies {
				if maxN[s] == 2 && pol != "reverse" {
					continue // all 2! orders are covered by reverse
				}
				try(replay{Scenario: sc.Name, Site: s, Policy: pol, Point: -1})
			}
			if dependent {
				singleDependent[s] = true
			}
			dependent = dependent || before
		}
		if c.Thorough() {
			// one dynamic point deviates
			for pi, p := range points {
				if singleDependent[p.site] {
					continue // already reported for the site
				}
				if c.Expired() {
					c.Cap("time budget reached in per-point deviations")
					break
				}
				for _, pol := range []string{"reverse", "rotate+1"} {
					if p.n == 2 && pol != "reverse" {
						continue
					}
					try(replay{Scenario: sc.Name, Site: p.site, Policy: pol, Point: pi})
				}
			}
			// two static sites deviate
			for i := range sites {
				for j := i + 1; j < len(sites); j++ {
					if singleDependent[sites[i]] || singleDependent[sites[j]] {
						continue
					}
					try(replay{Scenario: sc.Name, Site: sites[i], Policy: "reverse", Point: -1, Site2: sites[j], Policy2: "reverse"})
				}
			}
		}
		if c.WantSample() {
			c.Sample(map[string]any{"scenario": sc.Name, "dynamic_points": len(points), "static_sites_hit": sites, "output_bytes": len(base)})
		}
		if len(sites) > 0 {
			c.Inc("distinct_nontrivial")
		}
		// ties the rewrite to the real code: a fresh process of the un-rewritten build
		if !dependent {
			cmd := exec.Command(c.Args["plain_exe"], "C08", "--args", mc.JSON(c.Args), "--single", sc.Name)
			b, err := cmd.CombinedOutput()
			c.Inc("plain_crosschecks")
			got := ""
			for _, l := range strings.Split(string(b), "\n") {
				if strings.HasPrefix(l, "DIGEST ") {
					got = strings.TrimPrefix(l, "DIGEST ")
				}
			}
			if err != nil || got != digest(base) {
				key := "plain-build-differs-from-canonical-order:" + mc.Hash(sc.Name)
				if strings.HasPrefix(sc.Name, "process-state:") {
					// the worker process has run other scenarios before: state they left behind changes this one
					key = "process-state:" + strings.SplitN(strings.TrimPrefix(sc.Name, "process-state:"), " ", 2)[0] + ":differs-from-a-fresh-process"
				}
				c.Violation(key, fmt.Sprintf("a fresh process of the un-rewritten build gives different bytes than the canonical-order run although no order-dependence was detected: %s (%v, %s vs %s)", sc.Name, err, got, digest(base)), replay{Scenario: sc.Name})
			}
		} else {
			c.Inc("plain_crosschecks_skipped_order_dependent")
		}
	}
}

func replayOrder(c *mc.Ctx, raw json.RawMessage) (string, bool) {
	var rp replay
	if err := json.Unmarshal(raw, &rp); err != nil {
		return err.Error(), false
	}
	for _, sc := range Scenarios(repoDir()) {
		if sc.Name != rp.Scenario {
			continue
		}
		base, err := execute(&sc, nil, nil)
		if err != nil {
			return err.Error(), strings.HasPrefix(err.Error(), "PROCESS-STATE:")
		}
		out, err := execute(&sc, &rp, nil)
		if err != nil {
			return "fails under deviation: " + err.Error(), true
		}
		if out != base {
			return fmt.Sprintf("scenario %s: output depends on order at %s (%s)\n%s", rp.Scenario, rp.Site, rp.Policy, firstDiff(base, out)), true
		}
		return "identical output", false
	}
	return "unknown scenario", false
}
