package c08

import (
	"encoding/json"
	"fmt"
	"strings"

	"github.com/nyaruka/goflow/assets"
	"github.com/nyaruka/goflow/flows"
	"verif/world"
)

// ---------------------------------------------------------------------------------------------
// Scenarios aimed at iteration sites the map-heavy world does not reach with two or more keys, or
// reaches only with keys that cannot collide: objects whose keys differ only by case, message
// templates with several variables (one value containing another placeholder), a node with issues
// of two different kinds, classification results with several entities, run summaries.
// ---------------------------------------------------------------------------------------------

const caseVariantDoc = `{"Name":"upper-first","name":"lower","NAME":"all-upper","inner":{"Key":1,"key":2,"KEY":3},"list":[{"a":1,"A":2}]}`

const intentResult = `{"name":"Intent","value":"book","category":"Book","node_uuid":"8476e6fe-1c22-436c-be2c-c27afdc940f3","created_on":"2020-01-01T00:00:00Z","input":"x","extra":{"intents":[{"name":"book","confidence":0.9},{"name":"Book","confidence":0.9}],"entities":{"zone":[{"value":"z","confidence":0.5}],"Area":[{"value":"a","confidence":0.5}],"area":[{"value":"b","confidence":0.5}]}}}`

func edgeAssets() J {
	a := world.BaseAssets()
	a["templates"] = []any{
		J{"uuid": world.TemplateA, "name": "affirmation", "translations": []any{
			J{"channel": J{"uuid": world.ChanTel, "name": "Tel"}, "locale": "eng", "status": "approved",
				"components": []any{
					J{"name": "header", "type": "header/media", "content": "{{1}} {{2}}", "variables": J{"1": 0, "2": 1}},
					J{"name": "body", "type": "body/text", "content": "Hi {{1}}, your code is {{2}} ({{3}})", "variables": J{"1": 2, "2": 3, "3": 4}},
					J{"name": "button.0", "type": "button/quick_reply", "content": "{{1}} or {{2}}", "variables": J{"1": 3, "2": 2}},
				},
				"variables": []any{J{"type": "image"}, J{"type": "video"}, J{"type": "text"}, J{"type": "text"}, J{"type": "text"}}},
		}},
	}
	return a
}

func edgeFlow() J {
	f := 0
	u := func(s string) string { return world.UUID("c08.edge." + s) }
	esc := func(s string) string { return strings.ReplaceAll(s, `"`, `\"`) }
	doc := esc(caseVariantDoc)
	res := esc(intentResult)
	node0 := J{"uuid": world.NodeUUID(f, 0),
		"actions": []any{
			// lookups into an object whose keys differ only by case
			J{"uuid": u("a.case"), "type": "send_msg", "text": `@(parse_json("` + doc + `").name) | @(parse_json("` + doc + `").NAME) | @(parse_json("` + doc + `").Name) | @(parse_json("` + doc + `").inner.key) | @(parse_json("` + doc + `").list[0].a) | @(parse_json("` + doc + `")) | @(json(parse_json("` + doc + `"))) | @(count(parse_json("` + doc + `")))`},
			// a template with several variables: a value that contains another placeholder, two media values
			J{"uuid": u("a.tpl"), "type": "send_msg", "text": "Hi there", "template": J{"uuid": world.TemplateA, "name": "affirmation"},
				"template_variables": []any{"image/jpeg:http://example.com/a.jpg", "video/mp4:http://example.com/b.mp4", "{{2}}", "1234", "{{1}}{{2}}"}},
			// classification result with several entities and intents that differ only by case
			J{"uuid": u("a.intent"), "type": "send_msg", "text": `@(has_intent(parse_json("` + res + `"), "book", 0.5)) | @(json(has_intent(parse_json("` + res + `"), "BOOK", 0.5))) | @(has_top_intent(parse_json("` + res + `"), "book", 0.5).extra)`},
			J{"uuid": u("a.r1"), "type": "set_run_result", "name": "Zeta", "value": "1", "category": "One"},
			J{"uuid": u("a.r2"), "type": "set_run_result", "name": "Alpha", "value": "2", "category": "Two"},
			// a run summary (results are cloned into it)
			J{"uuid": u("a.start"), "type": "start_session", "flow": J{"uuid": world.FlowUUID(0), "name": "Flow 0"}, "contacts": []any{J{"uuid": world.UUID("contact"), "name": "Ann"}}},
			// a missing dependency on the node whose router has an invalid regex: two kinds of issue
			J{"uuid": u("a.grp"), "type": "add_contact_groups", "groups": []any{J{"uuid": u("group.missing"), "name": "Missing"}}},
		},
		"router": J{"type": "switch", "operand": "@input.text",
			"cases": []any{
				J{"uuid": u("case0"), "type": "has_pattern", "arguments": []any{"(["}, "category_uuid": u("cat0")},
				J{"uuid": u("case1"), "type": "has_group", "arguments": []any{u("group.missing2"), "Missing Two"}, "category_uuid": u("cat0")},
			},
			"categories":            []any{J{"uuid": u("cat0"), "name": "Match", "exit_uuid": world.ExitUUID(f, 0, 0)}, J{"uuid": u("cat1"), "name": "Other", "exit_uuid": world.ExitUUID(f, 0, 1)}},
			"default_category_uuid": u("cat1")},
		"exits": []any{J{"uuid": world.ExitUUID(f, 0, 0)}, J{"uuid": world.ExitUUID(f, 0, 1)}}}
	return J{"uuid": world.FlowUUID(0), "name": "Flow 0", "spec_version": "13.5.0", "language": "eng", "type": "messaging", "nodes": []any{node0}}
}

func edgeScenarios() []Scenario {
	var out []Scenario
	for _, tr := range []string{"manual", "msg"} {
		tr := tr
		out = append(out, engineScenario("engine:edge trigger="+tr, func() *world.Root {
			a := edgeAssets()
			a["flows"] = []any{edgeFlow()}
			return &world.Root{Assets: a, Trigger: tr, Contact: richContact("eng"), Opt: world.Options{MaxSteps: 20}}
		}, []world.Step{{}}, func(x *world.Exec, sb *strings.Builder) {
			fl, err := x.SA.Flows().Get(assets.FlowUUID(world.FlowUUID(0)))
			if err == nil {
				flowAPIs(x.SA, fl, sb)
			}
		}))
	}
	// the preview of a template translation on its own, for every way of filling its variables from a
	// small alphabet of values (plain, containing a placeholder of another variable, media)
	vals := []string{"Ann", "{{1}}", "{{2}}", "{{3}}", "image/jpeg:http://example.com/a.jpg"}
	out = append(out, Scenario{Name: "api:template-preview variables x values", Run: func() (string, error) {
		a := edgeAssets()
		sa, _, err := world.BuildAssets(a)
		if err != nil {
			return "", err
		}
		tpl := sa.Templates().Get(assets.TemplateUUID(world.TemplateA))
		if tpl == nil {
			return "", fmt.Errorf("template not found")
		}
		var sb strings.Builder
		for _, tt := range tpl.Translations() {
			trans := flows.NewTemplateTranslation(tt)
			idx := make([]int, 3)
			for {
				vars := []*flows.TemplatingVariable{{Type: "image", Value: "image/jpeg:http://example.com/h.jpg"}, {Type: "video", Value: "video/mp4:http://example.com/h.mp4"}}
				for _, i := range idx {
					vars = append(vars, &flows.TemplatingVariable{Type: "text", Value: vals[i]})
				}
				b, _ := json.Marshal(trans.Preview(vars))
				sb.Write(b)
				sb.WriteByte('\n')
				k := 0
				for k < len(idx) {
					idx[k]++
					if idx[k] < len(vals) {
						break
					}
					idx[k] = 0
					k++
				}
				if k == len(idx) {
					break
				}
			}
		}
		return sb.String(), nil
	}})
	return out
}

// ---------------------------------------------------------------------------------------------
// Process state across environments: the same session under environment E1 must give the same bytes
// before and after the process ran the same flow under an environment E2 that shares some settings
// with E1 and differs in others (what a memo keyed by part of the environment would confuse).
// ---------------------------------------------------------------------------------------------

func envProbeFlow() J {
	f := 0
	u := func(s string) string { return world.UUID("c08.env." + s) }
	tests := []string{
		`has_number("it costs 1'234 now")`, `has_number("1.234,5")`, `has_number("1,234.5")`, `has_number("1 234")`, `has_number_between("12,5", 12, 13)`,
		`format_number(1234.567)`, `format_number(1234.567, 1, false)`, `number("1,5")`, `number("1.5")`, `"1,5" + 1`,
		`has_date("on 01-02-2003")`, `has_date("02/01/03 at 5pm")`, `has_time("3:04 pm")`, `datetime("01-02-2003 10:20")`, `format_datetime("2003-02-01T10:20:30Z")`, `format_date("2003-02-01T23:20:30Z")`, `format_time("15:04:05")`, `today()`,
		`has_phone("0788123123")`, `has_phone("206 555 1212")`, `title("ann o'neil-smith")`, `has_text(" ")`, `has_any_word("İstanbul ISTANBUL", "istanbul")`, `has_state("kigali")`, `format_location("Rwanda > Kigali City")`,
		`contact`, `format_urn(urns.tel)`,
	}
	var parts []string
	for _, t := range tests {
		parts = append(parts, "@("+t+")")
	}
	node0 := J{"uuid": world.NodeUUID(f, 0),
		"actions": []any{
			J{"uuid": u("a.msg"), "type": "send_msg", "text": strings.Join(parts, " | ")},
			J{"uuid": u("a.res"), "type": "set_run_result", "name": "Probe", "value": "@(format_number(1234.5)) @(has_number(\"1'234\").match)"},
			J{"uuid": u("a.field"), "type": "set_contact_field", "field": J{"key": "age", "name": "Age"}, "value": "1.234,5"},
		},
		"exits": []any{J{"uuid": world.ExitUUID(f, 0, 0)}}}
	return J{"uuid": world.FlowUUID(0), "name": "Flow 0", "spec_version": "13.5.0", "language": "eng", "type": "messaging", "nodes": []any{node0}}
}

type envVariant struct {
	name string
	set  func(e J)
}

func envVariants() []envVariant {
	nf := func(dec, grp string) func(J) {
		return func(e J) { e["number_format"] = J{"decimal_symbol": dec, "digit_grouping_symbol": grp} }
	}
	return []envVariant{
		{"default", func(e J) {}},
		{"num=.'", nf(".", "'")},
		{"num=. ", nf(".", " ")},
		{"num=,.", nf(",", ".")},
		{"num=,'", nf(",", "'")},
		{"date=DD-MM-YYYY", func(e J) { e["date_format"] = "DD-MM-YYYY" }},
		{"date=MM-DD-YYYY", func(e J) { e["date_format"] = "MM-DD-YYYY" }},
		{"time=h:mm aa", func(e J) { e["time_format"] = "h:mm aa" }},
		{"tz=Africa/Kigali", func(e J) { e["timezone"] = "Africa/Kigali" }},
		{"country=RW", func(e J) { e["default_country"] = "RW" }},
		{"langs=fra", func(e J) { e["allowed_languages"] = []any{"fra", "eng"} }},
		{"collation=confusables", func(e J) { e["input_collation"] = "confusables" }},
		{"redaction=urns", func(e J) { e["redaction_policy"] = "urns" }},
	}
}

func envWorld(v envVariant) *world.Root {
	a := world.BaseAssets()
	a["flows"] = []any{envProbeFlow()}
	e := world.DefaultEnv()
	v.set(e)
	return &world.Root{Assets: a, Trigger: "manual", Contact: richContact("eng"), Env: e, FreshAssets: true, Opt: world.Options{MaxSteps: 20}}
}

func envStateScenarios() []Scenario {
	var out []Scenario
	vs := envVariants()
	for i := range vs {
		for j := range vs {
			if i == j {
				continue
			}
			first, other := vs[i], vs[j]
			out = append(out, Scenario{Name: fmt.Sprintf("process-state:environment %q after %q", first.name, other.name), Run: func() (string, error) {
				early := runRoot(envWorld(first))
				runRoot(envWorld(other))
				late := runRoot(envWorld(first))
				if early != late {
					return "", fmt.Errorf("PROCESS-STATE: the same session gives different bytes after the process ran the same flow under another environment\n%s", diffAt(early, late))
				}
				return early, nil
			}})
		}
	}
	return out
}

func diffAt(a, b string) string {
	i := 0
	for i < len(a) && i < len(b) && a[i] == b[i] {
		i++
	}
	lo := i - 80
	if lo < 0 {
		lo = 0
	}
	cut := func(s string) string {
		e := i + 160
		if e > len(s) {
			e = len(s)
		}
		return s[lo:e]
	}
	return fmt.Sprintf("first difference at byte %d\nbefore: …%s…\nafter:  …%s…", i, cut(a), cut(b))
}
