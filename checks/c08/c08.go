package c08

import (
	"bytes"
	"crypto/sha1"
	"encoding/hex"
	"encoding/json"
	"fmt"
	"os"
	"os/exec"
	"path/filepath"
	"strconv"
	"strings"
	"time"

	"verif/mc"
)

func repoDir() string {
	if r := os.Getenv("VERIF_REPO"); r != "" {
		return r
	}
	return "/repo"
}

func digest(s string) string {
	h := sha1.Sum([]byte(s))
	return hex.EncodeToString(h[:])
}

type replay struct {
	Scenario string `json:"scenario"`
	Site     string `json:"site"`
	Policy   string `json:"policy"`
	Point    int    `json:"point"` // dynamic point index (-1 = all instances of the site)
	Site2    string `json:"site2,omitempty"`
	Policy2  string `json:"policy2,omitempty"`
}

// prepare generates the overlay from the current working tree and builds the worker binary with
// map iteration under explorer control.
func prepare(tier string) (map[string]string, string, error) {
	repo := repoDir()
	tag := digest(repo)[:8]
	dir := filepath.Join(mc.Dir(), ".cache", "order-"+tag)
	os.RemoveAll(dir)
	os.MkdirAll(dir, 0o755)
	env := append(os.Environ(), "GOFLAGS=-mod=mod", "GOPROXY=off", "GOSUMDB=off", "GOTOOLCHAIN=local")
	run := func(wd string, name string, args ...string) error {
		cmd := exec.Command(name, args...)
		cmd.Dir = wd
		cmd.Env = env
		var buf bytes.Buffer
		cmd.Stdout, cmd.Stderr = &buf, &buf
		if err := cmd.Run(); err != nil {
			return fmt.Errorf("%s %v: %v\n%s", name, args, err, buf.String())
		}
		return nil
	}
	if err := run(filepath.Join(mc.Dir(), "tools/vrewrite"), "go", "build", "-o", filepath.Join(mc.Dir(), "bin/vrewrite"), "."); err != nil {
		return nil, "", err
	}
	if err := run(mc.Dir(), filepath.Join(mc.Dir(), "bin/vrewrite"), "-repo", repo, "-out", dir, "-shim", filepath.Join(mc.Dir(), "shim")); err != nil {
		return nil, "", err
	}
	exe := filepath.Join(mc.Dir(), "bin", "vcheck-c08-order-"+tag)
	args := []string{"build", "-overlay", filepath.Join(dir, "overlay.json"), "-tags", "order", "-o", exe}
	if repo != "/repo" {
		mtag := ""
		// the same modfile the check script generated for this VERIF_REPO
		sum := exec.Command("bash", "-c", "echo "+repo+" | md5sum | cut -c1-8")
		if b, err := sum.Output(); err == nil {
			mtag = strings.TrimSpace(string(b))
		}
		args = append(args, "-modfile="+mc.Dir()+"/.cache/mod-"+mtag+"/go.mod")
	}
	args = append(args, "./cmd/c08")
	if err := run(mc.Dir(), "go", args...); err != nil {
		return nil, "", err
	}
	plain, _ := os.Executable()
	sites, _ := os.ReadFile(filepath.Join(dir, "sites.json"))
	var sl []any
	json.Unmarshal(sites, &sl)
	return map[string]string{"repo": repo, "plain_exe": plain, "static_sites": strconv.Itoa(len(sl))}, exe, nil
}

// single is used by the plain (un-rewritten) build: it prints the digest of one scenario.
func single(c *mc.Ctx, desc string) string {
	for _, sc := range Scenarios(c.Args["repo"]) {
		if sc.Name == desc {
			out, err := sc.Run()
			if err != nil {
				return "DIGEST error " + err.Error()
			}
			return "DIGEST " + digest(out)
		}
	}
	return "DIGEST unknown-scenario"
}

func init() {
	mc.Register(&mc.Check{
		ID:    "C08",
		Level: "model_checking",
		Rule: "map iteration order is an environment answer owned by the explorer: a rewriter (go/packages + go build -overlay, generated from the current working tree) turns every range-over-map loop of goflow into a loop over explorer-ordered entries. Scenarios = engine sessions over a map-heavy world (several translation languages referencing different fields, many results/fields saved with equal timestamps, webhook headers with failing templates, case-variant flow names, legacy_extra) x contact language x trigger x clock step x history, plus, for every asset file of the repository's own test data, migrate/clone/read/inspect/extract/change-language/PO export of every flow and formatting of every group query. " +
			"For every scenario: run 0 takes canonical order at every dynamic iteration point and records the points; then for every static site hit and every policy in {reverse, rotate+1, rotate-1, swap first two} one execution applies it at all dynamic instances of the site (thorough: also at each single dynamic point, and all pairs of sites); every execution must produce byte-identical output. Scenarios without detected order-dependence are cross-checked against a fresh process of the UN-rewritten build. states = executions, transitions = dynamic iteration points visited.",
		Assumptions: []string{"only map iteration inside goflow packages is explored (dependencies are covered by the fresh-process cross-check only)", "permutation policies, not all n! orders, for n > 3"},
		Run:         runOrder,
		Replay:      replayOrder,
		Single:      single,
		Prepare:     prepare,
		Budget:      map[string]time.Duration{"quick": 6 * time.Minute, "thorough": 25 * time.Minute},
		Guards: func(r *mc.Result, tier string) []string {
			var f []string
			hit := 0
			for k := range r.Facts {
				if strings.HasPrefix(k, "site:") {
					hit++
				}
			}
			if hit < 15 {
				f = append(f, fmt.Sprintf("only %d static map-iteration sites were hit with more than one key", hit))
			}
			if r.Counters["deviating_executions"] == 0 {
				f = append(f, "no deviating execution was run")
			}
			if r.Counters["plain_crosschecks"] == 0 {
				f = append(f, "no cross-check against the un-rewritten build")
			}
			return f
		},
	})
}
