// Package c08: (not built yet)
package c08
