//go:build !order

package c08

import (
	"encoding/json"

	"verif/mc"
)

func runOrder(c *mc.Ctx) {
	c.Violation("harness:worker-built-without-overlay", "the C08 worker must be the overlay build", nil)
}

func replayOrder(c *mc.Ctx, raw json.RawMessage) (string, bool) {
	return "replay needs the overlay build: run ./check C08 --replay through the order binary (bin/vcheck-c08-order-*)", false
}
