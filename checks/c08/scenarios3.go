package c08

import (
	"encoding/json"
	"fmt"
	"os"
	"path/filepath"
	"sort"
	"strings"

	"github.com/nyaruka/gocommon/uuids"
	"github.com/nyaruka/goflow/flows"
	"github.com/nyaruka/goflow/flows/definition"
	"verif/world"
)

// ---------------------------------------------------------------------------------------------
// Legacy rule sets: every rule set of the repository's legacy test data in a holder definition,
// migrated and put through the flow APIs; plus airtime rule sets whose per-country configuration (a
// map) holds countries that share a currency - with equal and with different amounts - so that
// whatever the migration does with them (today: an error for different amounts) does not depend on
// the order in which the countries are visited.
// ---------------------------------------------------------------------------------------------

func holderDef(ruleset map[string]any) json.RawMessage {
	dests := map[string]bool{}
	if rules, ok := ruleset["rules"].([]any); ok {
		for _, r := range rules {
			if rm, ok := r.(map[string]any); ok {
				if d, ok := rm["destination"].(string); ok && d != "" {
					dests[d] = true
				}
			}
		}
	}
	var sets []any
	y := 2200
	for _, d := range sortedStrings(dests) {
		sets = append(sets, J{"uuid": d, "x": 0, "y": y, "destination": nil, "exit_uuid": world.UUID("c08.legacy.exit." + d), "actions": []any{}})
		y += 200
	}
	if sets == nil {
		sets = []any{}
	}
	def := J{"base_language": "eng", "entry": ruleset["uuid"], "flow_type": "F", "rule_sets": []any{ruleset}, "action_sets": sets,
		"metadata": J{"uuid": world.UUID("c08.legacy.flow"), "name": "TestFlow"}}
	b, _ := json.Marshal(def)
	return b
}

func sortedStrings(m map[string]bool) []string {
	var out []string
	for k := range m {
		out = append(out, k)
	}
	for i := range out {
		for j := i + 1; j < len(out); j++ {
			if out[j] < out[i] {
				out[i], out[j] = out[j], out[i]
			}
		}
	}
	return out
}

func legacyRuleSetDefs(repo string) (all []json.RawMessage, airtime map[string]any) {
	b, err := os.ReadFile(filepath.Join(repo, "flows/definition/legacy/testdata/rulesets.json"))
	if err != nil {
		return nil, nil
	}
	var cases []struct {
		RuleSet map[string]any `json:"legacy_ruleset"`
	}
	if json.Unmarshal(b, &cases) != nil {
		return nil, nil
	}
	for _, c := range cases {
		if c.RuleSet == nil {
			continue
		}
		all = append(all, holderDef(c.RuleSet))
		if c.RuleSet["ruleset_type"] == "airtime" && airtime == nil {
			airtime = c.RuleSet
		}
	}
	return all, airtime
}

// airtimeVariants rewrites the configuration of the airtime rule set.
func airtimeVariants(rs map[string]any) map[string]json.RawMessage {
	out := map[string]json.RawMessage{}
	country := func(code, cur string, amount any) J {
		return J{"currency_name": cur, "amount": amount, "code": code, "name": code, "currency_code": cur}
	}
	configs := map[string]J{
		"same-currency-different-amounts": {"EC": country("EC", "USD", 3), "US": country("US", "USD", 5), "ZW": country("ZW", "USD", 4), "BR": country("BR", "BRL", 2.5)},
		"same-currency-equal-amounts":     {"EC": country("EC", "USD", 3), "US": country("US", "USD", 3.0), "ZW": country("ZW", "USD", json.Number("3.00")), "BR": country("BR", "BRL", 2.5)},
		"two-currencies-each-twice":       {"EC": country("EC", "USD", 1), "US": country("US", "USD", 2), "RW": country("RW", "RWF", 500), "BI": country("BI", "RWF", 600)},
		"many-currencies":                 {"EC": country("EC", "USD", 1), "RW": country("RW", "RWF", 500), "BR": country("BR", "BRL", 2), "KE": country("KE", "KES", 100), "UG": country("UG", "UGX", 1000)},
	}
	for name, cfg := range configs {
		cp := map[string]any{}
		for k, v := range rs {
			cp[k] = v
		}
		cp["config"] = cfg
		out[name] = holderDef(cp)
	}
	return out
}

// ---------------------------------------------------------------------------------------------
// Process state carried by shared values: a probe session that looks up every kind of JSON scalar
// must give the same bytes before and after the process ran sessions that mark values of those kinds
// (a webhook whose body is the bare document true / false / null / 0 / "" / [] / {} is recreated
// from its saved result after a restart and marked as deprecated). A value shared process-wide
// would carry the mark into every later session.
// ---------------------------------------------------------------------------------------------

func valueProbeWorld() *world.Root {
	f := 0
	u := func(s string) string { return world.UUID("c08.val." + s) }
	doc := `parse_json("{\"t\":true,\"f\":false,\"n\":null,\"z\":0,\"one\":1,\"e\":\"\",\"s\":\"x\",\"a\":[],\"o\":{},\"l\":[true,false,null,0,\"\"]}")`
	var parts []string
	for _, k := range []string{"t", "f", "n", "z", "one", "e", "s", "a", "o", "l", "l[0]", "l[1]", "l[2]", "l[3]", "l[4]"} {
		sep := "."
		if strings.HasPrefix(k, "l[") {
			parts = append(parts, "@("+doc+"."+k+")")
			continue
		}
		parts = append(parts, "@("+doc+sep+k+")")
	}
	parts = append(parts, `@(1 = 1)`, `@(1 = 2)`, `@(has_text("x").match)`, `@(contact.language = "eng")`, `@(array(true, false, 0, "")[0])`, `@(boolean("x"))`, `@(number("0"))`, `@(json(true))`, `@(default(null, false))`)
	node0 := J{"uuid": world.NodeUUID(f, 0),
		"actions": []any{
			J{"uuid": u("a.msg"), "type": "send_msg", "text": strings.Join(parts, " | ")},
			J{"uuid": u("a.res"), "type": "set_run_result", "name": "Probe", "value": "@(" + doc + ".t) @(" + doc + ".z)"},
		},
		"exits": []any{J{"uuid": world.ExitUUID(f, 0, 0)}}}
	a := world.BaseAssets()
	a["flows"] = []any{J{"uuid": world.FlowUUID(0), "name": "Flow 0", "spec_version": "13.5.0", "language": "eng", "type": "messaging", "nodes": []any{node0}}}
	return &world.Root{Assets: a, Trigger: "manual", FreshAssets: true, Opt: world.Options{MaxSteps: 20}}
}

func valueMarkerWorld(body string) *world.Root {
	f := 0
	u := func(s string) string { return world.UUID("c08.mark." + s) }
	wait := world.Render(f, world.FlowSpec{Nodes: []world.Node{{Kind: "N", Dests: []int{1}}, {Kind: "W", Dests: []int{2, 2}}, {Kind: "N", Dests: []int{-1}}}}, 0)["nodes"].([]any)[1]
	nodes := []any{
		J{"uuid": world.NodeUUID(f, 0), "actions": []any{
			J{"uuid": u("a.wh"), "type": "call_webhook", "method": "GET", "url": "http://example.com/flag?body=" + urlQueryEscape(body), "result_name": "flag"},
		}, "exits": []any{J{"uuid": world.ExitUUID(f, 0, 0), "destination_uuid": world.NodeUUID(f, 1)}}},
		wait,
		J{"uuid": world.NodeUUID(f, 2), "actions": []any{
			J{"uuid": u("a.use"), "type": "send_msg", "text": "@webhook | @webhook.json | @(json(webhook)) | @legacy_extra | @results.flag.extra | @(json(results.flag.extra))"},
		}, "exits": []any{J{"uuid": world.ExitUUID(f, 2, 0)}}},
	}
	a := world.BaseAssets()
	a["flows"] = []any{J{"uuid": world.FlowUUID(0), "name": "Flow 0", "spec_version": "13.5.0", "language": "eng", "type": "messaging", "nodes": nodes}}
	return &world.Root{Assets: a, Trigger: "manual", FreshAssets: true, Opt: world.Options{MaxSteps: 20}}
}

func urlQueryEscape(s string) string {
	var sb strings.Builder
	for _, b := range []byte(s) {
		if (b >= 'a' && b <= 'z') || (b >= 'A' && b <= 'Z') || (b >= '0' && b <= '9') {
			sb.WriteByte(b)
		} else {
			fmt.Fprintf(&sb, "%%%02X", b)
		}
	}
	return sb.String()
}

// runHistory runs a root through a history and renders everything it hands back.
func runHistory(r *world.Root, hist []world.Step) string {
	x, err := r.Start(hist[0])
	if err != nil {
		return "ASSETS/TRIGGER ERROR: " + err.Error()
	}
	out := sprintBytes(x.Sprint, x.Err)
	for _, st := range hist[1:] {
		if x.Err != nil {
			break
		}
		if err := x.Apply(st); err != nil {
			return out + "HARNESS ERROR: " + err.Error()
		}
		out += sprintBytes(x.Sprint, x.Err)
	}
	if x.Err == nil {
		sj, _ := json.Marshal(x.Session)
		out += string(sj)
	}
	return out
}

func valueStateScenarios() []Scenario {
	var out []Scenario
	markHist := [][]world.Step{
		{{}, {Ev: "msg:a", Restart: true}}, // persisted and re-read at the wait: the webhook is recreated from the saved result
		{{}, {Ev: "msg:a"}},                // kept alive
	}
	for _, body := range []string{`true`, `false`, `null`, `0`, `1`, `""`, `"x"`, `[]`, `{}`, `[true,false,null,0,""]`} {
		body := body
		out = append(out, Scenario{Name: fmt.Sprintf("process-state:values probe after webhook-body=%s", body), Run: func() (string, error) {
			early := runRoot(valueProbeWorld())
			marks := ""
			for _, h := range markHist {
				marks += runHistory(valueMarkerWorld(body), h)
			}
			late := runRoot(valueProbeWorld())
			if early != late {
				return "", fmt.Errorf("PROCESS-STATE: the same session gives different bytes after the process ran a session whose webhook answered %s\n%s", body, diffAt(early, late))
			}
			return early + "\nMARKERS:" + marks, nil
		}})
	}
	return out
}

// ---------------------------------------------------------------------------------------------
// Object history: what the flow APIs return for a flow object must be a function of the definition
// it holds now, not of what was asked of the object before. A flow is read, one API is called on it,
// a translation of an evaluated text is imported (Localization().SetItemTranslation, as the PO import
// does), and then every API's answer is compared with the answer of a flow read afresh from the
// object's own marshalled definition.
// ---------------------------------------------------------------------------------------------

func objectHistoryScenarios() []Scenario {
	u := func(s string) string { return world.UUID("c08.hist." + s) }
	def := func() []byte {
		nodes := []any{
			J{"uuid": u("n0"), "actions": []any{
				J{"uuid": u("a0"), "type": "send_msg", "text": "Hello", "quick_replies": []any{"Yes"}},
				J{"uuid": u("a1"), "type": "set_run_result", "name": "Seen", "value": "1", "category": "One"},
			}, "exits": []any{J{"uuid": u("e0")}}},
		}
		b, _ := json.Marshal(J{"uuid": world.FlowUUID(0), "name": "Flow 0", "spec_version": "13.5.0", "language": "eng", "type": "messaging",
			"nodes": nodes, "localization": J{"spa": J{u("a0"): J{"text": []any{"Hola"}}}}})
		return b
	}
	firsts := map[string]func(sa flows.SessionAssets, fl flows.Flow){
		"nothing":      func(sa flows.SessionAssets, fl flows.Flow) {},
		"inspect":      func(sa flows.SessionAssets, fl flows.Flow) { fl.Inspect(sa) },
		"templates":    func(sa flows.SessionAssets, fl flows.Flow) { fl.ExtractTemplates() },
		"localizables": func(sa flows.SessionAssets, fl flows.Flow) { fl.ExtractLocalizables() },
		"marshal":      func(sa flows.SessionAssets, fl flows.Flow) { json.Marshal(fl) },
		"changelang":   func(sa flows.SessionAssets, fl flows.Flow) { fl.ChangeLanguage("spa") },
		"all":          func(sa flows.SessionAssets, fl flows.Flow) { var sb strings.Builder; flowAPIs(sa, fl, &sb) },
	}
	var names []string
	for n := range firsts {
		names = append(names, n)
	}
	sort.Strings(names)
	var out []Scenario
	for _, n := range names {
		n := n
		out = append(out, Scenario{Name: "process-state:object-history " + n + " before a translation is imported", Run: func() (string, error) {
			world.Reset()
			sa, _, err := world.BuildAssets(world.BaseAssets())
			if err != nil {
				return "", err
			}
			f1, err := definition.ReadFlow(def(), nil)
			if err != nil {
				return "", err
			}
			firsts[n](sa, f1)
			f1.Localization().SetItemTranslation("spa", uuids.UUID(u("a0")), "text", []string{"Hola @fields.age @globals.org_name @parent.results.color @(bad"})
			f1.Localization().SetItemTranslation("spa", uuids.UUID(u("a0")), "quick_replies", []string{"@fields.gender"})
			var got, want strings.Builder
			flowAPIs(sa, f1, &got)
			mb, _ := json.Marshal(f1)
			f2, err := definition.ReadFlow(mb, nil)
			if err != nil {
				return "", fmt.Errorf("the object's own definition does not read back: %v", err)
			}
			flowAPIs(sa, f2, &want)
			if got.String() != want.String() {
				return "", fmt.Errorf("PROCESS-STATE: after %q was called on a flow object and a translation was imported, the object's APIs answer differently from a flow read afresh from the object's own definition\n%s", n, diffAt(want.String(), got.String()))
			}
			return got.String(), nil
		}})
	}
	return out
}
