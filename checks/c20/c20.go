// Package c20: (not built yet)
package c20
