// Package c20: flow inspection over-approximates what a run can do.
package c20

import (
	"encoding/json"
	"fmt"
	"sort"
	"strings"
	"time"
	"unicode"

	"github.com/nyaruka/goflow/assets"
	"github.com/nyaruka/goflow/flows"
	"github.com/nyaruka/goflow/utils"
	"verif/checks/sm"
	"verif/mc"
	"verif/world"
)

type J = world.J

func act(name string, f func(u string) J) {
	world.ActionSets[name] = func(fl, i int) []any { return []any{f(world.ActUUID(fl, i, 0))} }
}

func init() {
	act("res", func(u string) J {
		return J{"uuid": u, "type": "set_run_result", "name": "Color", "value": "red", "category": "Red"}
	})
	act("res2", func(u string) J {
		return J{"uuid": u, "type": "set_run_result", "name": "color ", "value": "@input.text"}
	})
	act("res3", func(u string) J {
		return J{"uuid": u, "type": "set_run_result", "name": "Color", "value": "blue", "category": "Blue"}
	})
	act("ticket", func(u string) J {
		return J{"uuid": u, "type": "open_ticket", "topic": J{"uuid": world.TopicB, "name": "Support"}, "assignee": J{"email": "bob@nyaruka.com", "name": "Bob"}, "body": "help", "result_name": "Ticket"}
	})
	act("webhook", func(u string) J {
		return J{"uuid": u, "type": "call_webhook", "method": "GET", "url": "http://example.com/x", "result_name": "WH"}
	})
	act("resthook", func(u string) J {
		return J{"uuid": u, "type": "call_resthook", "resthook": "new-registration", "result_name": "RH"}
	})
	act("classifier", func(u string) J {
		return J{"uuid": u, "type": "call_classifier", "classifier": J{"uuid": world.Classifier, "name": "Booking"}, "input": "@input.text", "result_name": "Intent"}
	})
	act("airtime", func(u string) J {
		return J{"uuid": u, "type": "transfer_airtime", "amounts": J{"USD": 1}, "result_name": "Air"}
	})
	act("gadd", func(u string) J {
		return J{"uuid": u, "type": "add_contact_groups", "groups": []any{J{"uuid": world.GroupA, "name": "Group A"}, J{"uuid": world.GroupB, "name": "Group B"}}}
	})
	act("gremove", func(u string) J {
		return J{"uuid": u, "type": "remove_contact_groups", "groups": []any{J{"uuid": world.GroupA, "name": "Group A"}}}
	})
	act("field", func(u string) J {
		return J{"uuid": u, "type": "set_contact_field", "field": J{"key": "age", "name": "Age"}, "value": "@(text_length(fields.gender & globals.org_name))"}
	})
	act("labels", func(u string) J {
		return J{"uuid": u, "type": "add_input_labels", "labels": []any{J{"uuid": world.LabelA, "name": "Label A"}, J{"uuid": world.LabelB, "name": "Label B"}}}
	})
	act("channel", func(u string) J {
		return J{"uuid": u, "type": "set_contact_channel", "channel": J{"uuid": world.ChanTwitter, "name": "Twitter"}}
	})
	act("template", func(u string) J {
		return J{"uuid": u, "type": "send_msg", "text": "Hi there", "template": J{"uuid": world.TemplateA, "name": "affirmation"}, "template_variables": []any{"@contact.name"}}
	})
	act("msgtpl", func(u string) J {
		return J{"uuid": u, "type": "send_msg", "text": "age=@fields.age secret=@globals.secret role=@parent.results.role"}
	})
	// fixed references whose uuid is unknown to the assets while an asset of that name exists (as in a
	// definition imported from another workspace): the run must not touch what inspection does not list
	act("gaddx", func(u string) J {
		return J{"uuid": u, "type": "add_contact_groups", "groups": []any{J{"uuid": world.UUID("group-foreign"), "name": "Group A"}}}
	})
	act("labelsx", func(u string) J {
		return J{"uuid": u, "type": "add_input_labels", "labels": []any{J{"uuid": world.UUID("label-foreign"), "name": "Label A"}}}
	})
	act("broadcast", func(u string) J {
		return J{"uuid": u, "type": "send_broadcast", "text": "hello", "groups": []any{J{"uuid": world.GroupB, "name": "Group B"}, J{"uuid": world.GroupA, "name": "Group A"}}}
	})
}

func init() {
	// one node saving the same result key twice with different fixed categories
	world.ActionSets["res13"] = func(fl, i int) []any {
		return []any{
			J{"uuid": world.ActUUID(fl, i, 0), "type": "set_run_result", "name": "Color", "value": "red", "category": "Red"},
			J{"uuid": world.ActUUID(fl, i, 1), "type": "set_run_result", "name": "Color", "value": "blue", "category": "Blue"},
		}
	}
	// a message whose quick replies exist only in a translation, which reads a global and a field
	world.ActionSets["loc"] = func(fl, i int) []any {
		return []any{J{"uuid": world.ActUUID(fl, i, 0), "type": "send_msg", "text": "hi"}}
	}
}

var actionKinds = []string{"A:res13", "A:loc", "A:res", "A:res2", "A:res3", "A:ticket", "A:webhook", "A:resthook", "A:classifier", "A:airtime", "A:gadd", "A:gremove",
	"A:field", "A:labels", "A:channel", "A:template", "A:msgtpl", "A:broadcast", "A:gaddx", "A:labelsx"}

// router kinds are rendered here (they carry result names and group references)
//
//	W, WT, R from the structural alphabet (W/WT save result "Answer"), plus
//	G   split by group membership (has_group with a fixed group reference)
//	RR  random router with a result name
var routerKinds = []string{"W", "WT", "WA", "G", "RR", "Eo"}

func init() {
	world.KindExits["G"] = 2
	world.KindExits["RR"] = 2
	world.KindExits["WA"] = 2 // a wait whose node also has an action saving the SAME result key
}

// render renders flow 0 from a spec, adding the router kinds this check defines.
func render(spec world.FlowSpec) J {
	// render unknown kinds as "N" first, then patch
	tmp := world.FlowSpec{Nodes: make([]world.Node, len(spec.Nodes)), Type: spec.Type}
	for i, n := range spec.Nodes {
		tmp.Nodes[i] = n
		if n.Kind == "G" || n.Kind == "RR" {
			tmp.Nodes[i] = world.Node{Kind: "S", Dests: n.Dests}
		}
		if n.Kind == "WA" {
			tmp.Nodes[i] = world.Node{Kind: "W", Dests: n.Dests}
		}
	}
	fl := world.Render(0, tmp, 1)
	nodes := fl["nodes"].([]any)
	loc := J{}
	for i, n := range spec.Nodes {
		node := nodes[i].(J)
		if n.Kind == "WA" {
			node["actions"] = []any{J{"uuid": world.ActUUID(0, i, 0), "type": "set_run_result", "name": "Answer", "value": "none yet", "category": "No Reply Yet"}}
		}
		if n.Kind == "A:loc" {
			loc[world.ActUUID(0, i, 0)] = J{"quick_replies": []any{"call @globals.secret", "I am @fields.gender"}}
		}
		cat := func(c int) string { return world.UUID(fmt.Sprintf("f0.n%d.c%d", i, c)) }
		switch n.Kind {
		case "G":
			// no result name: a saved result would carry the operand, i.e. the rendering of ALL the
			// contact's groups - a wildcard read that the dependency clause excepts
			node["router"] = J{"type": "switch", "operand": "@contact.groups",
				"cases": []any{J{"uuid": world.UUID(fmt.Sprintf("c20.case%d", i)), "type": "has_group", "arguments": []any{world.GroupA, "Group A"}, "category_uuid": cat(0)}},
				"categories": []any{
					J{"uuid": cat(0), "name": "In", "exit_uuid": world.ExitUUID(0, i, 0)},
					J{"uuid": cat(1), "name": "Out", "exit_uuid": world.ExitUUID(0, i, 1)}},
				"default_category_uuid": cat(1)}
		case "RR":
			node["router"] = J{"type": "random", "result_name": "Bucket",
				"categories": []any{
					J{"uuid": cat(0), "name": "One", "exit_uuid": world.ExitUUID(0, i, 0)},
					J{"uuid": cat(1), "name": "Two", "exit_uuid": world.ExitUUID(0, i, 1)}}}
		}
	}
	if len(loc) > 0 {
		fl["localization"] = J{"spa": loc}
	}
	return fl
}

// childFlow is the fixed flow entered by Eo.
func childFlow() J {
	spec := world.FlowSpec{Nodes: []world.Node{{Kind: "A:res2", Dests: []int{1}}, {Kind: "W", Dests: []int{-1, -1}}}}
	return world.Render(1, spec, 0)
}

type rootSpec struct {
	Flow    world.FlowSpec `json:"flow"`
	Trigger string         `json:"trigger"`
	Lang    string         `json:"contact_language,omitempty"`
	Variant string         `json:"variant,omitempty"` // field-template family: which field holds which template
}

// vary names one input the influence test changes
type vary struct {
	Kind string `json:"kind"` // field | global | group
	Key  string `json:"key"`
}

var varies = []vary{{"field", "gender"}, {"field", "age"}, {"global", "org_name"}, {"global", "secret"}, {"group", world.GroupA}, {"group", world.GroupB}}

func (rs *rootSpec) world(v *vary) *world.Root {
	a := world.BaseAssets()
	a["flows"] = []any{render(rs.Flow), childFlow()}
	contact := world.DefaultContact()
	contact["fields"] = J{"gender": J{"text": "F"}, "age": J{"text": "30", "number": 30}}
	if rs.Lang != "" {
		contact["language"] = rs.Lang
	}
	if v != nil {
		switch v.Kind {
		case "field":
			f := contact["fields"].(J)
			if v.Key == "gender" {
				f["gender"] = J{"text": "Male"}
			} else {
				f["age"] = J{"text": "5", "number": 5}
			}
		case "global":
			var gl []any
			for _, g := range a["globals"].([]any) {
				gj := g.(J)
				if gj["key"] == v.Key {
					gj = J{"key": gj["key"], "name": gj["name"], "value": "changed-value-xyz"}
				}
				gl = append(gl, gj)
			}
			a["globals"] = gl
		case "group":
			// toggle membership
			in := false
			var gs []any
			for _, g := range contact["groups"].([]any) {
				if g.(J)["uuid"] == v.Key {
					in = true
				} else {
					gs = append(gs, g)
				}
			}
			if !in {
				gs = append(gs, J{"uuid": v.Key, "name": "G"})
			}
			if gs == nil {
				gs = []any{}
			}
			contact["groups"] = gs
		}
	}
	return &world.Root{Assets: a, Trigger: rs.Trigger, Contact: contact, Opt: world.Options{MaxSteps: 8}, DrawMenu: []float64{0, 0.5}}
}

func (rs *rootSpec) String() string {
	v := ""
	if rs.Variant != "" {
		v = " variant=" + rs.Variant
	}
	return rs.Flow.String() + " | trigger=" + rs.Trigger + " contact-language=" + rs.Lang + v
}

type replay struct {
	Spec rootSpec     `json:"spec"`
	Hist []world.Step `json:"history"`
}

// ---------------------------------------------------------------------------------------------

type inspection struct {
	results map[string][]string // key -> categories
	exits   map[string]bool
	deps    map[string]bool // "type:identity"
	raw     string
}

func inspectFlow(sa flows.SessionAssets, uuid assets.FlowUUID) (*inspection, error) {
	fl, err := sa.Flows().Get(uuid)
	if err != nil {
		return nil, err
	}
	b, err := json.Marshal(fl.Inspect(sa))
	if err != nil {
		return nil, err
	}
	var doc struct {
		Dependencies []map[string]any `json:"dependencies"`
		Results      []struct {
			Key        string   `json:"key"`
			Categories []string `json:"categories"`
		} `json:"results"`
		WaitingExits []string `json:"waiting_exits"`
	}
	if err := json.Unmarshal(b, &doc); err != nil {
		return nil, err
	}
	in := &inspection{results: map[string][]string{}, exits: map[string]bool{}, deps: map[string]bool{}, raw: string(b)}
	for _, r := range doc.Results {
		in.results[r.Key] = r.Categories
	}
	for _, e := range doc.WaitingExits {
		in.exits[e] = true
	}
	for _, d := range doc.Dependencies {
		t, _ := d["type"].(string)
		for _, idk := range []string{"uuid", "key", "email", "slug"} {
			if id, ok := d[idk].(string); ok && id != "" {
				in.deps[t+":"+id] = true
			}
		}
	}
	return in, nil
}

// touched extracts (type, identity) pairs of assets an event names.
func touched(ev map[string]any) [][3]string {
	var out [][3]string
	refs := func(t string, v any, idk string) {
		switch x := v.(type) {
		case []any:
			for _, e := range x {
				if m, ok := e.(map[string]any); ok {
					if id, ok := m[idk].(string); ok {
						name, _ := m["name"].(string)
						out = append(out, [3]string{t, id, name})
					}
				}
			}
		case map[string]any:
			if id, ok := x[idk].(string); ok {
				name, _ := x["name"].(string)
				out = append(out, [3]string{t, id, name})
			}
		}
	}
	switch ev["type"] {
	case "contact_groups_changed":
		refs("group", ev["groups_added"], "uuid")
		refs("group", ev["groups_removed"], "uuid")
	case "contact_field_changed":
		refs("field", ev["field"], "key")
	case "input_labels_added":
		refs("label", ev["labels"], "uuid")
	case "flow_entered":
		refs("flow", ev["flow"], "uuid")
	case "ticket_opened":
		if t, ok := ev["ticket"].(map[string]any); ok {
			refs("topic", t["topic"], "uuid")
			refs("user", t["assignee"], "email")
		}
	case "msg_created":
		if m, ok := ev["msg"].(map[string]any); ok {
			if tp, ok := m["templating"].(map[string]any); ok {
				refs("template", tp["template"], "uuid")
			}
		}
	case "service_called":
		refs("classifier", ev["classifier"], "uuid")
	case "classifier_called":
		refs("classifier", ev["classifier"], "uuid")
	case "broadcast_created":
		refs("group", ev["groups"], "uuid")
	case "contact_urns_changed":
		if us, ok := ev["urns"].([]any); ok {
			for _, u := range us {
				if s, ok := u.(string); ok {
					if i := strings.Index(s, "channel="); i >= 0 {
						id := s[i+8:]
						if j := strings.IndexAny(id, "&#"); j >= 0 {
							id = id[:j]
						}
						out = append(out, [3]string{"channel", id, ""})
					}
				}
			}
		}
	}
	return out
}

// namedIn reports whether the identity occurs as a string value anywhere in the JSON value (a
// generic walk that shares no code with the engine's reflection-based extraction).
func namedIn(v any, id string) bool {
	switch x := v.(type) {
	case string:
		return x == id
	case []any:
		for _, e := range x {
			if namedIn(e, id) {
				return true
			}
		}
	case map[string]any:
		for _, e := range x {
			if namedIn(e, id) {
				return true
			}
		}
	}
	return false
}

// fixedRefNamed reports whether the JSON value holds a fixed reference (an object with a uuid and
// without a name_match expression) that carries this name: an asset a run reaches through such a
// reference - whichever of uuid and name the engine resolved it by - is touched by a fixed reference.
func fixedRefNamed(v any, name string) bool {
	if name == "" {
		return false
	}
	switch x := v.(type) {
	case []any:
		for _, e := range x {
			if fixedRefNamed(e, name) {
				return true
			}
		}
	case map[string]any:
		if _, hasUUID := x["uuid"].(string); hasUUID {
			if _, expr := x["name_match"]; !expr && x["name"] == name {
				return true
			}
		}
		for _, e := range x {
			if fixedRefNamed(e, name) {
				return true
			}
		}
	}
	return false
}

func flowNodeJSON(root *world.Root, flowUUID, nodeUUID string) any {
	for _, f := range root.Assets["flows"].([]any) {
		fj := f.(J)
		if fj["uuid"] != flowUUID {
			continue
		}
		for _, n := range fj["nodes"].([]any) {
			if n.(J)["uuid"] == nodeUUID {
				var v any
				b, _ := json.Marshal(n)
				json.Unmarshal(b, &v)
				return v
			}
		}
	}
	return nil
}

// runEventsByFlow renders, per flow, the canonical event stream of its runs (for the influence test).
func runEventsByFlow(x *world.Exec) map[string]string {
	out := map[string]string{}
	for _, r := range x.Session.Runs() {
		b, _ := json.Marshal(r.Events())
		// the run summary a session_triggered event carries is a snapshot of the whole contact and of all
		// results: a wildcard read, which the dependency clause excepts
		var evs []map[string]any
		if json.Unmarshal(b, &evs) == nil {
			for _, e := range evs {
				delete(e, "run_summary")
			}
			b, _ = json.Marshal(evs)
		}
		out[string(r.FlowReference().UUID)] += world.Canon(b) + "\n"
	}
	return out
}

// refKey is the reference for the key of a result name: trimmed, lower case, every run of characters
// other than letters, digits and underscores replaced by one underscore.
func refKey(name string) string {
	var sb strings.Builder
	inRun := false
	for _, r := range strings.ToLower(strings.TrimSpace(name)) {
		if r == '_' || unicode.IsLetter(r) || unicode.IsDigit(r) {
			sb.WriteRune(r)
			inRun = false
		} else if !inRun {
			sb.WriteByte('_')
			inRun = true
		}
	}
	return sb.String()
}

func judge(c *mc.Ctx, rs *rootSpec, hist []world.Step, influence bool, count bool) []sm.Problem {
	var ps []sm.Problem
	add := func(key, what string, args ...any) {
		ps = append(ps, sm.Problem{Key: key, What: fmt.Sprintf(what, args...)})
	}
	root := rs.world(nil)
	t := sm.Replay(root, hist)
	if t.HarnessErr != nil {
		add("harness:"+mc.Hash(t.HarnessErr.Error()), "harness: %v", t.HarnessErr)
		return ps
	}
	if t.Panic != "" || t.X.Err != nil {
		return ps // C05/C10's subject
	}
	x := t.X
	insp := map[string]*inspection{}
	getInsp := func(uuid assets.FlowUUID) *inspection {
		if in, ok := insp[string(uuid)]; ok {
			return in
		}
		in, err := inspectFlow(x.SA, uuid)
		if err != nil {
			in = nil
		}
		insp[string(uuid)] = in
		return in
	}
	for _, r := range x.Session.Runs() {
		if r.Flow() == nil {
			continue
		}
		in := getInsp(r.Flow().UUID())
		if in == nil {
			continue
		}
		stepNode := map[string]string{}
		for _, s := range r.Path() {
			stepNode[string(s.UUID())] = string(s.NodeUUID())
		}
		// (results, stored) every key under which the run holds a result is a key of the inspection: what
		// @results.<key> reads must be what the inspection announces
		// (a result the inspection does not announce at all is the events clause's business below)
		for key, res := range r.Results() {
			_, declared := in.results[key]
			_, announced := in.results[refKey(res.Name)]
			if count {
				c.Fact("stored_key:" + keyShape(res.Name))
			}
			if key != refKey(res.Name) {
				add("results:stored-key-is-not-the-snake-case-of-the-name:"+keyShape(res.Name), "a run holds result %q under key %q; the key of that name is %q", res.Name, key, refKey(res.Name))
			} else if !declared && announced {
				add("results:stored-key-not-in-inspection:"+keyShape(res.Name), "a run holds result %q under key %q but the flow's inspection lists the keys %v", res.Name, key, keysOf(in.results))
			}
		}
		evs := r.Events()
		prev := t.PrevEvents[r.UUID()]
		if prev > len(evs) {
			prev = len(evs)
		}
		for _, e := range evs[prev:] {
			b, _ := json.Marshal(e)
			var ev map[string]any
			json.Unmarshal(b, &ev)
			// (results)
			if e.Type() == "run_result_changed" {
				name, _ := ev["name"].(string)
				cat, _ := ev["category"].(string)
				key := utils.Snakify(name)
				if count {
					c.Inc("results_compared")
					c.Fact("result:" + key)
				}
				cats, declared := in.results[key]
				if !declared {
					add("results:saved-result-not-in-inspection:"+nodeActionType(root, string(r.Flow().UUID()), stepNode[string(e.StepUUID())]),
						"a run saved result %q (key %s) but the flow's inspection does not list it (inspection results: %v)", name, key, keysOf(in.results))
				} else if len(cats) > 0 && cat != "" {
					found := false
					for _, cc := range cats {
						if cc == cat {
							found = true
						}
					}
					if !found {
						add("results:category-not-in-inspection:"+nodeActionType(root, string(r.Flow().UUID()), stepNode[string(e.StepUUID())]),
							"a run saved result %q with category %q but the inspection lists categories %v", name, cat, cats)
					}
				}
			}
			// (dependencies by reference)
			node := flowNodeJSON(root, string(r.Flow().UUID()), stepNode[string(e.StepUUID())])
			for _, tp := range touched(ev) {
				if node == nil || !(namedIn(node, tp[1]) || fixedRefNamed(node, tp[2])) {
					continue // reached by wildcard or expression: outside the clause
				}
				if count {
					c.Inc("dependencies_compared")
					c.Fact("dep:" + tp[0])
				}
				if !in.deps[tp[0]+":"+tp[1]] {
					add("dependencies:touched-"+tp[0]+"-not-in-inspection:"+e.Type(), "a %s event names %s %s, the node references it by a fixed reference, but the inspection's dependencies do not list it", e.Type(), tp[0], tp[1])
				}
			}
		}
	}
	// (waiting exits) the step that was waiting before this resume
	if len(hist) > 1 {
		for _, r := range x.Session.Runs() {
			if t.PrevStatus[r.UUID()] != flows.RunStatusWaiting || r.Flow() == nil {
				continue
			}
			n := t.PrevSteps[r.UUID()]
			if n == 0 || n > len(r.Path()) {
				continue
			}
			st := r.Path()[n-1]
			if st.ExitUUID() == "" {
				continue
			}
			in := getInsp(r.Flow().UUID())
			if in == nil {
				continue
			}
			if count {
				c.Inc("waiting_exits_compared")
				c.Fact("waiting_exit")
			}
			if !in.exits[string(st.ExitUUID())] {
				add("waiting-exits:exit-taken-from-wait-not-in-inspection:"+strings.SplitN(hist[len(hist)-1].Ev, ":", 2)[0], "a %s resume left a wait by exit %s which the inspection does not list as a waiting exit", hist[len(hist)-1].Ev, st.ExitUUID())
			}
		}
	}
	// (dependencies by influence) change one field / global / group membership: if the events of a
	// flow's runs change, the flow reads it and must list it
	if influence {
		base := runEventsByFlow(x)
		for vi := range varies {
			v := &varies[vi]
			t2 := sm.Replay(rs.world(v), hist)
			if t2.HarnessErr != nil || t2.Panic != "" || t2.X == nil || t2.X.Err != nil {
				continue
			}
			other := runEventsByFlow(t2.X)
			if count {
				c.Inc("influence_reruns")
			}
			for fu, evs := range base {
				if other[fu] == evs {
					continue
				}
				in := getInsp(assets.FlowUUID(fu))
				if in == nil {
					continue
				}
				if count {
					c.Fact("influence:" + v.Kind)
				}
				// a flow's events may also change because an *earlier* flow in the session behaved
				// differently (parent entered another node); only judge flows whose own definition can
				// read the varied input, i.e. the first flow, or a child whose parent's events are equal
				if fu != world.FlowUUID(0) && base[world.FlowUUID(0)] != other[world.FlowUUID(0)] {
					continue
				}
				if !in.deps[v.Kind+":"+v.Key] {
					add("dependencies:influenced-by-"+v.Kind+"-not-in-inspection:"+v.Key[:min(len(v.Key), 8)], "changing %s %s changes the events of runs of flow %s, but the flow's inspection does not list it as a dependency", v.Kind, v.Key, fu)
				}
			}
		}
	}
	return ps
}

func keysOf(m map[string][]string) []string {
	var out []string
	for k := range m {
		out = append(out, k)
	}
	sort.Strings(out)
	return out
}

// nodeActionType names the action/router types of a node (for signature keys).
func nodeActionType(root *world.Root, flowUUID, nodeUUID string) string {
	n, _ := flowNodeJSON(root, flowUUID, nodeUUID).(map[string]any)
	if n == nil {
		return "unknown-node"
	}
	var parts []string
	if as, ok := n["actions"].([]any); ok {
		for _, a := range as {
			if t, ok := a.(map[string]any)["type"].(string); ok {
				parts = append(parts, t)
			}
		}
	}
	if r, ok := n["router"].(map[string]any); ok {
		parts = append(parts, "router:"+fmt.Sprint(r["type"]))
	}
	return strings.Join(parts, "+")
}

// keyShape classifies a result name by its separators (for signature keys).
func keyShape(name string) string {
	var parts []string
	if strings.TrimSpace(name) != name {
		parts = append(parts, "padded")
	}
	run, maxRun := 0, 0
	for _, r := range strings.TrimSpace(name) {
		if r == ' ' || r == '-' || r == '_' || r == '\t' {
			run++
			if run > maxRun {
				maxRun = run
			}
		} else {
			run = 0
		}
	}
	switch {
	case maxRun >= 2:
		parts = append(parts, "adjacent-separators")
	case maxRun == 1:
		parts = append(parts, "single-separators")
	default:
		parts = append(parts, "plain")
	}
	return strings.Join(parts, "+")
}

func specs(tier string) []rootSpec {
	kinds := append(append([]string{}, actionKinds...), routerKinds...)
	var out []rootSpec
	for n := 1; n <= 2; n++ {
		for _, f := range world.EnumFlows(kinds, n) {
			for _, tr := range []string{"msg", "flow_action"} {
				out = append(out, rootSpec{Flow: f, Trigger: tr})
			}
			// flows with translated content also run for a contact whose language selects the translation
			for _, n := range f.Nodes {
				if n.Kind == "A:loc" {
					out = append(out, rootSpec{Flow: f, Trigger: "msg", Lang: "spa"})
					break
				}
			}
		}
	}
	out = append(out, ftSpecs()...)
	return out
}

func run(c *mc.Ctx) {
	ss := specs(c.Tier)
	depth, bound := 1, 1
	if c.Thorough() {
		depth, bound = 2, 2
	}
	for i := range ss {
		if !c.Mine(i) {
			continue
		}
		if c.Expired() {
			c.Cap("time budget reached; every root before the cap was explored completely")
			break
		}
		rs := &ss[i]
		cfg := sm.Cfg{Ctx: c, Depth: depth, Events: []string{"msg:a", "msg:zz", "timeout"}, Regimes: []bool{true}, ChoiceBound: bound}
		cfg.Visit = func(t *sm.Trans) bool {
			if t.HarnessErr != nil && rs.Variant != "" && len(t.Hist) == 1 {
				c.Inc("field_template_variants_rejected_when_loading") // not every string field admits arbitrary text
			}
			if t.HarnessErr != nil || t.Panic != "" || t.X == nil || t.X.Err != nil {
				return false
			}
			if rs.Variant != "" {
				c.Inc("field_template_variants_run")
			}
			c.Inc("evaluations")
			influence := c.Thorough() || len(t.Hist) <= 2
			for _, p := range judge(c, rs, t.Hist, influence, true) {
				c.Violation(p.Key, p.What+"\nroot: "+rs.String()+"\nhistory: "+mc.JSON(t.Hist), replay{Spec: *rs, Hist: t.Hist})
			}
			if c.WantSample() && len(t.Hist) == 2 && i%311 == 3 {
				c.Sample(map[string]any{"root": rs.String(), "history": t.Hist})
			}
			return true
		}
		st := sm.Search(rs.world(nil), cfg)
		c.Inc("roots")
		c.Add("states", int64(st.States))
		c.Add("transitions", int64(st.Transitions))
		c.Inc("distinct_nontrivial")
	}
}

func replayFn(c *mc.Ctx, raw json.RawMessage) (string, bool) {
	var rp replay
	if err := json.Unmarshal(raw, &rp); err != nil {
		return err.Error(), false
	}
	ps := judge(c, &rp.Spec, rp.Hist, true, false)
	out := "root: " + rp.Spec.String() + " history: " + mc.JSON(rp.Hist)
	for _, p := range ps {
		out += "\nPROBLEM " + p.Key + ": " + p.What
	}
	return out, len(ps) > 0
}

func init() {
	mc.Register(&mc.Check{
		ID:    "C20",
		Level: "model_checking",
		Rule: "static inspection compared with ALL executions: every canonical flow of <= 2 nodes over a 21-kind alphabet (16 result-saving / asset-referencing actions: set_run_result with keys differing in case/spacing, open_ticket, call_webhook, call_resthook, call_classifier, transfer_airtime, add/remove groups, set field from a template, labels, set channel, template message, templates reading fields/globals/parent results, broadcast; routers: msg wait, wait+timeout, split by group, random with result, enter_flow) x {msg, flow_action} triggers; BFS over resumes {msg a, msg zz, timeout} to depth 1/2 with every environment answer (HTTP answers, random draws) up to a deviation bound. " +
			"Plus the field-template family: one-node flows (messaging and voice) with one action of each of 23 types in which one string field at a time - tagged as a template or not - holds an expression reading a global or a contact field, and result names written with adjacent separators, padding or mixed case. " +
			"Oracles per transition: every run_result_changed key (and category when the spec lists categories) is in Inspect().results; every key under which a run actually holds a result is a key of the inspection; every exit by which a resume leaves a wait is a waiting exit; every asset an event names that the node references by a fixed reference (found by a generic JSON walk) is a dependency; and, by re-running with one field / global / group membership changed, every input that influences a flow's events is a dependency.",
		Assumptions: []string{"assets reached through wildcards, names or expressions are outside the dependency clause", "the influence test varies 2 fields, 2 globals and 2 static groups"},
		Run:         run,
		Replay:      replayFn,
		Single:      sm.Single,
		SingleTicks: true,
		Classify:    sm.SkipHangs,
		HangLimit:   15 * time.Second,
		SingleLimit: 30 * time.Second,
		MaxBadCases: 2,
		MemLimitKB:  8 << 20,
		Budget:      map[string]time.Duration{"quick": 5 * time.Minute, "thorough": 25 * time.Minute},
		Guards: func(r *mc.Result, tier string) []string {
			var f []string
			for _, fact := range []string{"result:color", "result:ticket", "result:wh", "result:answer", "result:intent", "result:air", "result:bucket", "waiting_exit",
				"dep:group", "dep:field", "dep:label", "dep:flow", "dep:topic", "dep:user", "dep:template", "dep:classifier", "dep:channel", "influence:field", "influence:global", "influence:group"} {
				if r.Facts[fact] == 0 {
					f = append(f, "never observed: "+fact)
				}
			}
			return f
		},
	})
}
