package c20

import (
	"fmt"
	"sort"
	"strings"

	"verif/world"
)

// ---------------------------------------------------------------------------------------------
// The field-template family: one-node flows with one action of every type, in which one string
// field at a time - whether or not the library considers that field a template - holds an
// expression that reads a global or a contact field. If the engine evaluates it (the influence
// test sees the events change when the global / field changes), inspection must list the
// dependency. Plus result names written with adjacent separators.
// ---------------------------------------------------------------------------------------------

type ftVariant struct {
	Name   string // "<action type>.<field path>=<template>"
	Voice  bool
	Action J
}

var ftVariants []ftVariant

// one valid instance of every action type (voice = only allowed in voice flows)
func ftCatalog() []struct {
	voice  bool
	action J
} {
	grp := []any{J{"uuid": world.GroupA, "name": "Group A"}}
	return []struct {
		voice  bool
		action J
	}{
		{false, J{"type": "send_msg", "text": "hello", "attachments": []any{"image/jpeg:http://example.com/a.jpg"}, "quick_replies": []any{"yes"}}},
		{false, J{"type": "send_broadcast", "text": "hello", "groups": grp, "attachments": []any{"image/jpeg:http://example.com/a.jpg"}, "quick_replies": []any{"yes"}}},
		{false, J{"type": "send_email", "addresses": []any{"bob@nyaruka.com"}, "subject": "subject", "body": "body"}},
		{false, J{"type": "set_contact_name", "name": "Bob"}},
		{false, J{"type": "set_contact_language", "language": "eng"}},
		{false, J{"type": "set_contact_timezone", "timezone": "Africa/Kigali"}},
		{false, J{"type": "set_contact_status", "status": "active"}},
		{false, J{"type": "set_contact_field", "field": J{"key": "state", "name": "State"}, "value": "Kigali"}},
		{false, J{"type": "set_contact_channel", "channel": J{"uuid": world.ChanTel, "name": "Tel"}}},
		{false, J{"type": "add_contact_urn", "scheme": "tel", "path": "+12065553333"}},
		{false, J{"type": "add_contact_groups", "groups": grp}},
		{false, J{"type": "remove_contact_groups", "groups": grp}},
		{false, J{"type": "add_input_labels", "labels": []any{J{"uuid": world.LabelA, "name": "Label A"}}}},
		{false, J{"type": "set_run_result", "name": "Color", "value": "red", "category": "Red"}},
		{false, J{"type": "call_webhook", "method": "POST", "url": "http://example.com/x", "body": "b", "headers": J{"X-A": "a"}, "result_name": "WH"}},
		{false, J{"type": "call_resthook", "resthook": "new-registration", "result_name": "RH"}},
		{false, J{"type": "call_classifier", "classifier": J{"uuid": world.Classifier, "name": "Booking"}, "input": "book", "result_name": "Intent"}},
		{false, J{"type": "open_ticket", "topic": J{"uuid": world.TopicB, "name": "Support"}, "body": "help", "result_name": "Ticket2"}},
		{false, J{"type": "start_session", "flow": J{"uuid": world.FlowUUID(1), "name": "Flow 1"}, "groups": grp, "urns": []any{"tel:+12065550001"}}},
		{false, J{"type": "transfer_airtime", "amounts": J{"USD": 1}, "result_name": "Air"}},
		{false, J{"type": "request_optin", "optin": J{"uuid": world.OptInA, "name": "Jokes"}}},
		{true, J{"type": "say_msg", "text": "hello", "audio_url": "http://example.com/a.m4a"}},
		{true, J{"type": "play_audio", "audio_url": "http://example.com/a.m4a"}},
	}
}

// stringLeaves lists the paths of the string leaves of an action (except uuid and type).
func stringLeaves(v any, path string, out *[]string) {
	switch t := v.(type) {
	case J:
		keys := make([]string, 0, len(t))
		for k := range t {
			keys = append(keys, k)
		}
		sort.Strings(keys)
		for _, k := range keys {
			if path == "" && (k == "uuid" || k == "type") {
				continue
			}
			p := k
			if path != "" {
				p = path + "." + k
			}
			stringLeaves(t[k], p, out)
		}
	case []any:
		for i, e := range t {
			stringLeaves(e, fmt.Sprintf("%s.%d", path, i), out)
		}
	case string:
		*out = append(*out, path)
	}
}

func cloneJ(v any) any {
	switch t := v.(type) {
	case J:
		c := J{}
		for k, e := range t {
			c[k] = cloneJ(e)
		}
		return c
	case []any:
		c := make([]any, len(t))
		for i, e := range t {
			c[i] = cloneJ(e)
		}
		return c
	}
	return v
}

func setLeaf(v any, path []string, val string) {
	switch t := v.(type) {
	case J:
		if len(path) == 1 {
			t[path[0]] = val
			return
		}
		setLeaf(t[path[0]], path[1:], val)
	case []any:
		var i int
		fmt.Sscanf(path[0], "%d", &i)
		if len(path) == 1 {
			t[i] = val
			return
		}
		setLeaf(t[i], path[1:], val)
	}
}

func init() {
	world.KindExits["A:dummy"] = 1
	templates := []string{"x-@globals.secret", "y-@fields.gender"}
	for _, ca := range ftCatalog() {
		var leaves []string
		stringLeaves(ca.action, "", &leaves)
		typ := ca.action["type"].(string)
		for _, leaf := range leaves {
			for _, tpl := range templates {
				a := cloneJ(ca.action).(J)
				setLeaf(a, strings.Split(leaf, "."), tpl)
				ftVariants = append(ftVariants, ftVariant{Name: typ + "." + leaf + "=" + tpl, Voice: ca.voice, Action: a})
			}
		}
	}
	// result names written with adjacent separators (each is a valid name)
	for _, name := range []string{"Age - Group", "Favorite  Color", "a\tb", "x -_- y", " Padded ", "MiXed-Case_9"} {
		ftVariants = append(ftVariants, ftVariant{Name: "set_run_result.name=" + name, Action: J{"type": "set_run_result", "name": name, "value": "v", "category": "C"}})
		ftVariants = append(ftVariants, ftVariant{Name: "call_webhook.result_name=" + name, Action: J{"type": "call_webhook", "method": "GET", "url": "http://example.com/x", "result_name": name}})
	}
	for i := range ftVariants {
		i := i
		world.ActionSets[fmt.Sprintf("ft%d", i)] = func(fl, n int) []any {
			a := cloneJ(ftVariants[i].Action).(J)
			a["uuid"] = world.ActUUID(fl, n, 0)
			return []any{a}
		}
	}
}

// ftSpecs are the roots of the family (flows that do not load are counted and skipped by the caller).
func ftSpecs() []rootSpec {
	var out []rootSpec
	for i, v := range ftVariants {
		spec := world.FlowSpec{Nodes: []world.Node{{Kind: fmt.Sprintf("A:ft%d", i), Dests: []int{-1}}}}
		tr := "msg"
		if v.Voice {
			spec.Type = "voice"
			tr = "voice"
		}
		out = append(out, rootSpec{Flow: spec, Trigger: tr, Variant: v.Name})
	}
	return out
}
