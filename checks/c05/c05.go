// Package c05: sprints terminate within the configured limits.
package c05

import (
	"encoding/json"
	"errors"
	"fmt"
	"strings"
	"time"
	"unicode/utf8"

	"github.com/nyaruka/goflow/assets"
	"github.com/nyaruka/goflow/flows"
	"github.com/nyaruka/goflow/flows/engine"
	"github.com/nyaruka/goflow/flows/events"
	"verif/checks/sm"
	"verif/mc"
	"verif/world"
)

// ---------------------------------------------------------------------------------------------
// Part 1: step and resume limits over adversarial graphs
// ---------------------------------------------------------------------------------------------

var quickKinds = []string{"A", "Es", "Est", "Eo", "Eot", "W", "S"}
var thoroughKinds = []string{"A", "Em", "Es", "Est", "Eo", "Eot", "W", "WT", "S"}

type limits struct{ steps, resumes int }

var limitGrid = []limits{{0, 500}, {1, 500}, {2, 500}, {3, 500}, {7, 500}, {8, 0}, {8, 1}, {8, 2}}

type replayA struct {
	Part string       `json:"part"`
	Root world.Root   `json:"root"`
	Hist []world.Step `json:"history"`
}

const looseSteps = 100

func runLimits(c *mc.Ctx) {
	var sets []world.FlowSet
	if c.Quick() {
		sets = world.EnumFlowSets(quickKinds, 2, 1)
	} else {
		sets = world.EnumFlowSets(thoroughKinds, 2, 1)
	}
	idx := 0
	for i := range sets {
		for _, tr := range []string{"manual", "msg"} {
			for _, lim := range limitGrid {
				idx++
				if !c.Mine(idx) {
					continue
				}
				if c.Expired() {
					c.Cap("time budget reached in the step/resume-limit family; every root before the cap was explored completely")
					return
				}
				root := &world.Root{Flows: &sets[i], Trigger: tr, Opt: world.Options{MaxSteps: lim.steps, MaxResumes: lim.resumes, Explicit: true,
					MaxTemplate: 10000, MaxField: 640, MaxResult: 640}}
				loose := *root
				loose.Opt.MaxSteps = looseSteps
				depth := 1
				evs := world.Events
				if lim.resumes < 500 {
					depth = lim.resumes + 1
					evs = []string{"msg:a", "msg:zz"}
				}
				cfg := sm.Cfg{Ctx: c, Depth: depth, Events: evs, Regimes: []bool{true}, ChoiceBound: 0}
				cfg.Visit = func(t *sm.Trans) bool { return visitLimits(c, t, &loose, lim) }
				st := sm.Search(root, cfg)
				c.Inc("roots")
				c.Add("states", int64(st.States))
				c.Add("transitions", int64(st.Transitions))
				c.Add("evaluations", int64(st.Transitions))
				if st.MaxSprintSteps > 0 {
					c.Inc("distinct_nontrivial")
				}
				c.Max(fmt.Sprintf("max_steps_in_a_sprint_under_limit_%d", lim.steps), int64(st.MaxSprintSteps))
			}
		}
	}
}

func isEngineErr(err error) bool {
	var ee *engine.Error
	return errors.As(err, &ee)
}

func failureTexts(sp flows.Sprint) []string {
	var out []string
	if sp == nil {
		return nil
	}
	for _, e := range sp.Events() {
		if f, ok := e.(*events.FailureEvent); ok {
			out = append(out, f.Text)
		}
	}
	return out
}

func visitLimits(c *mc.Ctx, t *sm.Trans, loose *world.Root, lim limits) bool {
	rp := replayA{Part: "limits", Root: *t.Root, Hist: t.Hist}
	where := fmt.Sprintf("\nflows: %s\ntrigger=%s MaxStepsPerSprint=%d MaxResumesPerSession=%d history=%s", t.Root.Flows.String(), t.Root.Trigger, lim.steps, lim.resumes, mc.JSON(t.Hist))
	for _, p := range judgeLimits(c, t, loose, lim, true) {
		c.Violation(p.Key, p.What+where, rp)
	}
	return t.Panic == "" && t.HarnessErr == nil && t.X != nil && t.X.Err == nil
}

func judgeLimits(c *mc.Ctx, t *sm.Trans, loose *world.Root, lim limits, count bool) []sm.Problem {
	var ps []sm.Problem
	add := func(key, what string, args ...any) {
		ps = append(ps, sm.Problem{Key: key, What: fmt.Sprintf(what, args...)})
	}
	if t.HarnessErr != nil {
		add("harness:"+mc.Hash(t.HarnessErr.Error()), "harness error: %v", t.HarnessErr)
		return ps
	}
	call := "start"
	if len(t.Hist) > 1 {
		call = "resume"
	}
	if t.Panic != "" {
		add("panic:"+call+":"+mc.PanicSite(t.Panic), "engine call panicked: %s", t.Panic)
		return ps
	}
	if t.X.Err != nil {
		if isEngineErr(t.X.Err) {
			return ps // a rejected resume is C10's subject
		}
		add("go-error:"+call+":"+slug(t.X.Err.Error(), 5), "engine call returned a Go error: %v", t.X.Err)
		return ps
	}
	s := t.X.Session
	// the handed-back session answers the host's read-only calls without panicking, as the live object
	// and as the object a host gets by persisting and re-reading it (the expression context is forced
	// completely: every property, array element and rendering)
	for _, mode := range []string{"live", "restored"} {
		sess := s
		var rerr error
		if mode == "restored" {
			b, err := json.Marshal(s)
			if err != nil {
				continue
			}
			sess, rerr = t.X.Eng.ReadSession(t.X.SA, b, assets.IgnoreMissing)
			if rerr != nil {
				continue // a session that does not read back is C02's subject
			}
		}
		if p := mc.Guard(func() {
			if ctx := sess.CurrentContext(); ctx != nil {
				sm.WalkContext(sess.MergedEnvironment(), ctx, nil, 4)
			}
			for _, r := range sess.Runs() {
				r.PathLocation()
			}
		}); p != "" {
			add("panic:session-read-call:"+mode+":"+mc.PanicSite(p), "reading the expression context / run locations of the %s session after the call panicked: %s", mode, p)
		} else if count {
			c.Inc("session_read_calls_" + mode)
		}
	}
	n := t.NewSteps()
	if n > lim.steps {
		add(fmt.Sprintf("steps:sprint-exceeded-step-limit:by-%d", min(n-lim.steps, 3)), "sprint made %d new steps, MaxStepsPerSprint is %d", n, lim.steps)
	}
	ft := failureTexts(t.X.Sprint)
	hitSteps, hitResumes := false, false
	for _, f := range ft {
		if strings.Contains(f, "maximum number of steps") {
			hitSteps = true
		}
		if strings.Contains(f, "maximum number of resumes") {
			hitResumes = true
		}
	}
	if (hitSteps || hitResumes) && s.Status() != flows.SessionStatusFailed {
		add("limit-failure-event-but-session-"+string(s.Status()), "a limit failure event was logged but the session is %s", s.Status())
	}
	// the same history without a step limit: if that sprint needs more steps than the limit, the
	// limited sprint must have ended the session as failed with a failure event
	if lim.steps < looseSteps {
		lt := sm.Replay(loose, t.Hist)
		if lt.Panic == "" && lt.HarnessErr == nil && lt.X != nil && lt.X.Err == nil {
			if ln := lt.NewSteps(); ln > lim.steps {
				if count {
					c.Fact("step_limit_reached")
				}
				if s.Status() != flows.SessionStatusFailed || !hitSteps {
					add("steps:limit-reached-but-not-failed:status="+string(s.Status()), "the sprint needs %d steps (limit %d) but the session is %s, step-limit failure event: %v", ln, lim.steps, s.Status(), hitSteps)
				}
			}
		}
	}
	// resumes accepted so far
	if lim.resumes < 500 {
		accepted := 0
		x, err := t.Root.Run(t.Hist[:1])
		if err == nil {
			for _, st := range t.Hist[1:] {
				if x.Err != nil && !isEngineErr(x.Err) {
					break
				}
				if err := x.Apply(st); err != nil {
					break
				}
				if x.Err == nil {
					lim := false
					for _, f := range failureTexts(x.Sprint) {
						if strings.Contains(f, "maximum number of resumes") {
							lim = true
						}
					}
					if !lim {
						accepted++
					}
				}
			}
		}
		if count {
			c.Max(fmt.Sprintf("max_accepted_resumes_under_limit_%d", lim.resumes), int64(accepted))
			if hitResumes {
				c.Fact("resume_limit_reached")
			}
		}
		if accepted > lim.resumes {
			add("resumes:more-resumes-accepted-than-limit", "%d resumes were accepted, MaxResumesPerSession is %d", accepted, lim.resumes)
		}
	}
	if count {
		c.Outcome(fmt.Sprintf("limits: status=%s steps<=limit hitSteps=%v hitResumes=%v", s.Status(), hitSteps, hitResumes))
	}
	return ps
}

// ---------------------------------------------------------------------------------------------
// Part 2: size limits
// ---------------------------------------------------------------------------------------------

type sizeCase struct {
	Part     string `json:"part"`
	Template int    `json:"max_template"`
	Field    int    `json:"max_field"`
	Result   int    `json:"max_result"`
	Unit     string `json:"unit"`
	Len      int    `json:"len"`
	Trigger  string `json:"trigger"`
}

var templateLimits = []int{0, 1, 2, 3, 4, 10, 10000}
var fieldLimits = []int{0, 1, 4, 640}
var resultLimits = []int{0, 1, 4, 640}

// units: ASCII, 2-, 3-, 4-byte runes, and a base letter + combining mark (two runes per unit)
var units = []string{"a", "é", "€", "😀", "é"}

var lengthsQuick = []int{0, 1, 2, 3, 4, 5, 9, 10, 11, 63, 64, 65, 639, 640, 641, 2040, 2060, 9999, 10000, 10001, 30000}

func sizeFlow() world.J {
	f := 0
	w := world.J{
		"uuid": world.NodeUUID(f, 0),
		"router": world.J{
			"type": "switch", "operand": "@input.text", "result_name": "Answer", "wait": world.J{"type": "msg"},
			"cases": []any{world.J{"uuid": world.UUID("c05.case"), "type": "has_only_text", "arguments": []any{"a"}, "category_uuid": world.UUID("c05.cat0")}},
			"categories": []any{
				world.J{"uuid": world.UUID("c05.cat0"), "name": "A", "exit_uuid": world.ExitUUID(f, 0, 0)},
				world.J{"uuid": world.UUID("c05.cat1"), "name": "Other", "exit_uuid": world.ExitUUID(f, 0, 1)},
			},
			"default_category_uuid": world.UUID("c05.cat1"),
		},
		"exits": []any{
			world.J{"uuid": world.ExitUUID(f, 0, 0), "destination_uuid": world.NodeUUID(f, 1)},
			world.J{"uuid": world.ExitUUID(f, 0, 1), "destination_uuid": world.NodeUUID(f, 1)},
		},
	}
	acts := world.J{
		"uuid": world.NodeUUID(f, 1),
		"actions": []any{
			world.J{"uuid": world.ActUUID(f, 1, 0), "type": "send_msg", "text": "@input.text",
				"attachments":   []any{"image/jpeg:http://example.com/@input.text"},
				"quick_replies": []any{"@input.text", "yes"}},
			world.J{"uuid": world.ActUUID(f, 1, 1), "type": "set_contact_name", "name": "@input.text"},
			world.J{"uuid": world.ActUUID(f, 1, 2), "type": "set_contact_field", "field": world.J{"key": "gender", "name": "Gender"}, "value": "@input.text"},
			world.J{"uuid": world.ActUUID(f, 1, 3), "type": "set_run_result", "name": "Copy", "value": "@input.text", "category": "Cat"},
			world.J{"uuid": world.ActUUID(f, 1, 4), "type": "send_msg", "text": "x@(input.text)y@contact.name z@fields.gender r@results.copy.value"},
			world.J{"uuid": world.ActUUID(f, 1, 6), "type": "send_broadcast", "text": "@input.text", "groups": []any{world.J{"uuid": world.GroupA, "name": "Group A"}}},
			// literal texts without any expression, longer than every small limit
			world.J{"uuid": world.ActUUID(f, 1, 7), "type": "send_msg", "text": "literal text of forty-one characters long", "quick_replies": []any{strings.Repeat("q", 70)}},
			world.J{"uuid": world.ActUUID(f, 1, 8), "type": "set_contact_name", "name": "Literally Long Name"},
			world.J{"uuid": world.ActUUID(f, 1, 9), "type": "set_contact_field", "field": world.J{"key": "gender", "name": "Gender"}, "value": "literal field value"},
			world.J{"uuid": world.ActUUID(f, 1, 10), "type": "set_run_result", "name": "Literal", "value": "literal result value", "category": "Cat"},
			world.J{"uuid": world.ActUUID(f, 1, 11), "type": "send_msg", "text": strings.Repeat("é", 10050)},
		},
		"exits": []any{world.J{"uuid": world.ExitUUID(f, 1, 0)}},
	}
	return world.J{"uuid": world.FlowUUID(0), "name": "Sizes", "spec_version": "13.5.0", "language": "eng", "type": "messaging", "nodes": []any{w, acts}}
}

func sizeCases(tier string) []sizeCase {
	var out []sizeCase
	for _, tl := range templateLimits {
		for _, fl := range fieldLimits {
			for _, rl := range resultLimits {
				// quick: vary one limit family at a time around the defaults plus the all-small corner
				if tier == "quick" {
					nonDefault := 0
					if tl != 10000 {
						nonDefault++
					}
					if fl != 640 {
						nonDefault++
					}
					if rl != 640 {
						nonDefault++
					}
					if nonDefault > 1 && !(tl == fl && fl == rl) && !(tl <= 4 && fl == rl && fl <= 4) {
						continue
					}
				}
				for _, u := range units {
					for _, n := range lengthsQuick {
						for _, tr := range []string{"resume", "msg"} {
							out = append(out, sizeCase{Part: "sizes", Template: tl, Field: fl, Result: rl, Unit: u, Len: n, Trigger: tr})
						}
					}
				}
			}
		}
	}
	return out
}

func runeLen(s string) int { return utf8.RuneCountInString(s) }

func judgeSize(c *mc.Ctx, sc sizeCase, count bool) []sm.Problem {
	var ps []sm.Problem
	add := func(key, what string, args ...any) {
		ps = append(ps, sm.Problem{Key: key, What: fmt.Sprintf(what, args...)})
	}
	input := strings.Repeat(sc.Unit, sc.Len)
	root := &world.Root{Assets: world.WithFlows(world.BaseAssets(), []any{sizeFlow()}), Trigger: "manual",
		Opt: world.Options{MaxSteps: 100, MaxResumes: 500, MaxTemplate: sc.Template, MaxField: sc.Field, MaxResult: sc.Result, Explicit: true}}
	var x *world.Exec
	var herr error
	var sprints []flows.Sprint
	p := mc.Guard(func() {
		if sc.Trigger == "msg" {
			root.Trigger = "msg"
			root.TrigMsg = input
			if input == "" {
				root.TrigMsg = " "
			}
			x, herr = root.Start(world.Step{})
			if herr == nil {
				sprints = append(sprints, x.Sprint)
			}
			return
		}
		x, herr = root.Start(world.Step{})
		if herr != nil || x.Err != nil {
			return
		}
		sprints = append(sprints, x.Sprint)
		herr = x.Apply(world.Step{Ev: "msg:" + input})
		sprints = append(sprints, x.Sprint)
	})
	limClass := func(v int) string {
		if v < 3 {
			return fmt.Sprint(v)
		}
		return ">=3"
	}
	if p != "" {
		key := "panic:sizes:" + mc.PanicSite(p)
		// only limits too small to be ordinary take part in the signature
		if sc.Template < 3 {
			key += ":max_template=" + limClass(sc.Template)
		}
		if sc.Field < 3 {
			key += ":max_field=" + limClass(sc.Field)
		}
		if sc.Result < 3 {
			key += ":max_result=" + limClass(sc.Result)
		}
		add(key, "engine call panicked: %s", p)
		return ps
	}
	if herr != nil {
		add("harness:"+mc.Hash(herr.Error()), "harness error: %v", herr)
		return ps
	}
	if x.Err != nil {
		add("go-error:sizes:"+slug(x.Err.Error(), 5), "engine call returned a Go error: %v", x.Err)
		return ps
	}
	checkUTF8 := func(what, s string) {
		if !utf8.ValidString(s) {
			add("utf8:invalid:"+what, "%s is not valid UTF-8 after truncation", what)
		}
	}
	for _, sp := range sprints {
		if sp == nil {
			continue
		}
		for _, e := range sp.Events() {
			switch ev := e.(type) {
			case *events.MsgCreatedEvent:
				m := ev.Msg
				if m.Templating() == nil && runeLen(m.Text()) > sc.Template {
					add("size:msg-text-exceeds-max-template-chars", "msg_created text has %d chars, MaxTemplateChars is %d", runeLen(m.Text()), sc.Template)
				}
				checkUTF8("msg text", m.Text())
				for _, q := range m.QuickReplies() {
					if runeLen(q) > flows.MaxQuickReplyLength {
						add("size:quick-reply-exceeds-limit", "quick reply has %d chars, limit %d", runeLen(q), flows.MaxQuickReplyLength)
					}
					checkUTF8("quick reply", q)
				}
				for _, a := range m.Attachments() {
					if runeLen(string(a)) > flows.MaxAttachmentLength {
						add("size:attachment-exceeds-limit", "attachment has %d chars, limit %d", runeLen(string(a)), flows.MaxAttachmentLength)
					}
				}
				if count {
					c.Fact("msg_created")
					if runeLen(m.Text()) == sc.Template && sc.Len > sc.Template {
						c.Fact("msg_text_cut_at_limit")
					}
				}
			case *events.ContactNameChangedEvent:
				if runeLen(ev.Name) > sc.Field {
					add("size:contact-name-exceeds-max-field-chars", "contact name has %d chars, MaxFieldChars is %d", runeLen(ev.Name), sc.Field)
				}
				checkUTF8("contact name", ev.Name)
				if count {
					c.Fact("name_changed")
				}
			case *events.ContactFieldChangedEvent:
				if ev.Value != nil {
					if runeLen(ev.Value.Text.Native()) > sc.Field {
						add("size:field-text-exceeds-max-field-chars", "field value has %d chars, MaxFieldChars is %d", runeLen(ev.Value.Text.Native()), sc.Field)
					}
					checkUTF8("field value", ev.Value.Text.Native())
					if count {
						c.Fact("field_changed")
					}
				}
			case *events.RunResultChangedEvent:
				if runeLen(ev.Value) > sc.Result {
					add("size:result-value-exceeds-max-result-chars:"+strings.ToLower(ev.Name), "result %s value has %d chars, MaxResultChars is %d", ev.Name, runeLen(ev.Value), sc.Result)
				}
				checkUTF8("result value", ev.Value)
				if count {
					c.Fact("result_changed")
				}
			}
		}
	}
	// the state itself
	s := x.Session
	if s.Contact() != nil && runeLen(s.Contact().Name()) > sc.Field && s.Contact().Name() != "Ann" {
		add("size:stored-contact-name-exceeds-max-field-chars", "stored contact name has %d chars, MaxFieldChars is %d", runeLen(s.Contact().Name()), sc.Field)
	}
	for _, r := range s.Runs() {
		for _, res := range r.Results() {
			if runeLen(res.Value) > sc.Result {
				add("size:stored-result-exceeds-max-result-chars:"+strings.ToLower(res.Name), "stored result %s has %d chars, MaxResultChars is %d", res.Name, runeLen(res.Value), sc.Result)
			}
		}
	}
	if count {
		c.Outcome(fmt.Sprintf("sizes: status=%s", s.Status()))
	}
	return ps
}

func runSizes(c *mc.Ctx) {
	cases := sizeCases(c.Tier)
	for i, sc := range cases {
		if !c.Mine(i) {
			continue
		}
		if c.Expired() {
			c.Cap("time budget reached in the size-limit family")
			return
		}
		c.Inc("evaluations")
		c.Inc("size_cases")
		c.Inc("transitions")
		c.Inc("states")
		if sc.Len > 0 {
			c.Inc("distinct_nontrivial")
		}
		for _, p := range judgeSize(c, sc, true) {
			c.Violation(p.Key, fmt.Sprintf("%s\nMaxTemplateChars=%d MaxFieldChars=%d MaxResultChars=%d input=%d x %q via %s", p.What, sc.Template, sc.Field, sc.Result, sc.Len, sc.Unit, sc.Trigger), sc)
		}
		if c.WantSample() && sc.Len == 4 && sc.Template == 3 {
			c.Sample(sc)
		}
	}
}

func run(c *mc.Ctx) {
	runSizes(c)
	runLimits(c)
}

func slug(s string, n int) string {
	f := strings.Fields(s)
	if len(f) > n {
		f = f[:n]
	}
	out := strings.ToLower(strings.Join(f, "-"))
	return strings.Map(func(r rune) rune {
		if (r >= 'a' && r <= 'z') || (r >= '0' && r <= '9') || r == '-' {
			return r
		}
		return -1
	}, out)
}

func replayFn(c *mc.Ctx, raw json.RawMessage) (string, bool) {
	var probe struct {
		Part string `json:"part"`
	}
	json.Unmarshal(raw, &probe)
	var ps []sm.Problem
	var desc string
	if probe.Part == "sizes" {
		var sc sizeCase
		json.Unmarshal(raw, &sc)
		ps = judgeSize(c, sc, false)
		desc = fmt.Sprintf("size case %+v", sc)
	} else {
		var rp replayA
		if err := json.Unmarshal(raw, &rp); err != nil {
			return "bad replay: " + err.Error(), false
		}
		t := sm.Replay(&rp.Root, rp.Hist)
		loose := rp.Root
		loose.Opt.MaxSteps = looseSteps
		ps = judgeLimits(c, t, &loose, limits{rp.Root.Opt.MaxSteps, rp.Root.Opt.MaxResumes}, false)
		desc = fmt.Sprintf("flows: %s trigger=%s opt=%+v history=%s", rp.Root.Flows.String(), rp.Root.Trigger, rp.Root.Opt, mc.JSON(rp.Hist))
	}
	for _, p := range ps {
		desc += fmt.Sprintf("\nPROBLEM %s: %s", p.Key, p.What)
	}
	return desc, len(ps) > 0
}

func init() {
	mc.Register(&mc.Check{
		ID:    "C05",
		Level: "model_checking",
		Rule: "two exhaustively enumerated families on the real engine. (1) limits: every canonical flow set (<= 2(+1) nodes over the adversarial structural alphabet: self loops, A enters B enters A, terminal enters, routers whose default returns to themselves, with/without waits) x {manual,msg} x (MaxStepsPerSprint, MaxResumesPerSession) in {(0..7,500),(8,0..2)}; BFS over resumes; every transition: no panic, no Go error, new steps <= limit, and - by replaying the same history under a loose limit - a sprint that needs more steps must end failed with a failure event; accepted resumes <= limit. " +
			"(2) sizes: a flow exercising send_msg (text, attachments, quick replies), say_msg, send_broadcast, set_contact_name, set_contact_field, set_run_result and a result-saving wait x MaxTemplateChars {0,1,2,3,4,10,10000} x MaxFieldChars/MaxResultChars {0,1,4,640} x inputs of 21 lengths around every limit x 5 character units (1-4 byte runes, combining mark) x {msg trigger, msg resume}: no panic/Go error, all emitted lengths within limits, valid UTF-8. distinct_nontrivial counts roots that make at least one step and non-empty size inputs.",
		Assumptions: []string{"negative option values are outside the configuration domain", "quick tier varies one size-limit family at a time plus the all-equal and all-small corners; thorough takes the full product"},
		Run:         run,
		Replay:      replayFn,
		Single:      sm.Single,
		SingleTicks: true,
		HangLimit:   15 * time.Second,
		SingleLimit: 30 * time.Second,
		MaxBadCases: 3,
		MemLimitKB:  8 << 20,
		Classify: func(desc, output string, hang bool) (string, string) {
			text, kinds := sm.DescribeRisky(desc)
			if hang {
				return "hang:engine-call-does-not-return:node-kinds=" + kinds, "an engine call did not return within the single-case limit (the search of this root alone does not finish): " + text
			}
			return "crash:engine-call-kills-the-host:node-kinds=" + kinds, "an engine call crashed the host process (e.g. unbounded memory growth): " + text
		},
		Budget: map[string]time.Duration{"quick": 8 * time.Minute, "thorough": 30 * time.Minute},
		Guards: func(r *mc.Result, tier string) []string {
			var f []string
			for _, fact := range []string{"step_limit_reached", "resume_limit_reached", "msg_created", "msg_text_cut_at_limit", "name_changed", "field_changed", "result_changed"} {
				if r.Facts[fact] == 0 {
					f = append(f, "never observed: "+fact)
				}
			}
			return f
		},
	})
}
