// Package c05: (not built yet)
package c05
