package c03

import (
	"encoding/json"
	"fmt"
	"strings"

	"verif/checks/cf"
	"verif/checks/sm"
	"verif/mc"
)

type engineCase struct {
	Root cf.EngineRoot `json:"root"`
	Hist []string      `json:"history"`
}

func judgeEngine(c *mc.Ctx, ec *engineCase, count bool) []sm.Problem {
	var ps []sm.Problem
	add := func(key, what string, args ...any) {
		ps = append(ps, sm.Problem{Key: key, What: fmt.Sprintf(what, args...)})
	}
	obs, err := cf.Execute(&ec.Root, ec.Hist)
	if err != nil {
		add("harness:"+mc.Hash(err.Error()), "harness: %v", err)
		return ps
	}
	for i, o := range obs {
		callClass := "start"
		if i > 0 {
			callClass = strings.SplitN(o.Call, ":", 2)[0]
		}
		if o.Panic != "" {
			add("engine:panic:"+mc.PanicSite(o.Panic), "engine call panicked: %s", o.Panic)
			continue
		}
		if o.Err != nil {
			if count {
				c.Inc("engine_go_errors")
			}
			continue // Go errors are C05/C10's subject
		}
		before, _ := cf.ViewOf(o.Before)
		after, _ := cf.ViewOf(o.After)
		ref := before.Clone()
		for _, ev := range o.Events {
			if _, err := ref.ApplyEvent(ev, o.InputTime); err != nil {
				add("harness:apply-event", "cannot apply %s: %v", ev, err)
			}
		}
		if count {
			c.Inc("engine_sprints")
			if before.LastSeen != after.LastSeen {
				c.Fact("engine_last_seen_changed")
			}
			for _, t := range o.EventTypes {
				if t == "contact_refreshed" {
					c.Fact("engine_refreshed")
				}
				if cf.IsChangeEvent(t) {
					c.Outcome("engine event " + t)
				}
			}
		}
		if d := cf.Diff(ref, after); d != "" {
			// which action produced the unannounced change: the one executed in this sprint
			act := cf.Actions[ec.Root.A].Name
			if ec.Root.Wait && i > 0 {
				act = cf.Actions[ec.Root.B].Name
			} else if !ec.Root.Wait {
				act += "+" + cf.Actions[ec.Root.B].Name
			}
			if d == "last_seen_on" {
				act = "any" // last seen comes from the received message, not from an action
			}
			add("engine:"+callClass+":events-do-not-reproduce-contact:"+d+":actions="+act,
				"replaying the sprint's events over the contact before does not reproduce the contact after (differs in %s)\nreplayed: %s\nactual:   %s\nevents: %s", d, ref, after, strings.Join(o.EventTypes, ","))
		}
	}
	return ps
}

func runEngine(c *mc.Ctx) {
	roots := cf.EngineRoots()
	nMain := len(roots)
	// the single-aspect refresh family: only the refresh history
	roots = append(roots, cf.RefreshRoots()...)
	for i := range roots {
		if !c.Mine(i) {
			continue
		}
		if c.Expired() {
			c.Cap("time budget reached in the engine family")
			return
		}
		nontrivial := false
		for _, h := range cf.Histories {
			if len(h) > 0 && !roots[i].Wait && h[0] != "again" {
				continue
			}
			if i >= nMain && (len(h) == 0 || !strings.HasPrefix(h[0], "refresh:")) {
				continue
			}
			if i >= nMain {
				c.Inc("single_aspect_refreshes")
			}
			ec := &engineCase{Root: roots[i], Hist: h}
			c.Inc("evaluations")
			c.Inc("states")
			c.Add("transitions", int64(1+len(h)))
			for _, p := range judgeEngine(c, ec, true) {
				c.Violation(p.Key, p.What+"\nroot: "+roots[i].String()+" contact: "+mc.JSON(roots[i].Contact)+fmt.Sprintf(" history: %v", h), map[string]any{"space": "engine", "case": ec})
			}
			nontrivial = true
			if c.WantSample() && i%977 == 5 {
				c.Sample(map[string]any{"root": roots[i].String(), "history": h})
			}
		}
		if nontrivial {
			c.Inc("distinct_nontrivial")
		}
	}
}

func replayEngine(c *mc.Ctx, raw json.RawMessage) (string, bool) {
	var rp struct {
		Case engineCase `json:"case"`
	}
	if err := json.Unmarshal(raw, &rp); err != nil {
		return err.Error(), false
	}
	ps := judgeEngine(c, &rp.Case, false)
	out := "engine: " + rp.Case.Root.String() + " contact=" + mc.JSON(rp.Case.Root.Contact) + fmt.Sprintf(" history=%v", rp.Case.Hist)
	for _, p := range ps {
		out += "\nPROBLEM " + p.Key + ": " + p.What
	}
	return out, len(ps) > 0
}
