// Package c03: (not built yet)
package c03
