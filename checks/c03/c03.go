// Package c03: every contact change is announced by an event that reproduces it.
package c03

import (
	"encoding/json"
	"fmt"
	"strings"
	"time"

	"verif/checks/cf"
	"verif/checks/sm"
	"verif/mc"
)

// ---------------------------------------------------------------------------------------------
// Space A: modifiers applied directly
// ---------------------------------------------------------------------------------------------

func modClass(m cf.J) string {
	t, _ := m["type"].(string)
	if mod, ok := m["modification"].(string); ok {
		return t + ":" + mod
	}
	return t
}

func judgeDirect(c *mc.Ctx, w *cf.World, d *cf.Direct, count bool) []sm.Problem {
	var ps []sm.Problem
	add := func(key, what string, args ...any) {
		ps = append(ps, sm.Problem{Key: key, What: fmt.Sprintf(what, args...)})
	}
	r := w.Run(d)
	mcl := modClass(d.Modifier)
	if r.Panic != "" {
		add("direct:panic:"+mcl+":"+mc.PanicSite(r.Panic), "modifier application panicked: %s", r.Panic)
		return ps
	}
	if r.Err != nil {
		add("harness:"+mc.Hash(r.Err.Error()), "harness: %v", r.Err)
		return ps
	}
	if r.NoModifier {
		return nil
	}
	before, _ := cf.ViewOf(r.Before)
	after, _ := cf.ViewOf(r.After)
	after2, _ := cf.ViewOf(r.After2)
	ref := before.Clone()
	emitted := false
	for i, ev := range r.Events {
		if cf.IsChangeEvent(r.EventTypes[i]) {
			emitted = true
		}
		if _, err := ref.ApplyEvent(ev, ""); err != nil {
			add("harness:apply-event", "cannot apply event %s: %v", ev, err)
		}
	}
	changed := cf.Diff(before, after) != ""
	if count {
		c.Outcome(fmt.Sprintf("direct %s modified=%v changed=%v", mcl, r.Modified, changed))
		if changed {
			c.Fact("direct_changed:" + mcl)
		}
	}
	if d := cf.Diff(ref, after); d != "" {
		add("direct:"+mcl+":events-do-not-reproduce-contact:"+d, "replaying the emitted events over the contact before does not reproduce the contact after (differs in %s)\nreplayed: %s\nactual:   %s\nevents: %s", d, ref, after, strings.Join(r.EventTypes, ","))
	}
	switch {
	case changed && !r.Modified:
		add("direct:"+mcl+":changed-but-reported-unmodified", "the contact changed (%s) but the modifier reported not modified", cf.Diff(before, after))
	case !changed && r.Modified:
		add("direct:"+mcl+":unchanged-but-reported-modified", "the contact did not change but the modifier reported modified")
	}
	switch {
	case changed && !emitted:
		add("direct:"+mcl+":changed-but-no-change-event", "the contact changed (%s) but no change event was emitted", cf.Diff(before, after))
	case !changed && emitted:
		add("direct:"+mcl+":unchanged-but-change-event-emitted", "the contact did not change but a change event was emitted (%s)", strings.Join(r.EventTypes, ","))
	}
	// second application
	emitted2 := false
	for _, t := range r.EventTypes2 {
		if cf.IsChangeEvent(t) {
			emitted2 = true
		}
	}
	if r.Modified2 {
		add("direct:"+mcl+":second-application-reported-modified", "applying the same modifier a second time reported modified again")
	}
	if emitted2 {
		add("direct:"+mcl+":second-application-emitted-change-event", "applying the same modifier a second time emitted %s", strings.Join(r.EventTypes2, ","))
	}
	if d := cf.Diff(after, after2); d != "" {
		add("direct:"+mcl+":second-application-changed-contact:"+d, "applying the same modifier a second time changed the contact (%s)", d)
	}
	return ps
}

func runDirect(c *mc.Ctx) {
	w, err := cf.NewWorld()
	if err != nil {
		c.Violation("harness:world", err.Error(), nil)
		return
	}
	contacts := cf.Contacts(c.Thorough())
	mods := cf.Modifiers()
	idx := 0
	for _, mf := range []int{4, 640} {
		for ci := range contacts {
			idx++
			if !c.Mine(idx) {
				continue
			}
			if c.Expired() {
				c.Cap("time budget reached in the direct-modifier family")
				return
			}
			for mi := range mods {
				d := &cf.Direct{Contact: contacts[ci], Modifier: mods[mi], MaxField: mf}
				c.Inc("evaluations")
				c.Inc("direct_applications")
				c.Inc("transitions")
				c.Inc("states")
				for _, p := range judgeDirect(c, w, d, true) {
					c.Violation(p.Key, p.What+"\ncontact: "+mc.JSON(d.Contact)+"\nmodifier: "+mc.JSON(d.Modifier)+fmt.Sprintf(" MaxFieldChars=%d", mf), map[string]any{"space": "direct", "case": d})
				}
				if c.WantSample() && ci == 7 && mi%40 == 3 {
					c.Sample(d)
				}
				// modifiers that name assets, read against a second instance of the same assets
				if t, _ := mods[mi]["type"].(string); mf == 640 && (t == "groups" || t == "channel" || t == "ticket") {
					d2 := &cf.Direct{Contact: contacts[ci], Modifier: mods[mi], MaxField: mf, OtherAssets: true}
					c.Inc("evaluations")
					c.Inc("direct_applications_with_reloaded_assets")
					c.Inc("transitions")
					c.Inc("states")
					for _, p := range judgeDirect(c, w, d2, true) {
						c.Violation("reloaded-assets:"+p.Key, p.What+"\ncontact: "+mc.JSON(d2.Contact)+"\nmodifier (read against a second instance of the assets): "+mc.JSON(d2.Modifier), map[string]any{"space": "direct", "case": d2})
					}
				}
			}
			c.Inc("distinct_nontrivial")
		}
	}
	if !c.Thorough() {
		return
	}
	// two-step chains: the judged application starts from a state reached through the library
	quickContacts := cf.Contacts(false)
	for pi, pre := range cf.PreModifiers() {
		for ci := range quickContacts {
			idx++
			if !c.Mine(idx) {
				continue
			}
			if c.Expired() {
				c.Cap(fmt.Sprintf("time budget reached in the two-step chains (first modifier %d)", pi))
				return
			}
			for mi := range mods {
				d := &cf.Direct{Contact: quickContacts[ci], Modifier: mods[mi], MaxField: 640, Pre: pre}
				c.Inc("evaluations")
				c.Inc("chained_applications")
				c.Inc("transitions")
				c.Inc("states")
				for _, p := range judgeDirect(c, w, d, true) {
					c.Violation("chain:"+p.Key, p.What+"\ncontact: "+mc.JSON(d.Contact)+"\nfirst modifier: "+mc.JSON(pre)+"\nmodifier: "+mc.JSON(d.Modifier), map[string]any{"space": "direct", "case": d})
				}
			}
		}
	}
}

func run(c *mc.Ctx) {
	runDirect(c)
	runEngine(c)
}

func replayFn(c *mc.Ctx, raw json.RawMessage) (string, bool) {
	var probe struct {
		Space string `json:"space"`
	}
	json.Unmarshal(raw, &probe)
	if probe.Space == "direct" {
		var rp struct {
			Case cf.Direct `json:"case"`
		}
		if err := json.Unmarshal(raw, &rp); err != nil {
			return err.Error(), false
		}
		w, err := cf.NewWorld()
		if err != nil {
			return err.Error(), false
		}
		ps := judgeDirect(c, w, &rp.Case, false)
		out := "direct: contact=" + mc.JSON(rp.Case.Contact) + " modifier=" + mc.JSON(rp.Case.Modifier)
		for _, p := range ps {
			out += "\nPROBLEM " + p.Key + ": " + p.What
		}
		return out, len(ps) > 0
	}
	return replayEngine(c, raw)
}

func init() {
	mc.Register(&mc.Check{
		ID:    "C03",
		Level: "model_checking",
		Rule: "two exhaustively enumerated spaces on the real code. (A) direct: the product of starting contacts (name x language x status x URN list x static groups x wrong stored query-group membership x fields x ticket) x the modifier alphabet (name incl. at/over the limit and multi-byte, language, status, timezone, field values of every type incl. over-long, groups add/remove over all lists <= 2 incl. a query group, urns append/remove/set over all lists <= 2 over 5 URNs incl. invalid and needs-normalising, channel, ticket) x MaxFieldChars {4,640}, each applied twice. " +
			"(B) engine: flows built from all ordered pairs of contact-changing actions with and without a wait between them x triggers {manual,msg} x starting contacts x resume histories (msg, msg with refreshed contact). Oracle: a reference event applier over the contact JSON replays the emitted events over the contact before and must reproduce the contact after; modified == changed == change-event-emitted; the second application changes and reports nothing. distinct_nontrivial = starting contacts (A) / roots (B).",
		Assumptions: []string{"group order inside the contact is not compared (membership as a set)", "created_on, uuid and id never change and are not part of the view"},
		Run:         run,
		Replay:      replayFn,
		Budget:      map[string]time.Duration{"quick": 4 * time.Minute, "thorough": 20 * time.Minute},
		Guards: func(r *mc.Result, tier string) []string {
			var f []string
			for _, fact := range []string{"direct_changed:name", "direct_changed:language", "direct_changed:status", "direct_changed:timezone", "direct_changed:field", "direct_changed:groups:add", "direct_changed:groups:remove",
				"direct_changed:urns:append", "direct_changed:urns:remove", "direct_changed:urns:set", "direct_changed:channel", "direct_changed:ticket", "engine_last_seen_changed", "engine_refreshed"} {
				if r.Facts[fact] == 0 {
					f = append(f, "never observed: "+fact)
				}
			}
			return f
		},
	})
}
