package c17

import (
	"fmt"
	"testing"
	"time"
)

func TestCount(t *testing.T) {
	sh := &shaper{}
	setup()
	st := time.Now()
	n := 0
	fails := 0
	skipped := 0
	var sigT time.Duration
	for _, ty := range resultTypes {
		for i, s := range sh.shapes(ty, 3) {
			if i%64 != 0 {
				continue
			}
			root := fill(s, 0)
			if !magnitudeOK(root) {
				skipped++
				continue
			}
			s1 := time.Now()
			fmt.Println("START", root.Text())
			v := verdictOf(root)
			if d := time.Since(s1); d > 50*time.Millisecond {
				fmt.Println("SLOW", d, root.Text())
			}
			n++
			if v.Fail {
				fails++
				s0 := time.Now()
				signature(root)
				sigT += time.Since(s0)
			}
		}
	}
	fmt.Println(n, "verdicts in", time.Since(st), time.Since(st)/time.Duration(n), "fails", fails, "sig time", sigT, "skipped", skipped)
}
