// Package c17: legacy (Excel-style) expression migration preserves meaning.
package c17

import (
	"encoding/json"
	"fmt"
	"regexp"
	"strings"
	"time"
	"unicode"

	"github.com/nyaruka/gocommon/dates"
	"github.com/nyaruka/goflow/envs"
	"github.com/nyaruka/goflow/excellent"
	"github.com/nyaruka/goflow/excellent/types"
	"github.com/nyaruka/goflow/flows/definition/legacy/expressions"
	"github.com/shopspring/decimal"
	"verif/mc"
)

var (
	env       envs.Environment
	engineCtx *types.XObject
	evaluator = excellent.NewEvaluator()
	topLevels []string
)

func setup() {
	dates.SetNowFunc(dates.NewFixedNow(fixedNow))
	env = envs.NewBuilder().Build()
	obj := func(m map[string]types.XValue) *types.XObject { return types.NewXObject(m) }
	// the migrated names of the legacy references in refContext, bound to the same values
	engineCtx = obj(map[string]types.XValue{
		"fields":       obj(map[string]types.XValue{"age": types.NewXNumberFromInt(7)}),
		"legacy_extra": obj(map[string]types.XValue{"s": types.NewXText("k1 k2 k3")}),
		"results": obj(map[string]types.XValue{"num": obj(map[string]types.XValue{
			"__default__": types.NewXNumberFromInt(4), "value": types.NewXNumberFromInt(4)})}),
		"contact": obj(map[string]types.XValue{"__default__": types.NewXText("Bob Smith"), "name": types.NewXText("Bob Smith")}),
		"input":   obj(map[string]types.XValue{"__default__": types.NewXText("hello"), "text": types.NewXText("hello")}),
		"urns":    obj(map[string]types.XValue{}),
		"parent":  obj(map[string]types.XValue{}),
		"child":   obj(map[string]types.XValue{}),
		"run":     obj(map[string]types.XValue{}),
	})
	topLevels = engineCtx.Properties()
}

// engRes is what the real code makes of one legacy expression: MigrateTemplate, then the
// engine's scanner, parser and evaluator on the migrated template.
type engRes struct {
	Symptom  string // "" (a value) | migration-error | not-an-expression | unparseable | error
	Migrated string
	V        types.XValue
	Detail   string
}

var engCache = map[string]*engRes{}
var evalPanics int64

func engineEval(exprText string) *engRes {
	if r, ok := engCache[exprText]; ok {
		return r
	}
	r := engineEvalTemplate("@("+exprText+")", true)
	if len(engCache) > 300000 {
		engCache = map[string]*engRes{}
	}
	engCache[exprText] = r
	return r
}

// engineEvalTemplate migrates and evaluates a legacy template that consists of exactly one
// expression (single = true), requiring that the migrated template is again exactly one
// expression that the engine's parser accepts.
func engineEvalTemplate(legacyTemplate string, single bool) *engRes {
	r := &engRes{}
	var merr error
	if p := mc.Guard(func() { r.Migrated, merr = expressions.MigrateTemplate(legacyTemplate, nil) }); p != "" {
		r.Symptom, r.Detail = "panic", p
		return r
	}
	if merr != nil {
		r.Symptom, r.Detail = "migration-error", merr.Error()
		return r
	}
	if r.Migrated == "" && legacyTemplate == `@("")` {
		// the empty literal is migrated to the empty template, which evaluates to the empty text
		r.V = types.XTextEmpty
		return r
	}
	return evalInto(r)
}

// evalMigrated evaluates an already migrated template that has to be exactly one expression.
func evalMigrated(migrated string) *engRes { return evalInto(&engRes{Migrated: migrated}) }

func evalInto(r *engRes) *engRes {
	var exprs []string
	body := false
	excellent.VisitTemplate(r.Migrated, topLevels, false, func(tt excellent.XTokenType, tok string) error {
		switch tt {
		case excellent.BODY:
			body = true
		case excellent.IDENTIFIER, excellent.EXPRESSION:
			exprs = append(exprs, tok)
		}
		return nil
	})
	if len(exprs) != 1 || body {
		r.Symptom = "not-an-expression"
		r.Detail = fmt.Sprintf("the engine's scanner finds %d expressions (body text: %v) in the migrated template", len(exprs), body)
		return r
	}
	if _, err := excellent.Parse(exprs[0], nil); err != nil {
		r.Symptom, r.Detail = "unparseable", err.Error()
		return r
	}
	var v types.XValue
	if p := mc.Guard(func() { v, _, _ = evaluator.TemplateValue(env, engineCtx, r.Migrated) }); p != "" {
		// a panic while *evaluating* (mod(x, 0)) is the engine's totality problem (C04/C05), not a
		// migration defect: the legacy expression is an error as well. Counted, treated as an error value.
		evalPanics++
		r.Symptom, r.Detail = "error", "evaluation panics: "+strings.SplitN(p, "\n", 2)[0]
		return r
	}
	r.V = v
	if types.IsXError(v) {
		r.Symptom, r.Detail = "error", v.(error).Error()
	}
	return r
}

func render(v types.XValue) string {
	if v == nil {
		return "<nil>"
	}
	t, xerr := types.ToXText(env, v)
	if xerr != nil {
		return "<" + xerr.Error() + ">"
	}
	return fmt.Sprintf("%s %q", strings.TrimPrefix(fmt.Sprintf("%T", v), "*types."), t.Native())
}

func (v Val) String() string {
	switch v.T {
	case 'N':
		if v.Approx {
			return fmt.Sprintf("number ~%g", v.F)
		}
		return "number " + v.N.String()
	case 'S':
		return fmt.Sprintf("text %q", v.S)
	case 'B':
		return fmt.Sprintf("boolean %v", v.B)
	case 'D':
		if v.HasTod {
			return "datetime " + v.D.Format("2006-01-02 15:04:05")
		}
		return "date " + v.D.Format("2006-01-02")
	case 'T':
		return fmt.Sprintf("time %02d:%02d:%02d", v.H, v.M, v.Sec)
	}
	return "?"
}

// agree: does the engine value denote the reference value? Numbers may come back as numeric text
// (format_date(x, "YYYY")), text must render equal, booleans must be booleans, dates are compared as
// calendar values in the (UTC) environment.
func agree(rv Val, x types.XValue) bool {
	switch rv.T {
	case 'N':
		switch x.(type) {
		case *types.XNumber, *types.XText:
		default:
			return false
		}
		n, xerr := types.ToXNumber(env, x)
		if xerr != nil {
			return false
		}
		if t, isText := x.(*types.XText); isText && !rv.Approx && t.Native() != rv.N.String() {
			// numeric text must read as the number reads ("2020" is 2020, "08" is not 8 once joined into text)
			return false
		}
		if rv.Approx {
			f := n.Native().InexactFloat64()
			d := f - rv.F
			if d < 0 {
				d = -d
			}
			m := rv.F
			if m < 0 {
				m = -m
			}
			if m < 1 {
				m = 1
			}
			return d <= 1e-6*m
		}
		return n.Native().Equal(rv.N)
	case 'S':
		switch x.(type) {
		case *types.XText, *types.XNumber:
		default:
			return false
		}
		t, xerr := types.ToXText(env, x)
		return xerr == nil && t.Native() == rv.S
	case 'B':
		b, ok := x.(*types.XBoolean)
		return ok && b.Native() == rv.B
	case 'D':
		switch x.(type) {
		case *types.XDate, *types.XDateTime, *types.XText:
		default:
			return false
		}
		dt, xerr := types.ToXDateTime(env, x)
		if xerr != nil {
			return false
		}
		t := dt.Native().In(time.UTC)
		if t.Year() != rv.D.Year() || t.Month() != rv.D.Month() || t.Day() != rv.D.Day() {
			return false
		}
		if rv.HasTod {
			return t.Hour() == rv.D.Hour() && t.Minute() == rv.D.Minute() && t.Second() == rv.D.Second()
		}
		return t.Hour() == 0 && t.Minute() == 0 && t.Second() == 0
	case 'T':
		tm, ok := x.(*types.XTime)
		if !ok {
			return false
		}
		return tm.Native().Hour == rv.H && tm.Native().Minute == rv.M && tm.Native().Second == rv.Sec
	}
	return false
}

// literalOf writes an engine value back as a legacy expression that denotes it (the lit() of the
// compositionality oracle); ok = false when the value has no exact, defect-free literal form.
func literalOf(x types.XValue) (*E, bool) {
	switch v := x.(type) {
	case *types.XNumber:
		d := v.Native()
		if d.NumDigits() > 12 || d.Exponent() < -10 {
			return nil, false
		}
		s := d.Abs().String()
		if strings.ContainsAny(s, "eE") {
			return nil, false
		}
		if d.IsNegative() {
			return neg(num(s)), true
		}
		return num(s), true
	case *types.XText:
		s := v.Native()
		if len(s) > 200 {
			return nil, false
		}
		for _, r := range s {
			if r == '\\' || !unicode.IsPrint(r) {
				return nil, false
			}
		}
		return str(`"` + strings.ReplaceAll(s, `"`, `""`) + `"`), true
	case *types.XBoolean:
		if v.Native() {
			return boolean("TRUE"), true
		}
		return boolean("FALSE"), true
	case *types.XDate:
		d := v.Native()
		return dateLit(d.Year, int(d.Month), d.Day), true
	case *types.XDateTime:
		t := v.Native().In(time.UTC)
		if t.Nanosecond() != 0 {
			return nil, false
		}
		if t.Hour() != 0 || t.Minute() != 0 || t.Second() != 0 {
			// date + time of day; only usable as a function argument (see fitsLiteral)
			return bin("+", dateLit(t.Year(), int(t.Month()), t.Day()), call("TIME", num(fmt.Sprint(t.Hour())), num(fmt.Sprint(t.Minute())), num(fmt.Sprint(t.Second())))), true
		}
		return dateLit(t.Year(), int(t.Month()), t.Day()), true
	case *types.XTime:
		t := v.Native()
		if t.Nanos != 0 {
			return nil, false
		}
		return call("TIME", num(fmt.Sprint(t.Hour)), num(fmt.Sprint(t.Minute)), num(fmt.Sprint(t.Second))), true
	}
	return nil, false
}

// fitsLiteral: may lit stand for operand pos of parent? A datetime literal (DATE + TIME) is only
// written as a bare function argument.
func fitsLiteral(parent *E, pos int, lit *E) bool {
	if lit.K == "bin" {
		return parent.K == "call"
	}
	return fitsBare(parent, pos, lit)
}

func dateLit(y, m, d int) *E {
	return call("DATE", num(fmt.Sprint(y)), num(fmt.Sprint(m)), num(fmt.Sprint(d)))
}

// litFromRef writes a reference value as a legacy expression denoting it.
func litFromRef(v Val) (*E, bool) {
	switch v.T {
	case 'N':
		if v.Approx {
			return nil, false
		}
		return literalOf(types.NewXNumber(v.N))
	case 'S':
		return literalOf(types.NewXText(v.S))
	case 'B':
		return literalOf(types.NewXBoolean(v.B))
	case 'D':
		return literalOf(types.NewXDateTime(v.D))
	case 'T':
		return call("TIME", num(fmt.Sprint(v.H)), num(fmt.Sprint(v.M)), num(fmt.Sprint(v.Sec))), true
	}
	return nil, false
}

// variantOf returns e with its nested operand replaced by a literal of the value the engine gives
// the operand alone (the substitution of the compositionality oracle).
func variantOf(e *E) (*E, bool) {
	pos, child := nonLeafChild(e)
	if child == nil {
		return nil, false
	}
	cr := engineEval(child.Text())
	if cr.Symptom != "" {
		return nil, false
	}
	lit, ok := literalOf(cr.V)
	if !ok {
		return nil, false
	}
	variant := e.clone()
	variant.A[pos] = lit
	if !fitsLiteral(variant, pos, lit) {
		return nil, false
	}
	return variant, true
}

// sameEngineValue compares two engine results for the compositionality oracle.
func sameEngineValue(a, b *engRes) bool {
	if a.Symptom != b.Symptom {
		return false
	}
	if a.Symptom != "" {
		return true
	}
	an, aIsN := a.V.(*types.XNumber)
	bn, bIsN := b.V.(*types.XNumber)
	if aIsN && bIsN {
		if an.Native().Equal(bn.Native()) {
			return true
		}
		x, y := an.Native().InexactFloat64(), bn.Native().InexactFloat64()
		return closeRel(x, y, 1e-6)
	}
	_, aIsB := a.V.(*types.XBoolean)
	_, bIsB := b.V.(*types.XBoolean)
	if aIsB != bIsB {
		return false
	}
	// dates, datetimes and their renderings are compared as instants where both convert
	if isDateLike(a.V) || isDateLike(b.V) {
		ad, e1 := types.ToXDateTime(env, a.V)
		bd, e2 := types.ToXDateTime(env, b.V)
		if e1 == nil && e2 == nil {
			return ad.Native().Equal(bd.Native())
		}
		return false
	}
	at, e1 := types.ToXText(env, a.V)
	bt, e2 := types.ToXText(env, b.V)
	return e1 == nil && e2 == nil && at.Native() == bt.Native()
}

func closeRel(x, y, tol float64) bool {
	d := x - y
	if d < 0 {
		d = -d
	}
	m := x
	if m < 0 {
		m = -m
	}
	if m < 1 {
		m = 1
	}
	return d <= tol*m
}

func isDateLike(v types.XValue) bool {
	switch v.(type) {
	case *types.XDate, *types.XDateTime:
		return true
	}
	return false
}

// verdict on one expression (standalone)
type verdict struct {
	Fail    bool
	Symptom string // wrong-value | error | unparseable | not-an-expression | migration-error | panic | not-compositional
	By      string // reference | compositional | parse
	Decided bool   // at least one oracle applied
	Detail  string
	RefOOD  string
}

var verdictCache = map[string]*verdict{}

func verdictOf(e *E) *verdict {
	text := e.Text()
	if v, ok := verdictCache[text]; ok {
		return v
	}
	v := computeVerdict(e, text)
	if len(verdictCache) > 300000 {
		verdictCache = map[string]*verdict{}
	}
	verdictCache[text] = v
	return v
}

func computeVerdict(e *E, text string) *verdict {
	v := &verdict{}
	er := engineEval(text)
	switch er.Symptom {
	case "migration-error", "not-an-expression", "unparseable", "panic":
		// "every expression parses" needs no reference value
		v.Fail, v.Symptom, v.By, v.Decided = true, er.Symptom, "parse", true
		v.Detail = fmt.Sprintf("legacy @(%s)\nmigrated: %s\n%s", text, er.Migrated, er.Detail)
		return v
	}
	rv, o := refEval(e)
	v.RefOOD = string(o)
	if o == "" {
		v.Decided = true
		if er.Symptom == "error" {
			v.Fail, v.Symptom, v.By = true, "error", "reference"
			v.Detail = fmt.Sprintf("legacy @(%s) denotes %s\nmigrated: %s\nevaluates to an error: %s", text, rv, er.Migrated, er.Detail)
			return v
		}
		if !agree(rv, er.V) {
			v.Fail, v.Symptom, v.By = true, "wrong-value", "reference"
			v.Detail = fmt.Sprintf("legacy @(%s) denotes %s\nmigrated: %s\nevaluates to %s", text, rv, er.Migrated, render(er.V))
			return v
		}
	}
	// compositionality: replacing the nested operand by a literal of its (engine) value must not
	// change the value of the whole
	pos, child := nonLeafChild(e)
	if child != nil {
		cr := engineEval(child.Text())
		if cr.Symptom == "" {
			if lit, ok := literalOf(cr.V); ok {
				variant := e.clone()
				variant.A[pos] = lit
				if fitsLiteral(variant, pos, lit) {
					vr := engineEval(variant.Text())
					v.Decided = true
					if !sameEngineValue(er, vr) {
						v.Fail, v.Symptom, v.By = true, "not-compositional", "compositional"
						if er.Symptom == "error" {
							v.Symptom = "error"
						}
						v.Detail = fmt.Sprintf("legacy @(%s)\nmigrated: %s = %s %s\nbut its operand @(%s) alone evaluates to %s, and with that value written as a literal, @(%s)\nmigrated: %s = %s %s",
							text, er.Migrated, render(er.V), er.Detail, child.Text(), render(cr.V), variant.Text(), vr.Migrated, render(vr.V), vr.Detail)
						return v
					}
				}
			}
		}
	}
	return v
}

// ---- classification of a failing case into a root-cause signature ---------------------------

func mapStrLeaves(e *E, f func(src string) string) *E {
	c := &E{K: e.K, V: e.V}
	if e.K == "str" {
		c.V = f(e.V)
	}
	for _, a := range e.A {
		c.A = append(c.A, mapStrLeaves(a, f))
	}
	return c
}

func anyStrLeaf(e *E, pred func(src string) bool) bool {
	if e.K == "str" && pred(e.V) {
		return true
	}
	for _, a := range e.A {
		if anyStrLeaf(a, pred) {
			return true
		}
	}
	return false
}

// hasTopLevelOperator: does the migrated expression text carry a binary operator or leading minus
// outside any parentheses, brackets and text literals?
func hasTopLevelOperator(migratedTemplate string) bool {
	s := strings.TrimPrefix(migratedTemplate, "@")
	if strings.HasPrefix(s, "(") && strings.HasSuffix(s, ")") {
		s = s[1 : len(s)-1]
	} else {
		return false
	}
	depth := 0
	inStr := false
	for i := 0; i < len(s); i++ {
		ch := s[i]
		if inStr {
			if ch == '\\' {
				i++
			} else if ch == '"' {
				inStr = false
			}
			continue
		}
		switch ch {
		case '"':
			inStr = true
		case '(', '[':
			depth++
		case ')', ']':
			depth--
		case '+', '-', '*', '/', '^', '&', '=', '<', '>', '!':
			if depth == 0 {
				return true
			}
		}
	}
	return false
}

func outerClass(e *E) string {
	if e.K == "bin" {
		return opClass(e.V)
	}
	return e.construct()
}

// signature finds the deepest failing sub-expression of root and names the cause.
func signature(root *E) (key string, culprit *E, v *verdict) {
	// every sub-expression that is not a leaf, in pre-order, with its depth below the root (for the chains
	// of sub-space (1) this is the chain; the trees of sub-space (4) branch at the middle construct)
	type node struct {
		e *E
		d int
	}
	var nodes []node
	var walk func(e *E, d int)
	walk = func(e *E, d int) {
		if isAtomicLeaf(e) {
			return
		}
		nodes = append(nodes, node{e, d})
		for _, a := range e.A {
			walk(a, d+1)
		}
	}
	walk(root, 0)
	x := root
	best := -1
	for _, n := range nodes {
		if n.d > best && verdictOf(n.e).Fail {
			x, best = n.e, n.d
		}
	}
	v = verdictOf(x)
	sym := v.Symptom
	xm := engineEval(x.Text())
	pos, child := nonLeafChild(x)

	literalCause := func() string {
		if anyStrLeaf(x, func(s string) bool { return strings.Contains(s, `\`) }) {
			y := mapStrLeaves(x, func(s string) string { return strings.ReplaceAll(s, `\`, `/`) })
			if !verdictOf(y).Fail {
				return "literal:backslash-unescaped"
			}
		}
		if anyStrLeaf(x, func(s string) bool { return len(s) > 2 && strings.Contains(s[1:len(s)-1], `""`) }) {
			y := mapStrLeaves(x, func(s string) string { return `"` + strings.ReplaceAll(s[1:len(s)-1], `""`, `'`) + `"` })
			if !verdictOf(y).Fail {
				return "literal:doubled-quote:" + sym
			}
		}
		return ""
	}

	if x.K == "par" {
		return "nesting:parentheses:" + child.construct() + ":" + sym, x, v
	}
	// + and -: which of the migration's forms was chosen for these operand types?
	if x.K == "bin" && (x.V == "+" || x.V == "-") && !verdictOf(x.A[0]).Fail && !verdictOf(x.A[1]).Fail {
		lt, rt := operandType(x.A[0]), operandType(x.A[1])
		form := additionForm(xm.Migrated)
		var expected []string
		switch {
		case lt == "number" && rt == "number":
			expected = []string{"plain", "legacy_add"}
		case (lt == "date" || lt == "datetime") && rt == "number":
			expected = []string{"datetime_add-days", "legacy_add"}
		case lt == "date" && rt == "time" && x.V == "+":
			expected = []string{"replace_time"}
		case lt == "datetime" && rt == "time":
			expected = []string{"datetime_add-minutes"}
		}
		if expected != nil {
			found := false
			for _, f := range expected {
				found = found || f == form
			}
			if !found {
				key = fmt.Sprintf("addition:%s%s%s:migrated-as-%s", lt, x.V, rt, form)
				if lt == "number" && rt == "number" {
					key = "addition:number-and-number:migrated-as-" + form
					lead := "other"
					if m := leadingCall.FindStringSubmatch(strings.TrimPrefix(engineEval(x.A[0].Text()).Migrated, "@(")); m != nil {
						lead = m[1]
					}
					key += ":left-operand-begins-with-" + lead
				}
				return key, x, v
			}
			if form == "datetime_add-minutes" && xm.Symptom == "" && sym == "not-compositional" {
				if variant, ok := variantOf(x); ok {
					if vr := engineEval(variant.Text()); vr.Symptom == "" {
						a, e1 := types.ToXDateTime(env, xm.V)
						b, e2 := types.ToXDateTime(env, vr.V)
						sec := time.Duration(secondsOf(x.A[1])) * time.Second
						if e1 == nil && e2 == nil && sec != 0 && (b.Native().Sub(a.Native()) == sec || a.Native().Sub(b.Native()) == sec) {
							return "addition:datetime" + x.V + "time:seconds-dropped", x, v
						}
					}
				}
			}
			if form == "datetime_add-minutes" && xm.Symptom == "" {
				// only whole minutes of the time of day are added
				if whole, o := refEval(x); o == "" && whole.T == 'D' {
					if dt, xerr := types.ToXDateTime(env, xm.V); xerr == nil {
						t := dt.Native().In(time.UTC)
						sec := time.Duration(secondsOf(x.A[1])) * time.Second
						want := whole.D.Add(-sec)
						if x.V == "-" {
							want = whole.D.Add(sec)
						}
						if sec != 0 && t.Equal(want) {
							return "addition:datetime" + x.V + "time:seconds-dropped", x, v
						}
					}
				}
			}
		}
	}
	if child == nil {
		if k := literalCause(); k != "" {
			return k, x, v
		}
		return "value:" + x.construct() + ":" + sym, x, v
	}
	posName := fmt.Sprintf("arg%d", pos+1)
	if x.K == "bin" {
		posName = []string{"left", "right"}[pos]
	} else if x.K == "neg" {
		posName = "operand"
	}
	// does putting the operand in parentheses (in the legacy source) repair it, and does the
	// operand's own migration carry a bare operator? then grouping was lost in an expansion
	if child.K != "par" {
		wrapped := x.clone()
		wrapped.A[pos] = par(wrapped.A[pos])
		if !verdictOf(wrapped).Fail && hasTopLevelOperator(engineEval(child.Text()).Migrated) {
			if x.K == "call" {
				// a function's expansion must keep each parameter together
				return "expansion:" + x.construct() + ":param-has-looser-operator", x, v
			}
			// x is an operator: the nearest function below whose expansion is a bare operator expression
			for n := child; n != nil; _, n = nonLeafChild(n) {
				if n.K == "call" && hasTopLevelOperator(engineEval(n.Text()).Migrated) {
					return "expansion:" + n.construct() + ":under-tighter-operator", x, v
				}
				if n.K == "call" {
					break
				}
			}
			return "expansion:" + x.construct() + ":operand-has-looser-operator", x, v
		}
	}
	if k := literalCause(); k != "" {
		return k, x, v
	}
	// is it x's own meaning rather than the nesting? (the operand replaced by a literal of its value)
	var lits []*E
	if rv, o := refEval(child); o == "" {
		if lit, ok := litFromRef(rv); ok {
			lits = append(lits, lit)
		}
	}
	if cr := engineEval(child.Text()); cr.Symptom == "" {
		if lit, ok := literalOf(cr.V); ok {
			lits = append(lits, lit)
		}
	}
	for _, lit := range lits {
		variant := x.clone()
		variant.A[pos] = lit
		if fitsLiteral(variant, pos, lit) && verdictOf(variant).Fail && verdictOf(variant).Symptom == sym {
			return "value:" + x.construct() + ":" + sym, x, v
		}
	}
	if child.K == "par" {
		return "nesting:" + outerClass(x) + ":" + posName + ":parenthesised-" + child.A[0].construct() + ":" + sym, x, v
	}
	return "nesting:" + outerClass(x) + ":" + posName + ":" + child.construct() + ":" + sym, x, v
}

func secondsOf(e *E) int {
	if v, o := refEval(e); o == "" && v.T == 'T' {
		return v.Sec
	}
	return 0
}

// operandType names what an operand of + / - denotes: by the reference model, else by the type
// of the engine's value for the operand alone.
func operandType(e *E) string {
	if v, o := refEval(e); o == "" {
		switch v.T {
		case 'N':
			return "number"
		case 'S':
			return "text"
		case 'B':
			return "boolean"
		case 'T':
			return "time"
		case 'D':
			if v.HasTod {
				return "datetime"
			}
			return "date"
		}
	}
	if r := engineEval(e.Text()); r.Symptom == "" {
		switch r.V.(type) {
		case *types.XNumber:
			return "number"
		case *types.XDate:
			return "date"
		case *types.XDateTime:
			return "datetime"
		case *types.XTime:
			return "time"
		case *types.XText:
			return "text"
		}
	}
	return "unknown"
}

// additionForm names the form the migration chose for a + / - expression.
func additionForm(migrated string) string {
	m := strings.TrimSuffix(strings.TrimPrefix(migrated, "@("), ")")
	m = strings.TrimPrefix(m, "format_date(")
	switch {
	case strings.HasPrefix(m, "datetime_add(") && strings.Contains(m[len(m)-6:], `"D"`):
		return "datetime_add-days"
	case strings.HasPrefix(m, "datetime_add(") && strings.Contains(m[len(m)-6:], `"m"`):
		return "datetime_add-minutes"
	case strings.HasPrefix(m, "datetime_add("):
		return "datetime_add"
	case strings.HasPrefix(m, "replace_time("):
		return "replace_time"
	case strings.HasPrefix(m, "legacy_add("):
		return "legacy_add"
	}
	return "plain"
}

var leadingCall = regexp.MustCompile(`^(\w+)\(`)

// ---- replay ---------------------------------------------------------------------------------

type replay struct {
	Kind     string         `json:"kind"` // expr | template | history | rawdates
	Expr     *E             `json:"expr,omitempty"`
	Text     string         `json:"text,omitempty"`
	Template *tcase         `json:"template,omitempty"`
	History  *historyReplay `json:"history,omitempty"`
}

func describeExpr(root *E) (string, bool) {
	v := verdictOf(root)
	if !v.Fail {
		rv, o := refEval(root)
		er := engineEval(root.Text())
		return fmt.Sprintf("legacy @(%s)\nmigrated: %s\nengine: %s %s\nreference: %s %s\nproperty holds on this case", root.Text(), er.Migrated, render(er.V), er.Detail, rv, o), false
	}
	key, culprit, cv := signature(root)
	return fmt.Sprintf("key=%s\ncase: @(%s)\nsmallest failing sub-expression: @(%s) [%s, decided by the %s oracle]\n%s", key, root.Text(), culprit.Text(), cv.Symptom, cv.By, cv.Detail), true
}

func replayFn(c *mc.Ctx, raw json.RawMessage) (string, bool) {
	setup()
	var rp replay
	if err := json.Unmarshal(raw, &rp); err != nil {
		return "bad replay: " + err.Error(), false
	}
	switch rp.Kind {
	case "expr":
		if sx, ok := parseLegacy(rp.Expr.Text()); !ok || sx != rp.Expr.Sexp() {
			return "harness: the replayed tree does not print to text the legacy grammar parses back to it", true
		}
		return describeExpr(rp.Expr)
	case "history":
		return replayHistory(rp.History)
	case "rawdates":
		p := rawDatesValueProblem(rp.Expr, migrateUnder("@("+rp.Expr.Text()+")", optRaw))
		if p == nil {
			return "@(" + rp.Expr.Text() + ") migrated with RawDates evaluates to what it denotes", false
		}
		return p.key + "\n" + p.what, true
	case "template":
		p := checkTemplate(rp.Template)
		if p == nil {
			return "template " + rp.Template.text() + ": property holds", false
		}
		return p.key + "\n" + p.what, true
	}
	return "unknown replay kind", false
}

// ---- run ------------------------------------------------------------------------------------

func checkExpr(c *mc.Ctx, root *E, space string) {
	text := root.Text()
	if !magnitudeOK(root) {
		c.Inc("skipped_operands_out_of_magnitude_bounds")
		return
	}
	c.Inc("evaluations")
	c.Inc("expressions_" + space)
	sx, ok := parseLegacy(text)
	if !ok || sx != root.Sexp() {
		c.Violation("harness:generated-text-does-not-parse-back", fmt.Sprintf("generated @(%s): tree %s, legacy parser: %s (ok=%v)", text, root.Sexp(), sx, ok), replay{Kind: "expr", Expr: root})
		return
	}
	v := verdictOf(root)
	if v.Decided {
		c.Inc("distinct_nontrivial")
	} else {
		c.Inc("undecided_out_of_reference_domain")
	}
	if v.RefOOD == "" {
		c.Inc("decided_by_reference")
	}
	er := engineEval(text)
	m := er.Migrated
	for _, f := range []string{"legacy_add(", "datetime_add(", "replace_time(", "text_slice(", "format_date(", " - 1", "\\\""} {
		if strings.Contains(m, f) {
			c.Fact("migrated_contains:" + f)
		}
	}
	if !v.Fail {
		oc := "agrees"
		if er.V != nil {
			oc += ":" + strings.TrimPrefix(fmt.Sprintf("%T", er.V), "*types.")
		}
		if v.RefOOD != "" {
			oc += ":reference-out-of-domain"
			if !v.Decided {
				oc = "undecided:" + er.Symptom
			}
		}
		c.Outcome(oc)
		if c.WantSample() && v.RefOOD == "" && depthOf(root) >= 2 && strings.Contains(m, "legacy_add") {
			rv, _ := refEval(root)
			c.Sample(map[string]any{"legacy": "@(" + text + ")", "migrated": m, "engine": render(er.V), "reference": rv.String()})
		}
		return
	}
	key, culprit, cv := signature(root)
	c.Outcome("violates:" + cv.Symptom)
	c.Violation(key, fmt.Sprintf("case @(%s); smallest failing sub-expression @(%s) [%s, %s oracle]\n%s", text, culprit.Text(), cv.Symptom, cv.By, cv.Detail), replay{Kind: "expr", Expr: root})
}

func depthOf(e *E) int {
	if isAtomicLeaf(e) {
		return 0
	}
	d := 0
	for _, a := range e.A {
		if x := depthOf(a); x > d {
			d = x
		}
	}
	if e.K == "par" {
		return d
	}
	return d + 1
}

func run(c *mc.Ctx) {
	setup()
	maxDepth := 3
	fullRotDepth := 2 // all rotations up to this depth, rotation 0 beyond
	if c.Thorough() {
		fullRotDepth = 3
	}
	idx := 0
	sh := &shaper{}
	// (0) option space, first: nothing has been migrated in this process yet
	if !runOptions(c, &idx) {
		return
	}
	// (1) nesting space
	for depth := 1; depth <= maxDepth; depth++ {
		for _, t := range resultTypes {
			for _, shape := range sh.shapes(t, depth) {
				nrot := 1
				if depth <= fullRotDepth {
					nrot = rotations
				}
				idx++
				if idx%4096 == 0 && c.Expired() {
					c.Cap(fmt.Sprintf("time budget reached in the nesting space at depth %d; all smaller depths were covered completely", depth))
					return
				}
				if !c.Mine(idx) {
					continue
				}
				var seen [rotations]string
				for r := 0; r < nrot; r++ {
					root := fill(shape, r)
					text := root.Text()
					dup := false
					for _, s := range seen[:r] {
						dup = dup || s == text
					}
					seen[r] = text
					if dup {
						continue // same text as an earlier rotation (all leaves of a one-valued alphabet)
					}
					checkExpr(c, root, fmt.Sprintf("depth%d", depth))
					recordCoverage(c, root, depth)
				}
			}
		}
	}
	// (4) flanked operands: depth-3 trees whose middle construct has a function call at both ends.
	// quick: the representative flank calls, bare, rotation 0. thorough: every call construct as a flank,
	// bare and parenthesised, rotation 0; the representative flank calls also in the other rotations.
	stop := false
	flanked := func(rots []int) func(shape *E) {
		return func(shape *E) {
			idx++
			if stop || !c.Mine(idx) {
				return
			}
			if idx%1024 == 0 && c.Expired() {
				c.Cap("time budget reached in the flanked-operand space")
				stop = true
				return
			}
			text0 := fill(shape, 0).Text()
			var seen []string
			for _, r := range rots {
				root := fill(shape, r)
				text := root.Text()
				dup := r != 0 && text == text0
				for _, s := range seen {
					dup = dup || s == text
				}
				seen = append(seen, text)
				if dup {
					continue
				}
				checkExpr(c, root, "flanked")
				recordFlankCoverage(c, root)
			}
		}
	}
	if c.Thorough() {
		flankedShapes(true, true, flanked([]int{0}))
		flankedShapes(false, true, flanked([]int{1, 2, 3}))
	} else {
		flankedShapes(false, false, flanked([]int{0}))
	}
	if stop {
		return
	}
	// (2) string literal forms: every form alone, in every text position of every construct, and
	// all ordered pairs under & / CONCATENATE / =
	for _, lf := range literalForms {
		idx++
		if c.Mine(idx) {
			checkExpr(c, str(lf), "literals")
			noteLiteral(c, lf)
		}
		for ci := range constructs {
			cn := &constructs[ci]
			for p := 0; p < len(cn.args); p++ {
				if cn.args[p] != 'S' && cn.args[p] != 'A' && cn.args[p] != 'F' {
					continue
				}
				idx++
				if !c.Mine(idx) {
					continue
				}
				a := make([]*E, len(cn.args))
				for i := range a {
					a[i] = leafOf(cn.args[i])
				}
				root := fill(cn.build(a), 0)
				root.A[p] = str(lf)
				checkExpr(c, root, "literals")
			}
		}
		for _, lf2 := range literalForms {
			for _, mk := range []func(a, b *E) *E{
				func(a, b *E) *E { return bin("&", a, b) },
				func(a, b *E) *E { return call("CONCATENATE", a, b) },
				func(a, b *E) *E { return bin("=", a, b) },
			} {
				idx++
				if c.Mine(idx) {
					checkExpr(c, mk(str(lf), str(lf2)), "literals")
				}
			}
		}
	}
	c.Add("engine_panics_while_evaluating_counted_as_errors", evalPanics)
	// (3) templates: text around and between expressions
	for _, tc := range templateCases() {
		idx++
		if !c.Mine(idx) {
			continue
		}
		c.Inc("evaluations")
		c.Inc("templates")
		c.Inc("distinct_nontrivial")
		if p := checkTemplate(tc); p != nil {
			c.Outcome("violates:template")
			c.Violation(p.key, p.what, replay{Kind: "template", Template: tc})
		} else {
			c.Outcome("agrees:template")
			if strings.Contains(tc.text(), "@@") {
				c.Fact("template_with_escaped_at")
			}
		}
	}
}

func noteLiteral(c *mc.Ctx, lf string) {
	if strings.Contains(lf, `\`) {
		c.Fact("literal_with_backslash")
	}
	if len(lf) > 2 && strings.Contains(lf[1:len(lf)-1], `""`) {
		c.Fact("literal_with_doubled_quote")
	}
}

func recordCoverage(c *mc.Ctx, root *E, depth int) {
	if depth < 2 {
		return
	}
	pos, child := nonLeafChild(root)
	if child == nil {
		return
	}
	inner := child
	if inner.K == "par" {
		inner = inner.A[0]
		c.Fact("parenthesised_operand")
	}
	if root.K == "call" {
		c.Fact(fmt.Sprintf("nested:%s:arg%d", root.construct(), pos+1))
	} else if root.K == "bin" {
		c.Fact(fmt.Sprintf("under:%s:%s:%s", root.V, []string{"left", "right"}[pos], inner.construct()))
	} else if root.K == "neg" {
		c.Fact("under:neg:" + inner.construct())
	}
}

func recordFlankCoverage(c *mc.Ctx, root *E) {
	pos, child := nonLeafChild(root)
	if child == nil {
		return
	}
	inner := child
	if inner.K == "par" {
		inner = inner.A[0]
	}
	switch root.K {
	case "call":
		c.Fact(fmt.Sprintf("flanked:nested:%s:arg%d:%s", root.construct(), pos+1, inner.construct()))
	case "bin":
		c.Fact(fmt.Sprintf("flanked:under:%s:%s:%s", root.V, []string{"left", "right"}[pos], inner.construct()))
	case "neg":
		c.Fact("flanked:under:neg:" + inner.construct())
	}
	m := strings.TrimSuffix(strings.TrimPrefix(engineEval(inner.Text()).Migrated, "@("), ")")
	if leadingCall.MatchString(m) && strings.HasSuffix(m, ")") && hasTopLevelOperator("@("+m+")") {
		c.Fact("flanked:migrated-operand-begins-and-ends-with-a-call-around-an-operator")
	}
}

func guards(r *mc.Result, tier string) []string {
	var f []string
	need := func(cond bool, msg string) {
		if !cond {
			f = append(f, msg)
		}
	}
	need(r.Counters["expressions_depth2"] >= 5000, "fewer than 5000 depth-2 expressions")
	need(r.Counters["expressions_depth3"] >= 50000, "fewer than 50000 depth-3 expressions")
	need(r.Counters["expressions_literals"] >= 1000, "fewer than 1000 literal cases")
	need(r.Counters["templates"] >= 500, "fewer than 500 template cases")
	need(r.Counters["decided_by_reference"]*2 >= r.Counters["evaluations"], "the reference model decided fewer than half of the cases")
	need(r.Counters["distinct_nontrivial"]*10 >= r.Counters["evaluations"]*8, "fewer than 80% of the cases were decided by some oracle")
	for _, fact := range []string{"literal_with_backslash", "literal_with_doubled_quote", "parenthesised_operand", "template_with_escaped_at",
		"migrated_contains:legacy_add(", "migrated_contains:datetime_add(", "migrated_contains:replace_time(", "migrated_contains:text_slice(", "migrated_contains: - 1", "migrated_contains:\\\""} {
		need(r.Facts[fact] > 0, "never observed: "+fact)
	}
	// every expanding function under every operator on both sides, every function nested in every argument
	for _, fn := range []string{"sum", "power", "concatenate", "exp", "weekday", "right", "left", "word", "field", "word_slice", "days", "if"} {
		seen := false
		for k := range r.Facts {
			if strings.HasPrefix(k, "nested:"+fn+":") {
				seen = true
			}
		}
		need(seen, "function never had a nested argument: "+fn)
	}
	for _, op := range []string{"+", "-", "*", "/", "^"} {
		for _, side := range []string{"left", "right"} {
			for _, fn := range []string{"sum", "power", "exp", "weekday"} {
				need(r.Facts["under:"+op+":"+side+":"+fn] > 0, fmt.Sprintf("%s never stood on the %s of %s", fn, side, op))
			}
		}
	}
	need(r.Facts["under:=:left:concatenate"] > 0 && r.Facts["under:&:right:sum"] > 0 && r.Facts["under:neg:sum"] > 0, "missing operator/function combinations")
	// flanked operands
	need(r.Counters["expressions_flanked"] >= 20000, "fewer than 20000 flanked-operand expressions")
	for _, fact := range []string{"flanked:under:*:left:sum", "flanked:under:*:right:sum", "flanked:under:^:left:sum", "flanked:under:-:right:sum", "flanked:under:neg:sum",
		"flanked:under:=:left:concatenate", "flanked:under:&:right:sum", "flanked:nested:power:arg1:add", "flanked:nested:exp:arg1:add", "flanked:nested:right:arg2:add",
		"flanked:nested:left:arg1:concatenate", "flanked:migrated-operand-begins-and-ends-with-a-call-around-an-operator"} {
		need(r.Facts[fact] > 0, "never observed: "+fact)
	}
	// option space
	nopt := numOptionSets(tier == "thorough")
	need(r.Counters["option_cases"] >= 30000, "fewer than 30000 option-space cases")
	need(r.Counters["expressions_daterefs"] >= 3000, "fewer than 3000 expressions with a legacy date reference")
	need(r.Counters["option_answers_compared_with_fresh_process"] == int64(nopt)*r.Counters["option_cases"], "not every answer of the option space was compared with a fresh process")
	for a := 0; a < nopt; a++ {
		for b := 0; b < nopt; b++ {
			if a != b {
				need(r.Facts[fmt.Sprintf("option_order:%s-then-%s", optionSets[a].Name, optionSets[b].Name)] > 0, fmt.Sprintf("no case was asked under %s first and %s second", optionSets[a].Name, optionSets[b].Name))
			}
		}
	}
	need(r.Facts["raw_dates_changes_the_migration"] > 0, "RawDates never changed a migration")
	need(len(r.Outcomes) >= 4, "fewer than 4 distinct outcome classes")
	return f
}

func init() {
	mc.Register(&mc.Check{
		ID:    "C17",
		Level: "exploration",
		Rule: fmt.Sprintf("bounded exhaustive enumeration of legacy (Excellent1) expressions, each migrated by the real MigrateTemplate and evaluated by the real engine: "+
			"(0) option space, run first in each worker process: every expression of (1) of depth 1..2 in every rotation (thorough: also depth 3, rotation 0), every shape of depth 1..2 with each legacy date reference (date.today / tomorrow / yesterday at a date leaf, date.now / date at a datetime leaf) in place of its first such leaf, and 12 identifier templates alone and inside body text, "+
			"each migrated under every option set {nil, RawDates, URLEncode, DefaultToSelf} (thorough: also the zero value and all three) in an order that cycles through all ordered pairs (first, second) of option sets with the case index, then asked again under the first; every answer is compared with the answer of a fresh process that is only ever asked under that one option set, "+
			"must parse, and under RawDates must still evaluate to what the legacy expression denotes; the date-reference expressions also get the oracles of (1); "+
			"(1) every chain of constructs of depth 1..3 "+
			"(%d typed constructs: function signatures incl. SUM POWER CONCATENATE EXP LEFT RIGHT WORD WORD_SLICE FIELD WEEKDAY DAYS DATE TIME EDATE IF AND OR, the 11 binary operators on numbers / text, unary minus, date and datetime +- number, date + time, datetime +- time) nested at every argument position of every other and on both sides of every operator, bare wherever the legacy grammar parses it as that operand and always also parenthesised, "+
			"leaves from {2,3,10,contact.age | \"ab c\",\"q\"\"q\",\"w1 w2 w3 w4\",extra.s | TRUE,FALSE | literal dates and times, TODAY(), NOW()} in %d rotations (depth 3: 1 rotation in quick, %d in thorough); (2) %d string-literal forms (doubled quotes, backslashes, trailing backslash) alone, in every text position of every construct and all ordered pairs under & / CONCATENATE / =; "+
			"(3) templates: %d body texts (incl. @@, e-mail addresses, quotes, parentheses) before, between and after 1-2 of %d expressions; "+
			"(4) flanked operands: every depth-3 tree O > X > {f, g} in which the middle construct X (every construct with at least two nestable operands: SUM, CONCATENATE, the operators - as POWER's first operand, as a subtrahend ...) has a function call over leaves as its first AND as its last nestable operand (quick: f, g from ABS MAX LEN WEEKDAY YEAR | UPPER LEFT WORD | AND OR | EDATE, all ordered pairs, rotation 0, bare where the legacy grammar allows; thorough: every call construct as f and as g, also parenthesised, rotation 0, and the quick flanks in all rotations) and stands at every operand position of every construct O. A case is distinct by its text (rotations giving the same text are dropped) and counted in distinct_nontrivial when the legacy grammar (the generated Excellent1 parser) parses it back to the generated tree and at least one oracle (reference model in its domain, or compositionality) decided it.",
			len(constructs), rotations, rotations, len(literalForms), len(bodyTexts), len(templateExprs)),
		Assumptions: []string{
			"the legacy denotation is given by Excellent1.g4 (precedence, left associativity, \"\" as the only escape) and Excel-style function semantics, modelled only where uncontroversial (the reference answers out-of-domain elsewhere)",
			"operands from a fixed alphabet, not all values; nesting depth <= 3 with one nested operand per level (sub-space 4: two nested operands, the outermost ones, at the innermost level)",
			"option space: a fresh process is the same binary started again (vcheck C17 --single job); it has been asked for other templates under the same option set before, never under another one. With RawDates the time of day that date.tomorrow / date.yesterday carry in their raw form is not judged (date tests compare the date portions only)",
			"environment: UTC, YYYY-MM-DD, clock pinned to 2020-03-10 14:15:16",
			"format drift of the platform (TRUE vs true, date rendering) is not judged: values are compared by type class (number / text / boolean / calendar date)",
		},
		Run:    run,
		Single: singleFn,
		Replay: replayFn,
		Guards: guards,
		Budget: map[string]time.Duration{"quick": 4 * time.Minute, "thorough": 20 * time.Minute},
	})
}

var _ = decimal.Zero
