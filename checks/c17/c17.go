// Package c17: (not built yet)
package c17
