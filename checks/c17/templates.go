package c17

import (
	"fmt"
	"regexp"
	"strings"

	"github.com/nyaruka/goflow/excellent/types"
	"github.com/nyaruka/goflow/flows/definition/legacy/expressions"
	"verif/mc"
)

// texpr is one expression of a template: an identifier (@contact.name) or @( expression ).
type texpr struct {
	Ident string `json:"ident,omitempty"`
	Expr  *E     `json:"expr,omitempty"`
}

func (t texpr) text() string {
	if t.Ident != "" {
		return "@" + t.Ident
	}
	return "@(" + t.Expr.Text() + ")"
}

// tcase is a legacy template: Bodies[0] Exprs[0] Bodies[1] ... Bodies[n].
type tcase struct {
	Bodies []string `json:"bodies"`
	Exprs  []texpr  `json:"exprs"`
}

func (t *tcase) text() string {
	var sb strings.Builder
	for i, b := range t.Bodies {
		sb.WriteString(b)
		if i < len(t.Exprs) {
			sb.WriteString(t.Exprs[i].text())
		}
	}
	return sb.String()
}

// body texts: none of them contains an expression in the legacy syntax (a lone @, an e-mail
// address and an escaped @@ are text), so the legacy template denotes them literally (@@ = @).
var bodyTexts = []string{
	"", "Hi ", " ok", ", ", "@@", "@@x ", " a@b.com ", " @ ", "(", ")", `"`, `\`, " é ü ", " @@(1 + 2) ", "\n", " 100% ", " @@@@ ", "!",
	// text that would extend a name if it followed one directly: a parenthesised legacy expression
	// keeps it apart, and the migrated template has to as well
	"s", "_x", ".y", "2",
}

var templateExprs = []texpr{
	{Expr: bin("+", num("1"), num("2"))},
	{Expr: bin("&", str(`"a"`), str(`"b"`))},
	{Expr: call("LEN", str(`"abc"`))},
	{Expr: bin("*", ref("contact.age"), num("2"))},
	{Expr: call("SUM", num("1"), num("2"))},
	{Expr: call("UPPER", str(`"q""q"`))},
	{Expr: ref("contact.age")}, // @(contact.age): a bare reference written as a parenthesised expression
	{Ident: "contact.name"},
	{Ident: "contact.age"},
	{Ident: "extra.s"},
}

var identDenotes = map[string]string{"contact.name": "Bob Smith", "contact.age": "7", "extra.s": "k1 k2 k3"}

func safeAfterIdent(b string) bool {
	return b == "" || strings.ContainsRune(" ,!)(\"\n", rune(b[0]))
}

func glues(b string) bool {
	// a body ending in an odd number of @ would change how the following expression is read
	n := 0
	for i := len(b) - 1; i >= 0 && b[i] == '@'; i-- {
		n++
	}
	return n%2 == 1
}

func templateCases() []*tcase {
	var out []*tcase
	ok := func(tc *tcase) bool {
		for i, e := range tc.Exprs {
			if glues(tc.Bodies[i]) {
				return false
			}
			if e.Ident != "" && !safeAfterIdent(tc.Bodies[i+1]) {
				return false
			}
		}
		return true
	}
	for _, b0 := range bodyTexts {
		for _, e := range templateExprs {
			for _, b1 := range bodyTexts {
				tc := &tcase{Bodies: []string{b0, b1}, Exprs: []texpr{e}}
				if ok(tc) {
					out = append(out, tc)
				}
			}
		}
	}
	short := []string{"", " ", "@@", " a@b.com ", `"`, ")"}
	for _, b0 := range short {
		for _, e0 := range templateExprs {
			for _, b1 := range short {
				for _, e1 := range templateExprs {
					for _, b2 := range short {
						tc := &tcase{Bodies: []string{b0, b1, b2}, Exprs: []texpr{e0, e1}}
						if ok(tc) {
							out = append(out, tc)
						}
					}
				}
			}
		}
	}
	return out
}

var wrappedRef = regexp.MustCompile(`@\(([\pL]+[\pL\pN_.]*)\)`)

func unwrapRefs(s string) string { return wrappedRef.ReplaceAllString(s, "@$1") }

type problem struct{ key, what string }

func checkTemplate(tc *tcase) *problem {
	legacy := tc.text()
	var migrated string
	var merr error
	if p := mc.Guard(func() { migrated, merr = expressions.MigrateTemplate(legacy, nil) }); p != "" {
		return &problem{"template:panic:" + mc.PanicSite(p), fmt.Sprintf("legacy template %q: MigrateTemplate panics\n%s", legacy, p)}
	}
	if merr != nil {
		return &problem{"template:migration-error", fmt.Sprintf("legacy template %q is rejected: %v", legacy, merr)}
	}
	// text outside expressions is unchanged; each expression is migrated as it is alone
	var wantText, wantValue strings.Builder
	for i, b := range tc.Bodies {
		wantText.WriteString(b)
		wantValue.WriteString(strings.ReplaceAll(b, "@@", "@"))
		if i < len(tc.Exprs) {
			e := tc.Exprs[i]
			alone := engineEvalTemplate(e.text(), true)
			if alone.Symptom != "" {
				return &problem{"template:expression-alone:" + alone.Symptom, fmt.Sprintf("expression %s alone: %s %s", e.text(), alone.Symptom, alone.Detail)}
			}
			wantText.WriteString(alone.Migrated)
			var denotes string
			if e.Ident != "" {
				denotes = identDenotes[e.Ident]
			} else {
				rv, o := refEval(e.Expr)
				if o != "" {
					return &problem{"harness:template-expression-out-of-reference-domain", e.text()}
				}
				denotes, _ = rv.text()
			}
			t, _ := types.ToXText(env, alone.V)
			if t.Native() != denotes {
				return &problem{"template:expression-alone:wrong-value", fmt.Sprintf("expression %s alone evaluates to %q, denotes %q", e.text(), t.Native(), denotes)}
			}
			wantValue.WriteString(denotes)
		}
	}
	// a migrated expression may or may not keep its parentheses: @(contact.name) and @contact.name are
	// the same expression, so both texts are compared with parenthesised bare references unwrapped
	if unwrapRefs(migrated) != unwrapRefs(wantText.String()) {
		return &problem{"body:text-changed", fmt.Sprintf("legacy template %q\nmigrated to %q\nexpected    %q (text outside expressions unchanged, each expression migrated as it is alone)", legacy, migrated, wantText.String())}
	}
	got, _, err := evaluator.Template(env, engineCtx, migrated, nil)
	if err != nil {
		return &problem{"template:evaluation-error", fmt.Sprintf("legacy template %q\nmigrated to %q\nevaluation fails: %v", legacy, migrated, err)}
	}
	if got != wantValue.String() {
		return &problem{"template:wrong-value", fmt.Sprintf("legacy template %q\nmigrated to %q\nevaluates to %q, the legacy template denotes %q", legacy, migrated, got, wantValue.String())}
	}
	return nil
}
