package c17

import (
	"math"
	"strings"
	"time"
	"unicode"
	"unicode/utf8"

	"github.com/shopspring/decimal"
)

// The reference model: what a legacy template denotes. It evaluates the legacy syntax tree
// directly with Excel-style semantics (the semantics of rapidpro's legacy expression language:
// 1-based word/field indexes, WEEKDAY Sunday=1, DAYS(end, start), "" as the only escape in string
// literals, -a^b = (-a)^b, all binary operators left-associative). It is deliberately partial: on
// operands where the legacy semantics is debatable or inexact (non-terminating division flowing
// into text, negative modulus, ties in rounding, indexes out of range, strings with punctuation in
// the word functions ...) it answers "out of domain" and the case is decided by the
// compositionality oracle only.

// Val is a reference value.
type Val struct {
	T         byte // N number, S text, B boolean, D date/datetime, T time of day
	N         decimal.Decimal
	Approx    bool    // the number is only known approximately (F)
	F         float64 // approximate value
	S         string
	B         bool
	D         time.Time
	HasTod    bool // D carries a time of day
	H, M, Sec int
}

// fixedNow is what NOW() / TODAY() denote in every evaluation (the harness pins the clock).
var fixedNow = time.Date(2020, 3, 10, 14, 15, 16, 0, time.UTC)

// refContext is the denotation of the legacy context references the enumerator uses; engineContext
// (c17.go) binds the migrated names to the same values.
var refContext = map[string]Val{
	"contact.age": numVal(decimal.NewFromInt(7)),
	"extra.s":     {T: 'S', S: "k1 k2 k3"},
	"flow.num":    numVal(decimal.NewFromInt(4)),
	// the legacy date references (used by the option space): dates without a time of day, and now
	"date.today":     {T: 'D', D: time.Date(fixedNow.Year(), fixedNow.Month(), fixedNow.Day(), 0, 0, 0, 0, time.UTC)},
	"date.tomorrow":  {T: 'D', D: time.Date(fixedNow.Year(), fixedNow.Month(), fixedNow.Day()+1, 0, 0, 0, 0, time.UTC)},
	"date.yesterday": {T: 'D', D: time.Date(fixedNow.Year(), fixedNow.Month(), fixedNow.Day()-1, 0, 0, 0, 0, time.UTC)},
	"date.now":       {T: 'D', D: fixedNow, HasTod: true},
	"date":           {T: 'D', D: fixedNow, HasTod: true},
}

func numVal(d decimal.Decimal) Val { return Val{T: 'N', N: d, F: d.InexactFloat64()} }
func approxVal(f float64) Val      { return Val{T: 'N', Approx: true, F: f} }
func strVal(s string) Val          { return Val{T: 'S', S: s} }
func boolVal(b bool) Val           { return Val{T: 'B', B: b} }

type ood string // out-of-domain reason ("" = in domain)

// legacyLiteralChars returns the characters a legacy string literal denotes.
func legacyLiteralChars(src string) string {
	return strings.ReplaceAll(src[1:len(src)-1], `""`, `"`)
}

func simpleWords(s string) ([]string, bool) {
	if s == "" {
		return nil, false
	}
	for _, r := range s {
		if !(r == ' ' || (r >= 'a' && r <= 'z') || (r >= 'A' && r <= 'Z') || (r >= '0' && r <= '9')) {
			return nil, false
		}
	}
	if strings.HasPrefix(s, " ") || strings.HasSuffix(s, " ") || strings.Contains(s, "  ") {
		return nil, false
	}
	return strings.Split(s, " "), true
}

func (v Val) intValue() (int, bool) {
	if v.T != 'N' || v.Approx || !v.N.IsInteger() {
		return 0, false
	}
	if v.N.Abs().GreaterThan(decimal.NewFromInt(1000000)) {
		return 0, false
	}
	return int(v.N.IntPart()), true
}

// text renders a value the way it is joined into text (exact numbers only).
func (v Val) text() (string, ood) {
	switch v.T {
	case 'S':
		return v.S, ""
	case 'N':
		if v.Approx {
			return "", "inexact number rendered as text"
		}
		return v.N.String(), ""
	}
	return "", "non-text value rendered as text"
}

func refEval(e *E) (Val, ood) {
	switch e.K {
	case "num":
		d, err := decimal.NewFromString(e.V)
		if err != nil {
			return Val{}, "bad number"
		}
		return numVal(d), ""
	case "str":
		return strVal(legacyLiteralChars(e.V)), ""
	case "bool":
		return boolVal(strings.EqualFold(e.V, "true")), ""
	case "ref":
		v, ok := refContext[strings.ToLower(e.V)]
		if !ok {
			return Val{}, "unknown reference"
		}
		return v, ""
	case "par":
		return refEval(e.A[0])
	case "neg":
		a, o := refEval(e.A[0])
		if o != "" {
			return a, o
		}
		if a.T != 'N' {
			return a, "negation of non-number"
		}
		if a.Approx {
			return approxVal(-a.F), ""
		}
		return numVal(a.N.Neg()), ""
	case "bin":
		a, o := refEval(e.A[0])
		if o != "" {
			return a, o
		}
		b, o := refEval(e.A[1])
		if o != "" {
			return b, o
		}
		return refBin(e.V, a, b)
	case "call":
		args := make([]Val, len(e.A))
		for i := range e.A {
			v, o := refEval(e.A[i])
			if o != "" {
				return v, o
			}
			args[i] = v
		}
		return refCall(strings.ToUpper(e.V), args)
	}
	return Val{}, "unknown node"
}

func exactDiv(a, b decimal.Decimal) (decimal.Decimal, bool) {
	q := a.DivRound(b, 12)
	return q, q.Mul(b).Equal(a)
}

func closeTo(a, b float64) bool {
	d := math.Abs(a - b)
	m := math.Max(math.Abs(a), math.Abs(b))
	return d <= 1e-9*math.Max(m, 1)
}

func refBin(op string, a, b Val) (Val, ood) {
	switch op {
	case "+", "-":
		if a.T == 'D' && b.T == 'N' {
			n, ok := b.intValue()
			if !ok || n < -4000 || n > 4000 {
				return Val{}, "date plus non-integer"
			}
			if op == "-" {
				n = -n
			}
			r := a
			r.D = a.D.AddDate(0, 0, n)
			return r, ""
		}
		if a.T == 'D' && b.T == 'T' && a.HasTod {
			// datetime +- time of day
			d := time.Duration(b.H)*time.Hour + time.Duration(b.M)*time.Minute + time.Duration(b.Sec)*time.Second
			if op == "-" {
				d = -d
			}
			r := a
			r.D = a.D.Add(d)
			return r, ""
		}
		if a.T == 'D' && b.T == 'T' && op == "-" {
			return Val{}, "date minus time of day"
		}
		if a.T == 'D' && b.T == 'T' && op == "+" && !a.HasTod {
			r := a
			r.D = time.Date(a.D.Year(), a.D.Month(), a.D.Day(), b.H, b.M, b.Sec, 0, time.UTC)
			r.HasTod = true
			return r, ""
		}
		fallthrough
	case "*", "/", "^":
		if a.T != 'N' || b.T != 'N' {
			return Val{}, "arithmetic on non-numbers"
		}
		if a.Approx || b.Approx {
			return approxArith(op, a.F, b.F)
		}
		switch op {
		case "+":
			return numVal(a.N.Add(b.N)), ""
		case "-":
			return numVal(a.N.Sub(b.N)), ""
		case "*":
			return bounded(a.N.Mul(b.N))
		case "/":
			if b.N.IsZero() {
				return Val{}, "division by zero"
			}
			if q, ok := exactDiv(a.N, b.N); ok {
				return numVal(q), ""
			}
			return approxVal(a.F / b.F), ""
		case "^":
			if n, ok := b.intValue(); ok && n >= 0 && n <= 8 {
				r := decimal.NewFromInt(1)
				for i := 0; i < n; i++ {
					r = r.Mul(a.N)
				}
				return bounded(r)
			}
			return approxArith(op, a.F, b.F)
		}
	case "&":
		as, o := a.text()
		if o != "" {
			return Val{}, o
		}
		bs, o := b.text()
		if o != "" {
			return Val{}, o
		}
		return strVal(as + bs), ""
	case "=", "<>":
		var eq bool
		switch {
		case a.T == 'N' && b.T == 'N':
			if a.Approx || b.Approx {
				if closeTo(a.F, b.F) {
					return Val{}, "comparison of nearly equal inexact numbers"
				}
				eq = false
			} else {
				eq = a.N.Equal(b.N)
			}
		case a.T == 'S' && b.T == 'S':
			if a.S != b.S && strings.EqualFold(a.S, b.S) {
				return Val{}, "text equality differing only in case"
			}
			eq = a.S == b.S
		case a.T == 'B' && b.T == 'B':
			eq = a.B == b.B
		default:
			return Val{}, "equality of mixed types"
		}
		return boolVal(eq == (op == "=")), ""
	case "<", "<=", ">", ">=":
		if a.T != 'N' || b.T != 'N' {
			return Val{}, "comparison of non-numbers"
		}
		var c int
		if a.Approx || b.Approx {
			if closeTo(a.F, b.F) {
				return Val{}, "comparison of nearly equal inexact numbers"
			}
			c = -1
			if a.F > b.F {
				c = 1
			}
		} else {
			c = a.N.Cmp(b.N)
		}
		switch op {
		case "<":
			return boolVal(c < 0), ""
		case "<=":
			return boolVal(c <= 0), ""
		case ">":
			return boolVal(c > 0), ""
		}
		return boolVal(c >= 0), ""
	}
	return Val{}, "unknown operator"
}

func bounded(d decimal.Decimal) (Val, ood) {
	if d.NumDigits() > 24 {
		return Val{}, "number too large"
	}
	return numVal(d), ""
}

func approxArith(op string, a, b float64) (Val, ood) {
	var r float64
	switch op {
	case "+":
		r = a + b
	case "-":
		r = a - b
	case "*":
		r = a * b
	case "/":
		if b == 0 {
			return Val{}, "division by zero"
		}
		r = a / b
	case "^":
		if a < 0 && b != math.Trunc(b) {
			return Val{}, "fractional power of a negative number"
		}
		if a == 0 && b <= 0 {
			return Val{}, "zero to a non-positive power"
		}
		r = math.Pow(a, b)
	}
	if math.IsNaN(r) || math.IsInf(r, 0) || math.Abs(r) > 1e15 || (r != 0 && math.Abs(r) < 1e-9) {
		return Val{}, "inexact result out of range"
	}
	return approxVal(r), ""
}

func needN(args []Val, n int) bool {
	if len(args) != n {
		return false
	}
	for _, a := range args {
		if a.T != 'N' {
			return false
		}
	}
	return true
}

func refCall(f string, a []Val) (Val, ood) {
	allExactN := func() bool {
		for _, x := range a {
			if x.T != 'N' || x.Approx {
				return false
			}
		}
		return len(a) > 0
	}
	switch f {
	case "TRUE":
		return boolVal(true), ""
	case "FALSE":
		return boolVal(false), ""
	case "ABS":
		if !needN(a, 1) {
			break
		}
		if a[0].Approx {
			return approxVal(math.Abs(a[0].F)), ""
		}
		return numVal(a[0].N.Abs()), ""
	case "MAX", "MIN":
		if !allExactN() {
			return Val{}, "max/min of inexact numbers"
		}
		r := a[0].N
		for _, x := range a[1:] {
			if (f == "MAX" && x.N.GreaterThan(r)) || (f == "MIN" && x.N.LessThan(r)) {
				r = x.N
			}
		}
		return numVal(r), ""
	case "SUM":
		r := numVal(decimal.Zero)
		for _, x := range a {
			var o ood
			r, o = refBin("+", r, x)
			if o != "" {
				return r, o
			}
		}
		return r, ""
	case "AVERAGE":
		s, o := refCall("SUM", a)
		if o != "" {
			return s, o
		}
		return refBin("/", s, numVal(decimal.NewFromInt(int64(len(a)))))
	case "POWER":
		if !needN(a, 2) {
			break
		}
		return refBin("^", a[0], a[1])
	case "EXP":
		if !needN(a, 1) {
			break
		}
		if math.Abs(a[0].F) > 20 {
			return Val{}, "exp out of range"
		}
		return approxVal(math.Exp(a[0].F)), ""
	case "MOD":
		if !allExactN() || len(a) != 2 {
			return Val{}, "mod of inexact numbers"
		}
		if a[0].N.IsNegative() || !a[1].N.IsPositive() {
			return Val{}, "modulus with a non-positive operand"
		}
		return numVal(a[0].N.Mod(a[1].N)), ""
	case "INT", "TRUNC", "ROUNDDOWN", "ROUNDUP", "ROUND":
		if !allExactN() {
			return Val{}, "rounding of inexact number"
		}
		places := 0
		if len(a) == 2 {
			p, ok := a[1].intValue()
			if !ok || p < 0 || p > 6 {
				return Val{}, "rounding places out of range"
			}
			places = p
		}
		if a[0].N.IsNegative() {
			return Val{}, "rounding of a negative number"
		}
		if f == "INT" || f == "TRUNC" {
			if len(a) != 1 {
				break
			}
			return numVal(a[0].N.Floor()), ""
		}
		shifted := a[0].N.Shift(int32(places))
		fl := shifted.Floor()
		frac := shifted.Sub(fl)
		switch f {
		case "ROUNDDOWN":
			return numVal(fl.Shift(int32(-places))), ""
		case "ROUNDUP":
			if frac.IsZero() {
				return numVal(fl.Shift(int32(-places))), ""
			}
			return numVal(fl.Add(decimal.NewFromInt(1)).Shift(int32(-places))), ""
		}
		half := decimal.NewFromFloat(0.5)
		if frac.Equal(half) {
			return Val{}, "rounding tie"
		}
		if frac.GreaterThan(half) {
			fl = fl.Add(decimal.NewFromInt(1))
		}
		return numVal(fl.Shift(int32(-places))), ""
	case "CONCATENATE":
		var sb strings.Builder
		for _, x := range a {
			s, o := x.text()
			if o != "" {
				return Val{}, o
			}
			sb.WriteString(s)
		}
		return strVal(sb.String()), ""
	case "LEN":
		if len(a) == 1 && a[0].T == 'S' {
			return numVal(decimal.NewFromInt(int64(utf8.RuneCountInString(a[0].S)))), ""
		}
	case "LEFT", "RIGHT":
		if len(a) != 2 || a[0].T != 'S' {
			break
		}
		n, ok := a[1].intValue()
		rs := []rune(a[0].S)
		if !ok || n < 1 || n > len(rs) {
			return Val{}, "slice length out of range"
		}
		if f == "LEFT" {
			return strVal(string(rs[:n])), ""
		}
		return strVal(string(rs[len(rs)-n:])), ""
	case "UPPER":
		if len(a) == 1 && a[0].T == 'S' {
			return strVal(strings.ToUpper(a[0].S)), ""
		}
	case "LOWER":
		if len(a) == 1 && a[0].T == 'S' {
			return strVal(strings.ToLower(a[0].S)), ""
		}
	case "PROPER":
		if len(a) == 1 && a[0].T == 'S' {
			ws, ok := simpleWords(a[0].S)
			if !ok {
				return Val{}, "title case of text with punctuation"
			}
			for i, w := range ws {
				rs := []rune(strings.ToLower(w))
				rs[0] = unicode.ToUpper(rs[0])
				ws[i] = string(rs)
			}
			return strVal(strings.Join(ws, " ")), ""
		}
	case "REPT":
		if len(a) == 2 && a[0].T == 'S' {
			n, ok := a[1].intValue()
			if !ok || n < 0 || n > 12 {
				return Val{}, "repeat count out of range"
			}
			return strVal(strings.Repeat(a[0].S, n)), ""
		}
	case "SUBSTITUTE":
		if len(a) == 3 && a[0].T == 'S' && a[1].T == 'S' && a[2].T == 'S' {
			if a[1].S == "" {
				return Val{}, "substitute of empty text"
			}
			return strVal(strings.ReplaceAll(a[0].S, a[1].S, a[2].S)), ""
		}
	case "WORD", "WORD_SLICE", "WORD_COUNT", "FIRST_WORD", "REMOVE_FIRST_WORD":
		if len(a) < 1 || a[0].T != 'S' {
			break
		}
		ws, ok := simpleWords(a[0].S)
		if !ok {
			return Val{}, "word function on text with punctuation"
		}
		switch f {
		case "WORD_COUNT":
			if len(a) == 1 {
				return numVal(decimal.NewFromInt(int64(len(ws)))), ""
			}
		case "FIRST_WORD":
			if len(a) == 1 {
				return strVal(ws[0]), ""
			}
		case "REMOVE_FIRST_WORD":
			if len(a) == 1 {
				return strVal(strings.Join(ws[1:], " ")), ""
			}
		case "WORD":
			if len(a) == 2 {
				n, ok := a[1].intValue()
				if !ok || n < 1 || n > len(ws) {
					return Val{}, "word index out of range"
				}
				return strVal(ws[n-1]), ""
			}
		case "WORD_SLICE":
			if len(a) == 2 || len(a) == 3 {
				start, ok := a[1].intValue()
				if !ok || start < 1 || start > len(ws) {
					return Val{}, "word index out of range"
				}
				stop := len(ws) + 1
				if len(a) == 3 {
					stop, ok = a[2].intValue()
					if !ok || stop <= start || stop > len(ws)+1 {
						return Val{}, "word index out of range"
					}
				}
				return strVal(strings.Join(ws[start-1:stop-1], " ")), ""
			}
		}
	case "FIELD":
		if len(a) == 3 && a[0].T == 'S' && a[2].T == 'S' {
			n, ok := a[1].intValue()
			if a[2].S == "" || a[2].S == " " {
				return Val{}, "field with blank delimiter"
			}
			parts := strings.Split(a[0].S, a[2].S)
			if !ok || n < 1 || n > len(parts) {
				return Val{}, "field index out of range"
			}
			return strVal(parts[n-1]), ""
		}
	case "CODE", "UNICODE":
		if len(a) == 1 && a[0].T == 'S' {
			if a[0].S == "" {
				return Val{}, "code of empty text"
			}
			r, _ := utf8.DecodeRuneInString(a[0].S)
			return numVal(decimal.NewFromInt(int64(r))), ""
		}
	case "CHAR", "UNICHAR":
		if len(a) == 1 {
			n, ok := a[0].intValue()
			if !ok || n < 32 || n > 0xD000 {
				return Val{}, "char code out of range"
			}
			return strVal(string(rune(n))), ""
		}
	case "IF":
		if len(a) == 3 && a[0].T == 'B' {
			if a[0].B {
				return a[1], ""
			}
			return a[2], ""
		}
	case "AND", "OR":
		r := f == "AND"
		for _, x := range a {
			if x.T != 'B' {
				return Val{}, "logic on non-boolean"
			}
			if f == "AND" {
				r = r && x.B
			} else {
				r = r || x.B
			}
		}
		return boolVal(r), ""
	case "DATE":
		if len(a) == 3 {
			y, ok1 := a[0].intValue()
			m, ok2 := a[1].intValue()
			d, ok3 := a[2].intValue()
			if !ok1 || !ok2 || !ok3 || y < 1900 || y > 9000 || m < 1 || m > 12 || d < 1 || d > 31 {
				return Val{}, "date parts out of range"
			}
			dt := time.Date(y, time.Month(m), d, 0, 0, 0, 0, time.UTC)
			if dt.Day() != d {
				return Val{}, "no such calendar day"
			}
			return Val{T: 'D', D: dt}, ""
		}
	case "TIME":
		if len(a) == 3 {
			h, ok1 := a[0].intValue()
			m, ok2 := a[1].intValue()
			s, ok3 := a[2].intValue()
			if !ok1 || !ok2 || !ok3 || h < 0 || h > 23 || m < 0 || m > 59 || s < 0 || s > 59 {
				return Val{}, "time parts out of range"
			}
			return Val{T: 'T', H: h, M: m, Sec: s}, ""
		}
	case "TODAY":
		if len(a) == 0 {
			return Val{T: 'D', D: time.Date(fixedNow.Year(), fixedNow.Month(), fixedNow.Day(), 0, 0, 0, 0, time.UTC)}, ""
		}
	case "NOW":
		if len(a) == 0 {
			return Val{T: 'D', D: fixedNow, HasTod: true}, ""
		}
	case "YEAR", "MONTH", "DAY", "WEEKDAY", "HOUR", "MINUTE", "SECOND":
		if len(a) == 1 && a[0].T == 'D' {
			var n int
			switch f {
			case "YEAR":
				n = a[0].D.Year()
			case "MONTH":
				n = int(a[0].D.Month())
			case "DAY":
				n = a[0].D.Day()
			case "WEEKDAY":
				n = int(a[0].D.Weekday()) + 1
			case "HOUR":
				n = a[0].D.Hour()
			case "MINUTE":
				n = a[0].D.Minute()
			case "SECOND":
				n = a[0].D.Second()
			}
			return numVal(decimal.NewFromInt(int64(n))), ""
		}
	case "DAYS":
		if len(a) == 2 && a[0].T == 'D' && a[1].T == 'D' && !a[0].HasTod && !a[1].HasTod {
			return numVal(decimal.NewFromInt(int64(a[0].D.Sub(a[1].D).Hours() / 24))), ""
		}
	case "EDATE":
		if len(a) == 2 && a[0].T == 'D' {
			n, ok := a[1].intValue()
			if !ok || n < -20000 || n > 60000 || a[0].D.Day() > 28 {
				return Val{}, "month shift out of range"
			}
			r := a[0]
			r.D = a[0].D.AddDate(0, n, 0)
			return r, ""
		}
	}
	return Val{}, ood("no reference semantics for " + f + " with these operands")
}

// magnitudeOK keeps the enumeration inside the operand range where evaluation is cheap: towers of
// powers, REPT with a huge count and EXP of a large number make the engine compute astronomically
// large decimals (that is property C04's subject, not this one's). The estimate is a total float
// evaluation of the numeric part of the tree; a power or repeat whose operands it cannot estimate
// is rejected too.
func magnitudeOK(e *E) bool {
	ok := true
	var f func(e *E) float64
	f = func(e *E) float64 {
		nan := math.NaN()
		switch e.K {
		case "num":
			d, err := decimal.NewFromString(e.V)
			if err != nil {
				return nan
			}
			return d.InexactFloat64()
		case "ref":
			if v, found := refContext[strings.ToLower(e.V)]; found && v.T == 'N' {
				return v.F
			}
			return nan
		case "str", "bool":
			return nan
		case "par":
			return f(e.A[0])
		case "neg":
			return -f(e.A[0])
		case "bin":
			a, b := f(e.A[0]), f(e.A[1])
			if (e.V == "+" || e.V == "-") && math.IsNaN(a) && !(math.Abs(b) <= 1e6) && !math.IsNaN(b) {
				ok = false // date +- huge number of days
			}
			switch e.V {
			case "+":
				return a + b
			case "-":
				return a - b
			case "*":
				return a * b
			case "/":
				return a / b
			case "^":
				return pow(a, b, &ok)
			}
			return nan
		case "call":
			args := make([]float64, len(e.A))
			for i, a := range e.A {
				args[i] = f(a)
			}
			switch strings.ToUpper(e.V) {
			case "ABS":
				return math.Abs(args[0])
			case "MAX":
				return math.Max(args[0], args[1])
			case "MIN":
				return math.Min(args[0], args[1])
			case "MOD":
				return math.Mod(args[0], args[1])
			case "SUM":
				s := 0.0
				for _, x := range args {
					s += x
				}
				return s
			case "AVERAGE":
				return (args[0] + args[1]) / 2
			case "POWER":
				return pow(args[0], args[1], &ok)
			case "EXP":
				if !(math.Abs(args[0]) <= 40) {
					ok = false
				}
				return math.Exp(args[0])
			case "INT", "TRUNC", "ROUND", "ROUNDUP", "ROUNDDOWN":
				if len(args) == 2 && !(math.Abs(args[1]) <= 16) {
					ok = false
				}
				return math.Round(args[0])
			case "EDATE":
				if !(math.Abs(args[1]) <= 1e5) {
					ok = false
				}
				return nan
			case "LEN":
				return 64
			case "WORD_COUNT":
				return 8
			case "CODE", "UNICODE":
				return 1000
			case "IF":
				return math.Max(math.Abs(args[1]), math.Abs(args[2]))
			case "YEAR":
				return 2100
			case "MONTH", "DAY", "WEEKDAY", "HOUR", "MINUTE", "SECOND":
				return 60
			case "DAYS":
				return 100000
			case "REPT":
				if !(math.Abs(args[1]) <= 64) {
					ok = false
				}
			case "CHAR", "UNICHAR":
				if !(math.Abs(args[0]) <= 1e6) {
					ok = false
				}
			}
			return nan
		}
		return nan
	}
	v := f(e)
	if math.Abs(v) > 1e40 {
		ok = false
	}
	return ok
}

func pow(a, b float64, ok *bool) float64 {
	r := math.Pow(a, b)
	if !(math.Abs(b) <= 64) || !(math.Abs(a) <= 1e9) || math.Abs(r) > 1e40 || (r != 0 && math.Abs(r) < 1e-30) {
		*ok = false
	}
	return r
}
