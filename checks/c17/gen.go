package c17

import "strings"

// Argument / result type codes of the typed enumerator:
//
//	N number   S text   B boolean   D date   M datetime   T time of day
//	A number or text (operands of & and CONCATENATE)
//	F text whose leaf is the delimited literal "x,y,z,w" (first argument of FIELD)
//	y year literal only   l delimiter literal only (not nestable)
type construct struct {
	kind string // call | bin | neg
	name string // function name (legacy spelling) or operator
	args string // one type code per argument
	ret  byte
}

var constructs = buildConstructs()

func buildConstructs() []construct {
	var cs []construct
	for _, op := range []string{"+", "-", "*", "/", "^"} {
		cs = append(cs, construct{"bin", op, "NN", 'N'})
	}
	cs = append(cs,
		construct{"neg", "-", "N", 'N'},
		construct{"bin", "+", "DN", 'D'},
		construct{"bin", "-", "DN", 'D'},
		construct{"bin", "+", "DT", 'M'},
		construct{"bin", "+", "MN", 'M'},
		construct{"bin", "-", "MN", 'M'},
		construct{"bin", "+", "MT", 'M'},
		construct{"bin", "-", "MT", 'M'},
		construct{"bin", "&", "AA", 'S'},
		construct{"bin", "=", "NN", 'B'},
		construct{"bin", "<>", "NN", 'B'},
		construct{"bin", "=", "SS", 'B'},
		construct{"bin", "<>", "SS", 'B'},
	)
	for _, op := range []string{"<", "<=", ">", ">="} {
		cs = append(cs, construct{"bin", op, "NN", 'B'})
	}
	fn := func(name, args string, ret byte) { cs = append(cs, construct{"call", name, args, ret}) }
	// numbers
	fn("ABS", "N", 'N')
	fn("MAX", "NN", 'N')
	fn("MIN", "NN", 'N')
	fn("MOD", "NN", 'N')
	fn("SUM", "NN", 'N')
	fn("SUM", "NNN", 'N')
	fn("AVERAGE", "NN", 'N')
	fn("POWER", "NN", 'N')
	fn("EXP", "N", 'N')
	fn("INT", "N", 'N')
	fn("TRUNC", "N", 'N')
	fn("ROUND", "N", 'N')
	fn("ROUND", "NN", 'N')
	fn("ROUNDUP", "N", 'N')
	fn("ROUNDDOWN", "N", 'N')
	// text
	fn("CONCATENATE", "AA", 'S')
	fn("CONCATENATE", "AAA", 'S')
	fn("LEN", "S", 'N')
	fn("LEFT", "SN", 'S')
	fn("RIGHT", "SN", 'S')
	fn("UPPER", "S", 'S')
	fn("LOWER", "S", 'S')
	fn("PROPER", "S", 'S')
	fn("REPT", "SN", 'S')
	fn("SUBSTITUTE", "SSS", 'S')
	fn("WORD", "SN", 'S')
	fn("WORD_SLICE", "SN", 'S')
	fn("WORD_SLICE", "SNN", 'S')
	fn("WORD_COUNT", "S", 'N')
	fn("FIRST_WORD", "S", 'S')
	fn("REMOVE_FIRST_WORD", "S", 'S')
	fn("FIELD", "FNl", 'S')
	fn("CODE", "S", 'N')
	fn("UNICODE", "S", 'N')
	fn("CHAR", "N", 'S')
	fn("UNICHAR", "N", 'S')
	// logic
	fn("IF", "BNN", 'N')
	fn("IF", "BSS", 'S')
	fn("AND", "BB", 'B')
	fn("OR", "BB", 'B')
	fn("TRUE", "", 'B')
	fn("FALSE", "", 'B')
	// dates
	fn("DATE", "yNN", 'D')
	fn("TIME", "NNN", 'T')
	fn("TODAY", "", 'D')
	fn("NOW", "", 'M')
	fn("EDATE", "MN", 'M')
	fn("YEAR", "M", 'N')
	fn("WEEKDAY", "M", 'N')
	fn("HOUR", "M", 'N')
	fn("MINUTE", "M", 'N')
	fn("SECOND", "M", 'N')
	fn("EDATE", "DN", 'D')
	fn("DAYS", "DD", 'N')
	fn("YEAR", "D", 'N')
	fn("MONTH", "D", 'N')
	fn("DAY", "D", 'N')
	fn("WEEKDAY", "D", 'N')
	fn("HOUR", "D", 'N')
	fn("MINUTE", "D", 'N')
	fn("SECOND", "D", 'N')
	return cs
}

func nestable(t byte) bool { return t != 'y' && t != 'l' }

// fits reports whether a construct returning ret can fill an argument of type want.
func fits(want, ret byte) bool {
	switch want {
	case 'A':
		return ret == 'N' || ret == 'S'
	case 'F':
		return ret == 'S'
	}
	return want == ret
}

// leaf placeholder; filled by fill()
func leafOf(t byte) *E { return &E{K: "leaf", V: string(t)} }

func (c *construct) build(args []*E) *E {
	switch c.kind {
	case "neg":
		return neg(args[0])
	case "bin":
		return bin(c.name, args[0], args[1])
	}
	return call(c.name, args...)
}

// shapes(want, depth) lists every expression shape of exactly that depth whose value has type
// want: a chain of constructs with one non-leaf argument per level (all other arguments are leaf
// placeholders), the nested construct standing bare where the legacy grammar parses it as that
// operand and, always, also in parentheses.
type shaper struct {
	memo map[string][]*E
}

func (s *shaper) shapes(want byte, depth int) []*E {
	key := string(want) + string(rune('0'+depth))
	if r, ok := s.memo[key]; ok {
		return r
	}
	var out []*E
	if depth == 0 {
		out = []*E{leafOf(want)}
	} else {
		for ci := range constructs {
			c := &constructs[ci]
			if !fits(want, c.ret) {
				continue
			}
			leaves := func() []*E {
				a := make([]*E, len(c.args))
				for i := range a {
					a[i] = leafOf(c.args[i])
				}
				return a
			}
			if depth == 1 {
				out = append(out, c.build(leaves()))
				continue
			}
			for p := 0; p < len(c.args); p++ {
				if !nestable(c.args[p]) {
					continue
				}
				for _, sub := range s.shapes(c.args[p], depth-1) {
					a := leaves()
					a[p] = sub
					parent := c.build(a)
					if fitsBare(parent, p, sub) {
						out = append(out, parent)
					}
					b := leaves()
					b[p] = par(sub)
					out = append(out, c.build(b))
				}
			}
		}
	}
	if s.memo == nil {
		s.memo = map[string][]*E{}
	}
	s.memo[key] = out
	return out
}

var resultTypes = []byte{'N', 'S', 'B', 'D', 'M', 'T'}

// Leaf alphabets. Rotation r gives the i-th leaf of an expression the ((i + r) mod n)-th value of
// the alphabet of its type, so neighbouring operands differ and every value reaches every position.
var leafAlphabet = map[byte][]*E{
	'N': {num("2"), num("3"), num("10"), ref("contact.age")},
	'S': {str(`"ab c"`), str(`"q""q"`), str(`"w1 w2 w3 w4"`), ref("extra.s")},
	'B': {boolean("TRUE"), boolean("FALSE"), boolean("true"), boolean("False")},
	'D': {call("DATE", num("2020"), num("3"), num("10")), call("DATE", num("2019"), num("12"), num("2")), call("TODAY"), call("DATE", num("2021"), num("1"), num("28"))},
	'M': {call("NOW"), call("NOW"), call("NOW"), call("NOW")},
	'T': {call("TIME", num("2"), num("3"), num("10")), call("TIME", num("10"), num("2"), num("3")), call("TIME", num("3"), num("10"), num("2")), call("TIME", num("2"), num("10"), num("3"))},
	'F': {str(`"x,y,z,w"`), str(`"x,y,z,w"`), str(`"a,b c,d"`), str(`"x,y,z,w"`)},
	'y': {num("2020"), num("2021"), num("2019"), num("2020")},
	'l': {str(`","`), str(`","`), str(`","`), str(`","`)},
}

const rotations = 4

// fill replaces the leaf placeholders of a shape (copying it).
func fill(shape *E, rot int) *E { return fillWith(shape, rot, nil) }

// fillWith is fill with an override: where it returns a node for a placeholder's type, that node
// takes the place of the alphabet's value (the running number of the leaves is kept).
func fillWith(shape *E, rot int, override func(t byte) *E) *E {
	i := 0
	var rec func(e *E) *E
	rec = func(e *E) *E {
		if e.K == "leaf" {
			t := e.V[0]
			if override != nil {
				if v := override(t); v != nil {
					i++
					return v
				}
			}
			if t == 'A' {
				if i%2 == 0 {
					t = 'S'
				} else {
					t = 'N'
				}
			}
			alpha := leafAlphabet[t]
			v := alpha[(i+rot)%len(alpha)]
			i++
			return v.clone()
		}
		c := &E{K: e.K, V: e.V}
		for _, a := range e.A {
			c.A = append(c.A, rec(a))
		}
		return c
	}
	return rec(shape)
}

// isAtomicLeaf: literal dates and times (and TODAY()/NOW()) are leaves of the enumeration although
// they are calls.
func isAtomicLeaf(e *E) bool {
	if e.isLeaf() {
		return true
	}
	if e.K != "call" {
		return false
	}
	switch strings.ToUpper(e.V) {
	case "DATE", "TIME", "TODAY", "NOW":
		for _, a := range e.A {
			if a.K != "num" {
				return false
			}
		}
		return true
	}
	return false
}

// nonLeafChild returns the position and node of the single non-leaf operand of e (skipping
// nothing: a parenthesised operand is returned as the par node), or -1.
func nonLeafChild(e *E) (int, *E) {
	for i, a := range e.A {
		if !isAtomicLeaf(a) {
			return i, a
		}
	}
	return -1, nil
}

// literal forms for the string-literal sub-space (legacy source text)
var literalForms = []string{
	`"ab c"`, `""`, `" "`, `"q""q"`, `""""`, `"""a"""`, `"it's"`, `"é ü"`, `"a,b"`, `"(x)"`, `"@x"`,
	`"b\s"`, `"x\"`, `"a\n"`, `"a\\b"`, `"\"`, `"\\"`, `"c:\t"`, `"q""q\s"`, `"a\"""`, `"\d+"`,
}

// ---- flanked operands (sub-space 4) -----------------------------------------------------------
//
// The chains of sub-space (1) have one nested operand per level, so the text of a nested operand
// always begins or ends with a leaf. Here the middle construct X of a depth-3 tree O > X > {f, g}
// has a function call at BOTH ends: its first and its last nestable operand are calls f(...) and
// g(...) over leaves (all other operands are leaves), so that the migrated text of the operand of O
// begins with "name(" and ends with ")" although it is not one call. X ranges over every construct
// with at least two nestable operands (SUM, CONCATENATE, the binary operators - e.g. as POWER's first
// operand or as a negated subtrahend - ...), O over every construct and operand position.

// flank calls of the quick tier, per result type; the thorough tier uses every call construct
var quickFlanks = map[string]bool{
	"ABS/N": true, "MAX/NN": true, "LEN/S": true, "WEEKDAY/D": true, "YEAR/D": true,
	"UPPER/S": true, "LEFT/SN": true, "WORD/SN": true,
	"AND/BB": true, "OR/BB": true,
	"EDATE/DN": true, "EDATE/MN": true,
}

func flankCalls(want byte, all bool) []*construct {
	var out []*construct
	for ci := range constructs {
		c := &constructs[ci]
		if c.kind != "call" || len(c.args) == 0 || !fits(want, c.ret) {
			continue
		}
		switch c.name {
		case "DATE", "TIME", "TODAY", "NOW":
			continue // literal dates and times are leaves
		}
		if all || quickFlanks[c.name+"/"+c.args] {
			out = append(out, c)
		}
	}
	return out
}

func leavesOf(c *construct) []*E {
	a := make([]*E, len(c.args))
	for i := range a {
		a[i] = leafOf(c.args[i])
	}
	return a
}

// flankedShapes lists the shapes of sub-space (4). withPar adds, for every shape, the variant with
// the flanked operand in (legacy) parentheses.
func flankedShapes(allFlanks, withPar bool, emit func(shape *E)) {
	for oi := range constructs {
		o := &constructs[oi]
		for p := 0; p < len(o.args); p++ {
			if !nestable(o.args[p]) {
				continue
			}
			for xi := range constructs {
				x := &constructs[xi]
				if !fits(o.args[p], x.ret) {
					continue
				}
				first, last := -1, -1
				for i := 0; i < len(x.args); i++ {
					if nestable(x.args[i]) {
						if first < 0 {
							first = i
						}
						last = i
					}
				}
				if first < 0 || first == last {
					continue
				}
				for _, f := range flankCalls(x.args[first], allFlanks) {
					for _, g := range flankCalls(x.args[last], allFlanks) {
						mk := func() *E {
							xa := leavesOf(x)
							xa[first] = f.build(leavesOf(f))
							xa[last] = g.build(leavesOf(g))
							return x.build(xa)
						}
						a := leavesOf(o)
						a[p] = mk()
						parent := o.build(a)
						if fitsBare(parent, p, a[p]) {
							emit(parent)
						}
						if withPar {
							b := leavesOf(o)
							b[p] = par(mk())
							emit(o.build(b))
						}
					}
				}
			}
		}
	}
}
