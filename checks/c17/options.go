package c17

import (
	"encoding/json"
	"fmt"
	"os"
	"os/exec"
	"path/filepath"
	"strings"
	"time"

	"github.com/nyaruka/goflow/excellent"
	"github.com/nyaruka/goflow/excellent/types"
	"github.com/nyaruka/goflow/flows/definition/legacy/expressions"
	"verif/mc"
)

// ---- sub-space (0): a migration is a function of (template, options) only -------------------------
//
// MigrateTemplate takes options (the flow migration uses RawDates for the argument of a date test,
// URLEncode for a webhook URL, DefaultToSelf for the operand of an expression rule set, none for
// everything else - all in one process, often on the same expression text). The answer for
// (template, options) must not depend on what the process was asked before. Every template of the
// option space is migrated under every option set, the order of the option sets cycling through all
// ordered pairs (first, second) with the case index, and each answer is compared with the answer of a
// fresh process that is only ever asked under that one option set.

type optionSet struct {
	Name string
	O    *expressions.MigrateOptions
}

// the first four are what the flow migration uses; the quick tier asks under these, the thorough tier
// under all six
var optionSets = []optionSet{
	{"default", nil},
	{"raw-dates", &expressions.MigrateOptions{RawDates: true}},
	{"url-encode", &expressions.MigrateOptions{URLEncode: true}},
	{"default-to-self", &expressions.MigrateOptions{DefaultToSelf: true}},
	{"zero-value", &expressions.MigrateOptions{}},
	{"all-three", &expressions.MigrateOptions{RawDates: true, URLEncode: true, DefaultToSelf: true}},
}

const (
	optDefault = 0
	optRaw     = 1
	optZero    = 4
)

func numOptionSets(thorough bool) int {
	if thorough {
		return len(optionSets)
	}
	return 4
}

// optionOrder is the order in which case number idx asks the first n option sets: the idx-th of the
// n(n-1) ordered pairs (first, second) first, then the others in ascending order.
func optionOrder(idx, n int) []int {
	k := idx % (n * (n - 1))
	a, b := k/(n-1), k%(n-1)
	if b >= a {
		b++
	}
	order := []int{a, b}
	for i := 0; i < n; i++ {
		if i != a && i != b {
			order = append(order, i)
		}
	}
	return order
}

// migrateUnder is one answer of the real code, as one comparable string
func migrateUnder(tpl string, oi int) string {
	var m string
	var err error
	if p := mc.Guard(func() { m, err = expressions.MigrateTemplate(tpl, optionSets[oi].O) }); p != "" {
		return "PANIC " + mc.PanicSite(p)
	}
	if err != nil {
		return m + "\x00error: " + err.Error()
	}
	return m
}

// legacy date references, by the type of value they denote
var dateRefs = map[byte][]string{
	'D': {"date.today", "date.tomorrow", "date.yesterday"},
	'M': {"date.now", "date"},
}

// fillDateRef fills a shape like fill(shape, 0) but puts the legacy date reference in place of the
// first date / datetime leaf of that type; nil when the shape has no such leaf.
func fillDateRef(shape *E, typ byte, name string) *E {
	n := 0
	root := fillWith(shape, 0, func(t byte) *E {
		if t == typ {
			n++
			if n == 1 {
				return ref(name)
			}
		}
		return nil
	})
	if n == 0 {
		return nil
	}
	return root
}

// identifier templates (no parentheses): scanned and migrated on another path than expressions
var optionIdents = []string{"date.today", "date.tomorrow", "date.yesterday", "date.now", "date", "contact.name", "contact.age", "contact.tel", "flow.num", "extra.s", "step.value", "contact.groups"}

type optionCase struct {
	Tpl     string
	Expr    *E   // nil for identifier templates and templates with body text
	DateRef bool // Expr holds a legacy date reference (these expressions are in no other sub-space)
}

// optionCases enumerates the option space: every expression of the nesting space of depth 1..2
// (thorough: ..3, rotation 0 only at depth 3) in every rotation, every shape of depth 1..2 with a
// legacy date reference in place of its first date / datetime leaf, and identifier templates alone
// and inside body text.
func optionCases(thorough bool, emit func(oc *optionCase)) {
	sh := &shaper{}
	maxDepth := 2
	if thorough {
		maxDepth = 3
	}
	for depth := 1; depth <= maxDepth; depth++ {
		for _, t := range resultTypes {
			for _, shape := range sh.shapes(t, depth) {
				nrot := rotations
				if depth == 3 {
					nrot = 1
				}
				var seen [rotations]string
				for r := 0; r < nrot; r++ {
					root := fill(shape, r)
					text := root.Text()
					dup := false
					for _, s := range seen[:r] {
						dup = dup || s == text
					}
					seen[r] = text
					if !dup {
						emit(&optionCase{Tpl: "@(" + text + ")", Expr: root})
					}
				}
				if depth <= 2 {
					for _, typ := range []byte{'D', 'M'} {
						for _, name := range dateRefs[typ] {
							if root := fillDateRef(shape, typ, name); root != nil {
								emit(&optionCase{Tpl: "@(" + root.Text() + ")", Expr: root, DateRef: true})
							}
						}
					}
				}
			}
		}
	}
	for _, typ := range []byte{'D', 'M'} {
		for _, name := range dateRefs[typ] {
			emit(&optionCase{Tpl: "@(" + name + ")", Expr: ref(name), DateRef: true})
		}
	}
	for _, id := range optionIdents {
		emit(&optionCase{Tpl: "@" + id})
		emit(&optionCase{Tpl: "On @" + id + " and @(" + id + "), ok"})
	}
}

// ---- the fresh process ---------------------------------------------------------------------------

type freshJob struct {
	Option    int      `json:"option"`
	Templates []string `json:"templates"`
}

// singleFn runs in a process of its own (vcheck C17 --single <job file>|<out file>): it migrates the
// templates of the job under the job's one option set and writes the answers.
func singleFn(c *mc.Ctx, desc string) string {
	parts := strings.SplitN(desc, "|", 2)
	if len(parts) != 2 {
		return "bad job"
	}
	raw, err := os.ReadFile(parts[0])
	if err != nil {
		return err.Error()
	}
	var job freshJob
	if err := json.Unmarshal(raw, &job); err != nil {
		return err.Error()
	}
	setup()
	out := make([]string, len(job.Templates))
	for i, t := range job.Templates {
		out[i] = migrateUnder(t, job.Option)
	}
	b, _ := json.Marshal(out)
	if err := os.WriteFile(parts[1], b, 0o644); err != nil {
		return err.Error()
	}
	return "ok"
}

// freshAnswers asks a new process, which has never been asked anything else, for the migrations of
// the templates under option set oi.
func freshAnswers(tier string, oi int, templates []string) ([]string, error) {
	exe, err := os.Executable()
	if err != nil {
		return nil, err
	}
	dir, err := os.MkdirTemp("", "c17-fresh-")
	if err != nil {
		return nil, err
	}
	defer os.RemoveAll(dir)
	in, out := filepath.Join(dir, "job.json"), filepath.Join(dir, "out.json")
	b, _ := json.Marshal(freshJob{Option: oi, Templates: templates})
	if err := os.WriteFile(in, b, 0o644); err != nil {
		return nil, err
	}
	cmd := exec.Command(exe, "C17", "--tier", tier, "--single", in+"|"+out)
	cmd.Env = os.Environ()
	done := make(chan error, 1)
	var output []byte
	go func() {
		var err error
		output, err = cmd.CombinedOutput()
		done <- err
	}()
	select {
	case err := <-done:
		if err != nil {
			return nil, fmt.Errorf("fresh process: %v\n%s", err, output)
		}
	case <-time.After(10 * time.Minute):
		if cmd.Process != nil {
			cmd.Process.Kill()
		}
		return nil, fmt.Errorf("fresh process did not finish")
	}
	raw, err := os.ReadFile(out)
	if err != nil {
		return nil, fmt.Errorf("fresh process wrote no answers: %v\n%s", err, output)
	}
	var res []string
	if err := json.Unmarshal(raw, &res); err != nil || len(res) != len(templates) {
		return nil, fmt.Errorf("fresh process: bad answers (%v, %d of %d)", err, len(res), len(templates))
	}
	return res, nil
}

// ---- oracles on one case -------------------------------------------------------------------------

type historyReplay struct {
	Template string `json:"template"`
	Order    []int  `json:"order"` // option sets in the order asked
	Asked    int    `json:"asked"` // position in Order of the answer that differs
}

// parses: every expression of a migrated template is accepted by the engine's parser
func parses(migrated string) (bool, string) {
	okAll, detail := true, ""
	excellent.VisitTemplate(migrated, topLevels, false, func(tt excellent.XTokenType, tok string) error {
		if tt == excellent.EXPRESSION || tt == excellent.IDENTIFIER {
			if _, err := excellent.Parse(tok, nil); err != nil && okAll {
				okAll, detail = false, err.Error()
			}
		}
		return nil
	})
	return okAll, detail
}

// agreeIgnoringTimeOfDay: like agree, but a reference date without a time of day is compared by
// calendar day only (with RawDates the value is handed to a date test as it is, not rendered)
func agreeIgnoringTimeOfDay(rv Val, x types.XValue) bool {
	if rv.T == 'D' && !rv.HasTod {
		switch x.(type) {
		case *types.XDate, *types.XDateTime, *types.XText:
		default:
			return false
		}
		dt, xerr := types.ToXDateTime(env, x)
		if xerr != nil {
			return false
		}
		t := dt.Native().In(time.UTC)
		return t.Year() == rv.D.Year() && t.Month() == rv.D.Month() && t.Day() == rv.D.Day()
	}
	return agree(rv, x)
}

func runOptions(c *mc.Ctx, idx *int) bool {
	type mine struct {
		oc    *optionCase
		order []int
		got   []string // by option set index
	}
	var cases []*mine
	nopt := numOptionSets(c.Thorough())
	optionCases(c.Thorough(), func(oc *optionCase) {
		*idx++
		if !c.Mine(*idx) {
			return
		}
		order := optionOrder(*idx, nopt)
		m := &mine{oc: oc, order: order, got: make([]string, len(optionSets))}
		for _, oi := range order {
			m.got[oi] = migrateUnder(oc.Tpl, oi)
		}
		cases = append(cases, m)
		c.Inc("evaluations")
		c.Inc("distinct_nontrivial")
		c.Inc("option_cases")
		c.Add("option_migrations", int64(len(order)))
		c.Fact(fmt.Sprintf("option_order:%s-then-%s", optionSets[order[0]].Name, optionSets[order[1]].Name))
		// asking the first one again gives the same answer
		if again := migrateUnder(oc.Tpl, order[0]); again != m.got[order[0]] {
			c.Violation("options:same-question-two-answers:"+optionSets[order[0]].Name,
				fmt.Sprintf("legacy template %s under %s: first %q, after asking the other option sets %q", oc.Tpl, optionSets[order[0]].Name, m.got[order[0]], again),
				replay{Kind: "history", History: &historyReplay{Template: oc.Tpl, Order: append(append([]int{}, order...), order[0]), Asked: len(order)}})
		}
	})
	templates := make([]string, len(cases))
	for i, m := range cases {
		templates[i] = m.oc.Tpl
	}
	for oi := 0; oi < nopt; oi++ {
		if c.Expired() {
			c.Cap("time budget reached while asking fresh processes")
			return false
		}
		fresh, err := freshAnswers(c.Tier, oi, templates)
		if err != nil {
			c.Violation("harness:fresh-process-failed", err.Error(), replay{Kind: "none"})
			return false
		}
		for i, m := range cases {
			c.Inc("option_answers_compared_with_fresh_process")
			if m.got[oi] == fresh[i] {
				continue
			}
			pos := 0
			for j, x := range m.order {
				if x == oi {
					pos = j
				}
			}
			after := "nothing"
			if pos > 0 {
				after = optionSets[m.order[0]].Name
			}
			c.Outcome("violates:history-dependent")
			c.Violation(fmt.Sprintf("answer-depends-on-history:%s-after-%s", optionSets[oi].Name, after),
				fmt.Sprintf("legacy template %s migrated under %s gives %q in a process that was asked under %v before (and for other templates under all option sets), but %q in a fresh process only ever asked under %s",
					m.oc.Tpl, optionSets[oi].Name, m.got[oi], optionNames(m.order[:pos]), fresh[i], optionSets[oi].Name),
				replay{Kind: "history", History: &historyReplay{Template: m.oc.Tpl, Order: m.order, Asked: pos}})
		}
	}
	// what the answers are worth: they parse under every option set, nil and the zero value are the same
	// options, and with RawDates the value is still the one the legacy expression denotes
	for _, m := range cases {
		bad := false
		for oi := 0; oi < nopt; oi++ {
			if strings.Contains(m.got[oi], "\x00") || strings.HasPrefix(m.got[oi], "PANIC ") {
				continue // a rejected expression: judged (under the default options) in the nesting space
			}
			if ok, detail := parses(m.got[oi]); !ok {
				if dok, _ := parses(m.got[optDefault]); dok {
					bad = true
					c.Violation("options:unparseable:"+optionSets[oi].Name, fmt.Sprintf("legacy template %s migrated under %s: %q does not parse: %s", m.oc.Tpl, optionSets[oi].Name, m.got[oi], detail),
						replay{Kind: "history", History: &historyReplay{Template: m.oc.Tpl, Order: []int{oi}, Asked: 0}})
				}
			}
		}
		if nopt > optZero && m.got[optDefault] != m.got[optZero] {
			bad = true
			c.Violation("options:nil-differs-from-zero-value", fmt.Sprintf("legacy template %s: nil options give %q, &MigrateOptions{} gives %q", m.oc.Tpl, m.got[optDefault], m.got[optZero]),
				replay{Kind: "history", History: &historyReplay{Template: m.oc.Tpl, Order: m.order, Asked: 0}})
		}
		if m.oc.Expr != nil && !bad {
			if p := rawDatesValueProblem(m.oc.Expr, m.got[optRaw]); p != nil {
				bad = true
				c.Violation(p.key, p.what, replay{Kind: "rawdates", Expr: m.oc.Expr})
			} else if strings.Contains(m.got[optDefault], "format_date(") && m.got[optRaw] != m.got[optDefault] {
				c.Fact("raw_dates_changes_the_migration")
			}
		}
		if !bad {
			c.Outcome("agrees:options")
		}
		// the expressions with a legacy date reference get the oracles of the nesting space here
		if m.oc.DateRef {
			checkExpr(c, m.oc.Expr, "daterefs")
		}
	}
	return true
}

func optionNames(is []int) []string {
	out := []string{}
	for _, i := range is {
		out = append(out, optionSets[i].Name)
	}
	return out
}

// rawDatesValueProblem: the template migrated with RawDates evaluates to the value the legacy
// expression denotes (only judged where the reference model has an answer and the same expression is
// not already failing under the default options, which the nesting space reports). The key names the
// deepest sub-expression of the chain that is wrong on its own.
func rawDatesValueProblem(root *E, migrated string) *problem {
	if strings.Contains(migrated, "\x00") || strings.HasPrefix(migrated, "PANIC ") || !magnitudeOK(root) {
		return nil
	}
	if carriesTimeOfDayWhenRaw(root) {
		return nil
	}
	judge := func(e *E, m string) (bool, Val, *engRes) {
		rv, o := refEval(e)
		if o != "" {
			return true, rv, nil
		}
		er := evalMigrated(m)
		return er.Symptom == "" && agreeIgnoringTimeOfDay(rv, er.V), rv, er
	}
	ok, rv, er := judge(root, migrated)
	if ok || verdictOf(root).Fail {
		return nil
	}
	x, xm := root, migrated
	for n := root; n != nil; _, n = nonLeafChild(n) {
		if n.K == "par" || n == root {
			continue
		}
		m := migrateUnder("@("+n.Text()+")", optRaw)
		if strings.Contains(m, "\x00") || strings.HasPrefix(m, "PANIC ") {
			break
		}
		if nok, nrv, ner := judge(n, m); !nok {
			x, xm, rv, er = n, m, nrv, ner
		}
	}
	sym := "wrong-value"
	if er.Symptom != "" {
		sym = er.Symptom
	}
	key := "options:raw-dates:" + sym + ":" + x.construct()
	// the known way datetime +- time loses the seconds, reached here because an unformatted date
	// arithmetic result is typed as a datetime
	if x.K == "bin" && (x.V == "+" || x.V == "-") && additionForm(xm) == "datetime_add-minutes" && er.Symptom == "" && rv.T == 'D' {
		if dt, xerr := types.ToXDateTime(env, er.V); xerr == nil {
			sec := time.Duration(secondsOf(x.A[1])) * time.Second
			want := rv.D.Add(-sec)
			if x.V == "-" {
				want = rv.D.Add(sec)
			}
			if sec != 0 && dt.Native().In(time.UTC).Equal(want) {
				key = "addition:datetime" + x.V + "time:seconds-dropped"
			}
		}
	}
	return &problem{key, fmt.Sprintf("legacy @(%s); smallest sub-expression that is wrong with RawDates: @(%s) denotes %s\nmigrated with RawDates: %s\nevaluates to %s %s", root.Text(), x.Text(), rv, xm, render(er.V), er.Detail)}
}

// carriesTimeOfDayWhenRaw: date.tomorrow and date.yesterday are dates, but their raw (unformatted)
// form is now() shifted by a day, time of day included. RawDates is the mode for the argument of a date
// test, which compares the date portions only, so what an expression makes of that time of day
// (HOUR(date.yesterday), date.tomorrow + TIME(...)) is not judged; the answers for these expressions are
// still compared with the fresh process, and judged in full under the default options.
func carriesTimeOfDayWhenRaw(e *E) bool {
	if e.K == "ref" && (strings.EqualFold(e.V, "date.tomorrow") || strings.EqualFold(e.V, "date.yesterday")) {
		return true
	}
	for _, a := range e.A {
		if carriesTimeOfDayWhenRaw(a) {
			return true
		}
	}
	return false
}

func replayHistory(h *historyReplay) (string, bool) {
	var sb strings.Builder
	var last string
	answers := map[int]string{}
	twice := ""
	for i, oi := range h.Order {
		if oi < 0 || oi >= len(optionSets) {
			return "bad option set in replay", false
		}
		a := migrateUnder(h.Template, oi)
		fmt.Fprintf(&sb, "asked under %-16s -> %q\n", optionSets[oi].Name, a)
		if i == h.Asked {
			last = a
		}
		if prev, seen := answers[oi]; seen && prev != a {
			twice = optionSets[oi].Name
		}
		answers[oi] = a
	}
	if twice != "" {
		return fmt.Sprintf("legacy template %s: two different answers under %s in one process\n%s", h.Template, twice, sb.String()), true
	}
	if h.Asked < 0 || h.Asked >= len(h.Order) {
		return "bad replay", false
	}
	oi := h.Order[h.Asked]
	fresh, err := freshAnswers("quick", oi, []string{h.Template})
	if err != nil {
		return "harness: " + err.Error(), true
	}
	fmt.Fprintf(&sb, "a fresh process asked under %s only -> %q\n", optionSets[oi].Name, fresh[0])
	if fresh[0] != last {
		return fmt.Sprintf("legacy template %s: the answer under %s depends on what was asked before\n%s", h.Template, optionSets[oi].Name, sb.String()), true
	}
	if ok, detail := parses(last); !ok && !strings.Contains(last, "\x00") {
		return fmt.Sprintf("legacy template %s under %s: %q does not parse: %s", h.Template, optionSets[oi].Name, last, detail), true
	}
	if len(h.Order) > 1 && h.Order[0] != h.Order[len(h.Order)-1] {
		if a, b := migrateUnder(h.Template, optDefault), migrateUnder(h.Template, optZero); a != b {
			return fmt.Sprintf("legacy template %s: nil options give %q, the zero value gives %q", h.Template, a, b), true
		}
	}
	return "the answers do not depend on the history\n" + sb.String(), false
}
