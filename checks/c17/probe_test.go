package c17

import (
	"fmt"
	"testing"

	"github.com/nyaruka/goflow/envs"
	"github.com/nyaruka/goflow/excellent"
	"github.com/nyaruka/goflow/excellent/types"
	"github.com/nyaruka/goflow/flows/definition/legacy/expressions"
)

func TestProbe(t *testing.T) {
	env := envs.NewBuilder().Build()
	ctx := types.NewXObject(map[string]types.XValue{
		"fields": types.NewXObject(map[string]types.XValue{"age": types.NewXNumberFromInt(10)}),
	})
	ev := excellent.NewEvaluator()
	for _, s := range []string{
		`@(POWER(1+1, 2))`, `@(SUM(1, 2) * 3)`, `@(10 - 2 ^ 2)`, `@(CONCATENATE("a","b") = "ab")`, `@(LEN("a\n"))`, `@(LEN("x\"))`, `@("q""q\s")`, `@("q""q")`,
		`@(-2 ^ 2)`, `@(2 ^ 3 ^ 2)`, `@(MOD(-3, 2))`, `@(RIGHT("abcdef", 1+1))`, `@(WEEKDAY(DATE(2020,1,15)) * 2)`, `@(DATE(2020,1,15) + 2)`, `@(DATE(2020,1,15) - 2 ^ 2)`, `@(EXP(1+1))`,
		`@(-SUM(1,2))`, `@(contact.age - SUM(1,2))`, `@(WORD("a b c d", contact.age - 8))`, `@(TRUE & "x")`, `@("ab" = "AB")`, `@(1 = 1)`, `@(2/3)`, `@(10/4 & "x")`,
		`@(DAYS(DATE(2020,1,15), DATE(2020,1,10)))`, `@(YEAR(DATE(2020,1,15)) + 1)`, `@(FIXED(2.5))`, `@(PERCENT(0.25))`, `@(DATE(2020,1,15))`, `@(TIME(1,2,3))`,
		`@(DATE(2020,1,15) + TIME(1,2,3))`, `@(IF(1 = 1, "a", "b"))`, `Hi @@x @(1+2) there @@`, `@(FIRST_WORD())`, `@(1 +)`, `@(AND(TRUE, 1 = 1))`, `@(WORD_COUNT("a b"))`,
		`@(LEFT("abc", 2) & RIGHT("abc", 1))`, `@(FIELD("a,b,c", 2, ","))`, `@(REPT("ab", 2))`, `@(AVERAGE(2, 3))`, `@(INT(2.5))`,`@(2 * -3)`, `@(2 - -3)`, `@(contact.age - -3)`,
	} {
		m, err := expressions.MigrateTemplate(s, nil)
		v, _, eerr := ev.TemplateValue(env, ctx, m)
		fmt.Printf("%-45s => %-60s = %T %v | merr=%v eerr=%v\n", s, m, v, v, err, eerr)
	}
}
