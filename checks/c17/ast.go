package c17

import (
	"fmt"
	"strings"

	"github.com/antlr4-go/antlr/v4"
	gen "github.com/nyaruka/goflow/antlr/gen/excellent1"
)

// E is a legacy (Excellent1) expression as the legacy grammar parses it. The enumerator builds
// these trees and prints them; the printed text is the case. K is one of
//
//	num   decimal literal, V = its source text
//	str   string literal, V = its source text including the quotes ("" is the only escape)
//	bool  TRUE / FALSE keyword, V = source text
//	ref   context reference, V = dotted name
//	neg   unary minus, A[0]
//	par   parentheses, A[0]
//	bin   binary operator V over A[0], A[1]
//	call  function V(A...)
type E struct {
	K string `json:"k"`
	V string `json:"v,omitempty"`
	A []*E   `json:"a,omitempty"`
}

func num(s string) *E           { return &E{K: "num", V: s} }
func str(src string) *E         { return &E{K: "str", V: src} }
func boolean(s string) *E       { return &E{K: "bool", V: s} }
func ref(s string) *E           { return &E{K: "ref", V: s} }
func neg(a *E) *E               { return &E{K: "neg", A: []*E{a}} }
func par(a *E) *E               { return &E{K: "par", A: []*E{a}} }
func bin(op string, a, b *E) *E { return &E{K: "bin", V: op, A: []*E{a, b}} }
func call(f string, a ...*E) *E { return &E{K: "call", V: f, A: a} }
func (e *E) isLeaf() bool       { return e.K == "num" || e.K == "str" || e.K == "bool" || e.K == "ref" }
func (e *E) clone() *E {
	c := &E{K: e.K, V: e.V}
	for _, a := range e.A {
		c.A = append(c.A, a.clone())
	}
	return c
}

// level is the binding level of the node in the legacy grammar (Excellent1.g4 lists the
// alternatives from tightest to loosest: call, negation, ^, * /, + -, comparison, equality, &).
func (e *E) level() int {
	switch e.K {
	case "neg":
		return 7
	case "bin":
		return opLevel(e.V)
	}
	return 8
}

func opLevel(op string) int {
	switch op {
	case "^":
		return 6
	case "*", "/":
		return 5
	case "+", "-":
		return 4
	case "<", "<=", ">", ">=":
		return 3
	case "=", "<>":
		return 2
	case "&":
		return 1
	}
	panic("unknown operator " + op)
}

func opClass(op string) string {
	switch opLevel(op) {
	case 6:
		return "exponent"
	case 5:
		return "multiplicative"
	case 4:
		return "additive"
	case 3:
		return "comparison"
	case 2:
		return "equality"
	}
	return "concatenation"
}

// fitsBare reports whether child may stand without parentheses as operand number pos of parent and
// still be parsed (by the legacy grammar: all binary operators left-associative) as that operand.
func fitsBare(parent *E, pos int, child *E) bool {
	switch parent.K {
	case "call", "par":
		return true
	case "neg":
		return child.level() >= 7
	case "bin":
		l := opLevel(parent.V)
		if pos == 0 {
			return child.level() >= l
		}
		return child.level() > l
	}
	return false
}

// Text prints the expression in legacy syntax exactly as built (no parentheses are invented: the
// enumerator only builds trees whose text parses back to the same tree, which selfCheck verifies
// against the generated Excellent1 parser).
func (e *E) Text() string {
	var sb strings.Builder
	e.write(&sb)
	return sb.String()
}

func (e *E) write(sb *strings.Builder) {
	switch e.K {
	case "num", "str", "bool", "ref":
		sb.WriteString(e.V)
	case "neg":
		sb.WriteString("-")
		e.A[0].write(sb)
	case "par":
		sb.WriteString("(")
		e.A[0].write(sb)
		sb.WriteString(")")
	case "bin":
		e.A[0].write(sb)
		sb.WriteString(" " + e.V + " ")
		e.A[1].write(sb)
	case "call":
		sb.WriteString(e.V + "(")
		for i, a := range e.A {
			if i > 0 {
				sb.WriteString(", ")
			}
			a.write(sb)
		}
		sb.WriteString(")")
	}
}

// Sexp is a structural rendering used to compare with the generated parser's tree.
func (e *E) Sexp() string {
	switch e.K {
	case "num", "str", "bool", "ref":
		return e.V
	case "neg":
		return "(neg " + e.A[0].Sexp() + ")"
	case "par":
		return "(par " + e.A[0].Sexp() + ")"
	case "bin":
		return "(" + e.V + " " + e.A[0].Sexp() + " " + e.A[1].Sexp() + ")"
	}
	parts := []string{"call", strings.ToUpper(e.V)}
	for _, a := range e.A {
		parts = append(parts, a.Sexp())
	}
	return "(" + strings.Join(parts, " ") + ")"
}

// name of the construct at the root, used in signature keys
func (e *E) construct() string {
	switch e.K {
	case "call":
		return strings.ToLower(e.V)
	case "bin":
		switch e.V {
		case "+":
			return "add"
		case "-":
			return "subtract"
		case "*":
			return "multiply"
		case "/":
			return "divide"
		case "^":
			return "exponent"
		case "&":
			return "concat-operator"
		case "=":
			return "equals"
		case "<>":
			return "not-equals"
		}
		return "compare"
	case "neg":
		return "negation"
	case "par":
		return "parentheses"
	}
	return e.K
}

type errListener struct {
	*antlr.DefaultErrorListener
	n int
}

func (l *errListener) SyntaxError(recognizer antlr.Recognizer, offendingSymbol any, line, column int, msg string, e antlr.RecognitionException) {
	l.n++
}

// parseLegacy parses text with the generated Excellent1 parser (the legacy grammar is the
// specification of the legacy syntax) and returns the tree's structural rendering.
func parseLegacy(text string) (string, bool) {
	input := antlr.NewInputStream(text)
	lexer := gen.NewExcellent1Lexer(input)
	el := &errListener{}
	lexer.RemoveErrorListeners()
	lexer.AddErrorListener(el)
	stream := antlr.NewCommonTokenStream(lexer, 0)
	p := gen.NewExcellent1Parser(stream)
	p.RemoveErrorListeners()
	p.AddErrorListener(el)
	tree := p.Parse()
	if el.n > 0 {
		return "", false
	}
	return treeSexp(tree), true
}

func treeSexp(t antlr.Tree) string {
	switch c := t.(type) {
	case *gen.ParseContext:
		return treeSexp(c.Expression())
	case *gen.FunctionCallContext:
		parts := []string{"call", strings.ToUpper(c.Fnname().GetText())}
		if c.Parameters() != nil {
			for _, x := range c.Parameters().(*gen.FunctionParametersContext).AllExpression() {
				parts = append(parts, treeSexp(x))
			}
		}
		return "(" + strings.Join(parts, " ") + ")"
	case *gen.NegationContext:
		return "(neg " + treeSexp(c.Expression()) + ")"
	case *gen.ParenthesesContext:
		return "(par " + treeSexp(c.Expression()) + ")"
	case *gen.ExponentExpressionContext:
		return "(^ " + treeSexp(c.Expression(0)) + " " + treeSexp(c.Expression(1)) + ")"
	case *gen.MultiplicationOrDivisionExpressionContext:
		return "(" + c.GetOp().GetText() + " " + treeSexp(c.Expression(0)) + " " + treeSexp(c.Expression(1)) + ")"
	case *gen.AdditionOrSubtractionExpressionContext:
		return "(" + c.GetOp().GetText() + " " + treeSexp(c.Expression(0)) + " " + treeSexp(c.Expression(1)) + ")"
	case *gen.ComparisonExpressionContext:
		return "(" + c.GetOp().GetText() + " " + treeSexp(c.Expression(0)) + " " + treeSexp(c.Expression(1)) + ")"
	case *gen.EqualityExpressionContext:
		return "(" + c.GetOp().GetText() + " " + treeSexp(c.Expression(0)) + " " + treeSexp(c.Expression(1)) + ")"
	case *gen.ConcatenationContext:
		return "(& " + treeSexp(c.Expression(0)) + " " + treeSexp(c.Expression(1)) + ")"
	case *gen.StringLiteralContext:
		return c.GetText()
	case *gen.DecimalLiteralContext:
		return c.GetText()
	case *gen.TrueContext:
		return c.GetText()
	case *gen.FalseContext:
		return c.GetText()
	case *gen.ContextReferenceContext:
		return c.GetText()
	}
	return fmt.Sprintf("<%T>", t)
}
