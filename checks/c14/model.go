package c14

import (
	"fmt"
	"strings"
	"unicode"
	"unicode/utf8"

	"github.com/nyaruka/goflow/assets"
	"github.com/nyaruka/goflow/assets/static"
	"github.com/nyaruka/goflow/contactql"
	"github.com/nyaruka/goflow/envs"
)

// Cfg is one of the four parse configurations: redaction policy x resolver.
type Cfg struct {
	Redact   bool `json:"redact_urns"`
	Resolver bool `json:"resolver"`
}

func (c Cfg) String() string {
	s := "policy=none"
	if c.Redact {
		s = "policy=urns"
	}
	if c.Resolver {
		return s + ",resolver=mock"
	}
	return s + ",resolver=nil"
}

var allCfgs = []Cfg{{false, false}, {false, true}, {true, false}, {true, true}}

var (
	envNone = envs.NewBuilder().WithDefaultCountry("RW").Build()
	envURNs = envs.NewBuilder().WithDefaultCountry("RW").WithRedactionPolicy(envs.RedactionPolicyURNs).Build()
	mock    = contactql.NewMockResolver(
		[]assets.Field{
			static.NewField("f1b5aea6-6586-41c7-9020-1a6326cc6565", "age", "Age", assets.FieldTypeNumber),
			static.NewField("d66a7823-eada-40e5-9a3a-57239d4690bf", "gender", "Gender", assets.FieldTypeText),
			static.NewField("85baf5e1-b57a-46dc-a726-a84e8c4229c7", "dob", "DOB", assets.FieldTypeDatetime),
		},
		[]assets.Flow{static.NewFlow("f87fd7cd-e501-4394-9cff-62309af85138", "Registration", []byte(`{}`))},
		[]assets.Group{static.NewGroup("a9b5b0a0-1098-4bc2-8384-eea09ae43e6b", "Testers", "")},
	)
)

func (c Cfg) env() envs.Environment {
	if c.Redact {
		return envURNs
	}
	return envNone
}

func (c Cfg) resolver() contactql.Resolver {
	if c.Resolver {
		return mock
	}
	return nil
}

func (c Cfg) parse(text string) (*contactql.ContactQuery, error) {
	return contactql.ParseQuery(c.env(), text, c.resolver())
}

func errCode(err error) string {
	if isQ, qerr := contactql.IsQueryError(err); isQ {
		return qerr.(*contactql.QueryError).Code()
	}
	return "error"
}

// Node is a JSON-able query tree: what a query is, structurally (conditions, operators, values and
// boolean structure). It is both the specification of constructed queries and the form in which
// parsed queries are compared.
type Node struct {
	Op   string  `json:"op,omitempty"` // and | or ; "" = condition
	Kids []*Node `json:"kids,omitempty"`
	PT   string  `json:"type,omitempty"`
	Key  string  `json:"key,omitempty"`
	Oper string  `json:"operator,omitempty"`
	Val  string  `json:"value"`
}

func cond(pt, key, oper, val string) *Node { return &Node{PT: pt, Key: key, Oper: oper, Val: val} }
func comb(op string, kids ...*Node) *Node  { return &Node{Op: op, Kids: kids} }

// fromQuery converts a library tree into a Node.
func fromQuery(n contactql.QueryNode) *Node {
	switch t := n.(type) {
	case *contactql.Condition:
		return cond(string(t.PropertyType()), t.PropertyKey(), string(t.Operator()), t.Value())
	case *contactql.BoolCombination:
		out := &Node{Op: string(t.Operator())}
		for _, k := range t.Children() {
			out.Kids = append(out.Kids, fromQuery(k))
		}
		return out
	}
	return nil
}

// build constructs the tree with the library's constructors.
func (n *Node) build() contactql.QueryNode {
	if n.Op == "" {
		return contactql.NewCondition(contactql.PropertyType(n.PT), n.Key, contactql.Operator(n.Oper), n.Val)
	}
	kids := make([]contactql.QueryNode, len(n.Kids))
	for i, k := range n.Kids {
		kids[i] = k.build()
	}
	return contactql.NewBoolCombination(contactql.BoolOperator(n.Op), kids...)
}

// normal is the reference normal form of a constructed tree: single-child combinations are
// replaced by their child and a combination nested directly in one with the same operator is
// merged into it (associativity). It is what the parser's tree of the formatted text must equal;
// for a tree already in this form it is the identity.
func (n *Node) normal() *Node {
	if n.Op == "" {
		return n
	}
	out := &Node{Op: n.Op}
	for _, k := range n.Kids {
		nk := k.normal()
		if nk.Op == n.Op {
			out.Kids = append(out.Kids, nk.Kids...)
		} else {
			out.Kids = append(out.Kids, nk)
		}
	}
	if len(out.Kids) == 1 {
		return out.Kids[0]
	}
	return out
}

func (n *Node) isNormal() bool { return diff(n, n.normal()) == "" }

func (n *Node) String() string {
	if n == nil {
		return "<nil>"
	}
	if n.Op == "" {
		return fmt.Sprintf("%s.%s %s %q", n.PT, n.Key, n.Oper, n.Val)
	}
	parts := make([]string, len(n.Kids))
	for i, k := range n.Kids {
		parts[i] = k.String()
	}
	return n.Op + "(" + strings.Join(parts, ", ") + ")"
}

// shape is the boolean structure without the conditions' content.
func (n *Node) shape() string {
	if n == nil {
		return "nil"
	}
	if n.Op == "" {
		return "c"
	}
	parts := make([]string, len(n.Kids))
	for i, k := range n.Kids {
		parts[i] = k.shape()
	}
	return n.Op + "(" + strings.Join(parts, ",") + ")"
}

func (n *Node) conds(out []*Node) []*Node {
	if n == nil {
		return out
	}
	if n.Op == "" {
		return append(out, n)
	}
	for _, k := range n.Kids {
		out = k.conds(out)
	}
	return out
}

// diff compares two trees structurally and names the first kind of difference:
// "" (identical), structure, property, operator, value.
func diff(a, b *Node) string {
	if a == nil || b == nil {
		if a == b {
			return ""
		}
		return "structure"
	}
	if a.shape() != b.shape() {
		return "structure"
	}
	ca, cb := a.conds(nil), b.conds(nil)
	for i := range ca {
		switch {
		case ca[i].PT != cb[i].PT || ca[i].Key != cb[i].Key:
			return "property"
		case ca[i].Oper != cb[i].Oper:
			return "operator"
		case ca[i].Val != cb[i].Val:
			return "value"
		}
	}
	return ""
}

// condDelta says how the number of conditions changed (for injection keys).
func condDelta(want, got *Node) string {
	w, g := len(want.conds(nil)), len(got.conds(nil))
	switch {
	case g > w:
		return "conditions-added"
	case g < w:
		return "conditions-dropped"
	}
	return "conditions-altered"
}

// charClasses names the single most quoting-relevant class of characters a value contains (for
// signature keys: the class of inputs, never the input; one label per value keeps the key domain
// small).
func charClasses(v string) string {
	if v == "" {
		return "empty"
	}
	has := map[string]bool{}
	for _, r := range v {
		switch {
		case r == '"':
			has["quote"] = true
		case r == '\\':
			has["backslash"] = true
		case r == ' ' || r == '\t':
			has["space"] = true
		case r == '(' || r == ')':
			has["paren"] = true
		case strings.ContainsRune("=!~<>", r):
			has["operator"] = true
		case r == utf8.RuneError:
			has["invalid-utf8"] = true
		case r < 0x20 || r == 0x7f || !unicode.IsPrint(r):
			has["unprintable"] = true
		case r > 0x7f:
			has["non-ascii"] = true
		case r >= '0' && r <= '9':
			has["digit"] = true
		default:
			has["plain"] = true
		}
	}
	switch {
	case has["invalid-utf8"]:
		return "invalid-utf8"
	case has["unprintable"]:
		return "unprintable"
	case has["quote"] && has["backslash"]:
		return "quote+backslash"
	case has["backslash"]:
		return "backslash"
	case has["quote"]:
		return "quote"
	case strings.TrimSpace(v) != v:
		return "leading-or-trailing-space"
	case has["space"]:
		return "inner-space"
	case has["paren"]:
		return "paren"
	case has["operator"]:
		return "operator"
	case has["non-ascii"]:
		return "non-ascii"
	case has["digit"] && !has["plain"]:
		return "digits"
	}
	return "plain"
}

// backslashTailBeforeQuote recognises, in a query text whose literals are well-formed Go-style quoted
// strings (formatted or escaped output), the shape of the known STRING-lexer defect: a quoted literal
// whose body ends in an escaped backslash, with another quote character later in the text.
func backslashTailBeforeQuote(text string) bool {
	i := 0
	for i < len(text) {
		if text[i] != '"' {
			i++
			continue
		}
		// scan the literal body honouring backslash escapes
		j := i + 1
		lastPairIsBackslash := false
		closed := false
		for j < len(text) {
			if text[j] == '\\' && j+1 < len(text) {
				lastPairIsBackslash = text[j+1] == '\\'
				j += 2
				continue
			}
			if text[j] == '"' {
				closed = true
				break
			}
			lastPairIsBackslash = false
			j++
		}
		if !closed {
			return false
		}
		if lastPairIsBackslash && strings.Contains(text[j+1:], `"`) {
			return true
		}
		i = j + 1
	}
	return false
}

// quotedWhenFormatted mirrors the documented formatting rule: plain decimals are written bare.
func quotedWhenFormatted(v string) bool {
	if v == "" {
		return true
	}
	dot := false
	digitsAfter, digitsBefore := 0, 0
	for _, r := range v {
		switch {
		case r >= '0' && r <= '9':
			if dot {
				digitsAfter++
			} else {
				digitsBefore++
			}
		case r == '.' && !dot:
			dot = true
		default:
			return true
		}
	}
	if digitsBefore == 0 || (dot && digitsAfter == 0) {
		return true
	}
	return false
}

func values(n *Node) []string {
	var vs []string
	for _, c := range n.conds(nil) {
		vs = append(vs, c.Val)
	}
	return vs
}

// feature is the root-cause part of a signature key for a failing query text and its focus value.
func feature(text string, focus string) string {
	if backslashTailBeforeQuote(text) {
		return "backslash-tail-before-quoted-value"
	}
	return "chars=" + charClasses(focus)
}

// worstValue picks the value most likely to matter for quoting (used as focus when a case has no
// designated focus value).
func worstValue(vals []string) string {
	rank := map[string]int{"invalid-utf8": 12, "unprintable": 11, "quote+backslash": 10, "backslash": 9, "quote": 8, "leading-or-trailing-space": 7,
		"inner-space": 6, "paren": 5, "operator": 4, "non-ascii": 3, "digits": 2, "plain": 1, "empty": 0}
	best, bestN := "", -1
	for _, v := range vals {
		if n := rank[charClasses(v)]; n > bestN {
			best, bestN = v, n
		}
	}
	return best
}
