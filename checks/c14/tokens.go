package c14

import (
	"strings"

	"github.com/antlr4-go/antlr/v4"
	gen "github.com/nyaruka/goflow/antlr/gen/contactql"
)

// The token alphabet of part (i): properties (attribute, prefixed field, prefixed and bare URN
// scheme, date attribute), all comparators and both aliases, both boolean keywords, parentheses and
// bare/quoted literals incl. a quoted literal with an escaped quote and a trailing escaped backslash.
var tokenAlphabet = []string{
	"name", "fields.age", "urns.tel", "tel", "created_on",
	"=", "!=", "~", ">", "<", ">=", "<=", "has", "is",
	"AND", "or", "(", ")",
	"bob", "12", `"a b"`, `"q\"\\"`, `""`, "+250788123123", "01-02-2020",
}

// phoneLike: ParseQuery rewrites a text that is a phone number as a tel condition before parsing, so
// syntax alone does not decide acceptance for texts made only of these characters.
func phoneLike(text string) bool {
	for _, r := range text {
		if !strings.ContainsRune("+0123456789 .-()", r) {
			return false
		}
	}
	return true
}

type firstError struct {
	antlr.DefaultErrorListener
	seen  bool
	atEOF bool
	start int
}

func (l *firstError) SyntaxError(recognizer antlr.Recognizer, offendingSymbol any, line, column int, msg string, e antlr.RecognitionException) {
	if l.seen {
		return
	}
	l.seen = true
	if tok, ok := offendingSymbol.(antlr.Token); ok && tok != nil {
		l.atEOF = tok.GetTokenType() == antlr.TokenEOF
		l.start = tok.GetStart()
	} else {
		l.start = column
	}
}

// syntaxProbe runs the generated lexer and parser (the same ones ParseQuery uses) on the text and
// reports the first syntax error: none, at end of input, or at the token starting at byte offset.
func syntaxProbe(text string) (ok bool, atEOF bool, at int) {
	l := &firstError{}
	input := antlr.NewInputStream(text)
	lexer := gen.NewContactQLLexer(input)
	lexer.RemoveErrorListeners()
	stream := antlr.NewCommonTokenStream(lexer, 0)
	p := gen.NewContactQLParser(stream)
	p.RemoveErrorListeners()
	p.AddErrorListener(l)
	p.Parse()
	// offsets reported by the token are rune offsets of the input stream; the alphabet is ASCII
	return !l.seen, l.atEOF, l.start
}

// stableLimit is the offset before which the token stream of the text cannot be changed by appending
// more tokens: lexing is left-to-right, tokens other than STRING cannot contain a space, and a STRING
// token can only be extended when its closing quote follows a backslash (the closing quote is then
// re-read as an escaped quote if another quote comes later).
func stableLimit(text string) int {
	if i := strings.Index(text, `\"`); i >= 0 {
		// start of the literal containing it
		if j := strings.LastIndex(text[:i], " "); j >= 0 {
			return j + 1
		}
		return 0
	}
	return len(text)
}

// deadPrefix reports whether no extension of the text by further space-separated tokens can be
// accepted: the parser reported its first syntax error at a token that is not the end of input and
// that lies in the stable part of the text, and the text cannot become a phone number.
func deadPrefix(text string) bool {
	ok, atEOF, at := syntaxProbe(text)
	if ok || atEOF {
		return false
	}
	if phoneLike(text) {
		return false
	}
	return at < stableLimit(text)
}
