// Package c14: (not built yet)
package c14
