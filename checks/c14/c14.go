// Package c14: contact queries round-trip through text and cannot be injected into.
//
// (i)   every token sequence up to a length over a 25-token alphabet, in four parse configurations:
//
//	whenever the real parser accepts q, Parse(Parse(q).String()) must be accepted and be
//	structurally identical to Parse(q);
//
// (ii)  queries built with NewCondition/NewBoolCombination over all tree shapes of depth <= 2 with
//
//	every string up to a length over an adversarial alphabet as a condition value at every
//	position: Parse(Stringify(n)) must be accepted and equal n (up to associativity flattening
//	and unwrapping of single-child combinations for trees not already in that form);
//
// (iii) contact-query templates evaluated by the real template evaluator with the engine's
//
//	ContactQueryEscaping for all such values: the parsed result must have exactly the template's
//	structure with the substituted values as the literals;
//
// (iv)  the same through a real session running start_session and send_broadcast actions.
package c14

import (
	"encoding/json"
	"fmt"
	"strings"
	"time"

	"github.com/nyaruka/gocommon/dates"
	"verif/mc"
)

type group struct {
	name string
	gen  func(c *mc.Ctx, emit func(*Case))
}

// ---- value alphabets ----------------------------------------------------------------------------

var symbolNames = map[string]string{`"`: "quote", `\`: "backslash", ` `: "space", `a`: "a", `O`: "O", `R`: "R", `(`: "lparen", `)`: "rparen", `=`: "eq", `1`: "1",
	`é`: "e-acute", "\n": "newline", "😀": "emoji", `'`: "apostrophe", `~`: "tilde", "“": "left-curly-quote", "”": "right-curly-quote"}

var sigma = []string{`"`, `\`, ` `, `a`, `O`, `R`, `(`, `)`, `=`, `1`, `é`}
var sigmaPlus = append(append([]string{}, sigma...), "\n", "😀", `'`, `~`, "“", "”")

// stringsUpTo enumerates every string of at most n symbols over the alphabet whose first symbol
// index is congruent to the given residue (for sharding), or all when mod <= 1.
func stringsUpTo(alpha []string, n int, visit func(s string)) {
	var rec func(prefix string, depth int)
	rec = func(prefix string, depth int) {
		visit(prefix)
		if depth == n {
			return
		}
		for _, a := range alpha {
			rec(prefix+a, depth+1)
		}
	}
	rec("", 0)
}

func allStrings(alpha []string, n int) []string {
	var out []string
	stringsUpTo(alpha, n, func(s string) { out = append(out, s) })
	return out
}

// ---- part (i) -----------------------------------------------------------------------------------

type tokenParams struct {
	maxLen   int // sequences up to this length
	unpruned int // all sequences up to this length are visited, pruned or not (validates the pruning)
	fullCfgs int // sequences up to this length are parsed under all four configurations, longer ones under the two diagonal ones
	alphabet []string
	minVisit int    // only sequences of at least this length are evaluated (shorter ones belong to another enumeration)
	label    string // group name prefix
}

var diagonalCfgs = []Cfg{{false, false}, {true, true}}

// groupPrefixLen: token sequences are sharded by their first three tokens; a shorter sequence is
// owned by the group whose remaining prefix tokens all have index 0.
const groupPrefixLen = 3

func tokenGroups(tp tokenParams) []group {
	var gs []group
	tokenAlphabet := tp.alphabet
	n := len(tokenAlphabet)
	total := 1
	for k := 0; k < groupPrefixLen; k++ {
		total *= n
	}
	for g := 0; g < total; g++ {
		prefix := make([]int, groupPrefixLen)
		for k, x := groupPrefixLen-1, g; k >= 0; k-- {
			prefix[k] = x % n
			x /= n
		}
		gs = append(gs, group{"text" + tp.label + "/" + fmt.Sprint(prefix), func(c *mc.Ctx, emit func(*Case)) {
			e := &tokenEnum{c: c, emit: emit, tp: tp}
			text := ""
			dead := false
			for k := 1; k <= groupPrefixLen && k <= tp.maxLen; k++ {
				if k > 1 {
					text += " "
				}
				text += tokenAlphabet[prefix[k-1]]
				owner := true
				for _, x := range prefix[k:] {
					if x != 0 {
						owner = false
					}
				}
				if k == groupPrefixLen {
					e.dfs(text, prefix, dead)
					return
				}
				if owner {
					e.visit(text, prefix[:k], dead)
				}
				if k >= tp.maxLen {
					return
				}
				dead = dead || deadPrefix(text)
				if dead && k >= tp.unpruned {
					if owner {
						c.Inc("text:prefixes_pruned")
					}
					return
				}
			}
		}})
	}
	return gs
}

// designTokens: the 23 tokens of the design (the full alphabet without the comparators "<" and ">=").
func designTokens() []string {
	var out []string
	for _, t := range tokenAlphabet {
		if t != "<" && t != ">=" {
			out = append(out, t)
		}
	}
	return out
}

type tokenEnum struct {
	c    *mc.Ctx
	emit func(*Case)
	tp   tokenParams
}

// visit evaluates one token sequence: ParseQuery under the first configuration always; under the
// other three unless the first one failed with a syntax error on a text that cannot be a phone
// number (syntax does not depend on the configuration).
func (e *tokenEnum) visit(text string, seq []int, dead bool) {
	if len(seq) < e.tp.minVisit {
		return
	}
	e.c.Inc("text:sequences")
	cfgs := allCfgs
	if len(seq) > e.tp.fullCfgs {
		cfgs = diagonalCfgs
	}
	for ci, cfg := range cfgs {
		cs := &Case{Kind: "text", Cfg: cfg, Query: text}
		o := &obs{}
		var ps []Problem
		if pnc := mc.Guard(func() { ps = check(cs, o) }); pnc != "" {
			ps = append(ps, Problem{Key: "harness:panic:" + mc.PanicSite(pnc), What: pnc})
		}
		if o.accepted {
			for _, t := range seq {
				o.fact("tok:" + e.tp.alphabet[t])
			}
			o.fact(fmt.Sprintf("text:accepted-length:%d", len(seq)))
			if len(seq) >= 4 && e.c.WantSample() && strings.Contains(text, `"`) && strings.Contains(text, "(") {
				e.c.Sample(cs)
			}
			if dead {
				ps = append(ps, Problem{Key: "harness:pruning-unsound", What: fmt.Sprintf("%q (%s) is accepted although a proper prefix was classified as dead", text, cfg)})
			}
		}
		record(e.c, cs, o, ps)
		if ci == 0 && o.reject == "syntax" && !phoneLike(text) {
			break
		}
	}
}

func (e *tokenEnum) dfs(text string, seq []int, deadAncestor bool) {
	if e.c.Expired() {
		e.c.Cap("time budget reached inside the token-sequence enumeration")
		return
	}
	e.visit(text, seq, deadAncestor)
	if len(seq) >= e.tp.maxLen {
		return
	}
	dead := deadAncestor || deadPrefix(text)
	if dead && len(seq) >= e.tp.unpruned {
		e.c.Inc("text:prefixes_pruned")
		return
	}
	for t, tok := range e.tp.alphabet {
		e.dfs(text+" "+tok, append(seq[:len(seq):len(seq)], t), dead)
	}
}

// ---- part (ii) ----------------------------------------------------------------------------------

// leafKinds: property/operator given to the i-th condition of a constructed tree (all accept any
// text value under all four configurations).
var leafKinds = [][3]string{
	{"attr", "name", "="}, {"field", "gender", "!="}, {"urn", "tel", "="}, {"attr", "name", "!="}, {"field", "gender", "="}, {"urn", "twitter", "!="},
	{"attr", "name", "="}, {"field", "gender", "!="}, {"urn", "tel", "="},
}

// shapes enumerates the boolean structures of depth <= 2: a condition; or a combination of 1..3
// children, each a condition or a combination (either operator) of 1..2 conditions.
func shapes() []*Node {
	kidOptions := []*Node{{}}
	for _, op := range []string{"and", "or"} {
		kidOptions = append(kidOptions, comb(op, &Node{}), comb(op, &Node{}, &Node{}))
	}
	out := []*Node{{}}
	for _, op := range []string{"and", "or"} {
		for _, a := range kidOptions {
			out = append(out, comb(op, a))
			for _, b := range kidOptions {
				out = append(out, comb(op, a, b))
				for _, d := range kidOptions {
					out = append(out, comb(op, a, b, d))
				}
			}
		}
	}
	return out
}

// selectedShapes: the structures on which the longest values are tried.
func selectedShapes() []*Node {
	c := func() *Node { return &Node{} }
	return []*Node{
		c(),
		comb("and", c(), c()),
		comb("or", c(), c(), c()),
		comb("or", comb("and", c(), c()), c()),
		comb("and", c(), comb("or", c(), c())),
		comb("or", comb("and", c(), c()), comb("and", c(), c())),
		comb("and", comb("and", c(), c()), c()), // flattened by the parser
		comb("or", comb("or", c())),             // single children
	}
}

// instantiate copies a shape, giving the i-th condition its property/operator and value.
func instantiate(shape *Node, vals func(i int) string) *Node {
	i := 0
	var rec func(n *Node) *Node
	rec = func(n *Node) *Node {
		if n.Op == "" {
			k := leafKinds[i%len(leafKinds)]
			out := cond(k[0], k[1], k[2], vals(i))
			i++
			return out
		}
		out := &Node{Op: n.Op}
		for _, kid := range n.Kids {
			out.Kids = append(out.Kids, rec(kid))
		}
		return out
	}
	return rec(shape)
}

func leafCount(n *Node) int { return len(n.conds(nil)) }

var contextValues = []string{"b", "7"}

// constructedGroups: values x shapes x focus position x context value x configuration.
func constructedGroups(name string, shapeList []*Node, alpha []string, maxLen int, cfgs []Cfg) []group {
	var gs []group
	for si, sh := range shapeList {
		si, sh := si, sh
		for ai := range alpha {
			ai := ai
			gs = append(gs, group{fmt.Sprintf("%s/shape%d/%s", name, si, sh.shape()), func(c *mc.Ctx, emit func(*Case)) {
				visit := func(v string) {
					for f := 0; f < leafCount(sh); f++ {
						for _, ctxv := range contextValues {
							tree := instantiate(sh, func(i int) string {
								if i == f {
									return v
								}
								return ctxv
							})
							for _, cfg := range cfgs {
								emit(&Case{Kind: "constructed", Cfg: cfg, Tree: tree, Focus: f})
							}
						}
					}
				}
				// this group owns the values starting with alpha[ai]; the empty value rides with ai == 0
				if ai == 0 {
					visit("")
				}
				stringsUpTo(alpha, maxLen-1, func(s string) { visit(alpha[ai] + s) })
			}})
		}
	}
	return gs
}

// pairGroups: two adversarial values in one constructed query.
func constructedPairGroups(alpha []string, maxLen int, cfgs []Cfg) []group {
	c := func() *Node { return &Node{} }
	type pairShape struct {
		sh   *Node
		a, b int
	}
	pss := []pairShape{
		{comb("and", c(), c()), 0, 1},
		{comb("or", comb("and", c(), c()), c()), 0, 2},
		{comb("or", comb("and", c(), c()), c()), 1, 2},
		{comb("or", c(), c(), c()), 0, 2},
		{comb("and", c(), comb("or", c(), c())), 1, 2},
	}
	vals := allStrings(alpha, maxLen)
	var gs []group
	for pi, ps := range pss {
		ps := ps
		for vi, v := range vals {
			v := v
			gs = append(gs, group{fmt.Sprintf("constructed-pairs/%d/%d", pi, vi), func(c *mc.Ctx, emit func(*Case)) {
				for _, w := range vals {
					tree := instantiate(ps.sh, func(i int) string {
						switch i {
						case ps.a:
							return v
						case ps.b:
							return w
						}
						return "b"
					})
					for _, cfg := range cfgs {
						emit(&Case{Kind: "constructed", Cfg: cfg, Tree: tree, Focus: -1})
					}
				}
			}})
		}
	}
	return gs
}

// ---- part (iii) ---------------------------------------------------------------------------------

func templateGroups(alpha []string, maxLen int, cfgs []Cfg) []group {
	var gs []group
	for ti, tpl := range templates {
		ti, tpl := ti, tpl
		for ai := range alpha {
			ai := ai
			gs = append(gs, group{fmt.Sprintf("template/%d/%s", ti, alpha[ai]), func(c *mc.Ctx, emit func(*Case)) {
				visit := func(v string) {
					for _, cfg := range cfgs {
						if !tpl.two {
							emit(&Case{Kind: "template", Cfg: cfg, Template: ti, V: v})
							// the same value reached through an object with a default (the short form
							// @results.answer instead of @results.answer.value) and through an array
							emit(&Case{Kind: "template", Cfg: cfg, Template: ti, V: v, Holder: "object"})
							emit(&Case{Kind: "template", Cfg: cfg, Template: ti, V: v, Holder: "array"})
							continue
						}
						for _, ctxv := range contextValues {
							emit(&Case{Kind: "template", Cfg: cfg, Template: ti, V: v, W: ctxv})
							emit(&Case{Kind: "template", Cfg: cfg, Template: ti, V: ctxv, W: v})
						}
					}
				}
				if ai == 0 {
					visit("")
				}
				stringsUpTo(alpha, maxLen-1, func(s string) { visit(alpha[ai] + s) })
			}})
		}
	}
	return gs
}

func templatePairGroups(kind string, alpha []string, maxLen int, cfgs []Cfg) []group {
	vals := allStrings(alpha, maxLen)
	var gs []group
	for vi, v := range vals {
		v := v
		gs = append(gs, group{fmt.Sprintf("%s-pairs/%d", kind, vi), func(c *mc.Ctx, emit func(*Case)) {
			for _, w := range vals {
				for ti, tpl := range templates {
					if !tpl.two && w != "" {
						continue
					}
					for _, cfg := range cfgs {
						emit(&Case{Kind: kind, Cfg: cfg, Template: ti, V: v, W: w})
					}
				}
			}
		}})
	}
	return gs
}

// ---- tiers ---------------------------------------------------------------------------------------

func allGroups(tier string) []group {
	var gs []group
	twoCfgs := diagonalCfgs
	if tier == "thorough" {
		// all 25 tokens up to length 5 under all four configurations, and length 6 over the 23 design
		// tokens under the diagonal configurations (shorter sequences over 23 tokens are a subset of the former)
		gs = append(gs, tokenGroups(tokenParams{maxLen: 5, unpruned: 4, fullCfgs: 5, alphabet: tokenAlphabet})...)
		gs = append(gs, tokenGroups(tokenParams{maxLen: 6, unpruned: 0, fullCfgs: 0, alphabet: designTokens(), minVisit: 6, label: "6"})...)
		gs = append(gs, constructedGroups("constructed-long", selectedShapes(), sigma, 5, twoCfgs)...)
		gs = append(gs, constructedGroups("constructed-all-shapes", shapes(), sigmaPlus, 2, allCfgs)...)
		gs = append(gs, constructedGroups("constructed-all-shapes-3", shapes(), sigma, 3, twoCfgs)...)
		gs = append(gs, constructedPairGroups(sigmaPlus, 2, allCfgs)...)
		gs = append(gs, constructedPairGroups(sigma, 3, twoCfgs[:1])...)
		gs = append(gs, templateGroups(sigma, 5, twoCfgs)...)
		gs = append(gs, templatePairGroups("template", sigmaPlus, 2, allCfgs)...)
		gs = append(gs, templatePairGroups("template", sigma, 3, twoCfgs[:1])...)
		gs = append(gs, templatePairGroups("engine", sigmaPlus, 2, twoCfgs)...)
		return gs
	}
	gs = append(gs, tokenGroups(tokenParams{maxLen: 5, unpruned: 3, fullCfgs: 4, alphabet: designTokens()})...)
	gs = append(gs, constructedGroups("constructed-long", selectedShapes(), sigma, 4, twoCfgs)...)
	gs = append(gs, constructedGroups("constructed-all-shapes", shapes(), sigmaPlus, 2, twoCfgs)...)
	gs = append(gs, constructedPairGroups(sigmaPlus, 2, allCfgs)...)
	gs = append(gs, templateGroups(sigma, 4, twoCfgs)...)
	gs = append(gs, templatePairGroups("template", sigmaPlus, 2, allCfgs)...)
	gs = append(gs, templatePairGroups("engine", sigmaPlus, 1, twoCfgs)...)
	return gs
}

// ---- run ----------------------------------------------------------------------------------------

func record(c *mc.Ctx, cs *Case, o *obs, ps []Problem) {
	c.Add("evaluations", int64(o.parses))
	c.Inc("cases:" + cs.Kind)
	if o.accepted {
		c.Inc("distinct_nontrivial")
		c.Inc("accepted:" + cs.Kind)
	} else if o.reject != "" {
		c.Inc("rejected:" + cs.Kind)
		c.Outcome("reject:" + cs.Kind + ":" + o.reject)
	}
	for _, f := range o.facts {
		c.Fact(f)
	}
	if cs.Kind != "text" && o.accepted {
		// per-symbol hit counts of the substituted / focus values
		for _, v := range []string{cs.V, cs.W, focusValue(cs)} {
			for _, r := range v {
				if n, ok := symbolNames[string(r)]; ok {
					c.Fact("sym:" + n)
				}
			}
		}
	}
	if o.outcome != "" {
		c.Outcome(o.outcome)
	}
	for _, p := range ps {
		c.Violation(p.Key, p.What, cs)
	}
}

func focusValue(cs *Case) string {
	if cs.Tree == nil || cs.Focus < 0 {
		return ""
	}
	conds := cs.Tree.conds(nil)
	if cs.Focus < len(conds) {
		return conds[cs.Focus].Val
	}
	return ""
}

func run(c *mc.Ctx) {
	dates.SetNowFunc(dates.NewFixedNow(time.Date(2025, 5, 4, 12, 30, 45, 0, time.UTC)))
	gs := allGroups(c.Tier)
	off := 0
	if len(gs) > 0 {
		off = int(uint64(c.Seed) % uint64(len(gs)))
	}
	for k := range gs {
		i := (k + off) % len(gs)
		if !c.Mine(i) {
			continue
		}
		if c.Expired() {
			c.Cap("time budget reached; every group (token-sequence prefix, or shape/template x first value symbol) started before the cap was enumerated completely")
			break
		}
		nth := 0
		gs[i].gen(c, func(cs *Case) {
			if cs.Kind == "text" {
				return // text cases are evaluated and recorded by the enumerator itself
			}
			o := &obs{}
			var ps []Problem
			if pnc := mc.Guard(func() { ps = check(cs, o) }); pnc != "" {
				ps = append(ps, Problem{Key: "harness:panic:" + mc.PanicSite(pnc), What: pnc})
			}
			record(c, cs, o, ps)
			nth++
			if nth == 50 && c.WantSample() && i%7 == 5 {
				c.Sample(cs)
			}
		})
		c.Inc("groups")
	}
}

func replayFn(c *mc.Ctx, raw json.RawMessage) (string, bool) {
	dates.SetNowFunc(dates.NewFixedNow(time.Date(2025, 5, 4, 12, 30, 45, 0, time.UTC)))
	var cs Case
	if err := json.Unmarshal(raw, &cs); err != nil {
		return "bad replay: " + err.Error(), false
	}
	o := &obs{}
	var ps []Problem
	if pnc := mc.Guard(func() { ps = check(&cs, o) }); pnc != "" {
		ps = append(ps, Problem{Key: "harness:panic:" + mc.PanicSite(pnc), What: pnc})
	}
	out := fmt.Sprintf("case: %s\naccepted=%t reject=%q parses=%d\n", mc.JSON(cs), o.accepted, o.reject, o.parses)
	for _, p := range ps {
		out += fmt.Sprintf("PROBLEM %s\n  %s\n", p.Key, strings.ReplaceAll(p.What, "\n", "\n  "))
	}
	return out, len(ps) > 0
}

func guards(r *mc.Result, tier string) []string {
	var f []string
	need := func(fact string) {
		if r.Facts[fact] == 0 {
			f = append(f, "never observed: "+fact)
		}
	}
	toks := designTokens()
	if tier == "thorough" {
		toks = tokenAlphabet
	}
	for _, t := range toks {
		need("tok:" + t)
	}
	maxLen := 5
	if tier == "thorough" {
		maxLen = 6
	}
	for l := 1; l <= maxLen; l++ {
		need(fmt.Sprintf("text:accepted-length:%d", l))
	}
	for _, v := range []string{"value:ends-with-backslash", "value:contains-quote", "value:contains-backslash", "value:empty", "value:written-bare",
		"constructed:already-normal", "constructed:needs-flattening", "engine:start_session", "engine:send_broadcast"} {
		need(v)
	}
	for _, n := range symbolNames {
		need("sym:" + n)
	}
	for _, k := range []string{"text", "constructed", "template", "engine"} {
		if r.Counters["accepted:"+k] == 0 {
			f = append(f, "no accepted case of kind "+k)
		}
	}
	if r.Counters["rejected:text"] == 0 {
		f = append(f, "the parser never rejected a token sequence")
	}
	if r.Counters["text:prefixes_pruned"] == 0 {
		f = append(f, "prefix pruning never applied")
	}
	return f
}

func init() {
	mc.Register(&mc.Check{
		ID:    "C14",
		Level: "exploration",
		Rule: "every case runs the real contactql.ParseQuery / Condition.String / Stringify / excellent template evaluator with flows.ContactQueryEscaping / engine actions; configurations = 2 redaction policies x {no resolver, mock resolver} (4; 'diagonal' = the 2 that still vary both). " +
			"(i) every space-joined sequence of <= 5 tokens over 23 tokens (quick; 4 configurations up to length 4, diagonal at 5); thorough: <= 5 over 25 tokens under all 4 configurations plus length 6 over the 23 tokens under the diagonal ones: 5 properties, comparators = != ~ > <= (+ < >= thorough) and aliases has/is, AND, or, parentheses, 7 bare/quoted literals incl. one with an escaped quote and a trailing escaped backslash; subtrees are skipped only below prefixes the generated parser proves dead (first syntax error at a non-EOF token in the lexically stable part, text not phone-like), which is validated by visiting every sequence <= 3/4 regardless; each accepted query is formatted and re-parsed and the two trees are compared node by node; " +
			"(ii) NewCondition/NewBoolCombination trees: all 311 shapes of depth <= 2 (root arity 1-3; children: a condition or a 1-2-condition combination) x every string <= 2 over a 15-symbol alphabet (thorough also <= 3 over the 11-symbol one) as the value at every position x 2 context values; 8 selected shapes x every string <= 4/5 over the 11 symbols {\" \\ space a O R ( ) = 1 e-acute}; all pairs of strings <= 2 (thorough also <= 3, one configuration) at two positions of 5 shapes: Parse(Stringify(n)) must equal n's reference normal form (n itself when already flat); " +
			"(iii) 6 templates x the same values at each position with 2 context values, and all value pairs <= 2 (thorough also <= 3, one configuration), evaluated by the real template evaluator with the engine's escaping: the parsed text must be exactly the template's tree with the values as its literals; (iv) the same templates as contact_query of real start_session and send_broadcast actions in a real session for all value pairs <= 1/2 symbols. " +
			"distinct_nontrivial counts accepted (sequence, configuration) pairs, constructed queries and substituted templates (each a distinct tuple); evaluations counts ParseQuery calls.",
		Assumptions: []string{
			"bounded token alphabet, sequence length, value alphabet and value length as stated; values are valid UTF-8",
			"a 'valid query built programmatically' has property/operator combinations that admit any text value (text attribute, text field, URN scheme with = / !=) and no empty combination; single-child combinations and same-operator nesting are compared after flattening, since no parser output can contain them",
			"prefix pruning relies on the generated parser reporting its first syntax error at the earliest offending token; checked by brute force up to the unpruned length",
		},
		Run:    run,
		Replay: replayFn,
		Guards: guards,
		Budget: map[string]time.Duration{"quick": 6 * time.Minute, "thorough": 30 * time.Minute},
	})
}
