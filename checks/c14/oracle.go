package c14

import (
	"fmt"
	"strings"

	"github.com/nyaruka/goflow/contactql"
	"github.com/nyaruka/goflow/excellent"
	"github.com/nyaruka/goflow/excellent/types"
	"github.com/nyaruka/goflow/flows"
	"verif/mc"
)

// Case is one executable case and the replay artefact.
type Case struct {
	Kind string `json:"kind"` // text | constructed | template | engine
	Cfg  Cfg    `json:"cfg"`
	// text: the query text (token sequence joined by spaces)
	Query string `json:"query,omitempty"`
	// constructed: the tree built with NewCondition/NewBoolCombination; Focus = index of the
	// condition carrying the adversarial value (-1: none designated)
	Tree  *Node `json:"tree,omitempty"`
	Focus int   `json:"focus,omitempty"`
	// template, engine: index into templates and the two substituted values
	Template int    `json:"template,omitempty"`
	V        string `json:"v"`
	W        string `json:"w"`
	// Holder: "" = v is a text value in the context; "object" = an object whose default is v (like a
	// run result); "array" = a one-element array holding v
	Holder string `json:"holder,omitempty"`
}

// Problem is a failed oracle clause.
type Problem struct {
	Key  string
	What string
}

type obs struct {
	parses   int
	accepted bool
	reject   string
	facts    []string
	outcome  string
}

func (o *obs) fact(f string) { o.facts = append(o.facts, f) }

func guardedParse(cfg Cfg, text string, o *obs) (q *contactql.ContactQuery, err error, pnc string) {
	o.parses++
	pnc = mc.Guard(func() { q, err = cfg.parse(text) })
	return
}

// ---- (i) text round trip -------------------------------------------------------------------

func checkText(cs *Case, o *obs) []Problem {
	q1, err, pnc := guardedParse(cs.Cfg, cs.Query, o)
	if pnc != "" {
		return []Problem{{Key: "panic:parse:" + mc.PanicSite(pnc), What: fmt.Sprintf("ParseQuery panicked (%s): %q\n%s", cs.Cfg, cs.Query, pnc)}}
	}
	if err != nil {
		o.reject = errCode(err)
		return nil
	}
	o.accepted = true
	return roundTrip("text", cs, q1, o)
}

func roundTrip(kind string, cs *Case, q1 *contactql.ContactQuery, o *obs) []Problem {
	t1 := fromQuery(q1.Root())
	var s string
	if pnc := mc.Guard(func() { s = q1.String() }); pnc != "" {
		return []Problem{{Key: "panic:format:" + mc.PanicSite(pnc), What: fmt.Sprintf("String() panicked (%s): %q\n%s", cs.Cfg, cs.Query, pnc)}}
	}
	o.outcome = kind + ":" + t1.shape()
	vals := values(t1)
	for _, v := range vals {
		noteValue(o, v)
	}
	rp := reparse(cs.Cfg, s, o)
	if rp.pnc != "" {
		return []Problem{{Key: "panic:reparse:" + mc.PanicSite(rp.pnc), What: fmt.Sprintf("ParseQuery panicked on formatted text (%s): %q\n%s", cs.Cfg, s, rp.pnc)}}
	}
	if rp.err != nil {
		return []Problem{{
			Key:  fmt.Sprintf("%s:reparse-rejected:%s:%s", kind, errCode(rp.err), feature(s, worstValue(vals))),
			What: fmt.Sprintf("(%s) query %q is accepted and parses to %s\nit formats as %q, which the parser rejects: %v", cs.Cfg, cs.Query, t1, s, rp.err),
		}}
	}
	t2 := rp.tree
	if d := diff(t1, t2); d != "" {
		return []Problem{{
			Key:  fmt.Sprintf("%s:reparse-differs:%s:%s", kind, d, feature(s, differingValue(t1, t2, worstValue(vals)))),
			What: fmt.Sprintf("(%s) query %q parses to %s\nit formats as %q, which parses to the different query %s", cs.Cfg, cs.Query, t1, s, t2),
		}}
	}
	return nil
}

type reparsed struct {
	tree *Node
	err  error
	pnc  string
}

var reparseCache = map[Cfg]map[string]reparsed{}

// reparse parses formatted text; many token sequences format to the same text, and parsing is a
// function of (configuration, text), so results are memoised.
func reparse(cfg Cfg, s string, o *obs) reparsed {
	m := reparseCache[cfg]
	if m == nil {
		m = map[string]reparsed{}
		reparseCache[cfg] = m
	}
	if r, ok := m[s]; ok {
		return r
	}
	var r reparsed
	q, err, pnc := guardedParse(cfg, s, o)
	r.err, r.pnc = err, pnc
	if err == nil && pnc == "" {
		r.tree = fromQuery(q.Root())
	}
	if len(m) > 100000 {
		m = map[string]reparsed{}
		reparseCache[cfg] = m
	}
	m[s] = r
	return r
}

func noteValue(o *obs, v string) {
	if strings.HasSuffix(v, `\`) {
		o.fact("value:ends-with-backslash")
	}
	if strings.Contains(v, `"`) {
		o.fact("value:contains-quote")
	}
	if strings.Contains(v, `\`) {
		o.fact("value:contains-backslash")
	}
	if v == "" {
		o.fact("value:empty")
	}
	if !quotedWhenFormatted(v) {
		o.fact("value:written-bare")
	}
}

// ---- (ii) constructed queries ---------------------------------------------------------------

func checkConstructed(cs *Case, o *obs) []Problem {
	var n contactql.QueryNode
	var s string
	if pnc := mc.Guard(func() { n = cs.Tree.build(); s = contactql.Stringify(n) }); pnc != "" {
		return []Problem{{Key: "panic:format:" + mc.PanicSite(pnc), What: fmt.Sprintf("Stringify panicked on %s\n%s", cs.Tree, pnc)}}
	}
	cs.Query = s
	want := cs.Tree.normal()
	vals := values(cs.Tree)
	focus := worstValue(vals)
	if cs.Focus >= 0 && cs.Focus < len(vals) {
		focus = vals[cs.Focus]
	}
	noteValue(o, focus)
	if cs.Tree.isNormal() {
		o.fact("constructed:already-normal")
	} else {
		o.fact("constructed:needs-flattening")
	}
	q, err, pnc := guardedParse(cs.Cfg, s, o)
	if pnc != "" {
		return []Problem{{Key: "panic:parse:" + mc.PanicSite(pnc), What: fmt.Sprintf("ParseQuery panicked (%s) on formatted %s: %q\n%s", cs.Cfg, cs.Tree, s, pnc)}}
	}
	if err != nil {
		code := errCode(err)
		if code == contactql.ErrRedactedURNs {
			// under the URN redaction policy a query on URNs is rejected by design (C19's subject), so a
			// constructed URN condition is not a valid query for this configuration
			o.reject = code
			return nil
		}
		if code == contactql.ErrInvalidPartialName || code == contactql.ErrInvalidPartialURN {
			// the constructed condition itself is not a valid query (contains-operator value too short)
			o.reject = code
			return nil
		}
		o.accepted = true
		return []Problem{{
			Key:  fmt.Sprintf("constructed:reparse-rejected:%s:%s", code, feature(s, focus)),
			What: fmt.Sprintf("(%s) the constructed query %s\nformats as %q, which the parser rejects: %v", cs.Cfg, cs.Tree, s, err),
		}}
	}
	o.accepted = true
	got := fromQuery(q.Root())
	o.outcome = "constructed:" + got.shape()
	if d := diff(want, got); d != "" {
		return []Problem{{
			Key:  fmt.Sprintf("constructed:reparse-differs:%s:%s", d, feature(s, differingValue(want, got, focus))),
			What: fmt.Sprintf("(%s) the constructed query %s\nformats as %q, which parses to %s", cs.Cfg, cs.Tree, s, got),
		}}
	}
	return nil
}

// ---- (iii) templates with the engine's escaping ----------------------------------------------

type template struct {
	text string // with @(v) and @(w)
	want func(v, w string) *Node
	two  bool // uses w
}

var templates = []template{
	{`name = @(v)`, func(v, w string) *Node { return cond("attr", "name", "=", v) }, false},
	{`name = @(v) OR urns.tel = @(w)`, func(v, w string) *Node {
		return comb("or", cond("attr", "name", "=", v), cond("urn", "tel", "=", w))
	}, true},
	{`(name = @(v) AND fields.age > 1) OR fields.gender != @(w)`, func(v, w string) *Node {
		return comb("or", comb("and", cond("attr", "name", "=", v), cond("field", "age", ">", "1")), cond("field", "gender", "!=", w))
	}, true},
	{`fields.gender = @(v) urns.tel != @(w) name = @(v)`, func(v, w string) *Node {
		return comb("and", cond("field", "gender", "=", v), cond("urn", "tel", "!=", w), cond("attr", "name", "=", v))
	}, true},
	{`name = @(v) AND fields.age = 3 AND (urns.twitter = @(w) OR name ~ "ann")`, func(v, w string) *Node {
		return comb("and", cond("attr", "name", "=", v), cond("field", "age", "=", "3"), comb("or", cond("urn", "twitter", "=", w), cond("attr", "name", "~", "ann")))
	}, true},
	{`name != @(v) AND name != @(w)`, func(v, w string) *Node {
		return comb("and", cond("attr", "name", "!=", v), cond("attr", "name", "!=", w))
	}, true},
}

var evaluator = excellent.NewEvaluator()

func checkTemplate(cs *Case, o *obs) []Problem {
	tpl := templates[cs.Template]
	var vval types.XValue = types.NewXText(cs.V)
	v := cs.V
	switch cs.Holder {
	case "object":
		vval = types.NewXObject(map[string]types.XValue{"__default__": types.NewXText(cs.V), "value": types.NewXText(cs.V), "category": types.NewXText("Cat")})
	case "array":
		arr := types.NewXArray(types.NewXText(cs.V))
		vval = arr
		v = arr.Render() // the one literal the substitution must become is the array's own text form
	}
	ctx := types.NewXObject(map[string]types.XValue{"v": vval, "w": types.NewXText(cs.W)})
	var text string
	var err error
	if pnc := mc.Guard(func() { text, _, err = evaluator.Template(cs.Cfg.env(), ctx, tpl.text, flows.ContactQueryEscaping) }); pnc != "" {
		return []Problem{{Key: "panic:template:" + mc.PanicSite(pnc), What: pnc}}
	}
	if err != nil {
		return []Problem{{Key: "harness:template-evaluation-error", What: fmt.Sprintf("%q v=%q w=%q: %v", tpl.text, cs.V, cs.W, err)}}
	}
	cs.Query = text
	kind := "injection"
	if cs.Holder != "" {
		kind = "injection-via-" + cs.Holder
		o.fact("template:value-held-by-" + cs.Holder)
	}
	return checkSubstituted(kind, cs, text, tpl, v, cs.W, o)
}

func checkSubstituted(kind string, cs *Case, text string, tpl template, v, w string, o *obs) []Problem {
	want := tpl.want(v, w)
	noteValue(o, v)
	if tpl.two {
		noteValue(o, w)
	}
	focus := worstValue([]string{v, w})
	if !tpl.two {
		focus = v
	}
	o.accepted = true
	q, err, pnc := guardedParse(cs.Cfg, text, o)
	if pnc != "" {
		return []Problem{{Key: "panic:parse:" + mc.PanicSite(pnc), What: fmt.Sprintf("ParseQuery panicked (%s): %q\n%s", cs.Cfg, text, pnc)}}
	}
	if err != nil && errCode(err) == contactql.ErrRedactedURNs {
		// the template itself queries URNs, which this configuration (redaction) rejects by design
		o.accepted = false
		o.reject = contactql.ErrRedactedURNs
		return nil
	}
	if err != nil {
		return []Problem{{
			Key: fmt.Sprintf("%s:template-rejected:%s:%s", kind, errCode(err), feature(text, focus)),
			What: fmt.Sprintf("(%s) template %q with v=%q w=%q escaped by the engine gives %q\nwhich the parser rejects: %v (each value must become exactly one literal)",
				cs.Cfg, tpl.text, v, w, text, err),
		}}
	}
	got := fromQuery(q.Root())
	o.outcome = kind + ":" + got.shape()
	if d := diff(want, got); d != "" {
		delta := d
		if d == "structure" {
			delta = condDelta(want, got)
		} else {
			focus = differingValue(want, got, focus)
		}
		return []Problem{{
			Key:  fmt.Sprintf("%s:template-meaning-changed:%s:%s", kind, delta, feature(text, focus)),
			What: fmt.Sprintf("(%s) template %q with v=%q w=%q escaped by the engine gives %q\nwhich parses to %s\ninstead of %s", cs.Cfg, tpl.text, v, w, text, got, want),
		}}
	}
	return nil
}

// differingValue returns the value of the first condition that came out different (same shape
// assumed), so that the key's character classes describe the literal that was altered.
func differingValue(want, got *Node, fallback string) string {
	wc, gc := want.conds(nil), got.conds(nil)
	if len(wc) != len(gc) {
		return fallback
	}
	for i := range wc {
		if wc[i].PT != gc[i].PT || wc[i].Key != gc[i].Key || wc[i].Oper != gc[i].Oper || wc[i].Val != gc[i].Val {
			return wc[i].Val
		}
	}
	return fallback
}

func check(cs *Case, o *obs) []Problem {
	switch cs.Kind {
	case "text":
		return checkText(cs, o)
	case "constructed":
		return checkConstructed(cs, o)
	case "template":
		return checkTemplate(cs, o)
	case "engine":
		return checkEngine(cs, o)
	}
	return []Problem{{Key: "harness:unknown-case-kind:" + cs.Kind, What: cs.Kind}}
}
