package c14

import (
	"encoding/json"
	"fmt"
	"strings"
	"sync"

	"github.com/nyaruka/goflow/assets"
	"github.com/nyaruka/goflow/flows"
	"github.com/nyaruka/goflow/flows/events"
	"github.com/nyaruka/goflow/flows/triggers"
	"verif/mc"
	"verif/world"
)

// The end-to-end slice: the same templates, written with @contact.name / @fields.gender, are the
// contact_query of a real start_session and a real send_broadcast action; the session is started on
// a contact whose name and field carry the values; the query text is read from the
// session_triggered and broadcast_created events.

type J = map[string]any

var (
	engOnce   sync.Once
	engAssets flows.SessionAssets
	engErr    error
)

const (
	flowMain  = "5a0d2b5d-3f1c-4f0e-9a55-0c1c4d2f1a01"
	flowChild = "5a0d2b5d-3f1c-4f0e-9a55-0c1c4d2f1a02"
)

func engineTemplate(i int) string {
	t := strings.ReplaceAll(templates[i].text, "@(v)", "@contact.name")
	return strings.ReplaceAll(t, "@(w)", "@fields.gender")
}

func engineAssets() (flows.SessionAssets, error) {
	engOnce.Do(func() {
		var nodes []any
		for i := range templates {
			node := J{
				"uuid": world.UUID(fmt.Sprintf("c14-node-%d", i)),
				"actions": []any{
					J{"type": "start_session", "uuid": world.UUID(fmt.Sprintf("c14-start-%d", i)), "flow": J{"uuid": flowChild, "name": "Child"},
						"contact_query": engineTemplate(i), "exclusions": J{}},
					J{"type": "send_broadcast", "uuid": world.UUID(fmt.Sprintf("c14-bcast-%d", i)), "text": "hi", "contact_query": engineTemplate(i)},
				},
				"exits": []any{J{"uuid": world.UUID(fmt.Sprintf("c14-exit-%d", i))}},
			}
			if i+1 < len(templates) {
				node["exits"] = []any{J{"uuid": world.UUID(fmt.Sprintf("c14-exit-%d", i)), "destination_uuid": world.UUID(fmt.Sprintf("c14-node-%d", i+1))}}
			}
			nodes = append(nodes, node)
		}
		doc := world.WithFlows(world.BaseAssets(), []any{
			J{"uuid": flowMain, "name": "Main", "spec_version": "13.1.0", "language": "eng", "type": "messaging", "nodes": nodes},
			J{"uuid": flowChild, "name": "Child", "spec_version": "13.1.0", "language": "eng", "type": "messaging", "nodes": []any{}},
		})
		engAssets, _, engErr = world.BuildAssets(doc)
	})
	return engAssets, engErr
}

type engineRun struct {
	name, gender string         // the values as the engine holds them after reading the contact
	started      map[int]string // template index -> contact_query of session_triggered
	broadcast    map[int]string // template index -> contact_query of broadcast_created
	errors       []string
}

var engineCache = map[string]*engineRun{}

// runEngine starts one session on a contact with the two values and collects the evaluated
// contact queries of all templates (one session serves all templates of a value pair).
func runEngine(cfg Cfg, v, w string) (*engineRun, error) {
	k := fmt.Sprintf("%t\x00%s\x00%s", cfg.Redact, v, w)
	if r, ok := engineCache[k]; ok {
		return r, nil
	}
	sa, err := engineAssets()
	if err != nil {
		return nil, err
	}
	world.Reset()
	contact := world.DefaultContact()
	delete(contact, "name")
	if v != "" {
		contact["name"] = v
	}
	fields := J{}
	if w != "" {
		fields["gender"] = J{"text": w}
	}
	contact["fields"] = fields
	env := world.DefaultEnv()
	if cfg.Redact {
		env["redaction_policy"] = "urns"
	}
	tj, _ := json.Marshal(J{
		"type": "manual", "triggered_on": "2025-05-04T12:30:00.123456789Z",
		"flow": J{"uuid": flowMain, "name": "Main"}, "contact": contact, "environment": env,
	})
	trig, err := triggers.ReadTrigger(sa, tj, assets.IgnoreMissing)
	if err != nil {
		return nil, fmt.Errorf("trigger: %w", err)
	}
	eng := world.NewEngine(world.Options{})
	session, sprint, err := eng.NewSession(sa, trig)
	if err != nil {
		return nil, fmt.Errorf("session: %w", err)
	}
	r := &engineRun{started: map[int]string{}, broadcast: map[int]string{}}
	r.name = session.Contact().Name()
	if fv := session.Contact().Fields()["gender"]; fv != nil && fv.Text != nil {
		r.gender = fv.Text.Native()
	}
	ns, nb := 0, 0
	for _, e := range sprint.Events() {
		switch t := e.(type) {
		case *events.SessionTriggeredEvent:
			r.started[ns] = t.ContactQuery
			ns++
		case *events.BroadcastCreatedEvent:
			r.broadcast[nb] = t.ContactQuery
			nb++
		case *events.ErrorEvent:
			r.errors = append(r.errors, t.Text)
		case *events.FailureEvent:
			r.errors = append(r.errors, t.Text)
		}
	}
	if len(engineCache) > 2000 {
		engineCache = map[string]*engineRun{}
	}
	engineCache[k] = r
	return r, nil
}

func checkEngine(cs *Case, o *obs) []Problem {
	var r *engineRun
	var err error
	if pnc := mc.Guard(func() { r, err = runEngine(cs.Cfg, cs.V, cs.W) }); pnc != "" {
		return []Problem{{Key: "panic:engine:" + mc.PanicSite(pnc), What: pnc}}
	}
	if err != nil {
		return []Problem{{Key: "harness:engine", What: err.Error()}}
	}
	tpl := templates[cs.Template]
	var ps []Problem
	for _, site := range []struct {
		name string
		m    map[int]string
	}{{"start_session", r.started}, {"send_broadcast", r.broadcast}} {
		text, ok := site.m[cs.Template]
		if !ok {
			ps = append(ps, Problem{Key: "harness:engine-event-missing:" + site.name, What: fmt.Sprintf("template %d v=%q w=%q errors=%v", cs.Template, cs.V, cs.W, r.errors)})
			continue
		}
		o.fact("engine:" + site.name)
		sub := *cs
		sub.Query = text
		for _, p := range checkSubstituted("engine:"+site.name, &sub, text, tpl, r.name, r.gender, o) {
			p.What = fmt.Sprintf("action %s with contact_query %q on a contact with name=%q fields.gender=%q\n%s", site.name, engineTemplate(cs.Template), r.name, r.gender, p.What)
			ps = append(ps, p)
		}
		cs.Query = text
	}
	return ps
}
