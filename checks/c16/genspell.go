package c16

import (
	"fmt"
	"strings"
)

// ---- legacy spellings ------------------------------------------------------------------------------
//
// Legacy definitions were written by many editor versions and hand-edited exports, and the legacy
// reader validates almost nothing: a string that the current spec checks against an enumeration or
// a pattern arrives in whatever spelling the old editor used, and it is the migration that has to
// bring it into the spelling the current spec accepts. This family enumerates, for every legacy
// string member whose migrated counterpart is validated that way, every spelling the legacy format
// allowed (Desc starts with the member's name: it is the class of the key).

// caseVariants returns all 2^len(s) upper/lower case spellings of an ASCII word
func caseVariants(s string) []string {
	out := []string{""}
	for _, ch := range s {
		lo, up := strings.ToLower(string(ch)), strings.ToUpper(string(ch))
		var next []string
		for _, p := range out {
			next = append(next, p+lo)
			if up != lo {
				next = append(next, p+up)
			}
		}
		out = next
	}
	return out
}

// the HTTP methods of the current spec (utils/validator.go: http_method)
var httpMethods = []string{"GET", "HEAD", "POST", "PUT", "PATCH", "DELETE"}

// keys a legacy `save` action may name: contact properties, every URN scheme (current and retired
// ones, and the legacy tel_e164 alias) and custom fields - among them keys that look like schemes
var legacySaveFields = []string{
	"name", "first_name", "tel_e164",
	"discord", "mailto", "ext", "facebook", "fcm", "freshchat", "instagram", "jiochat", "line", "tel", "rocketchat", "slack", "telegram",
	"twitter", "twitterid", "viber", "vk", "webchat", "wechat", "whatsapp",
	"gcm", "skype", "email", "phone", "tel_", "gender", "language", "groups", "uuid", "id",
}

// forms of a legacy message attachment: "<content type>:<url>" with a full or a bare content type,
// a relative (uploaded) or an absolute URL, or no content type at all (the legacy default is image)
var legacyMediaForms = []string{
	"image/jpeg:attachments/1/photo.jpg",
	"image:attachments/1/photo.jpg",
	"attachments/1/photo.jpg",
	"image/jpeg:http://media.test/attachments/1/photo.jpg",
	"image/jpeg:https://media.test/attachments/1/photo.jpg?v=1:2",
	"image/png:/attachments/1/photo.png",
	"audio/mp3:attachments/1/sound.mp3",
	"audio:attachments/1/sound.mp3",
	"audio/x-wav:attachments/1/sound.wav",
	"video/mp4:attachments/1/clip.mp4",
	"video:attachments/1/clip.mp4",
	"application/pdf:attachments/1/doc.pdf",
	"application/vnd.ms-excel:attachments/1/sheet.xls",
	"image/svg+xml:attachments/1/drawing.svg",
	"image:@flow.photo",
	"image/jpeg:@flow.photo",
	"image:http://media.test/@contact.uuid.jpg",
}

func familyLegacySpellings(emit func(*source)) {
	put := func(desc string, def J) {
		emit(&source{Family: "legacy-spelling", Version: "legacy", Desc: desc, Def: def})
	}
	hookRules := []legacyRule{{J{"type": "webhook_status", "status": "success"}, "Success", 2}, {J{"type": "webhook_status", "status": "failure"}, "Failure", 3}}
	around := func(rs legacyNode) []legacyNode {
		rs.y = 100
		return []legacyNode{
			{actions: []any{reply("n0", "start")}, dest: 1, y: 0}, rs,
			{actions: []any{reply("n2", "two")}, dest: -1, y: 300},
			{actions: []any{reply("n3", "three")}, dest: 1, y: 200},
		}
	}

	// config.webhook_action -> call_webhook.method: not given, null, empty, and every upper / lower
	// case spelling of every method, on a webhook rule set without and with headers
	type spelled struct {
		name string
		set  func(J)
	}
	actions := []spelled{
		{"absent", func(c J) {}},
		{"null", func(c J) { c["webhook_action"] = nil }},
		{`""`, func(c J) { c["webhook_action"] = "" }},
	}
	for _, m := range httpMethods {
		for _, v := range caseVariants(m) {
			v := v
			actions = append(actions, spelled{fmt.Sprintf("%q", v), func(c J) { c["webhook_action"] = v }})
		}
	}
	for _, a := range actions {
		for _, headers := range []bool{false, true} {
			config := J{"webhook": "http://x.test/?n=@contact.name"}
			if headers {
				config["webhook_headers"] = []any{J{"name": "Authorization", "value": "Token @contact.token"}, J{"name": "content-type", "value": "text/plain"}}
			}
			a.set(config)
			rs := legacyNode{ruleset: true, rsType: "webhook", operand: "@step.value", label: "Hook 1", config: config, rules: hookRules}
			put(fmt.Sprintf("webhook_action %s headers=%v", a.name, headers), renderLegacy(around(rs), 0, "eng", "F", nil))
		}
	}

	// flow_type and ruleset_type not given at all, or null (the empty string is in the other families)
	one := []legacyNode{{actions: []any{reply("n0", "start")}, dest: -1, y: 0}}
	for _, form := range []string{"absent", "null"} {
		d := renderLegacy(one, 0, "eng", "F", nil)
		if form == "absent" {
			delete(d, "flow_type")
		} else {
			d["flow_type"] = nil
		}
		put("flow_type "+form, d)
		yes := J{"type": "contains_any", "test": J{"eng": "yes", "fra": "oui"}}
		rs := legacyNode{ruleset: true, rsType: "wait_message", operand: "@step.value", label: "Response 1", rules: []legacyRule{{yes, "Yes", 2}, trueRule(3)}}
		d = renderLegacy(around(rs), 0, "eng", "F", nil)
		r := d["rule_sets"].([]any)[0].(J)
		if form == "absent" {
			delete(r, "ruleset_type")
		} else {
			r["ruleset_type"] = nil
		}
		put("ruleset_type "+form, d)
	}

	// save.field -> add_contact_urn.scheme (a URN scheme) or a contact field key
	for _, field := range legacySaveFields {
		a := J{"type": "save", "uuid": luuid("action.main"), "field": field, "label": "Label " + field, "value": "@step.value"}
		nodes := []legacyNode{{actions: []any{a}, dest: 1, y: 0}, {actions: []any{reply("n1", "end")}, dest: -1, y: 100}}
		put(fmt.Sprintf("save.field %q", field), renderLegacy(nodes, 0, "eng", "F", nil))
	}

	// media of reply / send -> attachments (content type : URL)
	for _, typ := range []string{"reply", "send"} {
		for _, form := range legacyMediaForms {
			for _, translated := range []bool{false, true} {
				media := J{"eng": form}
				if translated {
					media["fra"] = strings.Replace(form, "1/", "2/", 1)
				}
				a := J{"type": typ, "uuid": luuid("action.main"), "msg": J{"eng": "Look", "fra": "Regarde"}, "media": media}
				if typ == "send" {
					a["contacts"] = []any{J{"uuid": luuid("contact"), "name": "Bob"}}
					a["groups"], a["variables"] = []any{}, []any{}
				}
				nodes := []legacyNode{{actions: []any{a}, dest: 1, y: 0}, {actions: []any{reply("n1", "end")}, dest: -1, y: 100}}
				put(fmt.Sprintf("%s.media %q translated=%v", typ, form, translated), renderLegacy(nodes, 0, "eng", "F", nil))
			}
		}
	}
}
