package c16

import (
	"bytes"
	"encoding/json"
	"fmt"
	"strings"

	"verif/mc"
)

// ---- (ii) rejection: faults on definition JSON ------------------------------------------------

// a path into a generic JSON document
type pathStep struct {
	Key   string
	Index int // used when Key == ""
}

func enumPaths(v any, prefix []pathStep, out *[][]pathStep) {
	switch t := v.(type) {
	case map[string]any:
		for _, k := range sortedKeys(t) {
			p := append(append([]pathStep{}, prefix...), pathStep{Key: k})
			*out = append(*out, p)
			enumPaths(t[k], p, out)
		}
	case []any:
		for i, x := range t {
			p := append(append([]pathStep{}, prefix...), pathStep{Index: i})
			*out = append(*out, p)
			enumPaths(x, p, out)
		}
	}
}

func pathString(p []pathStep) string {
	var sb strings.Builder
	for _, s := range p {
		if s.Key != "" {
			sb.WriteString("." + s.Key)
		} else {
			fmt.Fprintf(&sb, "[%d]", s.Index)
		}
	}
	return sb.String()
}

func getAt(doc any, p []pathStep) any {
	cur := doc
	for _, s := range p {
		switch t := cur.(type) {
		case map[string]any:
			cur = t[s.Key]
		case []any:
			if s.Index >= len(t) {
				return nil
			}
			cur = t[s.Index]
		default:
			return nil
		}
	}
	return cur
}

type deleteMarker struct{}

// withReplaced returns a copy of doc with the value at p replaced (or deleted); ok = false if the
// path no longer exists (after an earlier fault of a pair).
func withReplaced(doc any, p []pathStep, val any) (any, bool) {
	if len(p) == 0 {
		return val, true
	}
	s := p[0]
	switch t := doc.(type) {
	case map[string]any:
		child, exists := t[s.Key]
		if !exists {
			return nil, false
		}
		c := make(map[string]any, len(t))
		for k, v := range t {
			c[k] = v
		}
		if len(p) == 1 {
			if _, del := val.(deleteMarker); del {
				delete(c, s.Key)
			} else {
				c[s.Key] = val
			}
			return c, true
		}
		nc, ok := withReplaced(child, p[1:], val)
		if !ok {
			return nil, false
		}
		c[s.Key] = nc
		return c, true
	case []any:
		if s.Key != "" || s.Index >= len(t) {
			return nil, false
		}
		c := append([]any{}, t...)
		if len(p) == 1 {
			if _, del := val.(deleteMarker); del {
				c = append(c[:s.Index], c[s.Index+1:]...)
			} else {
				c[s.Index] = val
			}
			return c, true
		}
		nc, ok := withReplaced(t[s.Index], p[1:], val)
		if !ok {
			return nil, false
		}
		c[s.Index] = nc
		return c, true
	}
	return nil, false
}

type replacement struct {
	Name string
	Val  any
}

var replacements = []replacement{
	{"delete", deleteMarker{}}, {"null", nil}, {"true", true}, {"0", 0}, {"-1", -1}, {"1.5", 1.5}, {`""`, ""}, {`"x"`, "x"}, {`"@("`, "@("},
	{"[]", []any{}}, {"{}", map[string]any{}}, {"[null]", []any{nil}}, {`{"uuid":1}`, map[string]any{"uuid": 1}}, {"[[]]", []any{[]any{}}},
}

// the smaller list used for pairs of faults
var pairReplacements = []replacement{
	{"delete", deleteMarker{}}, {"null", nil}, {`""`, ""}, {"{}", map[string]any{}},
}

// type enumerations: a member holding one of these values is also replaced by each of the others
var typeEnums = [][]string{
	{"wait_message", "wait_audio", "wait_video", "wait_photo", "wait_gps", "wait_recording", "wait_digit", "wait_digits", "subflow", "webhook", "resthook", "form_field", "flow_field", "contact_field", "expression", "group", "random", "airtime"},
	{"between", "contains", "contains_any", "contains_only_phrase", "contains_phrase", "date", "date_after", "date_before", "date_equal", "district", "has_email", "eq", "gt", "gte", "in_group", "lt", "lte", "not_empty", "number", "phone", "regex", "starts", "state", "ward", "subflow", "webhook_status", "airtime_status", "timeout", "true"},
	{"reply", "send", "email", "add_group", "del_group", "add_label", "lang", "channel", "flow", "trigger-flow", "save", "say", "play"},
	{"add_contact_groups", "add_contact_urn", "add_input_labels", "call_classifier", "call_resthook", "call_webhook", "enter_flow", "open_ticket", "play_audio", "remove_contact_groups", "request_optin", "say_msg", "send_broadcast", "send_email", "send_msg", "set_contact_channel", "set_contact_field", "set_contact_language", "set_contact_name", "set_contact_status", "set_contact_timezone", "set_run_result", "start_session", "transfer_airtime"},
	{"switch", "random"},
	{"msg", "dial"},
	{"audio", "image", "video", "location", "digits"},
	{"has_any_word", "has_number_between", "has_group", "has_pattern", "has_text", "has_category", "has_ward", "has_intent", "has_top_intent"},
	{"messaging", "voice", "messaging_background", "messaging_offline"},
	{"F", "M", "V", "S"},
	{"13.0.0", "13.1.0", "13.2.0", "13.3.0", "13.4.0", "13.5.0", "13.6.0", "13.7.0", "14.0.0", "12.0.0", "11.12", "13", "x.y.z"},
}

func replacementsFor(doc any, paths [][]pathStep, pi int) []replacement {
	p := paths[pi]
	cur := getAt(doc, p)
	rs := append([]replacement{}, replacements...)
	if s, ok := cur.(string); ok {
		for _, enum := range typeEnums {
			in := false
			for _, x := range enum {
				in = in || x == s
			}
			if in && (p[len(p)-1].Key == "type" || p[len(p)-1].Key == "ruleset_type" || p[len(p)-1].Key == "flow_type" || p[len(p)-1].Key == "spec_version") {
				for _, x := range enum {
					if x != s {
						rs = append(rs, replacement{"type:" + x, x})
					}
				}
			}
		}
		if uuidRe.MatchString(s) {
			// duplicate of the previous UUID of the document
			for j := pi - 1; j >= 0; j-- {
				if prev, ok := getAt(doc, paths[j]).(string); ok && uuidRe.MatchString(prev) && prev != s {
					rs = append(rs, replacement{"previous-uuid", prev})
					break
				}
			}
		}
	}
	return rs
}

// checkFault feeds one input to the library. Any error return is fine; only a panic violates the
// rejection clause. An input that is accepted is a current definition and must be stable under
// read -> marshal -> read.
func checkFault(data []byte, what string, c *mc.Ctx) *problem {
	f, err, p := readFlow(data)
	if p != "" {
		return &problem{"panic:" + mc.PanicSite(p) + ":" + panicClass(p), fmt.Sprintf("ReadFlow panics on %s\n%s\ninput: %s", what, p, trim(string(data), 3000))}
	}
	// MigrateToLatest is an entry point of its own (used by ReadFlow, but also directly by callers)
	_, merr, p := migrateTo(data, "")
	if p != "" {
		return &problem{"panic:" + mc.PanicSite(p) + ":" + panicClass(p), fmt.Sprintf("MigrateToLatest panics on %s\n%s\ninput: %s", what, p, trim(string(data), 3000))}
	}
	if c != nil {
		if err != nil {
			c.Inc("fault_outcome:rejected")
			if strings.Contains(err.Error(), "legacy") {
				c.Inc("fault_reached_legacy_migration")
			}
			cls := "rejected:" + errClass(err)
			if len(cls) > 60 {
				cls = cls[:60]
			}
			c.Outcome(cls)
		} else {
			c.Inc("fault_outcome:accepted")
			c.Outcome("accepted")
		}
		if merr == nil && err != nil {
			c.Inc("fault_migrates_but_does_not_load")
		}
	}
	if err == nil {
		if pr := checkStable(f); pr != nil {
			return &problem{pr.Key, fmt.Sprintf("%s\n(an accepted input: %s)\ninput: %s", pr.What, what, trim(string(data), 3000))}
		}
	}
	return nil
}

func trim(s string, n int) string {
	if len(s) > n {
		return s[:n] + "…"
	}
	return s
}

// closers returns, for a prefix of a JSON text, the text that closes the open string, objects and
// arrays ("" , false if the prefix ends inside a token that cannot be closed that way).
func closed(prefix []byte) []byte {
	var stack []byte
	inStr, esc := false, false
	for _, ch := range prefix {
		if inStr {
			if esc {
				esc = false
			} else if ch == '\\' {
				esc = true
			} else if ch == '"' {
				inStr = false
			}
			continue
		}
		switch ch {
		case '"':
			inStr = true
		case '{':
			stack = append(stack, '}')
		case '[':
			stack = append(stack, ']')
		case '}', ']':
			if len(stack) > 0 {
				stack = stack[:len(stack)-1]
			}
		}
	}
	out := append([]byte{}, prefix...)
	if inStr {
		if esc {
			out = out[:len(out)-1]
		}
		out = append(out, '"')
	}
	// a dangling comma or colon cannot be closed; try anyway with a null
	t := bytes.TrimRight(out, " \n\t")
	if len(t) > 0 && t[len(t)-1] == ':' {
		out = append(out, []byte("null")...)
	} else if len(t) > 0 && t[len(t)-1] == ',' {
		out = t[:len(t)-1]
	}
	for i := len(stack) - 1; i >= 0; i-- {
		// an object member name without a value
		out = append(out, stack[i])
	}
	return out
}

type seed struct {
	name   string
	legacy bool
	doc    any
}

func richSeed(ver string) J {
	tpl := "@webhook.foo"
	if versionIndex(ver) >= versionIndex("13.3.0") {
		tpl = "@webhook.json.foo"
	}
	members, locUUIDs, locProp, split := templatingAt(ver, uuid("act.main"), []string{tpl, "@contact.name"}, true)
	a := act("send_msg", J{"text": "Hi " + tpl, "attachments": []any{"image/jpeg:http://x.test/a.jpg"}, "quick_replies": []any{"yes", "no"}})
	for k, v := range members {
		a[k] = v
	}
	items := J{uuid("act.main"): J{"text": []any{"Hola"}}, uuid("cat.0"): J{"name": []any{"Si"}}, uuid("case.0"): J{"arguments": []any{"si"}}}
	if locProp != "" {
		off := 0
		trans := []any{"uno", "dos"}
		for i, u := range locUUIDs {
			if u == uuid("act.main") {
				items[u].(J)[locProp] = trans
			} else {
				items[u] = J{locProp: trans[off : off+split[i]]}
			}
			off += split[i]
		}
	}
	n1 := actionNode(a, J{"uuid": uuid("act.2"), "type": "set_run_result", "name": strings.Repeat("n", 70), "value": tpl, "category": strings.Repeat("c", 40)},
		J{"uuid": uuid("act.3"), "type": "call_webhook", "method": "POST", "url": "http://x.test/", "headers": J{"A": tpl}, "body": "{}", "result_name": "Call"})
	n1["exits"] = []any{exitTo("exit.main", uuid("node.2"))}
	n2 := switchRouterNode(tpl, []any{"a"}, J{"type": "msg", "timeout": J{"seconds": 600, "category_uuid": uuid("cat.1")}, "hint": J{"type": "digits", "count": 1}}, strings.Repeat("r", 70), [2]string{strings.Repeat("k", 40), "Other"})
	n2["uuid"] = uuid("node.2")
	n2["exits"] = []any{exitTo("exit.2a", uuid("node.tail")), exitTo("exit.other", uuid("node.main"))}
	n2["router"].(J)["categories"].([]any)[0].(J)["exit_uuid"] = uuid("exit.2a")
	lang := "eng"
	if versionIndex(ver) < versionIndex("13.2.0") {
		lang = "base"
	}
	f := flowHeader(ver, lang, "messaging", []any{n1, n2, tailNode()}, J{"spa": items})
	f["expire_after_minutes"] = 30
	f["_ui"] = J{"nodes": J{uuid("node.main"): J{"position": J{"left": 1, "top": 2}, "type": "execute_actions"}}, "stickies": J{}}
	return f
}

func faultSeeds() []seed {
	var seeds []seed
	familyLegacy(func(s *source) {
		if s.Family == "legacy-ruleset" && !strings.Contains(s.Desc, "base_language=eng entry_is_ruleset=false") {
			return
		}
		if s.Family == "legacy-header" && !strings.Contains(s.Desc, "root") {
			return
		}
		seeds = append(seeds, seed{name: s.Family + " " + s.Desc, legacy: true, doc: normalise(s.Def)})
	})
	for _, ver := range allVersions {
		seeds = append(seeds, seed{name: "rich " + ver, doc: normalise(richSeed(ver))})
	}
	return seeds
}

// normalise passes a definition through JSON so that it is made of the generic JSON types only
func normalise(def J) any {
	var v any
	if err := json.Unmarshal(mustJSON(def), &v); err != nil {
		panic(err)
	}
	return v
}

func runFaults(c *mc.Ctx, idx *int) {
	report := func(p *problem, data []byte, what string) {
		if p != nil {
			c.Outcome("fault:violates")
			c.Violation(p.Key, p.What, replay{Kind: "fault", Data: string(data), Fault: what})
		}
	}
	seeds := faultSeeds()
	c.Add("fault_seeds", 0)
	for si, sd := range seeds {
		var paths [][]pathStep
		enumPaths(sd.doc, nil, &paths)
		if c.Shard == 0 {
			c.Inc("fault_seeds")
			c.Add("fault_paths", int64(len(paths)))
		}
		// the seed itself must be accepted (it is a valid source) - except the known airtime shape
		// single faults
		for pi := range paths {
			for _, r := range replacementsFor(sd.doc, paths, pi) {
				*idx++
				if !c.Mine(*idx) {
					continue
				}
				if *idx%256 == 0 && c.Expired() {
					c.Cap("time budget reached in the single JSON faults")
					return
				}
				doc, ok := withReplaced(sd.doc, paths[pi], r.Val)
				if !ok {
					continue
				}
				data := mustJSON(doc)
				what := fmt.Sprintf("seed %q with %s replaced by %s", sd.name, pathString(paths[pi]), r.Name)
				c.Inc("evaluations")
				c.Inc("faults_single")
				c.Inc("distinct_nontrivial")
				report(checkFault(data, what, c), data, what)
			}
		}
		// truncations: rich seeds and one legacy seed per family
		truncate := !sd.legacy || strings.Contains(sd.name, "webhook.post") || strings.Contains(sd.name, "airtime.two") || strings.Contains(sd.name, "subflow") ||
			strings.Contains(sd.name, "reply.media") || strings.Contains(sd.name, "trigger-flow") || strings.Contains(sd.name, "form_field")
		if truncate {
			full := mustJSON(sd.doc)
			for n := 0; n < len(full); n++ {
				*idx++
				if !c.Mine(*idx) {
					continue
				}
				if *idx%256 == 0 && c.Expired() {
					c.Cap("time budget reached in the truncations")
					return
				}
				raw := full[:n]
				what := fmt.Sprintf("seed %q truncated to %d bytes", sd.name, n)
				c.Inc("evaluations")
				c.Inc("faults_truncation")
				report(checkFault(raw, what, c), raw, what)
				cl := closed(raw)
				if json.Valid(cl) {
					c.Inc("evaluations")
					c.Inc("faults_truncation_closed_wellformed")
					c.Inc("distinct_nontrivial")
					what += " and closed"
					report(checkFault(cl, what, c), cl, what)
				}
			}
		}
		// pairs of faults (thorough): legacy seeds
		if c.Thorough() && sd.legacy && (strings.HasPrefix(sd.name, "legacy-ruleset") && !strings.Contains(sd.name, " test.") || si%7 == 0) {
			for p1 := range paths {
				for _, r1 := range pairReplacements {
					*idx++
					if !c.Mine(*idx) {
						continue
					}
					if c.Expired() {
						c.Cap("time budget reached in the pairs of JSON faults")
						return
					}
					doc1, ok := withReplaced(sd.doc, paths[p1], r1.Val)
					if !ok {
						continue
					}
					for p2 := p1 + 1; p2 < len(paths); p2++ {
						for _, r2 := range pairReplacements {
							doc2, ok := withReplaced(doc1, paths[p2], r2.Val)
							if !ok {
								continue
							}
							data := mustJSON(doc2)
							what := fmt.Sprintf("seed %q with %s replaced by %s and %s replaced by %s", sd.name, pathString(paths[p1]), r1.Name, pathString(paths[p2]), r2.Name)
							c.Inc("evaluations")
							c.Inc("faults_pair")
							c.Inc("distinct_nontrivial")
							report(checkFault(data, what, c), data, what)
						}
					}
				}
			}
		}
	}
}
