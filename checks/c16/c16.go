// Package c16: definition migration yields valid, equivalent, stable flows; any other input is
// rejected with an error, never a panic.
package c16

import (
	"bytes"
	"encoding/json"
	"fmt"
	"regexp"
	"sort"
	"strings"
	"time"

	"github.com/Masterminds/semver"
	"github.com/nyaruka/gocommon/i18n"
	"github.com/nyaruka/goflow/envs"
	"github.com/nyaruka/goflow/excellent"
	"github.com/nyaruka/goflow/excellent/types"
	"github.com/nyaruka/goflow/flows"
	"github.com/nyaruka/goflow/flows/definition"
	"github.com/nyaruka/goflow/flows/definition/migrations"
	"verif/mc"
	"verif/world"
)

type problem struct {
	Key  string
	What string
}

// ---- helpers -------------------------------------------------------------------------------------

func mustJSON(v any) []byte {
	b, err := json.Marshal(v)
	if err != nil {
		panic(err)
	}
	return b
}

var uuidRe = regexp.MustCompile(`[0-9a-f]{8}-[0-9a-f]{4}-[0-9a-f]{4}-[0-9a-f]{4}-[0-9a-f]{12}`)
var quotedRe = regexp.MustCompile(`'[^']*'|"[^"]*"`)
var digitsRe = regexp.MustCompile(`\d+`)

// errClass normalises an error message into a class usable in a signature key.
func errClass(err error) string {
	s := err.Error()
	s = uuidRe.ReplaceAllString(s, "U")
	s = quotedRe.ReplaceAllString(s, "Q")
	s = digitsRe.ReplaceAllString(s, "N")
	s = strings.Map(func(r rune) rune {
		switch {
		case r >= 'a' && r <= 'z', r >= 'A' && r <= 'Z', r == 'N', r == 'U', r == 'Q':
			return r
		}
		return '-'
	}, s)
	for strings.Contains(s, "--") {
		s = strings.ReplaceAll(s, "--", "-")
	}
	if len(s) > 110 {
		s = s[:110]
	}
	return strings.Trim(s, "-")
}

// errTail is the class of the innermost message of a wrapped error
func errTail(err error) string {
	s := err.Error()
	if i := strings.LastIndex(s, ": "); i >= 0 {
		s = s[i+2:]
	}
	return errClass(fmt.Errorf("%s", s))
}

func panicClass(p string) string {
	first := strings.SplitN(p, "\n", 2)[0]
	switch {
	case strings.Contains(first, "nil pointer"):
		return "nil-dereference"
	case strings.Contains(first, "slice bounds"), strings.Contains(first, "index out of range"):
		return "out-of-bounds"
	case strings.Contains(first, "interface conversion"):
		return "type-assertion"
	case strings.Contains(first, "nil map"):
		return "nil-map"
	}
	return "other-" + errClass(fmt.Errorf("%s", first))
}

type exitEdge struct{ UUID, Dest string }
type graphNode struct {
	UUID  string
	Exits []exitEdge
}

func str(v any) string {
	s, _ := v.(string)
	return s
}

// graphOfJSON extracts nodes, exits and destinations from a 13.x definition in generic form.
func graphOfJSON(def map[string]any) []graphNode {
	var out []graphNode
	nodes, _ := def["nodes"].([]any)
	for _, n := range nodes {
		nm, _ := n.(map[string]any)
		g := graphNode{UUID: str(nm["uuid"])}
		exits, _ := nm["exits"].([]any)
		for _, e := range exits {
			em, _ := e.(map[string]any)
			g.Exits = append(g.Exits, exitEdge{str(em["uuid"]), str(em["destination_uuid"])})
		}
		out = append(out, g)
	}
	return out
}

func graphOfFlow(f flows.Flow) []graphNode {
	var out []graphNode
	for _, n := range f.Nodes() {
		g := graphNode{UUID: string(n.UUID())}
		for _, e := range n.Exits() {
			g.Exits = append(g.Exits, exitEdge{string(e.UUID()), string(e.DestinationUUID())})
		}
		out = append(out, g)
	}
	return out
}

func sameGraph(a, b []graphNode) bool { return mc.JSON(a) == mc.JSON(b) }

// allStrings collects every string value of a generic JSON document
func allStrings(v any, out *[]string) {
	switch t := v.(type) {
	case string:
		*out = append(*out, t)
	case map[string]any:
		for _, k := range sortedKeys(t) {
			allStrings(t[k], out)
		}
	case []any:
		for _, x := range t {
			allStrings(x, out)
		}
	}
}

// ---- template evaluation ---------------------------------------------------------------------

var env = envs.NewBuilder().Build()
var evaluator = excellent.NewEvaluator()

const webhookBody = `{"foo": "bar", "n": 5, "list": ["a", "b"], "json": {"deep": "x"}, "webhook": "self", "com": "c"}`

func evalContext(webhook types.XValue) *types.XObject {
	obj := func(m map[string]types.XValue) *types.XObject { return types.NewXObject(m) }
	return obj(map[string]types.XValue{
		"webhook": webhook,
		"contact": obj(map[string]types.XValue{"__default__": types.NewXText("Bob"), "name": types.NewXText("Bob")}),
		"fields":  obj(map[string]types.XValue{"gender": types.NewXText("M")}),
		"results": obj(map[string]types.XValue{"webhook": obj(map[string]types.XValue{"__default__": types.NewXText("rv"), "value": types.NewXText("rv")})}),
		"input":   obj(map[string]types.XValue{"__default__": types.NewXText("hi"), "text": types.NewXText("hi")}),
		"child":   obj(map[string]types.XValue{"status": types.NewXText("completed")}),
		"resume":  obj(map[string]types.XValue{}),
	})
}

// before 13.3 @webhook was the parsed JSON body of the last webhook response; from 13.3 it is an
// object whose json property is that body.
var ctxOld = evalContext(types.JSONToXValue([]byte(webhookBody)))
var ctxNew = evalContext(types.NewXObject(map[string]types.XValue{
	"__default__": types.NewXText("GET http://x.test/"),
	"status":      types.NewXNumberFromInt(200),
	"headers":     types.NewXObject(map[string]types.XValue{}),
	"json":        types.JSONToXValue([]byte(webhookBody)),
}))

func evalTemplate(ctx *types.XObject, t string) string {
	var out string
	var err error
	if p := mc.Guard(func() { out, _, err = evaluator.Template(env, ctx, t, nil) }); p != "" {
		return "PANIC " + strings.SplitN(p, "\n", 2)[0]
	}
	if err != nil {
		return out + " [with errors]"
	}
	return out
}

func flowTemplates(f flows.Flow) []string {
	var out []string
	for _, n := range f.Nodes() {
		n.EnumerateTemplates(f.Localization(), func(a flows.Action, r flows.Router, l i18n.Language, t string) {
			out = append(out, t)
		})
	}
	return out
}

// ---- the oracle for valid sources -----------------------------------------------------------------

var cfg = migrations.DefaultConfig

func migrateTo(data []byte, to string) (out []byte, err error, panicked string) {
	world.Reset()
	panicked = mc.Guard(func() {
		if to == "" {
			out, err = migrations.MigrateToLatest(data, cfg)
		} else {
			out, err = migrations.MigrateToVersion(data, semver.MustParse(to), cfg)
		}
	})
	return
}

func readFlow(data []byte) (f flows.Flow, err error, panicked string) {
	world.Reset()
	panicked = mc.Guard(func() { f, err = definition.ReadFlow(data, nil) })
	return
}

// stable: reading a current definition and marshalling it back gives JSON that reads back equal
func checkStable(f flows.Flow) *problem {
	m1, err := json.Marshal(f)
	if err != nil {
		return &problem{"marshal-error:" + errClass(err), "a loaded flow cannot be marshalled: " + err.Error()}
	}
	f2, err, p := readFlow(m1)
	if p != "" {
		return &problem{"panic:" + mc.PanicSite(p) + ":" + panicClass(p) + ":rereading-marshalled-flow", "reading back a marshalled flow panics\n" + p + "\n" + string(m1)}
	}
	if err != nil {
		return &problem{"marshalled-flow-does-not-load:" + errClass(err), "a loaded flow was marshalled to JSON that does not load: " + err.Error() + "\n" + string(m1)}
	}
	m2, _ := json.Marshal(f2)
	if !bytes.Equal(m1, m2) {
		return &problem{"marshal-not-stable", "read -> marshal -> read -> marshal differs\nfirst:  " + string(m1) + "\nsecond: " + string(m2)}
	}
	return nil
}

type stats struct {
	migrations int
	facts      map[string]bool
}

func (s *stats) fact(f string) {
	if s.facts == nil {
		s.facts = map[string]bool{}
	}
	s.facts[f] = true
}

// checkCurrentOutput applies the clauses about a definition at the current version that came out of
// a migration of src (13.x).
func checkCurrent13(s *source, srcDef map[string]any, out []byte, route string, st *stats) []problem {
	var ps []problem
	add := func(key, what string) {
		ps = append(ps, problem{key, fmt.Sprintf("%s [%s %s -> %s, %s]\n%s", what, s.Family, s.Version, currentVersion, route, s.Desc)})
	}
	f, err, p := readFlow(out)
	if p != "" {
		add("panic:"+mc.PanicSite(p)+":"+panicClass(p)+":loading-migrated-definition", "loading the migrated definition panics\n"+p)
		return ps
	}
	if err != nil {
		add("migrated-definition-does-not-load:"+loadClass(s)+":"+errTail(err), "the migrated definition does not load: "+err.Error()+"\nmigrated: "+string(out))
		return ps
	}
	if string(f.UUID()) != str(srcDef["uuid"]) {
		add("flow-uuid-changed", fmt.Sprintf("flow UUID %s became %s", srcDef["uuid"], f.UUID()))
	}
	if !sameGraph(graphOfJSON(srcDef), graphOfFlow(f)) {
		add("graph-changed:13.x", fmt.Sprintf("nodes / exits / destinations differ\nsource:   %s\nmigrated: %s", mc.JSON(graphOfJSON(srcDef)), mc.JSON(graphOfFlow(f))))
	}
	if s.ExpectLanguage != "" && string(f.Language()) != s.ExpectLanguage {
		add("language-wrong", fmt.Sprintf("flow language %q became %q, expected %q", srcDef["language"], f.Language(), s.ExpectLanguage))
	}
	// every template placed in the source is found again and evaluates to the same
	if len(s.Templates) > 0 {
		var srcStrings []string
		allStrings(srcDef, &srcStrings)
		migrated := flowTemplates(f)
		ctxBefore := ctxNew
		if versionIndex(s.Version) < versionIndex("13.3.0") {
			ctxBefore = ctxOld
		}
		for _, tag := range sortedKeys(s.Templates) {
			var before string
			for _, x := range srcStrings {
				if strings.Contains(x, tag) {
					before = x
				}
			}
			var after []string
			for _, x := range migrated {
				if strings.Contains(x, tag) {
					after = append(after, x)
				}
			}
			name := templateName(s.Templates[tag])
			if before == "" {
				add("harness:tagged-template-not-in-source", tag)
				continue
			}
			if len(after) == 0 {
				add("template-lost:"+positionClass(s), fmt.Sprintf("the template %q of the source is not among the templates of the migrated flow", before))
				continue
			}
			vb := evalTemplate(ctxBefore, before)
			for _, a := range after {
				if a != before {
					st.fact("template_rewritten")
				}
				va := evalTemplate(ctxNew, a)
				if va != vb {
					add("template-value-changed:"+name, fmt.Sprintf("template %q evaluated to %q (with @webhook bound as at %s)\nmigrated to %q which evaluates to %q", before, vb, s.Version, a, va))
				} else if strings.Contains(vb, "bar") {
					st.fact("template_value_from_webhook_preserved")
				}
			}
		}
	}
	if pr := checkStable(f); pr != nil {
		add(pr.Key, pr.What)
	}
	return ps
}

// loadClass names what kind of source failed to load after migration: for the names family the
// member that carries the name (the result_name of any action but set_run_result is one class)
func loadClass(s *source) string {
	if s.Family != "names" {
		return positionClass(s)
	}
	member := strings.SplitN(s.Desc, " ", 2)[0]
	if strings.HasSuffix(member, ".result_name") && !strings.HasPrefix(member, "switch.") && !strings.HasPrefix(member, "random.") {
		member = "action.result_name"
	}
	return "names:" + member
}

func positionClass(s *source) string {
	if s.Family == "language" || s.Family == "graph" || s.Family == "current" || s.Family == "composition" {
		return s.Family
	}
	d := s.Desc
	if i := strings.Index(d, " <- "); i >= 0 {
		d = d[:i]
	}
	if i := strings.Index(d, " ("); i >= 0 {
		d = d[:i]
	}
	return s.Family + ":" + strings.ReplaceAll(d, " ", "-")
}

func templateName(t string) string {
	for _, wt := range webhookTemplates {
		if strings.HasSuffix(t, " "+wt) {
			return errClass(fmt.Errorf("%s", strings.ReplaceAll(wt, `"`, "'")))
		}
	}
	return "other"
}

func check13(s *source, st *stats) []problem {
	var ps []problem
	add := func(key, what string) {
		ps = append(ps, problem{key, fmt.Sprintf("%s [%s %s]\n%s", what, s.Family, s.Version, s.Desc)})
	}
	data := mustJSON(s.Def)
	vi := versionIndex(s.Version)
	// a target at or below the source version: untouched
	for ti := 0; ti <= vi; ti++ {
		out, err, p := migrateTo(data, allVersions[ti])
		st.migrations++
		if p != "" || err != nil || !bytes.Equal(out, data) {
			add("not-untouched:target-at-or-below-source", fmt.Sprintf("MigrateToVersion(%s) of a %s definition: err=%v panic=%s changed=%v", allVersions[ti], s.Version, err, p, !bytes.Equal(out, data)))
		}
	}
	if s.Version == currentVersion {
		// a current definition comes back byte-identical, however it is formatted
		var pretty bytes.Buffer
		json.Indent(&pretty, data, " ", "\t")
		for _, form := range [][]byte{data, pretty.Bytes(), append([]byte("  "), append(data, '\n')...)} {
			out, err, p := migrateTo(form, "")
			st.migrations++
			if p != "" || err != nil || !bytes.Equal(out, form) {
				add("not-untouched:current-definition", fmt.Sprintf("MigrateToLatest of a current definition: err=%v panic=%s changed=%v", err, p, !bytes.Equal(out, form)))
			}
		}
		if f, err, p := readFlow(data); p != "" || err != nil {
			add("harness:current-source-does-not-load", fmt.Sprintf("%v %s", err, p))
		} else if pr := checkStable(f); pr != nil {
			add(pr.Key, pr.What)
		}
		return ps
	}
	// compositions: what has been reported about which instance (each at the first target it shows at)
	reported := map[string]bool{}
	var srcGeneric map[string]any
	if s.Comp != nil {
		srcGeneric = generic(s.Def)
	}
	// every newer target, in one go
	for ti := vi + 1; ti < len(allVersions); ti++ {
		to := allVersions[ti]
		out, err, p := migrateTo(data, to)
		st.migrations++
		if p != "" {
			add("panic:"+mc.PanicSite(p)+":"+panicClass(p)+":migrating-valid-13.x", fmt.Sprintf("migrating to %s panics\n%s", to, p))
			continue
		}
		if err != nil {
			add("valid-13.x-rejected:"+positionClass(s)+":"+errTail(err), fmt.Sprintf("migrating to %s fails: %v", to, err))
			continue
		}
		var outDef map[string]any
		if err := json.Unmarshal(out, &outDef); err != nil {
			add("migrated-not-json", err.Error())
			continue
		}
		if str(outDef["spec_version"]) != to {
			add("spec-version-not-stamped", fmt.Sprintf("migrating to %s gives spec_version %v", to, outDef["spec_version"]))
		}
		if str(outDef["uuid"]) != str(s.Def["uuid"]) {
			add("flow-uuid-changed", fmt.Sprintf("flow UUID %v became %v migrating to %s", s.Def["uuid"], outDef["uuid"], to))
		}
		if !sameGraph(graphOfJSON(s.Def), graphOfJSON(outDef)) {
			add("graph-changed:13.x", fmt.Sprintf("migrating to %s: nodes / exits / destinations differ\nsource:   %s\nmigrated: %s", to, mc.JSON(graphOfJSON(s.Def)), mc.JSON(graphOfJSON(outDef))))
		}
		if s.Comp != nil {
			ps = append(ps, compProblems(s, srcGeneric, to, "in one go", outDef, reported, st)...)
		}
		// migrating again changes nothing
		again, err, p := migrateTo(out, to)
		st.migrations++
		if p != "" || err != nil || !bytes.Equal(again, out) {
			add("not-idempotent", fmt.Sprintf("migrating the %s result to %s again: err=%v panic=%s changed=%v", to, to, err, p, !bytes.Equal(again, out)))
		}
		if to == currentVersion {
			ps = append(ps, checkCurrent13(s, s.Def, out, "in one go", st)...)
			latest, err, p := migrateTo(data, "")
			st.migrations++
			if p != "" || err != nil || !bytes.Equal(latest, out) {
				add("latest-differs-from-current-version", fmt.Sprintf("MigrateToLatest and MigrateToVersion(%s) differ: err=%v panic=%s", currentVersion, err, p))
			}
		}
	}
	// stepwise: one version at a time
	step := data
	okSteps := true
	for ti := vi + 1; ti < len(allVersions) && okSteps; ti++ {
		out, err, p := migrateTo(step, allVersions[ti])
		st.migrations++
		if p != "" || err != nil {
			add("stepwise-migration-fails:"+allVersions[ti], fmt.Sprintf("err=%v panic=%s", err, p))
			okSteps = false
			break
		}
		step = out
	}
	if okSteps {
		ps = append(ps, checkCurrent13(s, s.Def, step, "stepwise", st)...)
		var stepDef map[string]any
		if s.Comp != nil && json.Unmarshal(step, &stepDef) == nil {
			ps = append(ps, compProblems(s, srcGeneric, currentVersion, "stepwise", stepDef, reported, st)...)
		}
	}
	return ps
}

// ---- legacy sources --------------------------------------------------------------------------

func checkLegacy(s *source, st *stats) []problem {
	var ps []problem
	add := func(key, what string) {
		ps = append(ps, problem{key, fmt.Sprintf("%s [%s]\n%s", what, s.Family, s.Desc)})
	}
	data := mustJSON(s.Def)
	for _, to := range []string{"13.0.0", "13.3.0", ""} {
		out, err, p := migrateTo(data, to)
		st.migrations++
		if p != "" {
			add("panic:"+mc.PanicSite(p)+":"+panicClass(p)+":migrating-valid-legacy", fmt.Sprintf("migrating to %q panics\n%s", to, p))
			return ps
		}
		if err != nil {
			add("valid-legacy-rejected:"+legacyClass(s)+":"+errTail(err), fmt.Sprintf("migrating to %q fails: %v", to, err))
			return ps
		}
		again, err, p := migrateTo(out, to)
		st.migrations++
		if p != "" || err != nil || !bytes.Equal(again, out) {
			add("not-idempotent", fmt.Sprintf("migrating the result again (target %q): err=%v panic=%s changed=%v", to, err, p, !bytes.Equal(again, out)))
		}
		if to != "" {
			continue
		}
		f, err, p := readFlow(out)
		if p != "" {
			add("panic:"+mc.PanicSite(p)+":"+panicClass(p)+":loading-migrated-definition", p)
			return ps
		}
		if err != nil {
			add("migrated-definition-does-not-load:"+legacyClass(s)+":"+errTail(err), "the migrated definition does not load: "+err.Error()+"\nmigrated: "+string(out))
			return ps
		}
		ps = append(ps, legacyGraphProblems(s, f)...)
		if pr := checkStable(f); pr != nil {
			add(pr.Key, pr.What)
		}
	}
	return ps
}

func legacyClass(s *source) string {
	d := s.Desc
	if i := strings.Index(d, " "); i >= 0 {
		d = d[:i]
	}
	if s.Family == "legacy-graph" {
		return s.Family
	}
	return s.Family + ":" + d
}

func legacyGraphProblems(s *source, f flows.Flow) []problem {
	var ps []problem
	add := func(key, what string) {
		ps = append(ps, problem{key, fmt.Sprintf("%s [%s]\n%s", what, s.Family, s.Desc)})
	}
	def := s.Def
	meta, _ := def["metadata"].(map[string]any)
	want := str(meta["uuid"])
	if want == "" {
		want = str(def["uuid"])
	}
	if want != "" && string(f.UUID()) != want {
		add("flow-uuid-changed", fmt.Sprintf("flow UUID %s became %s", want, f.UUID()))
	}
	base := str(def["base_language"])
	valid := map[string]bool{}
	var order []string
	for _, key := range []string{"action_sets", "rule_sets"} {
		xs, _ := def[key].([]any)
		for _, x := range xs {
			u := str(x.(map[string]any)["uuid"])
			valid[u] = true
			order = append(order, u)
		}
	}
	got := map[string]flows.Node{}
	for _, n := range f.Nodes() {
		got[string(n.UUID())] = n
	}
	if len(got) != len(valid) || len(f.Nodes()) != len(valid) {
		add("legacy:node-set-changed", fmt.Sprintf("%d legacy nodes became %d nodes", len(valid), len(f.Nodes())))
		return ps
	}
	for u := range valid {
		if got[u] == nil {
			add("legacy:node-set-changed", "legacy node "+u+" is not a node of the migrated flow")
			return ps
		}
	}
	if entry := str(def["entry"]); entry != "" && valid[entry] && string(f.Nodes()[0].UUID()) != entry {
		add("legacy:entry-not-first", fmt.Sprintf("entry %s, first migrated node %s", entry, f.Nodes()[0].UUID()))
	}
	as, _ := def["action_sets"].([]any)
	for _, x := range as {
		a := x.(map[string]any)
		n := got[str(a["uuid"])]
		dest := str(a["destination"])
		if !valid[dest] {
			dest = ""
		}
		if len(n.Exits()) != 1 || string(n.Exits()[0].UUID()) != str(a["exit_uuid"]) || string(n.Exits()[0].DestinationUUID()) != dest {
			add("legacy:action-set-connection-changed", fmt.Sprintf("action set %s -> %q (exit %s) became exits %s", a["uuid"], dest, a["exit_uuid"], mc.JSON(graphOfFlow(f))))
		}
	}
	rs, _ := def["rule_sets"].([]any)
	for _, x := range rs {
		r := x.(map[string]any)
		n := got[str(r["uuid"])]
		if n.Router() == nil {
			add("legacy:rule-set-without-router", str(r["uuid"]))
			continue
		}
		exitDest := map[string]string{}
		for _, e := range n.Exits() {
			exitDest[string(e.UUID())] = string(e.DestinationUUID())
		}
		rules, _ := r["rules"].([]any)
		for _, y := range rules {
			rule := y.(map[string]any)
			cat, _ := rule["category"].(map[string]any)
			name := str(cat[base])
			if _, ok := cat[base]; !ok {
				name = str(cat["base"])
			}
			dest := str(rule["destination"])
			if !valid[dest] {
				dest = ""
			}
			found := false
			for _, c := range n.Router().Categories() {
				if c.Name() == name {
					if d, ok := exitDest[string(c.ExitUUID())]; ok && d == dest {
						found = true
					}
				}
			}
			if !found {
				add("legacy:rule-destination-not-reachable-through-its-category", fmt.Sprintf("rule %s (category %q) -> %q: no category of that name leads there\nmigrated node: %s", rule["uuid"], name, dest, mc.JSON(n)))
			}
		}
	}
	return ps
}

// ---- run -----------------------------------------------------------------------------------------

type replay struct {
	Kind   string  `json:"kind"` // source | fault
	Source *source `json:"source,omitempty"`
	Data   string  `json:"data,omitempty"`
	Fault  string  `json:"fault,omitempty"`
}

func checkSource(s *source, st *stats) []problem {
	if s.Version == "legacy" {
		return checkLegacy(s, st)
	}
	return check13(s, st)
}

func sourcesOf(tier string, emit func(*source)) {
	familyWebhookPositions(emit)
	familyTypes(emit)
	familyLanguage(emit)
	familyNames(emit)
	familyCurrent(emit)
	familyCompositions(tier, emit)
	familyLegacy(emit)
	familyLegacySpellings(emit)
	if tier == "quick" {
		familyGraphs(2, []string{"A", "N", "W", "WT", "S", "R", "Es", "Eot"}, emit)
		familyLegacyGraphs(3, emit)
	} else {
		familyGraphs(2, []string{"A", "AR", "N", "W", "WT", "S", "R", "Es", "Est", "Eo", "Eot", "Em"}, emit)
		familyGraphs(3, []string{"A", "W", "R", "Es"}, emit)
		familyLegacyGraphs(4, emit)
	}
}

func run(c *mc.Ctx) {
	idx := 0
	st := &stats{}
	sourcesOf(c.Tier, func(s *source) {
		idx++
		if !c.Mine(idx) {
			return
		}
		if c.Expired() {
			c.Cap("time budget reached while checking valid sources")
			return
		}
		before := st.migrations
		ps := checkSource(s, st)
		c.Inc("evaluations")
		c.Inc("valid_sources")
		c.Inc("valid_sources:" + s.Family)
		c.Inc("valid_sources_at:" + s.Version)
		c.Add("source_x_target_migrations", int64(st.migrations-before))
		c.Inc("distinct_nontrivial")
		if len(ps) == 0 {
			c.Outcome("valid-source:holds:" + s.Family)
			if c.WantSample() && s.Family == "template-position" && strings.Contains(s.Desc, "headers") {
				c.Sample(map[string]any{"family": s.Family, "version": s.Version, "desc": s.Desc})
			}
		}
		for _, p := range ps {
			c.Outcome("valid-source:violates")
			c.Violation(p.Key, p.What, replay{Kind: "source", Source: s})
		}
	})
	for f := range st.facts {
		c.Fact(f)
	}
	runFaults(c, &idx)
}

func replayFn(c *mc.Ctx, raw json.RawMessage) (string, bool) {
	var rp replay
	if err := json.Unmarshal(raw, &rp); err != nil {
		return "bad replay: " + err.Error(), false
	}
	switch rp.Kind {
	case "source":
		// the definition went through JSON: numbers are float64 now, which marshals the same
		ps := checkSource(rp.Source, &stats{})
		var sb strings.Builder
		fmt.Fprintf(&sb, "source [%s %s] %s\n%s\n", rp.Source.Family, rp.Source.Version, rp.Source.Desc, mustJSON(rp.Source.Def))
		for _, p := range ps {
			fmt.Fprintf(&sb, "PROBLEM %s\n%s\n", p.Key, p.What)
		}
		return sb.String(), len(ps) > 0
	case "fault":
		p := checkFault([]byte(rp.Data), rp.Fault, nil)
		if p == nil {
			return "input is handled without a panic: " + rp.Data, false
		}
		return p.Key + "\n" + p.What, true
	}
	return "unknown replay kind", false
}

func guards(r *mc.Result, tier string) []string {
	var f []string
	need := func(cond bool, msg string) {
		if !cond {
			f = append(f, msg)
		}
	}
	for _, fam := range []string{"template-position", "types", "language", "names", "graph", "current", "composition", "legacy-ruleset", "legacy-action", "legacy-header", "legacy-graph", "legacy-spelling"} {
		need(r.Counters["valid_sources:"+fam] > 0, "no valid sources of family "+fam)
	}
	for _, v := range append(append([]string{}, allVersions...), "legacy") {
		need(r.Counters["valid_sources_at:"+v] > 0, "no valid sources at "+v)
	}
	need(r.Counters["valid_sources"] >= 10000, "fewer than 10000 valid sources")
	need(r.Counters["valid_sources:legacy-spelling"] >= 350, "fewer than 350 legacy spelling sources")
	need(r.Counters["source_x_target_migrations"] >= 5*r.Counters["valid_sources"], "fewer than 5 migrations per source on average")
	need(r.Facts["template_rewritten"] > 0, "no template was ever rewritten")
	need(r.Facts["template_value_from_webhook_preserved"] > 0, "no template drew its value from @webhook")
	need(r.Counters["valid_sources:composition"] >= 5000, "fewer than 5000 compositions")
	for _, f := range []string{"composition_checked_against_alone", "composition_two_templated_messages_in_one_node_through_13.5", "composition_two_templated_messages_in_different_nodes_through_13.5", "composition_instance_with_made_up_uuid_agrees"} {
		need(r.Facts[f] > 0, "vacuity fact never seen: "+f)
	}
	need(r.Counters["faults_single"] >= 20000, "fewer than 20000 single JSON faults")
	need(r.Counters["faults_truncation"] >= 10000, "fewer than 10000 truncations")
	need(r.Counters["fault_outcome:rejected"] > 0 && r.Counters["fault_outcome:accepted"] > 0, "faults were not both accepted and rejected")
	need(r.Counters["fault_reached_legacy_migration"] > 0, "no fault reached the legacy migration")
	if tier == "thorough" {
		need(r.Counters["faults_pair"] >= 100000, "fewer than 100000 fault pairs")
	}
	need(len(r.Outcomes) >= 5, "fewer than 5 outcome classes")
	return f
}

func init() {
	mc.Register(&mc.Check{
		ID:    "C16",
		Level: "exploration",
		Rule: "(i) bounded exhaustive enumeration of valid old definitions, each migrated by the real MigrateToVersion / MigrateToLatest to every newer version in one go and stepwise, loaded by the real ReadFlow and compared with the source: " +
			"every template position of every action and router type x 30 @webhook templates (none rebinding webhook as a lambda parameter) x translations x templating shapes, every action / router / wait / hint type, flow languages x localisation keys, result and category names around the 64 / 36 limits (ASCII, multi-byte, all-space), " +
			"all canonical flow graphs of <= 2 (thorough: 3) nodes over the structural node alphabet, each at each of 13.0 ... 13.5, definitions already current (three formattings); compositions: all sequences of 2 action constructs from {send_msg with a template and 0 / 1 / 2 / 3 / 6 variables, untranslated, translated in one or two languages or in part (13.4: only the last of two components), send_msg / call_webhook / set_run_result with @webhook templates, over-long result and category names, an untouched translated send_msg} (thorough: of 3; quick: of 3 over 7 of them, without routers), every instance with content of its own, x every partition into consecutive nodes x {no router, a switch router with @webhook operand, translated case and over-long names on every node}, each at each of 13.0 ... 13.5 - at every newer target every action / router with the translations keyed by its UUIDs must equal what migrating the flow holding it alone gives (UUIDs made up by a migration compared by position); legacy definitions: every ruleset_type (subflow, webhook, resthook, form_field, flow_field, contact_field, expression, group, random, airtime incl. two countries sharing currency and amount, every wait_*), every rule test type, every action type, rules of one category sharing a destination, " +
			"entry listed after other nodes, header forms, and all canonical legacy graphs of <= 3 (thorough: 4) nodes x every entry x layout; " +
			"legacy spellings of every legacy string member whose migrated counterpart the current spec validates against an enumeration or a pattern: webhook_action {absent, null, \"\", all 2^n upper / lower case spellings of GET HEAD POST PUT PATCH DELETE} x {without, with headers}, flow_type and ruleset_type {absent, null}, " +
			"save.field over contact properties, tel_e164, every current and some retired URN schemes and scheme-like field keys, reply / send media in 17 forms (full / bare / missing content type, relative / absolute / templated URL) x translated or not. " +
			"(ii) fault enumeration on definition JSON: for each seed (every legacy rule set and action source, one rich definition per 13.x version) every JSON path x every replacement from a fixed list (delete, null, true, 0, -1, 1.5, \"\", \"x\", \"@(\", [], {}, [null], {\"uuid\":1}, [[]], duplicate of the previous UUID, every other value of the member's type enumeration), every byte-prefix truncation raw and with the open brackets closed, and (thorough) all pairs of faults from {delete, null, \"\", {}} on the legacy rule set seeds. " +
			"A case is distinct by its bytes; distinct_nontrivial counts valid sources plus faulted inputs that are well-formed JSON.",
		Assumptions: []string{
			"validity at an old version is taken from the shapes the repository's own migration test data and template catalogs (specdata/templates.json) show for that version; result names use the character set the current validator accepts (the statement speaks of over-long names only)",
			"a legacy airtime rule set with different amounts in one currency is rejected on purpose (not representable) and is not in the valid space",
			"legacy spellings: the legacy reader validates none of these members, so a legacy definition is taken to be valid with an HTTP method in any letter case (the migration upper-cases it), with flow_type / ruleset_type missing (the migration defaults them) and with an attachment without content type (the migration defaults it to image); methods outside the six of the current spec are not in the valid space",
			"template values are compared in one fixed context (@webhook bound to a JSON body before 13.3, to an object with that body as .json from 13.3)",
			"faults: all single deviations from the seeds (pairs in thorough), not all byte strings",
			"compositions: 'equivalent' is taken per instance - the migrations rewrite one action / router at a time from that action / router and the translations keyed by its UUIDs alone, so an instance among others must come out as it does alone; the comparison is made on the JSON of every intermediate target too, with UUIDs that a migration generates (13.1 templating uuid, 13.4 body component uuid) named by position",
		},
		Run:    run,
		Replay: replayFn,
		Guards: guards,
		Budget: map[string]time.Duration{"quick": 4 * time.Minute, "thorough": 20 * time.Minute},
	})
}

var _ = sort.Strings
