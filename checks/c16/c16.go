// Package c16: (not built yet)
package c16
