package c16

import (
	"encoding/json"
	"fmt"
	"strings"

	"verif/mc"
)

// ---- family 7: compositions --------------------------------------------------------------------
//
// Every migration works its way through the nodes and actions of a flow, one after the other. A flow
// with several instances of a construct a migration rewrites (templated send_msg actions, templates
// referring to @webhook, over-long result and category names, translated items) must come out with
// every instance migrated the way that instance migrates when it stands alone in a flow: nothing a
// migration learns or builds for one action / router may reach the next one.
//
// The space: all sequences of 2 (and 3) action constructs from an alphabet, each instance with
// content of its own (templates, variable counts, names, translations differ from slot to slot), in
// every partition of the sequence into consecutive nodes, without and with a switch router closing
// every node, at every old version. The oracle: at every newer target version every action (router)
// of the migrated flow, together with the translations that belong to it, equals what migrating the
// flow that holds only this action (router) gives (UUIDs made up by a migration compared by where
// they stand, not by value).

type compSpec struct {
	Slots   []string `json:"slots"`   // construct names in flow order
	Layout  []int    `json:"layout"`  // how many of the slots each node holds
	Routers bool     `json:"routers"` // every node ends in a switch router that needs migrating itself
}

func (c *compSpec) String() string {
	ls := make([]string, len(c.Layout))
	for i, n := range c.Layout {
		ls[i] = fmt.Sprint(n)
	}
	r := "no routers"
	if c.Routers {
		r = "a switch router on every node"
	}
	return fmt.Sprintf("actions %s in nodes of %s, %s", strings.Join(c.Slots, ", "), strings.Join(ls, "+"), r)
}

// tagger hands out the tags by which a placed template is found again (see source.Templates)
type tagger struct{ m map[string]string }

func (t *tagger) tpl(tag int, text string) string {
	k, v := tagged(tag, text)
	if t != nil && t.m != nil {
		if _, dup := t.m[k]; dup {
			panic("c16: duplicate template tag " + k)
		}
		t.m[k] = v
	}
	return v
}

// pick chooses the n-th template of a slot from the @webhook alphabet; different slots get
// different templates
func pick(slot, n int) string {
	return webhookTemplates[(slot*11+n*3+1)%len(webhookTemplates)]
}

func cuuid(slot int, what string) string { return uuid(fmt.Sprintf("cmp.%d.%s", slot, what)) }

type locMap = map[string]J // language -> item uuid -> property -> []any

func locSet(loc locMap, lang, item, prop string, vals []any) {
	if loc[lang] == nil {
		loc[lang] = J{}
	}
	it, _ := loc[lang][item].(J)
	if it == nil {
		it = J{}
		loc[lang][item] = it
	}
	it[prop] = vals
}

type construct struct {
	name  string
	avail func(ver string) bool // nil: at every version
	build func(ver string, slot int, tg *tagger) (J, locMap)
}

// a templated send_msg: nvars variables, written as split components at 13.4, translated in langs;
// partial: at 13.4 only the last component is translated (the others fall back to the base params)
type tplShape struct {
	nvars   int
	split   []int
	langs   []string
	partial bool
}

func templatedMsg(name string, sh tplShape) construct {
	return construct{
		name: name,
		avail: func(ver string) bool {
			// 13.0 cannot translate variables: a construct that differs from another one only by its
			// translations does not exist there
			return !(ver == "13.0.0" && (name == "tpl1L" || name == "tpl2L"))
		},
		build: func(ver string, slot int, tg *tagger) (J, locMap) {
			base := 100 * (slot + 1)
			vars := make([]any, sh.nvars)
			for i := range vars {
				vars[i] = tg.tpl(base+i, pick(slot, i))
			}
			trans := map[string][]any{}
			if ver != "13.0.0" {
				for li, lang := range sh.langs {
					tr := make([]any, sh.nvars)
					for i := range tr {
						if sh.partial && ver == "13.4.0" && i < sh.nvars-sh.split[len(sh.split)-1] {
							continue // not placed
						}
						tr[i] = tg.tpl(base+10*(li+1)+i, pick(slot, i+li+4))
					}
					trans[lang] = tr
				}
			}
			a := J{"uuid": cuuid(slot, "act"), "type": "send_msg", "text": fmt.Sprintf("Hi from message %d", slot)}
			tref := J{"uuid": cuuid(slot, "template"), "name": fmt.Sprintf("welcome_%d", slot)}
			loc := locMap{}
			switch ver {
			case "13.0.0":
				a["templating"] = J{"template": tref, "variables": vars}
			case "13.1.0", "13.2.0", "13.3.0":
				a["templating"] = J{"uuid": cuuid(slot, "templating"), "template": tref, "variables": vars}
				for lang, tr := range trans {
					locSet(loc, lang, cuuid(slot, "templating"), "variables", tr)
				}
			case "13.4.0":
				comps := make([]any, len(sh.split))
				off := 0
				for ci, n := range sh.split {
					cu := cuuid(slot, fmt.Sprintf("comp.%d", ci))
					cname := "body"
					if ci > 0 {
						cname = fmt.Sprintf("button.%d", ci-1)
					}
					comps[ci] = J{"uuid": cu, "name": cname, "params": vars[off : off+n]}
					for lang, tr := range trans {
						if sh.partial && ci < len(sh.split)-1 {
							continue
						}
						if n > 0 {
							locSet(loc, lang, cu, "params", tr[off:off+n])
						}
					}
					off += n
				}
				a["templating"] = J{"template": tref, "components": comps}
			default:
				a["template"] = tref
				a["template_variables"] = vars
				for lang, tr := range trans {
					if sh.nvars > 0 {
						locSet(loc, lang, cuuid(slot, "act"), "template_variables", tr)
					}
				}
			}
			return a, loc
		},
	}
}

func longName(letter byte, n int) string { return strings.Repeat(string(letter), n) }

var constructs = []construct{
	templatedMsg("tpl0", tplShape{nvars: 0, split: []int{0}}),
	templatedMsg("tpl1", tplShape{nvars: 1, split: []int{1}}),
	templatedMsg("tpl1L", tplShape{nvars: 1, split: []int{1}, langs: []string{"spa"}}),
	templatedMsg("tpl2", tplShape{nvars: 2, split: []int{1, 1}}),
	templatedMsg("tpl2L", tplShape{nvars: 2, split: []int{1, 1}, langs: []string{"spa", "fra"}}),
	templatedMsg("tpl3P", tplShape{nvars: 3, split: []int{1, 2}, langs: []string{"spa"}, partial: true}),
	// more variables than any working buffer sized for the usual case
	templatedMsg("tpl6L", tplShape{nvars: 6, split: []int{4, 2}, langs: []string{"fra"}}),
	{name: "msgW", build: func(ver string, slot int, tg *tagger) (J, locMap) {
		base := 100 * (slot + 1)
		a := J{"uuid": cuuid(slot, "act"), "type": "send_msg", "text": tg.tpl(base, pick(slot, 0)), "quick_replies": []any{tg.tpl(base+1, pick(slot, 1)), "no"}}
		loc := locMap{}
		locSet(loc, "spa", cuuid(slot, "act"), "text", []any{tg.tpl(base+10, pick(slot, 4))})
		locSet(loc, "spa", cuuid(slot, "act"), "quick_replies", []any{tg.tpl(base+11, pick(slot, 5)), "no"})
		return a, loc
	}},
	{name: "hookW", build: func(ver string, slot int, tg *tagger) (J, locMap) {
		base := 100 * (slot + 1)
		return J{"uuid": cuuid(slot, "act"), "type": "call_webhook", "method": "POST",
			"url":         "http://x.test/" + tg.tpl(base, pick(slot, 0)),
			"body":        tg.tpl(base+1, pick(slot, 1)),
			"headers":     J{"Authorization": tg.tpl(base+2, pick(slot, 2))},
			"result_name": fmt.Sprintf("Call %d", slot)}, nil
	}},
	{name: "resL", build: func(ver string, slot int, tg *tagger) (J, locMap) {
		base := 100 * (slot + 1)
		return J{"uuid": cuuid(slot, "act"), "type": "set_run_result",
			"name":     longName('a'+byte(slot), 66+slot),
			"value":    tg.tpl(base, pick(slot, 0)),
			"category": longName('k'+byte(slot), 38+slot)}, nil
	}},
	// an action no migration has anything to do with, translated
	{name: "plain", build: func(ver string, slot int, tg *tagger) (J, locMap) {
		loc := locMap{}
		locSet(loc, "spa", cuuid(slot, "act"), "text", []any{fmt.Sprintf("texto %d", slot)})
		return J{"uuid": cuuid(slot, "act"), "type": "send_msg", "text": fmt.Sprintf("plain text %d", slot)}, loc
	}},
}

func constructByName(name string) *construct {
	for i := range constructs {
		if constructs[i].name == name {
			return &constructs[i]
		}
	}
	return nil
}

// the router closing node k: @webhook operand and (translated) case argument, over-long result and
// category names, all different from node to node
func compRouter(k int, tg *tagger) (J, locMap) {
	base := 1000 * (k + 1)
	nu := func(what string) string { return uuid(fmt.Sprintf("cmp.node.%d.%s", k, what)) }
	r := J{
		"type":        "switch",
		"operand":     tg.tpl(base, pick(k+5, 0)),
		"result_name": longName('r'+byte(k), 65+k),
		"cases": []any{
			J{"uuid": nu("case"), "type": "has_any_word", "arguments": []any{tg.tpl(base+1, pick(k+5, 1))}, "category_uuid": nu("cat.0")},
		},
		"categories": []any{
			J{"uuid": nu("cat.0"), "name": longName('c'+byte(k), 37+k), "exit_uuid": nu("exit.0")},
			J{"uuid": nu("cat.1"), "name": "Other", "exit_uuid": nu("exit.1")},
		},
		"default_category_uuid": nu("cat.1"),
	}
	loc := locMap{}
	locSet(loc, "spa", nu("case"), "arguments", []any{tg.tpl(base+2, pick(k+5, 2))})
	return r, loc
}

func compNodeUUID(k int) string { return uuid(fmt.Sprintf("cmp.node.%d", k)) }

func mergeLoc(into J, loc locMap) {
	for lang, items := range loc {
		m, _ := into[lang].(J)
		if m == nil {
			m = J{}
			into[lang] = m
		}
		for k, v := range items {
			m[k] = v
		}
	}
}

// compNode builds node k holding the given actions (and the router of node k), leading to dest
func compNode(k int, actions []any, router J, dest string) J {
	nu := func(what string) string { return uuid(fmt.Sprintf("cmp.node.%d.%s", k, what)) }
	first := J{"uuid": nu("exit.0")}
	if dest != "" {
		first["destination_uuid"] = dest
	}
	n := J{"uuid": compNodeUUID(k), "exits": []any{first}}
	if len(actions) > 0 {
		n["actions"] = actions
	}
	if router != nil {
		n["router"] = router
		n["exits"] = []any{first, J{"uuid": nu("exit.1")}}
	}
	return n
}

func compHeader(ver string, nodes []any, loc J) J {
	if len(loc) == 0 {
		loc = nil
	}
	return flowHeader(ver, "eng", "messaging", append(nodes, tailNode()), loc)
}

// compFlow renders the whole composition at a version
func compFlow(ver string, spec *compSpec, tg *tagger) J {
	loc := J{}
	var nodes []any
	slot := 0
	for k, cnt := range spec.Layout {
		var actions []any
		for i := 0; i < cnt; i++ {
			a, l := constructByName(spec.Slots[slot]).build(ver, slot, tg)
			actions = append(actions, a)
			mergeLoc(loc, l)
			slot++
		}
		var router J
		if spec.Routers {
			var l locMap
			router, l = compRouter(k, tg)
			mergeLoc(loc, l)
		}
		dest := uuid("node.tail")
		if k+1 < len(spec.Layout) {
			dest = compNodeUUID(k + 1)
		}
		nodes = append(nodes, compNode(k, actions, router, dest))
	}
	return compHeader(ver, nodes, loc)
}

// the flows that hold one instance alone: the action of a slot, the router of a node
func compAloneAction(ver, name string, slot int) J {
	a, l := constructByName(name).build(ver, slot, nil)
	loc := J{}
	mergeLoc(loc, l)
	return compHeader(ver, []any{compNode(0, []any{a}, nil, uuid("node.tail"))}, loc)
}

func compAloneRouter(ver string, k int) J {
	r, l := compRouter(k, nil)
	loc := J{}
	mergeLoc(loc, l)
	return compHeader(ver, []any{compNode(k, nil, r, uuid("node.tail"))}, loc)
}

func familyCompositions(tier string, emit func(*source)) {
	var all, small []string
	for _, c := range constructs {
		all = append(all, c.name)
	}
	// the constructs of which three in a row are enumerated in the quick tier
	small = []string{"tpl1L", "tpl2", "tpl3P", "tpl6L", "msgW", "resL", "plain"}
	if tier != "quick" {
		small = all
	}
	var seqs func(alpha []string, n int, prefix []string, f func([]string))
	seqs = func(alpha []string, n int, prefix []string, f func([]string)) {
		if n == 0 {
			f(append([]string{}, prefix...))
			return
		}
		for _, a := range alpha {
			seqs(alpha, n-1, append(prefix, a), f)
		}
	}
	layouts := map[int][][]int{2: {{2}, {1, 1}}, 3: {{3}, {2, 1}, {1, 2}, {1, 1, 1}}}
	for _, ver := range oldVersions {
		for _, n := range []int{2, 3} {
			alpha := all
			if n == 3 {
				alpha = small
			}
			seqs(alpha, n, nil, func(slots []string) {
				for _, name := range slots {
					if c := constructByName(name); c.avail != nil && !c.avail(ver) {
						return
					}
				}
				for _, layout := range layouts[n] {
					for _, routers := range []bool{false, true} {
						if n == 3 && routers && tier == "quick" {
							continue
						}
						spec := &compSpec{Slots: slots, Layout: layout, Routers: routers}
						tg := &tagger{m: map[string]string{}}
						s := &source{Family: "composition", Version: ver, Desc: spec.String(), Comp: spec}
						s.Def = compFlow(ver, spec, tg)
						s.Templates = tg.m
						emit(s)
					}
				}
			})
		}
	}
}

// ---- the oracle ----------------------------------------------------------------------------------

func uuidStrings(v any, into map[string]bool, order *[]string) {
	switch t := v.(type) {
	case string:
		if len(t) == 36 && uuidRe.MatchString(t) && !into[t] {
			into[t] = true
			if order != nil {
				*order = append(*order, t)
			}
		}
	case map[string]any:
		for _, k := range sortedKeys(t) {
			uuidStrings(t[k], into, order)
		}
	case []any:
		for _, x := range t {
			uuidStrings(x, into, order)
		}
	}
}

func renamed(v any, names map[string]string) any {
	switch t := v.(type) {
	case string:
		if n, ok := names[t]; ok {
			return n
		}
	case map[string]any:
		c := make(map[string]any, len(t))
		for k, x := range t {
			c[k] = renamed(x, names)
		}
		return c
	case []any:
		c := make([]any, len(t))
		for i, x := range t {
			c[i] = renamed(x, names)
		}
		return c
	}
	return v
}

// instanceView is one migrated action or router with the translations that belong to it
type instanceView struct {
	Obj map[string]any            `json:"obj"`
	Loc map[string]map[string]any `json:"loc,omitempty"` // language -> item -> translations
}

// viewOf: obj is the migrated action / router, srcObj its source, def the migrated definition and
// srcUUIDs every UUID of the source definition. The items that belong to the instance are those keyed
// by a UUID of its source or of its migrated form; UUIDs a migration made up are named by the order
// in which they stand in the migrated object. It also returns the item keys it claimed.
func viewOf(obj map[string]any, srcObj any, def map[string]any, srcUUIDs map[string]bool) (instanceView, map[string]bool) {
	own := map[string]bool{}
	var inObj []string
	uuidStrings(obj, own, &inObj)
	uuidStrings(srcObj, own, nil)
	names := map[string]string{}
	for _, u := range inObj {
		if !srcUUIDs[u] {
			names[u] = fmt.Sprintf("made-up-uuid-%d", len(names))
		}
	}
	v := instanceView{Obj: renamed(obj, names).(map[string]any)}
	loc, _ := def["localization"].(map[string]any)
	for _, lang := range sortedKeys(loc) {
		items, _ := loc[lang].(map[string]any)
		for _, item := range sortedKeys(items) {
			if !own[item] {
				continue
			}
			if v.Loc == nil {
				v.Loc = map[string]map[string]any{}
			}
			if v.Loc[lang] == nil {
				v.Loc[lang] = map[string]any{}
			}
			key := item
			if n, ok := names[item]; ok {
				key = n
			}
			v.Loc[lang][key] = items[item]
		}
	}
	return v, own
}

func findAction(def map[string]any, u string) map[string]any {
	nodes, _ := def["nodes"].([]any)
	for _, n := range nodes {
		nm, _ := n.(map[string]any)
		actions, _ := nm["actions"].([]any)
		for _, a := range actions {
			am, _ := a.(map[string]any)
			if str(am["uuid"]) == u {
				return am
			}
		}
	}
	return nil
}

func findRouter(def map[string]any, nodeUUID string) map[string]any {
	nodes, _ := def["nodes"].([]any)
	for _, n := range nodes {
		nm, _ := n.(map[string]any)
		if str(nm["uuid"]) == nodeUUID {
			r, _ := nm["router"].(map[string]any)
			return r
		}
	}
	return nil
}

func generic(v any) map[string]any {
	var m map[string]any
	if err := json.Unmarshal(mustJSON(v), &m); err != nil {
		panic(err)
	}
	return m
}

// the migration of an instance standing alone, per target version
type aloneResult struct {
	views map[string]instanceView
	errs  map[string]string
}

var aloneCache = map[string]*aloneResult{}

// alone migrates the flow holding only one instance to every newer version (in one go) and returns
// the view of the instance at each. find locates the instance in a definition.
func alone(key, ver string, def J, find func(map[string]any) map[string]any, st *stats) *aloneResult {
	ck := key + "|" + ver
	if r := aloneCache[ck]; r != nil {
		return r
	}
	r := &aloneResult{views: map[string]instanceView{}, errs: map[string]string{}}
	srcDef := generic(def)
	srcUUIDs := map[string]bool{}
	uuidStrings(srcDef, srcUUIDs, nil)
	srcObj := find(srcDef)
	data := mustJSON(def)
	for ti := versionIndex(ver) + 1; ti < len(allVersions); ti++ {
		to := allVersions[ti]
		out, err, p := migrateTo(data, to)
		if st != nil {
			st.migrations++
		}
		if p != "" || err != nil {
			r.errs[to] = fmt.Sprintf("err=%v panic=%s", err, p)
			continue
		}
		var outDef map[string]any
		if err := json.Unmarshal(out, &outDef); err != nil {
			r.errs[to] = err.Error()
			continue
		}
		obj := find(outDef)
		if obj == nil {
			r.errs[to] = "the instance is not in the migrated definition"
			continue
		}
		r.views[to], _ = viewOf(obj, srcObj, outDef, srcUUIDs)
	}
	aloneCache[ck] = r
	return r
}

// firstDifference names the member of the object, or the translated property, in which two views of
// an instance differ
func firstDifference(want, got instanceView) string {
	keys := map[string]bool{}
	for k := range want.Obj {
		keys[k] = true
	}
	for k := range got.Obj {
		keys[k] = true
	}
	for _, k := range sortedKeys(keys) {
		if mc.JSON(want.Obj[k]) != mc.JSON(got.Obj[k]) {
			return k
		}
	}
	langs := map[string]bool{}
	for l := range want.Loc {
		langs[l] = true
	}
	for l := range got.Loc {
		langs[l] = true
	}
	for _, l := range sortedKeys(langs) {
		items := map[string]bool{}
		for i := range want.Loc[l] {
			items[i] = true
		}
		for i := range got.Loc[l] {
			items[i] = true
		}
		for _, i := range sortedKeys(items) {
			wi, _ := want.Loc[l][i].(map[string]any)
			gi, _ := got.Loc[l][i].(map[string]any)
			props := map[string]bool{}
			for p := range wi {
				props[p] = true
			}
			for p := range gi {
				props[p] = true
			}
			for _, p := range sortedKeys(props) {
				if mc.JSON(wi[p]) != mc.JSON(gi[p]) {
					return "translation-of-" + p
				}
			}
			if (wi == nil) != (gi == nil) {
				return "translated-item"
			}
		}
	}
	return "nothing"
}

// compProblems compares every instance of a composition migrated to version `to` (outDef) with the
// same instance migrated alone. An instance is reported at the first target at which it deviates.
func compProblems(s *source, srcDef map[string]any, to string, route string, outDef map[string]any, reported map[string]bool, st *stats) []problem {
	var ps []problem
	add := func(key, what string) {
		ps = append(ps, problem{key, fmt.Sprintf("%s [%s %s -> %s, %s]\n%s", what, s.Family, s.Version, to, route, s.Desc)})
	}
	spec := s.Comp
	srcUUIDs := map[string]bool{}
	uuidStrings(srcDef, srcUUIDs, nil)
	claimed := map[string]bool{}

	// the actions of every node are the same actions in the same order
	srcNodes, _ := srcDef["nodes"].([]any)
	outNodes, _ := outDef["nodes"].([]any)
	actionUUIDs := func(nodes []any) string {
		var all [][]string
		for _, n := range nodes {
			nm, _ := n.(map[string]any)
			as, _ := nm["actions"].([]any)
			us := []string{}
			for _, a := range as {
				am, _ := a.(map[string]any)
				us = append(us, str(am["uuid"])+" "+str(am["type"]))
			}
			all = append(all, us)
		}
		return mc.JSON(all)
	}
	if a, b := actionUUIDs(srcNodes), actionUUIDs(outNodes); a != b && !reported["actions"] {
		reported["actions"] = true
		add("composition:actions-of-nodes-changed:first-at-"+to, fmt.Sprintf("the nodes hold other actions than before\nsource:   %s\nmigrated: %s", a, b))
	}

	compare := func(id, class, key string, aloneDef J, find func(map[string]any) map[string]any) {
		ref := alone(key, s.Version, aloneDef, find, st)
		if e := ref.errs[to]; e != "" {
			if !reported[id] {
				reported[id] = true
				add("harness:instance-alone-does-not-migrate", key+" to "+to+": "+e)
			}
			return
		}
		obj := find(outDef)
		if obj == nil {
			if !reported[id] {
				reported[id] = true
				add("composition:instance-lost:"+class+":first-at-"+to, key+" is not in the migrated definition")
			}
			return
		}
		got, own := viewOf(obj, find(srcDef), outDef, srcUUIDs)
		for k := range own {
			claimed[k] = true
		}
		want := ref.views[to]
		if mc.JSON(want) == mc.JSON(got) {
			if strings.Contains(mc.JSON(got), "made-up-uuid-") {
				st.fact("composition_instance_with_made_up_uuid_agrees")
			}
			return
		}
		if reported[id] {
			return
		}
		reported[id] = true
		add("not-as-migrated-alone:"+class+"."+firstDifference(want, got)+":first-at-"+to,
			fmt.Sprintf("%s of the composition is not migrated the way it is migrated when it is the only one in the flow\nalone:       %s\ncomposition: %s", key, mc.JSON(want), mc.JSON(got)))
	}

	slot := 0
	for k, cnt := range spec.Layout {
		for i := 0; i < cnt; i++ {
			name, sl := spec.Slots[slot], slot
			typ := str(findActionOr(srcDef, cuuid(sl, "act"))["type"])
			compare(fmt.Sprintf("slot%d", sl), typ, fmt.Sprintf("action %d (%s)", sl, name), compAloneAction(s.Version, name, sl),
				func(def map[string]any) map[string]any { return findAction(def, cuuid(sl, "act")) })
			slot++
		}
		if spec.Routers {
			kk := k
			compare(fmt.Sprintf("router%d", kk), "switch-router", fmt.Sprintf("router of node %d", kk), compAloneRouter(s.Version, kk),
				func(def map[string]any) map[string]any { return findRouter(def, compNodeUUID(kk)) })
		}
	}

	// every translated item of the migrated flow belongs to one of the instances
	if !reported["items"] {
		loc, _ := outDef["localization"].(map[string]any)
		for _, lang := range sortedKeys(loc) {
			items, _ := loc[lang].(map[string]any)
			for _, item := range sortedKeys(items) {
				if !claimed[item] && !reported["items"] {
					reported["items"] = true
					add("composition:translated-item-of-no-instance:first-at-"+to, fmt.Sprintf("localization %s has item %s = %s, which belongs to no action or router of the flow", lang, item, mc.JSON(items[item])))
				}
			}
		}
	}
	if len(ps) == 0 {
		st.fact("composition_checked_against_alone")
		templated := 0
		for _, n := range spec.Slots {
			if strings.HasPrefix(n, "tpl") && n != "tpl0" {
				templated++
			}
		}
		if templated >= 2 && versionIndex(s.Version) < versionIndex("13.5.0") && versionIndex(to) >= versionIndex("13.5.0") {
			if len(spec.Layout) == 1 {
				st.fact("composition_two_templated_messages_in_one_node_through_13.5")
			} else if len(spec.Layout) == len(spec.Slots) {
				st.fact("composition_two_templated_messages_in_different_nodes_through_13.5")
			}
		}
	}
	return ps
}

func findActionOr(def map[string]any, u string) map[string]any {
	if a := findAction(def, u); a != nil {
		return a
	}
	return map[string]any{}
}
