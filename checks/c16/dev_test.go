package c16

import (
	"fmt"
	"sort"
	"testing"
	"time"
)

func TestDevSources(t *testing.T) {
	st := &stats{}
	n := 0
	keys := map[string]int{}
	ex := map[string]string{}
	fam := map[string]int{}
	start := time.Now()
	sourcesOf("quick", func(s *source) {
		n++
		fam[s.Family]++
		if s.Family == "graph" && n%7 != 0 {
			return
		}
		for _, p := range checkSource(s, st) {
			keys[p.Key]++
			if ex[p.Key] == "" {
				ex[p.Key] = p.What
			}
		}
	})
	fmt.Println("sources", n, fam, "migrations", st.migrations, time.Since(start), st.facts)
	var ks []string
	for k := range keys {
		ks = append(ks, k)
	}
	sort.Strings(ks)
	for _, k := range ks {
		w := ex[k]
		if len(w) > 700 {
			w = w[:700]
		}
		fmt.Printf("== %s (%d)\n%s\n", k, keys[k], w)
	}
}
