package c16

import (
	"fmt"
	"strings"

	"verif/world"
)

type J = map[string]any

// Versions a 13.x source may be written at, oldest first, and the current version.
var oldVersions = []string{"13.0.0", "13.1.0", "13.2.0", "13.3.0", "13.4.0", "13.5.0"}

const currentVersion = "13.6.0"

var allVersions = append(append([]string{}, oldVersions...), currentVersion)

func versionIndex(v string) int {
	for i, x := range allVersions {
		if x == v {
			return i
		}
	}
	panic("unknown version " + v)
}

func uuid(name string) string { return world.UUID("c16." + name) }

// A source is one valid definition at an old version together with what the oracle needs to know
// about it.
type source struct {
	Family  string `json:"family"`
	Desc    string `json:"desc"`
	Version string `json:"version"` // "legacy" or 13.x.0
	Def     J      `json:"def"`
	// Templates placed by the generator: tag -> template text. The tag (#n#) is body text inside
	// the template so that the template can be found again after migration.
	Templates map[string]string `json:"templates,omitempty"`
	// ExpectLanguage is the flow language the migrated definition must have ("" = not checked)
	ExpectLanguage string `json:"expect_language,omitempty"`
	// Comp is set for the compositions of family 7: which instances the flow is made of
	Comp *compSpec `json:"comp,omitempty"`
}

// ---- building blocks (the shapes are those of the current spec unless a version says otherwise) ----

func exitTo(name string, dest string) J {
	x := J{"uuid": uuid(name)}
	if dest != "" {
		x["destination_uuid"] = dest
	}
	return x
}

func flowHeader(version, language, typ string, nodes []any, localization J) J {
	f := J{
		"uuid":         uuid("flow"),
		"name":         "C16 flow",
		"spec_version": version,
		"language":     language,
		"type":         typ,
		"revision":     7,
		"nodes":        nodes,
	}
	if localization != nil {
		f["localization"] = localization
	}
	return f
}

// terminal node every content node points to, so that a destination exists
func tailNode() J {
	return J{"uuid": uuid("node.tail"), "actions": []any{J{"uuid": uuid("act.tail"), "type": "set_contact_name", "name": "Tail"}}, "exits": []any{exitTo("exit.tail", "")}}
}

func actionNode(actions ...any) J {
	return J{"uuid": uuid("node.main"), "actions": actions, "exits": []any{exitTo("exit.main", uuid("node.tail"))}}
}

func switchRouterNode(operand string, arguments []any, wait J, resultName string, catNames [2]string) J {
	r := J{
		"type":    "switch",
		"operand": operand,
		"cases": []any{
			J{"uuid": uuid("case.0"), "type": "has_any_word", "arguments": arguments, "category_uuid": uuid("cat.0")},
		},
		"categories": []any{
			J{"uuid": uuid("cat.0"), "name": catNames[0], "exit_uuid": uuid("exit.main")},
			J{"uuid": uuid("cat.1"), "name": catNames[1], "exit_uuid": uuid("exit.other")},
		},
		"default_category_uuid": uuid("cat.1"),
	}
	if wait != nil {
		r["wait"] = wait
	}
	if resultName != "" {
		r["result_name"] = resultName
	}
	return J{"uuid": uuid("node.main"), "router": r, "exits": []any{exitTo("exit.main", uuid("node.tail")), exitTo("exit.other", "")}}
}

// templatingAt renders the templating of a send_msg action the way version v writes it.
// variables: the base-language variables; it returns the members to merge into the action and the
// item UUID / property under which translated variables are stored at that version ("" = the
// version cannot localise them).
func templatingAt(v string, actionUUID string, variables []string, twoComponents bool) (members J, locUUID []string, locProp string, split []int) {
	tref := J{"uuid": uuid("template"), "name": "welcome"}
	vars := make([]any, len(variables))
	for i, s := range variables {
		vars[i] = s
	}
	switch v {
	case "13.0.0":
		return J{"templating": J{"template": tref, "variables": vars}}, nil, "", nil
	case "13.1.0", "13.2.0", "13.3.0":
		return J{"templating": J{"uuid": uuid("templating"), "template": tref, "variables": vars}}, []string{uuid("templating")}, "variables", []int{len(variables)}
	case "13.4.0":
		if twoComponents && len(variables) >= 2 {
			k := len(variables) / 2
			comps := []any{
				J{"uuid": uuid("comp.0"), "name": "body", "params": vars[:k]},
				J{"uuid": uuid("comp.1"), "name": "button.0", "params": vars[k:]},
			}
			return J{"templating": J{"template": tref, "components": comps}}, []string{uuid("comp.0"), uuid("comp.1")}, "params", []int{k, len(variables) - k}
		}
		comps := []any{J{"uuid": uuid("comp.0"), "name": "body", "params": vars}}
		return J{"templating": J{"template": tref, "components": comps}}, []string{uuid("comp.0")}, "params", []int{len(variables)}
	default: // 13.5.0, 13.6.0
		return J{"template": tref, "template_variables": vars}, []string{actionUUID}, "template_variables", []int{len(variables)}
	}
}

// ---- template positions ------------------------------------------------------------------------

// position places one template (and, where the field is localisable, a translation of it) in a flow.
type position struct {
	name      string
	flowType  string // messaging | voice
	localized string // property name under which a translation is stored, "" if not localisable
	locItem   string // uuid of the localisable item (action or case)
	node      func(t string) J
}

func act(typ string, members J) J {
	a := J{"uuid": uuid("act.main"), "type": typ}
	for k, v := range members {
		a[k] = v
	}
	return a
}

func positions() []position {
	flowRef := J{"uuid": uuid("other-flow"), "name": "Other"}
	var ps []position
	add := func(name, flowType, localized string, mk func(t string) J) {
		ps = append(ps, position{name: name, flowType: flowType, localized: localized, locItem: uuid("act.main"), node: func(t string) J { return actionNode(mk(t)) }})
	}
	m, v := "messaging", "voice"
	add("add_contact_groups.groups.name_match", m, "", func(t string) J { return act("add_contact_groups", J{"groups": []any{J{"name_match": t}}}) })
	add("add_contact_urn.path", m, "", func(t string) J { return act("add_contact_urn", J{"scheme": "tel", "path": t}) })
	add("add_input_labels.labels.name_match", m, "", func(t string) J { return act("add_input_labels", J{"labels": []any{J{"name_match": t}}}) })
	add("call_classifier.input", m, "", func(t string) J {
		return act("call_classifier", J{"classifier": J{"uuid": uuid("classifier"), "name": "Booking"}, "input": t, "result_name": "Intent"})
	})
	add("call_webhook.url", m, "", func(t string) J {
		return act("call_webhook", J{"method": "GET", "url": "http://x.test/" + t, "result_name": "Call"})
	})
	add("call_webhook.body", m, "", func(t string) J {
		return act("call_webhook", J{"method": "POST", "url": "http://x.test/", "body": t, "result_name": "Call"})
	})
	add("call_webhook.headers", m, "", func(t string) J {
		return act("call_webhook", J{"method": "GET", "url": "http://x.test/", "headers": J{"Authorization": t}})
	})
	add("open_ticket.body", m, "", func(t string) J {
		return act("open_ticket", J{"topic": J{"uuid": uuid("topic"), "name": "Support"}, "body": t, "result_name": "Ticket"})
	})
	add("open_ticket.assignee.email_match", m, "", func(t string) J {
		return act("open_ticket", J{"body": "help", "assignee": J{"email_match": t}, "result_name": "Ticket"})
	})
	add("play_audio.audio_url", v, "audio_url", func(t string) J { return act("play_audio", J{"audio_url": "http://x.test/" + t}) })
	add("remove_contact_groups.groups.name_match", m, "", func(t string) J { return act("remove_contact_groups", J{"groups": []any{J{"name_match": t}}}) })
	add("say_msg.text", v, "text", func(t string) J { return act("say_msg", J{"text": t}) })
	add("send_broadcast.text", m, "text", func(t string) J {
		return act("send_broadcast", J{"text": t, "groups": []any{J{"uuid": uuid("group"), "name": "Testers"}}})
	})
	add("send_broadcast.attachments", m, "attachments", func(t string) J {
		return act("send_broadcast", J{"text": "hi", "attachments": []any{"image/jpeg:http://x.test/" + t}, "groups": []any{J{"uuid": uuid("group"), "name": "Testers"}}})
	})
	add("send_broadcast.quick_replies", m, "quick_replies", func(t string) J {
		return act("send_broadcast", J{"text": "hi", "quick_replies": []any{"yes", t}, "groups": []any{J{"uuid": uuid("group"), "name": "Testers"}}})
	})
	add("send_broadcast.contact_query", m, "", func(t string) J {
		return act("send_broadcast", J{"text": "hi", "contact_query": "name = \"" + t + "\""})
	})
	add("send_broadcast.groups.name_match", m, "", func(t string) J { return act("send_broadcast", J{"text": "hi", "groups": []any{J{"name_match": t}}}) })
	add("send_broadcast.legacy_vars", m, "", func(t string) J { return act("send_broadcast", J{"text": "hi", "legacy_vars": []any{t}}) })
	add("send_email.addresses", m, "", func(t string) J { return act("send_email", J{"addresses": []any{t}, "subject": "s", "body": "b"}) })
	add("send_email.subject", m, "subject", func(t string) J {
		return act("send_email", J{"addresses": []any{"a@x.test"}, "subject": t, "body": "b"})
	})
	add("send_email.body", m, "body", func(t string) J {
		return act("send_email", J{"addresses": []any{"a@x.test"}, "subject": "s", "body": t})
	})
	add("send_msg.text", m, "text", func(t string) J { return act("send_msg", J{"text": t}) })
	add("send_msg.attachments", m, "attachments", func(t string) J {
		return act("send_msg", J{"text": "hi", "attachments": []any{"image/jpeg:http://x.test/" + t}})
	})
	add("send_msg.quick_replies", m, "quick_replies", func(t string) J { return act("send_msg", J{"text": "hi", "quick_replies": []any{t, "no"}}) })
	add("set_contact_field.value", m, "", func(t string) J {
		return act("set_contact_field", J{"field": J{"key": "gender", "name": "Gender"}, "value": t})
	})
	add("set_contact_language.language", m, "", func(t string) J { return act("set_contact_language", J{"language": t}) })
	add("set_contact_name.name", m, "", func(t string) J { return act("set_contact_name", J{"name": t}) })
	add("set_contact_timezone.timezone", m, "", func(t string) J { return act("set_contact_timezone", J{"timezone": t}) })
	add("set_run_result.value", m, "", func(t string) J { return act("set_run_result", J{"name": "Result", "value": t, "category": "Cat"}) })
	add("start_session.contact_query", m, "", func(t string) J {
		return act("start_session", J{"flow": flowRef, "contact_query": "name = \"" + t + "\""})
	})
	add("start_session.groups.name_match", m, "", func(t string) J { return act("start_session", J{"flow": flowRef, "groups": []any{J{"name_match": t}}}) })
	add("start_session.legacy_vars", m, "", func(t string) J { return act("start_session", J{"flow": flowRef, "legacy_vars": []any{t}}) })
	// routers
	ps = append(ps, position{name: "switch.operand", flowType: m, node: func(t string) J {
		return switchRouterNode(t, []any{"a"}, J{"type": "msg"}, "Answer", [2]string{"A", "Other"})
	}})
	ps = append(ps, position{name: "switch.cases.arguments", flowType: m, localized: "arguments", locItem: uuid("case.0"), node: func(t string) J {
		return switchRouterNode("@input.text", []any{t}, nil, "", [2]string{"A", "Other"})
	}})
	return ps
}

// actions and routers that carry no template (so that every action, router, wait and hint type is a source)
func untemplatedNodes() map[string]struct {
	flowType string
	node     J
} {
	flowRef := J{"uuid": uuid("other-flow"), "name": "Other"}
	out := map[string]struct {
		flowType string
		node     J
	}{}
	put := func(name, ft string, n J) {
		out[name] = struct {
			flowType string
			node     J
		}{ft, n}
	}
	put("call_resthook", "messaging", actionNode(act("call_resthook", J{"resthook": "new-registration", "result_name": "Hook"})))
	put("enter_flow", "messaging", actionNode(act("enter_flow", J{"flow": flowRef})))
	put("enter_flow.terminal", "messaging", actionNode(act("enter_flow", J{"flow": flowRef, "terminal": true})))
	put("request_optin", "messaging", actionNode(act("request_optin", J{"optin": J{"uuid": uuid("optin"), "name": "Jokes"}})))
	put("set_contact_channel", "messaging", actionNode(act("set_contact_channel", J{"channel": J{"uuid": uuid("channel"), "name": "Android"}})))
	put("set_contact_status", "messaging", actionNode(act("set_contact_status", J{"status": "blocked"})))
	put("transfer_airtime", "messaging", actionNode(act("transfer_airtime", J{"amounts": J{"USD": 0.5, "RWF": 500}, "result_name": "Reward"})))
	put("remove_contact_groups.all", "messaging", actionNode(act("remove_contact_groups", J{"all_groups": true})))
	put("no_actions", "messaging", J{"uuid": uuid("node.main"), "exits": []any{exitTo("exit.main", uuid("node.tail"))}})
	put("random_router", "messaging", J{"uuid": uuid("node.main"), "router": J{"type": "random", "result_name": "Split", "categories": []any{
		J{"uuid": uuid("cat.0"), "name": "Bucket 1", "exit_uuid": uuid("exit.main")},
		J{"uuid": uuid("cat.1"), "name": "Bucket 2", "exit_uuid": uuid("exit.other")},
	}}, "exits": []any{exitTo("exit.main", uuid("node.tail")), exitTo("exit.other", "")}})
	for _, h := range []struct {
		name string
		hint J
	}{
		{"none", nil}, {"audio", J{"type": "audio"}}, {"image", J{"type": "image"}}, {"video", J{"type": "video"}}, {"location", J{"type": "location"}},
		{"digits1", J{"type": "digits", "count": 1}}, {"digits#", J{"type": "digits", "terminated_by": "#"}},
	} {
		w := J{"type": "msg"}
		if h.hint != nil {
			w["hint"] = h.hint
		}
		put("wait_msg.hint_"+h.name, "messaging", switchRouterNode("@input.text", []any{"a"}, w, "Answer", [2]string{"A", "Other"}))
	}
	// msg wait with a timeout whose category shares the default exit
	n := switchRouterNode("@input.text", []any{"a"}, J{"type": "msg", "timeout": J{"seconds": 600, "category_uuid": uuid("cat.2")}}, "Answer", [2]string{"A", "Other"})
	r := n["router"].(J)
	r["categories"] = append(r["categories"].([]any), J{"uuid": uuid("cat.2"), "name": "No Response", "exit_uuid": uuid("exit.other")})
	put("wait_msg.timeout", "messaging", n)
	put("wait_dial", "voice", switchRouterNode("@(default(resume.dial.status, \"\"))", []any{"answered"}, J{"type": "dial", "phone": "+593979123456", "dial_limit_seconds": 60, "call_limit_seconds": 120}, "", [2]string{"Answered", "Other"}))
	// sub-flow split: enter_flow action and a router on the child's status, both categories on one exit
	sub := switchRouterNode("@child.status", []any{"completed"}, nil, "", [2]string{"Complete", "Expired"})
	sub["actions"] = []any{act("enter_flow", J{"flow": flowRef})}
	put("subflow_split", "messaging", sub)
	return out
}

// ---- the @webhook template alphabet ------------------------------------------------------------

// webhookTemplates are templates as they may stand in a definition written before 13.3, where
// @webhook is the JSON body of the last webhook response. None rebinds webhook as a lambda parameter.
var webhookTemplates = []string{
	`@webhook`,
	`@webhook.foo`,
	`@(webhook)`,
	`@(webhook.foo)`,
	`@(webhook["foo"])`,
	`@(upper(webhook.foo))`,
	`@(UPPER( webhook.foo ))`,
	`@(webhook.foo & webhook.n)`,
	`@(if(webhook.n > 1, webhook.foo, "x"))`,
	`@WEBHOOK.foo`,
	`@(WebHook.foo)`,
	`hi @webhook.foo.`,
	`@@webhook @webhook.n`,
	`@(json(webhook))`,
	`@(foreach(webhook.list, (x) => x & webhook.foo))`,
	`@(webhook.json)`,
	`@(webhook.json.deep)`,
	`@results.webhook`,
	`@(results.webhook.value & webhook.foo)`,
	`@(webhook.webhook)`,
	`@webhooks`,
	`@(webhook_x)`,
	`x@webhook.foo`,
	`@(webhook.list[0])`,
	`@(count(webhook.list) + webhook.n * 2 - 1)`,
	`@(webhook.foo & " q\"q")`,
	`@(1 / ) @webhook.foo`,
	`@(webhook.foo`,
	`@contact.name @(contact.name & webhook.foo) @fields.gender`,
	`no expression`,
}

func tagged(tag int, t string) (string, string) {
	k := fmt.Sprintf("#%d#", tag)
	return k, k + " " + t
}

// ---- source families ---------------------------------------------------------------------------

func cloneJ(v any) any {
	switch t := v.(type) {
	case map[string]any:
		c := make(map[string]any, len(t))
		for k, x := range t {
			c[k] = cloneJ(x)
		}
		return c
	case []any:
		c := make([]any, len(t))
		for i, x := range t {
			c[i] = cloneJ(x)
		}
		return c
	}
	return v
}

// family 1: every template position x every @webhook template, at every old version, with a
// translation of the field in a second language where the field is localisable.
func familyWebhookPositions(emit func(*source)) {
	for _, ver := range oldVersions {
		for _, p := range positions() {
			for ti, t := range webhookTemplates {
				s := &source{Family: "template-position", Version: ver, Desc: p.name + " <- " + t, Templates: map[string]string{}}
				k1, t1 := tagged(1, t)
				s.Templates[k1] = t1
				node := p.node(t1)
				var loc J
				if p.localized != "" {
					// the translation carries the next template of the alphabet
					k2, t2 := tagged(2, webhookTemplates[(ti+1)%len(webhookTemplates)])
					s.Templates[k2] = t2
					tr := t2
					switch p.name {
					case "play_audio.audio_url":
						tr = "http://x.test/" + t2
					case "send_msg.attachments", "send_broadcast.attachments":
						tr = "image/jpeg:http://x.test/" + t2
					}
					loc = J{"spa": J{p.locItem: J{p.localized: []any{tr}}}}
				}
				s.Def = flowHeader(ver, "eng", p.flowType, []any{node, tailNode()}, loc)
				emit(s)
			}
		}
		// templating variables (send_msg), with and without translations, one or two components
		for ti, t := range webhookTemplates {
			for _, withLoc := range []bool{false, true} {
				for _, two := range []bool{false, true} {
					if two && ver != "13.4.0" {
						continue
					}
					s := &source{Family: "template-position", Version: ver, Desc: fmt.Sprintf("send_msg templating variables (translated=%v, two components=%v) <- %s", withLoc, two, t), Templates: map[string]string{}}
					k1, t1 := tagged(1, t)
					k2, t2 := tagged(2, webhookTemplates[(ti+7)%len(webhookTemplates)])
					s.Templates[k1], s.Templates[k2] = t1, t2
					members, locUUIDs, locProp, split := templatingAt(ver, uuid("act.main"), []string{t1, t2}, two)
					a := act("send_msg", J{"text": "hi"})
					for k, v := range members {
						a[k] = v
					}
					var loc J
					if withLoc && locProp != "" {
						k3, t3 := tagged(3, webhookTemplates[(ti+11)%len(webhookTemplates)])
						k4, t4 := tagged(4, webhookTemplates[(ti+13)%len(webhookTemplates)])
						s.Templates[k3], s.Templates[k4] = t3, t4
						trans := []any{t3, t4}
						items := J{}
						off := 0
						for i, u := range locUUIDs {
							items[u] = J{locProp: trans[off : off+split[i]]}
							off += split[i]
						}
						loc = J{"spa": items}
					}
					s.Def = flowHeader(ver, "eng", "messaging", []any{actionNode(a), tailNode()}, loc)
					emit(s)
				}
			}
		}
	}
}

// family 2: every action, router, wait and hint type without a template, at every old version
func familyTypes(emit func(*source)) {
	for _, ver := range oldVersions {
		nodes := untemplatedNodes()
		for _, name := range sortedKeys(nodes) {
			n := nodes[name]
			emit(&source{Family: "types", Version: ver, Desc: name, Def: flowHeader(ver, "eng", n.flowType, []any{cloneJ(n.node), tailNode()}, nil)})
		}
	}
}

// family 3: flow language and localisation keys
func familyLanguage(emit func(*source)) {
	for _, ver := range oldVersions {
		langs := []string{"eng", "und", "fra"}
		if versionIndex(ver) < versionIndex("13.2.0") {
			langs = append(langs, "base", "", "en", "xxxx")
		}
		for _, lang := range langs {
			for li, locLangs := range [][]string{nil, {"spa"}, {"und", "spa"}, {"spa", "fra"}, {"base", "spa"}} {
				if versionIndex(ver) >= versionIndex("13.2.0") && li == 4 {
					continue
				}
				s := &source{Family: "language", Version: ver, Desc: fmt.Sprintf("language %q, translations in %v", lang, locLangs), Templates: map[string]string{}}
				var loc J
				if locLangs != nil {
					loc = J{}
					for i, l := range locLangs {
						k, t := tagged(10+i, "hola @contact.name")
						// a translation in "und" of a flow whose language becomes "und" is dropped by design (13.2)
						becomesUnd := len(lang) != 3 && versionIndex(ver) < versionIndex("13.2.0")
						if !(l == "und" && becomesUnd) {
							s.Templates[k] = t
						}
						loc[l] = J{uuid("act.main"): J{"text": []any{t}}}
					}
				}
				k, t := tagged(1, "hello @contact.name")
				s.Templates[k] = t
				s.Def = flowHeader(ver, lang, "messaging", []any{actionNode(act("send_msg", J{"text": t})), tailNode()}, loc)
				s.ExpectLanguage = lang
				if len(lang) != 3 && versionIndex(ver) < versionIndex("13.2.0") {
					s.ExpectLanguage = "und"
				}
				emit(s)
			}
		}
	}
}

// family 4: result and category names at and beyond the limits of the current spec (64 / 36)
func nameForms(limit int, categories bool) map[string]string {
	rep := func(s string, n int) string { return strings.Repeat(s, n) }
	m := map[string]string{
		"at-limit":            rep("a", limit),
		"limit+1":             rep("a", limit+1),
		"long":                rep("Ab 9-_", 20),
		"space-at-limit":      rep("a", limit-1) + " " + rep("b", 10),
		"spaces-around-limit": rep("a", limit-3) + "      " + rep("b", 10),
		"leading-space-long":  "  " + rep("a", limit+5),
		"short":               "Ok",
	}
	if categories {
		m["multibyte-long"] = rep("é", limit+4)
		m["multibyte-bytes-over-runes-under"] = rep("é", limit-6)
		m["multibyte-at-boundary"] = rep("a", limit-1) + "日本語"
		m["all-space-long"] = rep(" ", limit+4)
		m["emoji-long"] = rep("😀", limit+2)
	} else {
		m["all-space-long"] = rep(" ", limit+6)
	}
	return m
}

func familyNames(emit func(*source)) {
	for _, ver := range oldVersions {
		rforms := nameForms(64, false)
		for _, fn := range sortedKeys(rforms) {
			name := rforms[fn]
			// result names
			emit(&source{Family: "names", Version: ver, Desc: "set_run_result.name " + fn,
				Def: flowHeader(ver, "eng", "messaging", []any{actionNode(act("set_run_result", J{"name": name, "value": "v"})), tailNode()}, nil)})
			emit(&source{Family: "names", Version: ver, Desc: "switch.result_name " + fn,
				Def: flowHeader(ver, "eng", "messaging", []any{switchRouterNode("@input.text", []any{"a"}, J{"type": "msg"}, name, [2]string{"A", "Other"}), tailNode()}, nil)})
			rnd := cloneJ(untemplatedNodes()["random_router"].node).(J)
			rnd["router"].(J)["result_name"] = name
			emit(&source{Family: "names", Version: ver, Desc: "random.result_name " + fn,
				Def: flowHeader(ver, "eng", "messaging", []any{rnd, tailNode()}, nil)})
			for _, a := range []struct {
				typ     string
				members J
			}{
				{"call_webhook", J{"method": "GET", "url": "http://x.test/"}},
				{"call_resthook", J{"resthook": "new-registration"}},
				{"call_classifier", J{"classifier": J{"uuid": uuid("classifier"), "name": "Booking"}, "input": "@input.text"}},
				{"open_ticket", J{"body": "help"}},
				{"transfer_airtime", J{"amounts": J{"USD": 0.5}}},
			} {
				mm := cloneJ(a.members).(J)
				mm["result_name"] = name
				emit(&source{Family: "names", Version: ver, Desc: a.typ + ".result_name " + fn,
					Def: flowHeader(ver, "eng", "messaging", []any{actionNode(act(a.typ, mm)), tailNode()}, nil)})
			}
		}
		cforms := nameForms(36, true)
		for _, fn := range sortedKeys(cforms) {
			name := cforms[fn]
			emit(&source{Family: "names", Version: ver, Desc: "set_run_result.category " + fn,
				Def: flowHeader(ver, "eng", "messaging", []any{actionNode(act("set_run_result", J{"name": "Result", "value": "v", "category": name})), tailNode()}, nil)})
			emit(&source{Family: "names", Version: ver, Desc: "switch.category " + fn,
				Def: flowHeader(ver, "eng", "messaging", []any{switchRouterNode("@input.text", []any{"a"}, J{"type": "msg"}, "Answer", [2]string{name, "Other"}), tailNode()}, nil)})
			emit(&source{Family: "names", Version: ver, Desc: "switch.category (both equal) " + fn,
				Def: flowHeader(ver, "eng", "messaging", []any{switchRouterNode("@input.text", []any{"a"}, J{"type": "msg"}, "Answer", [2]string{name, name + "x"}), tailNode()}, nil)})
		}
	}
}

// family 5: flow graphs. The structural generator of package world, rendered at every old version.
func familyGraphs(maxNodes int, kinds []string, emit func(*source)) {
	for n := 0; n <= maxNodes; n++ {
		for _, spec := range world.EnumFlows(kinds, n) {
			def := world.Render(0, spec, 1)
			for _, ver := range oldVersions {
				d := cloneJ(def).(J)
				d["spec_version"] = ver
				emit(&source{Family: "graph", Version: ver, Desc: spec.String(), Def: d})
			}
		}
	}
}

// family 6: definitions already at the current version (must come back untouched)
func familyCurrent(emit func(*source)) {
	for _, p := range positions() {
		_, t := tagged(1, "@webhook.json.foo")
		emit(&source{Family: "current", Version: currentVersion, Desc: p.name, Def: flowHeader(currentVersion, "eng", p.flowType, []any{p.node(t), tailNode()}, nil)})
	}
	nodes := untemplatedNodes()
	for _, name := range sortedKeys(nodes) {
		n := nodes[name]
		emit(&source{Family: "current", Version: currentVersion, Desc: name, Def: flowHeader(currentVersion, "eng", n.flowType, []any{cloneJ(n.node), tailNode()}, nil)})
	}
}
