package c16

import (
	"fmt"
	"sort"

	"verif/world"
)

// ---- legacy (pre-13) definitions ------------------------------------------------------------------

func sortedKeys[V any](m map[string]V) []string {
	ks := make([]string, 0, len(m))
	for k := range m {
		ks = append(ks, k)
	}
	sort.Strings(ks)
	return ks
}

func luuid(name string) string { return world.UUID("c16.legacy." + name) }

// every legacy rule test type with a valid body
func legacyTests() map[string]J {
	tr := func(eng, fra string) J { return J{"eng": eng, "fra": fra} }
	return map[string]J{
		"between":              {"type": "between", "min": "1", "max": "10"},
		"contains":             {"type": "contains", "test": tr("yes yeah", "oui")},
		"contains_any":         {"type": "contains_any", "test": tr("yes @contact.name", "oui")},
		"contains_only_phrase": {"type": "contains_only_phrase", "test": tr("yes", "oui")},
		"contains_phrase":      {"type": "contains_phrase", "test": tr("yes", "oui")},
		"date":                 {"type": "date"},
		"date_after":           {"type": "date_after", "test": "@(date.today + 3)"},
		"date_before":          {"type": "date_before", "test": "@(date.today - 3)"},
		"date_equal":           {"type": "date_equal", "test": "@(date.today + 0)"},
		"district":             {"type": "district", "test": "Kigali"},
		"has_email":            {"type": "has_email"},
		"eq":                   {"type": "eq", "test": "5"},
		"gt":                   {"type": "gt", "test": 5},
		"gte":                  {"type": "gte", "test": "@contact.age"},
		"in_group":             {"type": "in_group", "test": J{"uuid": luuid("group"), "name": "Testers"}},
		"lt":                   {"type": "lt", "test": "5"},
		"lte":                  {"type": "lte", "test": "5.5"},
		"not_empty":            {"type": "not_empty"},
		"number":               {"type": "number"},
		"phone":                {"type": "phone"},
		"regex":                {"type": "regex", "test": tr(`\d+`, `\w+`)},
		"starts":               {"type": "starts", "test": tr("y", "o")},
		"state":                {"type": "state"},
		"ward":                 {"type": "ward", "state": "Kigali", "district": "Gasabo"},
	}
}

type legacyRule struct {
	test J
	cat  string // category name (base language)
	dest int    // index of the destination node, -1 = none
}

// legacy flow under construction: nodes are numbered; node i is an action set or a rule set
type legacyNode struct {
	ruleset bool
	y       int
	// action set
	actions []any
	dest    int
	// rule set
	rsType  string
	operand string
	label   string
	config  any
	finKey  any
	rules   []legacyRule
}

func nodeUUID(i int) string { return luuid(fmt.Sprintf("node%d", i)) }

func renderLegacy(nodes []legacyNode, entry int, baseLang string, flowType string, meta J) J {
	as, rs := []any{}, []any{}
	destOf := func(d int) (any, any) {
		if d < 0 || d >= len(nodes) {
			return nil, nil
		}
		if nodes[d].ruleset {
			return nodeUUID(d), "R"
		}
		return nodeUUID(d), "A"
	}
	for i, n := range nodes {
		if !n.ruleset {
			d, _ := destOf(n.dest)
			as = append(as, J{"uuid": nodeUUID(i), "x": 100, "y": n.y, "destination": d, "exit_uuid": luuid(fmt.Sprintf("node%d.exit", i)), "actions": n.actions})
			continue
		}
		rules := []any{}
		for j, r := range n.rules {
			d, dt := destOf(r.dest)
			rules = append(rules, J{"uuid": luuid(fmt.Sprintf("node%d.rule%d", i, j)), "test": r.test, "category": J{baseLang: r.cat, "fra": r.cat + " (fr)"}, "destination": d, "destination_type": dt})
		}
		x := J{"uuid": nodeUUID(i), "x": 300, "y": n.y, "label": n.label, "ruleset_type": n.rsType, "operand": n.operand, "rules": rules, "finished_key": n.finKey, "response_type": ""}
		if n.config != nil {
			x["config"] = n.config
		} else {
			x["config"] = J{}
		}
		rs = append(rs, x)
	}
	f := J{"base_language": baseLang, "flow_type": flowType, "version": "11.12", "action_sets": as, "rule_sets": rs}
	if entry >= 0 {
		f["entry"] = nodeUUID(entry)
	}
	if meta == nil {
		meta = J{"uuid": luuid("flow"), "name": "Legacy C16", "revision": 3, "expires": 720, "saved_on": "2019-01-01T00:00:00.000Z"}
	}
	f["metadata"] = meta
	return f
}

// replyIn builds a reply action whose message is keyed by the flow's base language
func replyIn(lang, name, text string) J {
	return J{"type": "reply", "uuid": luuid("action." + name), "msg": J{lang: text, "fra": text + " (fr)"}}
}

func reply(name, text string) J { return replyIn("eng", name, text) }

func trueRule(dest int) legacyRule {
	return legacyRule{test: J{"type": "true"}, cat: "Other", dest: dest}
}

// rule set families: each ruleset_type with rules as the legacy editor wrote them. Nodes: 0 = entry
// action set -> 1 = the rule set -> 2, 3 action sets.
func legacyRulesets() map[string]legacyNode {
	yes := J{"type": "contains_any", "test": J{"eng": "yes", "fra": "oui"}}
	yeah := J{"type": "contains_any", "test": J{"eng": "yeah", "fra": "ouais"}}
	std := []legacyRule{{yes, "Yes", 2}, {yeah, "Yes", 2}, trueRule(3)} // two rules of one category sharing a destination
	m := map[string]legacyNode{}
	for _, w := range []string{"wait_message", "wait_audio", "wait_video", "wait_photo", "wait_gps", "wait_recording", "wait_digit"} {
		m[w] = legacyNode{ruleset: true, rsType: w, operand: "@step.value", label: "Response 1", rules: std}
	}
	m["wait_message.no_type"] = legacyNode{ruleset: true, rsType: "", operand: "@step.value", label: "Response 1", rules: std}
	m["wait_message.timeout"] = legacyNode{ruleset: true, rsType: "wait_message", operand: "@step.value", label: "Response 1",
		rules: []legacyRule{{yes, "Yes", 2}, trueRule(3), {J{"type": "timeout", "minutes": 5}, "No Response", 3}}}
	m["wait_digits"] = legacyNode{ruleset: true, rsType: "wait_digits", operand: "@step.value", label: "Phone", finKey: "#",
		rules: []legacyRule{{J{"type": "number"}, "Numeric", 2}, trueRule(3)}}
	m["subflow"] = legacyNode{ruleset: true, rsType: "subflow", operand: "@step.value", label: "Sub", config: J{"flow": J{"name": "Child", "uuid": luuid("child-flow")}},
		rules: []legacyRule{{J{"type": "subflow", "exit_type": "completed"}, "Completed", 2}, {J{"type": "subflow", "exit_type": "expired"}, "Expired", 3}}}
	hookRules := []legacyRule{{J{"type": "webhook_status", "status": "success"}, "Success", 2}, {J{"type": "webhook_status", "status": "failure"}, "Failure", 3}}
	m["webhook.get"] = legacyNode{ruleset: true, rsType: "webhook", operand: "@step.value", label: "Hook 1", config: J{"webhook": "http://x.test/?n=@contact.name", "webhook_action": "GET"}, rules: hookRules}
	m["webhook.post"] = legacyNode{ruleset: true, rsType: "webhook", operand: "@step.value", label: "Hook 1", rules: hookRules,
		config: J{"webhook": "http://x.test/", "webhook_action": "POST", "webhook_headers": []any{J{"name": "Auth", "value": "@contact.token"}, J{"name": "", "value": ""}}}}
	m["webhook.default_method"] = legacyNode{ruleset: true, rsType: "webhook", operand: "@step.value", label: "Hook 1", config: J{"webhook": "http://x.test/"}, rules: hookRules}
	m["resthook"] = legacyNode{ruleset: true, rsType: "resthook", operand: "@step.value", label: "Hook 2", config: J{"resthook": "new-registration"}, rules: hookRules}
	m["form_field"] = legacyNode{ruleset: true, rsType: "form_field", operand: "@flow.response_1", label: "Delimited", config: J{"field_index": 1, "field_delimiter": " "}, rules: std}
	m["flow_field"] = legacyNode{ruleset: true, rsType: "flow_field", operand: "@flow.response_1", label: "By Result", rules: std}
	m["contact_field"] = legacyNode{ruleset: true, rsType: "contact_field", operand: "@contact.gender", label: "By Field", rules: std}
	m["contact_field.name"] = legacyNode{ruleset: true, rsType: "contact_field", operand: "@contact.name", label: "By Name", rules: std}
	m["contact_field.groups"] = legacyNode{ruleset: true, rsType: "contact_field", operand: "@contact.groups", label: "By Groups", rules: std}
	m["contact_field.tel"] = legacyNode{ruleset: true, rsType: "contact_field", operand: "@contact.tel", label: "By URN", rules: std}
	m["expression"] = legacyNode{ruleset: true, rsType: "expression", operand: "@(UPPER(contact.gender))", label: "By Expression", rules: std}
	m["expression.empty_operand"] = legacyNode{ruleset: true, rsType: "expression", operand: "", label: "By Expression", rules: std}
	m["group"] = legacyNode{ruleset: true, rsType: "group", operand: "@step.value", label: "Group Check",
		rules: []legacyRule{{J{"type": "in_group", "test": J{"uuid": luuid("group"), "name": "Testers"}}, "Testers", 2}, trueRule(3)}}
	m["random"] = legacyNode{ruleset: true, rsType: "random", operand: "@(RAND())", label: "Random Split",
		rules: []legacyRule{{J{"type": "between", "min": "0", "max": "0.5"}, "Bucket 1", 2}, {J{"type": "between", "min": "0.5", "max": "1"}, "Bucket 2", 3}}}
	airRules := []legacyRule{{J{"type": "airtime_status", "exit_status": "success"}, "Success", 2}, {J{"type": "airtime_status", "exit_status": "failed"}, "Failure", 3}}
	country := func(code, cur string, amount any) J {
		return J{"currency_name": cur, "amount": amount, "code": code, "name": code, "currency_code": cur}
	}
	m["airtime.one_country"] = legacyNode{ruleset: true, rsType: "airtime", operand: "@step.value", label: "Transfer", rules: airRules, config: J{"EC": country("EC", "USD", 3)}}
	m["airtime.two_currencies"] = legacyNode{ruleset: true, rsType: "airtime", operand: "@step.value", label: "Transfer", rules: airRules, config: J{"EC": country("EC", "USD", 3), "BR": country("BR", "BRL", 2.5)}}
	m["airtime.shared_currency_and_amount"] = legacyNode{ruleset: true, rsType: "airtime", operand: "@step.value", label: "Transfer", rules: airRules, config: J{"EC": country("EC", "USD", 3), "SV": country("SV", "USD", 3)}}
	// every rule test type in a wait_message rule set
	for name, test := range legacyTests() {
		m["test."+name] = legacyNode{ruleset: true, rsType: "wait_message", operand: "@step.value", label: "Response 1",
			rules: []legacyRule{{test, "Match", 2}, trueRule(3)}}
	}
	return m
}

// every legacy action type
func legacyActions() map[string]struct {
	flowType string
	action   J
} {
	m := map[string]struct {
		flowType string
		action   J
	}{}
	put := func(name, ft string, a J) {
		a["uuid"] = luuid("action.main")
		m[name] = struct {
			flowType string
			action   J
		}{ft, a}
	}
	grp := J{"uuid": luuid("group"), "name": "Testers"}
	put("reply", "F", J{"type": "reply", "msg": J{"eng": "Hi @contact.name", "fra": "Salut @contact.name"}})
	put("reply.media_quick_replies", "F", J{"type": "reply", "msg": J{"eng": "Hi", "fra": "Salut"}, "send_all": true,
		"media":         J{"eng": "image/jpeg:attachments/1/photo.jpg", "fra": "image/jpeg:attachments/1/photo_fr.jpg"},
		"quick_replies": []any{J{"eng": "Yes", "fra": "Oui"}, J{"eng": "No", "fra": "Non"}}})
	put("reply.string_msg", "F", J{"type": "reply", "msg": "Hi there"})
	put("send", "F", J{"type": "send", "msg": J{"eng": "Hi", "fra": "Salut"}, "contacts": []any{J{"uuid": luuid("contact"), "name": "Bob"}}, "groups": []any{grp, "@contact.district"}, "variables": []any{J{"id": "@contact.tel_e164"}}})
	put("email", "F", J{"type": "email", "emails": []any{"a@x.test", "@contact.email"}, "subject": "Hi @contact.name", "msg": "Body @(UPPER(contact.name))"})
	put("add_group", "F", J{"type": "add_group", "groups": []any{grp, "@flow.group_name"}})
	put("del_group", "F", J{"type": "del_group", "groups": []any{grp}})
	put("del_group.all", "F", J{"type": "del_group", "groups": []any{}})
	put("add_label", "F", J{"type": "add_label", "labels": []any{J{"uuid": luuid("label"), "name": "Spam"}, "@flow.label_name"}})
	put("lang", "F", J{"type": "lang", "lang": "fra", "name": "French"})
	put("channel", "F", J{"type": "channel", "channel": luuid("channel"), "name": "Android"})
	put("flow", "F", J{"type": "flow", "flow": J{"uuid": luuid("child-flow"), "name": "Child"}})
	put("trigger-flow", "F", J{"type": "trigger-flow", "flow": J{"uuid": luuid("child-flow"), "name": "Child"}, "contacts": []any{J{"uuid": luuid("contact"), "name": "Bob"}}, "groups": []any{grp}, "variables": []any{J{"id": "@new_contact"}, J{"id": "@contact.friend"}}})
	for _, field := range []string{"name", "first_name", "tel_e164", "mailto", "gender"} {
		put("save."+field, "F", J{"type": "save", "field": field, "label": "Label " + field, "value": "@(PROPER(step.value))"})
	}
	put("say", "V", J{"type": "say", "msg": J{"eng": "Hello", "fra": "Bonjour"}, "recording": J{"eng": "recordings/1/hello.wav", "fra": "http://x.test/bonjour.wav"}})
	put("say.no_recording", "V", J{"type": "say", "msg": J{"eng": "Hello"}, "recording": nil})
	put("play", "V", J{"type": "play", "url": "http://x.test/@contact.sound.wav"})
	return m
}

func familyLegacy(emit func(*source)) {
	rsets := legacyRulesets()
	for _, name := range sortedKeys(rsets) {
		rs := rsets[name]
		rs.y = 100
		for _, lang := range []string{"eng", "base"} {
			tail2 := legacyNode{actions: []any{replyIn(lang, "n2", "two")}, dest: -1, y: 300}
			tail3 := legacyNode{actions: []any{replyIn(lang, "n3", "three")}, dest: 1, y: 200} // loops back to the rule set; listed after node 2 but higher on the canvas
			for _, entryIsRuleset := range []bool{false, true} {
				nodes := []legacyNode{{actions: []any{replyIn(lang, "n0", "start")}, dest: 1, y: 0}, rs, tail2, tail3}
				entry := 0
				if entryIsRuleset {
					entry = 1 // the entry is listed after all action sets
					nodes[0].y = 400
				}
				def := renderLegacy(nodes, entry, lang, "F", nil)
				emit(&source{Family: "legacy-ruleset", Version: "legacy", Desc: fmt.Sprintf("%s base_language=%s entry_is_ruleset=%v", name, lang, entryIsRuleset), Def: def})
			}
		}
	}
	acts := legacyActions()
	for _, name := range sortedKeys(acts) {
		a := acts[name]
		nodes := []legacyNode{{actions: []any{cloneJ(a.action)}, dest: 1, y: 0}, {actions: []any{reply("n1", "end")}, dest: -1, y: 100}}
		if a.flowType == "V" {
			nodes[1].actions = []any{J{"type": "say", "uuid": luuid("action.n1"), "msg": J{"eng": "bye"}, "recording": nil}}
		}
		lang := "eng"
		if name == "reply.string_msg" {
			// a message that is a plain string is the text in the language "base"
			lang = "base"
			nodes[1].actions = []any{replyIn("base", "n1", "end")}
		}
		emit(&source{Family: "legacy-action", Version: "legacy", Desc: name, Def: renderLegacy(nodes, 0, lang, a.flowType, nil)})
	}
	// header forms: uuid / name at the root instead of metadata, no metadata, no entry, each flow_type
	one := []legacyNode{{actions: []any{reply("n0", "start")}, dest: -1, y: 0}}
	for _, ft := range []string{"F", "M", "S", ""} {
		emit(&source{Family: "legacy-header", Version: "legacy", Desc: "flow_type " + ft, Def: renderLegacy(one, 0, "eng", ft, nil)})
	}
	d := renderLegacy(one, 0, "eng", "F", J{"revision": 1})
	d["uuid"], d["name"] = luuid("flow"), "Root level"
	emit(&source{Family: "legacy-header", Version: "legacy", Desc: "uuid and name at the root", Def: d})
	emit(&source{Family: "legacy-header", Version: "legacy", Desc: "no entry", Def: renderLegacy(one, -1, "eng", "F", nil)})
	emit(&source{Family: "legacy-header", Version: "legacy", Desc: "empty flow", Def: renderLegacy(nil, -1, "eng", "F", nil)})
}

// legacy graphs: every canonical graph over {action set, rule set with two categories, rule set with
// three rules two of which share a category and destination}, every node as the entry, nodes laid
// out top-down or bottom-up.
func familyLegacyGraphs(maxNodes int, emit func(*source)) {
	yes := J{"type": "contains_any", "test": J{"eng": "yes"}}
	yeah := J{"type": "contains_any", "test": J{"eng": "yeah"}}
	// reuse the structural enumerator: A = action set (1 exit), W = rule set (2 exits)
	for n := 1; n <= maxNodes; n++ {
		for _, spec := range world.EnumFlows([]string{"A", "W"}, n) {
			for _, shared := range []bool{false, true} {
				hasRS := false
				for _, nd := range spec.Nodes {
					hasRS = hasRS || nd.Kind == "W"
				}
				if shared && !hasRS {
					continue
				}
				for _, bottomUp := range []bool{false, true} {
					for entry := 0; entry < n; entry++ {
						if entry != 0 && bottomUp {
							continue
						}
						nodes := make([]legacyNode, n)
						for i, nd := range spec.Nodes {
							y := i * 100
							if bottomUp {
								y = (n - i) * 100
							}
							if nd.Kind == "A" {
								nodes[i] = legacyNode{actions: []any{reply(fmt.Sprintf("n%d", i), fmt.Sprintf("node %d", i))}, dest: nd.Dests[0], y: y}
							} else {
								rules := []legacyRule{{yes, "Yes", nd.Dests[0]}}
								if shared {
									rules = append(rules, legacyRule{yeah, "Yes", nd.Dests[0]})
								}
								rules = append(rules, trueRule(nd.Dests[1]))
								nodes[i] = legacyNode{ruleset: true, rsType: "wait_message", operand: "@step.value", label: fmt.Sprintf("Response %d", i), rules: rules, y: y}
							}
						}
						emit(&source{Family: "legacy-graph", Version: "legacy", Desc: fmt.Sprintf("%s shared=%v bottom_up=%v entry=%d", spec.String(), shared, bottomUp, entry),
							Def: renderLegacy(nodes, entry, "eng", "F", nil)})
					}
				}
			}
		}
	}
}
