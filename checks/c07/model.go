package c07

import (
	"fmt"
	"math/big"
	"strings"

	"github.com/nyaruka/goflow/envs"
	"github.com/nyaruka/goflow/excellent"
	"github.com/nyaruka/goflow/excellent/types"
	"github.com/nyaruka/goflow/flows/routers/cases"
	"verif/checks/c07/lab"
	"verif/world"
)

// Router is one subject of the check and at the same time its replay artefact: a node with a
// switch router (or a random router, or no router) described structurally. Categories and exits are
// referred to by index; the renderer gives them UUIDs.
type Router struct {
	Type       string  `json:"type"` // switch | random | none
	Operand    Operand `json:"operand"`
	Cases      []Atom  `json:"cases,omitempty"`
	CatOf      []int   `json:"cat_of,omitempty"` // category index of each case
	Cats       []Cat   `json:"cats,omitempty"`   // categories in definition order
	Default    int     `json:"default"`          // category index of the default, -1 = none
	Timeout    int     `json:"timeout"`          // category index of the wait's timeout, -1 = none
	Wait       bool    `json:"wait,omitempty"`   // msg wait on the router
	Resume     string  `json:"resume,omitempty"` // with Wait: "msg" or "timeout"
	NExits     int     `json:"n_exits"`          // exits of the node
	ExitDest   []bool  `json:"exit_dest"`        // whether exit i has a destination node
	ResultName string  `json:"result_name,omitempty"`
	Lang       string  `json:"lang"`             // contact language
	Draw       uint64  `json:"draw,omitempty"`   // random routers: the draw is Draw / 2^53
	Scheme     string  `json:"scheme,omitempty"` // label of the structural scheme (for keys)
	// LangVia says how the contact came to have the language Lang when the router is reached: "" = the
	// trigger's contact has it; otherwise the trigger's contact has the other language, the run first
	// sends a message (so it has localized something under the old language) and then the language is
	// set to Lang by "action" = a set_contact_language action of this run on a node before the router, or
	// "child" = the same action executed by a child run that a node before the router enters.
	LangVia string `json:"lang_via,omitempty"`
	// Revisit: every exit's node leads back to the router (which waits for a message), and the router
	// is routed again with each of these message texts in turn, after the first routing with
	// Operand.Input - all in one run of one live session, so the same result name is saved repeatedly.
	Revisit []string `json:"revisit,omitempty"`
}

// visit returns the router as it is routed on visit v (0 = first): the same definition with the
// message text of that visit.
func (r *Router) visit(v int) *Router {
	if v == 0 {
		return r
	}
	c := *r
	c.Operand.Input = r.Revisit[v-1]
	return &c
}

func otherLang(l string) string {
	if l == langTr {
		return langBase
	}
	return langTr
}

// Cat is a router category.
type Cat struct {
	Name string `json:"name"`
	Exit int    `json:"exit"`
}

// ---- reference evaluation environment -------------------------------------------------------

// preActions are the actions of the subject node; they run before the router and provide the
// results that some operands read.
func preActions() []any {
	return []any{
		J{"uuid": world.UUID("c07-a0"), "type": "set_run_result", "name": "Pre", "value": "yes sure", "category": "Yes"},
		J{"uuid": world.UUID("c07-a1"), "type": "call_classifier", "classifier": J{"uuid": world.Classifier, "name": "Booking"}, "input": "book something", "result_name": "Intent"},
	}
}

func contactJSON(lang string) J {
	c := world.DefaultContact()
	c["language"] = lang
	c["fields"] = J{
		"gender": J{"text": "F"},
		"age":    J{"text": "42", "number": 42},
		"joined": J{"text": "2020-05-17T10:30:00Z", "datetime": "2020-05-17T10:30:00.000000Z"},
	}
	return c
}

func envJSON() J {
	e := world.DefaultEnv()
	e["allowed_languages"] = []any{langBase, langTr}
	return e
}

// probe is the reference model's evaluation environment for one (message text, contact language):
// the context of a run that executed the subject node's actions in a flow without any router.
type probe struct {
	env envs.Environment
	ctx *types.XObject
	ev  *excellent.Evaluator
}

type outcome struct {
	Kind  string // match | nomatch | error | undecided
	Match string
}

// Model is the reference model with its caches.
type Model struct {
	probes   map[string]*probe
	outcomes map[string]outcome
}

func NewModel() *Model { return &Model{probes: map[string]*probe{}, outcomes: map[string]outcome{}} }

func (m *Model) probe(input, lang string) (*probe, error) {
	k := lang + "\x00" + input
	if p := m.probes[k]; p != nil {
		return p, nil
	}
	flowUUID := world.UUID("c07-probe-flow")
	def := J{
		"uuid": flowUUID, "name": "Probe", "spec_version": "13.6.0", "language": langBase, "type": "messaging",
		"nodes": []any{J{"uuid": world.UUID("c07-probe-n0"), "actions": preActions(), "exits": []any{J{"uuid": world.UUID("c07-probe-e0")}}}},
	}
	sa, err := lab.NewSA(def)
	if err != nil {
		return nil, err
	}
	r := lab.Exec(sa, lab.Trigger{Kind: "msg", Flow: flowUUID, MsgText: input, Contact: contactJSON(lang), Env: envJSON()}.JSON(), 0)
	if r.Err != nil || r.Panic != "" {
		return nil, fmt.Errorf("probe session failed: %v %s", r.Err, r.Panic)
	}
	run := r.Session.Runs()[0]
	env := r.Session.MergedEnvironment()
	p := &probe{env: env, ctx: types.NewXObject(run.RootContext(env)), ev: r.Session.Engine().Evaluator()}
	m.probes[k] = p
	return p, nil
}

func (p *probe) eval(template string) types.XValue {
	v, _, _ := p.ev.TemplateValue(p.env, p.ctx, template)
	return v
}

// text renders a value the way a result stores it; ok is false when the value has no text form
// (an error), which the property statement does not define.
func (p *probe) text(v types.XValue) (string, bool) {
	if v == nil {
		return "", true
	}
	t, xerr := types.ToXText(p.env, v)
	if xerr != nil {
		return "", false
	}
	return t.Native(), true
}

// test evaluates one case against the operand: the registered test called with the evaluated
// operand and the evaluated arguments.
func (m *Model) test(p *probe, pk string, operand Operand, test string, args []string) outcome {
	k := pk + "\x00" + operand.Name + "\x00" + test + "\x00" + strings.Join(args, "\x01") + fmt.Sprintf("\x00%d", len(args))
	if o, ok := m.outcomes[k]; ok {
		return o
	}
	fn := cases.XTESTS[test]
	vals := []types.XValue{p.eval(operand.Template)}
	for _, a := range args {
		vals = append(vals, p.eval(a))
	}
	var o outcome
	switch res := fn.Call(p.env, vals).(type) {
	case *types.XError:
		o = outcome{Kind: "error"}
	case *types.XObject:
		if !res.Truthy() {
			o = outcome{Kind: "nomatch"}
		} else {
			mv, _ := res.Get("match")
			if s, ok := p.text(mv); ok {
				o = outcome{Kind: "match", Match: s}
			} else {
				o = outcome{Kind: "undecided"}
			}
		}
	default:
		o = outcome{Kind: "undecided"}
	}
	m.outcomes[k] = o
	return o
}

// Expect is one acceptable behaviour of a router.
type Expect struct {
	Cat        int    // chosen category index, -1 = none (the run must fail)
	Via        string // case<i> | default | timeout | random | none | first-exit
	Value      string // expected result value, when JudgeValue
	Input      string // expected result input / segment operand, when JudgeInput
	JudgeValue bool
	JudgeInput bool
	Undecided  string   // non-empty: the statement does not decide this case (why)
	Choices    string   // for every case with a translation of different length: b = base arguments assumed, t = translated
	Trace      []string // outcome of each case tried (for keys and messages)
}

// argChoices returns the argument lists the statement allows for a case under the contact language:
// the translation when there is one in the contact's (allowed) language, else the base; when the
// translation has a different number of arguments than the base the statement does not say which is
// used, and both are acceptable.
func argChoices(a Atom, lang string) [][]string {
	if lang == langTr && a.Tr != nil {
		if len(a.Tr) == len(a.Args) {
			return [][]string{a.Tr}
		}
		return [][]string{a.Args, a.Tr}
	}
	return [][]string{a.Args}
}

// Expectations returns every behaviour of the router that the property statement allows.
func (m *Model) Expectations(r *Router) ([]Expect, error) {
	switch r.Type {
	case "none":
		if r.NExits == 0 {
			return []Expect{{Cat: -1, Via: "none"}}, nil
		}
		return []Expect{{Cat: -1, Via: "first-exit"}}, nil
	case "random":
		// floor(r*n) in exact rational arithmetic, r being the float64 that rand.Float64 returns
		x := new(big.Rat).SetFloat64(lab.DrawValue(r.Draw))
		x.Mul(x, big.NewRat(int64(len(r.Cats)), 1))
		k := new(big.Int).Quo(x.Num(), x.Denom())
		return []Expect{{Cat: int(k.Int64()), Via: "random"}}, nil
	}
	if r.Resume == "timeout" {
		return []Expect{{Cat: r.Timeout, Via: "timeout"}}, nil
	}
	p, err := m.probe(r.Operand.Input, r.Lang)
	if err != nil {
		return nil, err
	}
	pk := r.Lang + "\x00" + r.Operand.Input
	opv := p.eval(r.Operand.Template)
	opText, opOK := p.text(opv)

	var out []Expect
	var rec func(i int, trace []string, choices string)
	rec = func(i int, trace []string, choices string) {
		if i == len(r.Cases) {
			e := Expect{Cat: r.Default, Via: "default", Value: opText, Input: opText, JudgeValue: opOK, JudgeInput: opOK, Trace: append([]string{}, trace...), Choices: choices}
			if r.Default < 0 {
				e.Via = "none"
			}
			out = append(out, e)
			return
		}
		a := r.Cases[i]
		alts := argChoices(a, r.Lang)
		for ai, args := range alts {
			ch := choices
			if len(alts) > 1 {
				ch += string("bt"[ai])
			}
			o := m.test(p, pk, r.Operand, a.Test, args)
			tr := append(append([]string{}, trace...), o.Kind)
			switch o.Kind {
			case "match":
				out = append(out, Expect{Cat: r.CatOf[i], Via: fmt.Sprintf("case%d", i), Value: o.Match, Input: opText, JudgeValue: true, JudgeInput: opOK, Trace: tr, Choices: ch})
			case "undecided":
				out = append(out, Expect{Undecided: "the matching test's match has no text form", Trace: tr, Choices: ch})
			default: // nomatch, error: the next case is tried
				rec(i+1, tr, ch)
			}
		}
	}
	rec(0, nil, "")
	return out, nil
}
