// Package c07: routers take the exit their definition prescribes.
//
// Every case is one real engine session over a one-router flow; the oracle is a reference decision
// list (model.go) that evaluates the operand and the (localized) arguments on its own through the
// evaluator, calls the registered test and applies the rule of the property statement.
package c07

import (
	"encoding/json"
	"fmt"
	"math"
	"math/big"
	"sort"
	"strings"
	"time"

	"verif/mc"
)

// ---- structural schemes -----------------------------------------------------------------------

var catMaps = []string{"distinct", "dup", "default-shared", "dupname"}
var exitMaps = []string{"identity", "reversed", "all-one", "first-two-share"}
var waitModes = []string{"nowait", "wait+msg", "wait+timeoutcat+msg", "wait+timeoutcat+timeout"}

// BuildSwitch assembles a switch router from a case list and a structural scheme; nil when the
// scheme does not apply to the list (it would repeat another scheme).
func BuildSwitch(op Operand, atoms []Atom, catMap, exitMap int, def, resName bool, waitMode int, lang string) *Router {
	m := len(atoms)
	r := &Router{Type: "switch", Operand: op, Cases: atoms, Default: -1, Timeout: -1, Lang: lang,
		Scheme: catMaps[catMap] + "/" + exitMaps[exitMap] + "/" + waitModes[waitMode]}
	name := func(i int) string { return fmt.Sprintf("Cat%d", i) }
	other := "Other"
	switch catMap {
	case 0:
	case 1:
		if m < 2 {
			return nil
		}
	case 2:
		if m < 1 || !def {
			return nil
		}
	case 3:
		if m < 1 {
			return nil
		}
		name = func(int) string { return "Same" }
		other = "Same"
	}
	if catMap == 1 {
		r.Cats = append(r.Cats, Cat{Name: name(0)})
		for range atoms {
			r.CatOf = append(r.CatOf, 0)
		}
	} else {
		for i := range atoms {
			r.Cats = append(r.Cats, Cat{Name: name(i)})
			r.CatOf = append(r.CatOf, i)
		}
	}
	r.Cats = append(r.Cats, Cat{Name: other})
	if def {
		r.Default = len(r.Cats) - 1
		if catMap == 2 {
			r.Default = 0
		}
	}
	switch waitMode {
	case 1:
		r.Wait, r.Resume = true, "msg"
	case 2, 3:
		r.Wait, r.Resume = true, "msg"
		if waitMode == 3 {
			r.Resume = "timeout"
		}
		r.Cats = append(r.Cats, Cat{Name: "No Response"})
		r.Timeout = len(r.Cats) - 1
	}
	if !assignExits(r, exitMap) {
		return nil
	}
	if resName {
		r.ResultName = "Res"
	}
	return r
}

func assignExits(r *Router, exitMap int) bool {
	k := len(r.Cats)
	r.NExits = k
	r.ExitDest = make([]bool, k)
	for i := range r.ExitDest {
		r.ExitDest[i] = true
	}
	for j := range r.Cats {
		switch exitMap {
		case 0:
			r.Cats[j].Exit = j
		case 1:
			if k < 2 {
				return false
			}
			r.Cats[j].Exit = k - 1 - j
		case 2:
			if k < 2 {
				return false
			}
			r.Cats[j].Exit = 0
		case 3:
			if k < 3 {
				return false
			}
			r.Cats[j].Exit = j
			if j == 1 {
				r.Cats[j].Exit = 0
			}
		}
	}
	return true
}

// BuildRandom assembles a random router with n categories.
func BuildRandom(n, exitMap int, resName bool, draw uint64) *Router {
	r := &Router{Type: "random", Default: -1, Timeout: -1, Lang: langBase, Draw: draw, Operand: Operand{Name: "draw", Input: defaultInput},
		Scheme: "random/" + exitMaps[exitMap]}
	for i := 0; i < n; i++ {
		r.Cats = append(r.Cats, Cat{Name: fmt.Sprintf("Bucket %d", i+1)})
	}
	if !assignExits(r, exitMap) {
		return nil
	}
	if resName {
		r.ResultName = "Res"
	}
	return r
}

// RandomDraws are the boundary draws for n categories, as Int63 values i of the random source
// (rand.Float64 returns float64(i) / 2^63; every float64 in [2^-11, 1) is such a value): 0; for every
// internal boundary k/n the largest float64 below it, the smallest float64 at or above it, and the
// same two on the coarser 2^-53 grid; the largest draw 1 - 2^-53; mid adds the middle of every bucket.
func RandomDraws(n int, mid bool) []uint64 {
	const two63 = float64(1 << 63)
	const one53 = uint64(1) << 53
	toI := func(f float64) uint64 { return uint64(f * two63) } // exact for f >= 2^-11
	set := map[uint64]bool{0: true, (one53 - 1) << 10: true}
	for k := 1; k < n; k++ {
		exact := big.NewRat(int64(k), int64(n))
		hi := float64(k) / float64(n)
		if new(big.Rat).SetFloat64(hi).Cmp(exact) < 0 {
			hi = math.Nextafter(hi, 1)
		}
		lo := math.Nextafter(hi, 0)
		set[toI(hi)] = true
		set[toI(lo)] = true
		g := (uint64(k)*one53 + uint64(n) - 1) / uint64(n) // ceil(k*2^53/n)
		set[g<<10] = true
		set[(g-1)<<10] = true
	}
	if mid {
		for k := 0; k < n; k++ {
			set[toI((2*float64(k)+1)/(2*float64(n)))] = true
		}
	}
	var out []uint64
	for d := range set {
		out = append(out, d)
	}
	sort.Slice(out, func(i, j int) bool { return out[i] < out[j] })
	return out
}

// ---- the oracle -------------------------------------------------------------------------------

type verdict struct {
	OK        bool
	Undecided string
	Aspect    string // what disagreed
	Got       string
	Detail    string
	Exp       *Expect // the expectation that was matched, or the first one when none was
}

// mismatch judges one routing; prev is what was observed after the router's previous routing in the
// same run (nil on the first).
func mismatch(r *Router, e *Expect, o, prev *Observed) (aspect, got, detail string) {
	// after leaving by the prescribed exit the run ends at the exit's node - or, when every exit's node
	// leads back to the router (revisits), waits there for the next message
	after, afterWhy := "completed", "run should complete after leaving by the category's exit"
	if len(r.Revisit) > 0 {
		after, afterWhy = "waiting", "run should be back at the router's wait after leaving by the category's exit"
	}
	if o.Panic != "" {
		return "panic", mc.PanicSite(o.Panic), o.Panic
	}
	if o.EngineErr != "" {
		return "engine-error", "error", o.EngineErr
	}
	wantSegs := func(exit int, judgeOperand bool, operand string) (string, string, string) {
		if exit >= 0 && r.ExitDest[exit] {
			if len(o.Segments) != 1 {
				return "segment", fmt.Sprintf("%d-segments", len(o.Segments)), fmt.Sprintf("want one segment via exit %d", exit)
			}
			s := o.Segments[0]
			if s.Exit != exit || s.Dest != exit {
				return "segment", "other-exit-or-destination", fmt.Sprintf("segment exit=%d dest=%d, want exit=%d dest=%d", s.Exit, s.Dest, exit, exit)
			}
			if judgeOperand && s.Operand != operand {
				return "segment-operand", "differs", fmt.Sprintf("segment operand %q, want %q", s.Operand, operand)
			}
		} else if len(o.Segments) != 0 {
			return "segment", "unexpected-segment", fmt.Sprintf("%d segments for a step that goes nowhere", len(o.Segments))
		}
		return "", "", ""
	}
	switch {
	case e.Via == "first-exit":
		if o.Exit != 0 {
			return "exit", exitClass(r, e, o), fmt.Sprintf("step left by exit %d, want the first exit", o.Exit)
		}
		wantNext := -1
		if r.ExitDest[0] {
			wantNext = 0
		}
		if o.NextDest != wantNext {
			return "destination", "differs", fmt.Sprintf("next node d%d, want d%d", o.NextDest, wantNext)
		}
		if o.RunStatus != "completed" || o.SessStatus != "completed" {
			return "status", o.RunStatus + "/" + o.SessStatus, "run should complete"
		}
		return wantSegs(0, false, "")
	case e.Cat < 0:
		// no category selected: the run fails, nothing is chosen
		if o.Exit != -1 || o.Steps != 1 || o.NextDest != -1 {
			return "exit", exitClass(r, e, o), fmt.Sprintf("no category should be selected but the step left by exit %d (next d%d)", o.Exit, o.NextDest)
		}
		if o.RunStatus != "failed" || o.SessStatus != "failed" {
			return "status", o.RunStatus + "/" + o.SessStatus, "a router that selects no category must fail the run"
		}
		if len(o.Segments) != 0 {
			return "segment", "unexpected-segment", "segment logged although no exit was taken"
		}
		return "", "", ""
	}
	cat := r.Cats[e.Cat]
	if o.Exit != cat.Exit {
		return "exit", exitClass(r, e, o), fmt.Sprintf("step left by exit %d, want exit %d of category %d (%s)", o.Exit, cat.Exit, e.Cat, e.Via)
	}
	if o.NextDest != cat.Exit {
		return "destination", "differs", fmt.Sprintf("next node d%d, want d%d", o.NextDest, cat.Exit)
	}
	if o.RunStatus != after || o.SessStatus != after {
		return "status", o.RunStatus + "/" + o.SessStatus, afterWhy
	}
	if a, g, d := wantSegs(cat.Exit, e.JudgeInput && r.Type == "switch" && e.Via != "timeout", e.Input); a != "" {
		return a, g, d
	}
	if r.ResultName != "" {
		if !o.HasResult {
			return "result", "missing", "no result saved although a result name is set"
		}
		if o.ResCat != cat.Name {
			return "result-category", "differs", fmt.Sprintf("result category %q, want %q", o.ResCat, cat.Name)
		}
		if e.JudgeValue && o.ResValue != e.Value {
			return "result-value", valueClass(r, e, o), fmt.Sprintf("result value %q, want %q", o.ResValue, e.Value)
		}
		if e.JudgeInput && o.ResInput != e.Input {
			return "result-input", "differs", fmt.Sprintf("result input %q, want %q", o.ResInput, e.Input)
		}
		// a routing that saves the value and category the result already had changes nothing an event
		// would have to announce: then the statement is satisfied with or without an event
		unchanged := prev != nil && prev.HasResult && prev.ResCat == o.ResCat && prev.ResValue == o.ResValue
		if len(o.EvResults) != 1 && !(unchanged && len(o.EvResults) == 0) {
			return "result-event", fmt.Sprintf("%d-events", len(o.EvResults)), "want exactly one run_result_changed for the router's result"
		}
		for _, ev := range o.EvResults {
			if ev.Category != cat.Name || (e.JudgeValue && ev.Value != e.Value) {
				return "result-event", "differs", fmt.Sprintf("run_result_changed category=%q value=%q, want %q %q", ev.Category, ev.Value, cat.Name, e.Value)
			}
		}
	}
	return "", "", ""
}

// exitClass describes an unexpected exit relative to the definition (for signature keys).
func exitClass(r *Router, e *Expect, o *Observed) string {
	if o.Exit == -1 {
		if o.RunStatus == "failed" {
			return "none+failed"
		}
		return "none"
	}
	if o.Exit < 0 {
		return "unknown-exit"
	}
	var who []string
	for i, c := range r.CatOf {
		if r.Cats[c].Exit == o.Exit {
			w := "earlier-case"
			if strings.HasPrefix(e.Via, "case") {
				var ei int
				fmt.Sscanf(e.Via, "case%d", &ei)
				if i > ei {
					w = "later-case"
				} else if i == ei {
					w = "same-case"
				}
			} else {
				w = "a-case"
			}
			who = append(who, w)
		}
	}
	if r.Default >= 0 && r.Cats[r.Default].Exit == o.Exit {
		who = append(who, "default")
	}
	if r.Timeout >= 0 && r.Cats[r.Timeout].Exit == o.Exit {
		who = append(who, "timeout")
	}
	if r.Type == "random" {
		return fmt.Sprintf("bucket%+d", o.Exit-r.Cats[e.Cat].Exit)
	}
	if len(who) == 0 {
		return "unused-exit"
	}
	sort.Strings(who)
	return strings.Join(uniq(who), "+")
}

func valueClass(r *Router, e *Expect, o *Observed) string {
	switch {
	case o.ResValue == e.Input && e.JudgeInput:
		return "is-operand"
	case o.ResValue == "":
		return "empty"
	}
	return "differs"
}

func uniq(xs []string) []string {
	var out []string
	for i, x := range xs {
		if i == 0 || x != xs[i-1] {
			out = append(out, x)
		}
	}
	return out
}

// Judge compares what the engine did with every behaviour the statement allows.
func Judge(r *Router, exps []Expect, o, prev *Observed) verdict {
	var first verdict
	for i := range exps {
		e := &exps[i]
		if e.Undecided != "" {
			return verdict{OK: true, Undecided: e.Undecided, Exp: e}
		}
		a, g, d := mismatch(r, e, o, prev)
		if a == "" {
			return verdict{OK: true, Exp: e}
		}
		if i == 0 {
			first = verdict{Aspect: a, Got: g, Detail: d, Exp: e}
		}
	}
	return first
}

func traceClass(tr []string) string {
	if len(tr) == 0 {
		return "-"
	}
	return strings.Join(tr, ">")
}

func viaClass(via string) string {
	if strings.HasPrefix(via, "case") {
		return "case"
	}
	return via
}

// locClass tells whether localized arguments were in play (for signature keys).
func locClass(r *Router) string {
	if r.Lang != langTr {
		return "base-args"
	}
	for _, a := range r.Cases {
		if a.Tr != nil {
			return "localized-args"
		}
	}
	return "base-args"
}

// violationKey is the root-cause signature of a disagreement: router type, aspect, which kind of
// expectation was missed and how, the outcomes of the cases tried, whether localized arguments were in
// play - and, where they apply, how the contact got its language and that the routing was a revisit.
func violationKey(r *Router, v verdict, visit int) string {
	key := fmt.Sprintf("%s:%s:want=%s:got=%s:trace=%s:%s", r.Type, v.Aspect, viaClass(v.Exp.Via), v.Got, traceClass(v.Exp.Trace), locClass(r))
	if r.LangVia != "" {
		key += ":language-set-by-" + r.LangVia
	}
	if visit > 0 {
		key += ":revisit"
	}
	return key
}

// checkRevisits judges the second and later routings of a revisited router (the first was judged
// and matched the expectation first); false when something was reported.
func checkRevisits(c *mc.Ctx, m *Model, r *Router, first *Expect, obs []*Observed) bool {
	lastCat := first.Cat
	for i := 1; i < len(obs); i++ {
		rv, o, prev := r.visit(i), obs[i], obs[i-1]
		exps, err := m.Expectations(rv)
		if err != nil {
			c.Violation("harness:reference-model", "reference model failed: "+err.Error(), r)
			return false
		}
		if o.HarnessErr != "" {
			c.Violation("harness:revisit:"+mc.Hash(o.HarnessErr), fmt.Sprintf("routing %d could not be observed: %s\nrouter: %s", i+1, o.HarnessErr, mc.JSON(r)), r)
			return false
		}
		v := Judge(rv, exps, o, prev)
		if v.Undecided != "" {
			c.Inc("not_judged:" + v.Undecided)
			return true
		}
		if !v.OK {
			what := fmt.Sprintf("routing %d of the router in this run (message %q, after %q): %s\nrouter: %s\nallowed: %s\nobserved: %s\nobserved after the previous routing: %s",
				i+1, rv.Operand.Input, r.visit(i-1).Operand.Input, v.Detail, mc.JSON(r), describe(exps), mc.JSON(o), mc.JSON(prev))
			c.Violation(violationKey(rv, v, i), what, r)
			return false
		}
		e := v.Exp
		lastCat = e.Cat
		c.Inc("revisit_routings_judged")
		c.Fact("revisit:via:" + viaClass(e.Via))
		if r.ResultName != "" && e.Cat >= 0 && e.JudgeInput && e.JudgeValue && prev.HasResult {
			switch {
			case prev.ResCat != o.ResCat:
				c.Fact("revisit:category-changed")
			case prev.ResValue != o.ResValue:
				c.Fact("revisit:same-category:value-changed")
			case prev.ResInput != o.ResInput:
				c.Fact("revisit:same-category-and-value:operand-changed")
				c.Fact("revisit:same-category-and-value:operand-changed:via:" + viaClass(e.Via))
				if strings.HasPrefix(e.Via, "case") {
					c.Fact("revisit:same-category-and-value:operand-changed:" + r.Cases[len(e.Trace)-1].Test)
				}
				c.Inc("revisit_routings_saving_an_equal_value_and_category_for_another_operand")
			default:
				c.Fact("revisit:nothing-changed")
			}
		}
	}
	// the router is routed once per message for as long as the run has not failed
	if want := 1 + len(r.Revisit); len(obs) != want && lastCat >= 0 {
		c.Violation("harness:revisit-count", fmt.Sprintf("observed %d routings, want %d\nrouter: %s", len(obs), want, mc.JSON(r)), r)
		return false
	}
	return true
}

// check executes one router, judges it and records everything.
func check(c *mc.Ctx, m *Model, r *Router, family string) {
	exps, err := m.Expectations(r)
	if err != nil {
		c.Violation("harness:reference-model", "reference model failed: "+err.Error(), r)
		return
	}
	obs := r.ExecuteVisits()
	o := obs[0]
	c.Inc("evaluations")
	c.Inc("sessions:" + family)
	if o.HarnessErr != "" {
		c.Violation("harness:"+family+":"+mc.Hash(o.HarnessErr), "the generated definition was not accepted: "+o.HarnessErr+"\nrouter: "+mc.JSON(r), r)
		return
	}
	v := Judge(r, exps, o, nil)
	if v.Undecided != "" {
		c.Inc("not_judged:" + v.Undecided)
		return
	}
	if !v.OK {
		what := fmt.Sprintf("%s\nrouter: %s\nallowed: %s\nobserved: %s", v.Detail, mc.JSON(r), describe(exps), mc.JSON(o))
		c.Violation(violationKey(r, v, 0), what, r)
		return
	}
	if len(r.Revisit) > 0 && !checkRevisits(c, m, r, v.Exp, obs) {
		return
	}
	// bookkeeping for the evidence and the vacuity guards
	e := v.Exp
	nontrivial := r.Type != "switch" || e.Via == "timeout"
	for i, k := range e.Trace {
		if k == "match" || k == "error" {
			nontrivial = true
		}
		c.Fact(k + ":" + r.Cases[i].Test)
		c.Fact(k + ":kind:" + r.Cases[i].Kind)
	}
	if nontrivial {
		c.Inc("distinct_nontrivial")
	}
	c.Outcome(fmt.Sprintf("%s via=%s trace=%s", r.Type, viaClass(e.Via), traceClass(e.Trace)))
	c.Fact("via:" + viaClass(e.Via))
	if len(e.Trace) >= 2 && e.Trace[len(e.Trace)-1] == "match" {
		c.Fact("match-after:" + e.Trace[len(e.Trace)-2])
	}
	if len(exps) > 1 && e.Choices != "" {
		// a translation with a different number of arguments: record which reading the engine follows
		distinct := false
		for i := range exps {
			if a, _, _ := mismatch(r, &exps[i], o, nil); a != "" {
				distinct = true
			}
		}
		if distinct {
			c.Fact("translation-of-different-length:engine-used-" + map[byte]string{'b': "base", 't': "translation"}[e.Choices[0]] + "-arguments")
		}
	}
	if r.Lang == langTr && e.Choices == "" {
		for i, k := range e.Trace {
			a := r.Cases[i]
			if a.Tr != nil && len(a.Tr) == len(a.Args) {
				c.Fact("localized-arguments-decided:" + k)
			}
		}
	}
	if r.LangVia != "" {
		c.Inc("sessions_with_language_set_on_the_way")
		for i, k := range e.Trace {
			// a case whose base arguments and translation decide differently: the language in force at the
			// router shows in the exit
			if a := r.Cases[i]; a.Tr != nil && len(a.Tr) == len(a.Args) {
				c.Fact("language-set-by-" + r.LangVia + ":to-" + r.Lang + ":" + waitClass(r) + ":localized-case:" + k)
			}
		}
	}
	if r.Type == "switch" && r.ResultName != "" && e.Cat >= 0 {
		if e.JudgeValue {
			c.Inc("result_values_judged")
		} else {
			c.Inc("result_values_not_judged(operand is an error)")
		}
	}
	if r.Type == "random" {
		c.Fact(fmt.Sprintf("random:n=%d:bucket=%d", len(r.Cats), e.Cat))
	}
	if r.Type == "none" {
		c.Fact(fmt.Sprintf("none:exits=%d", r.NExits))
	}
	if r.Resume != "" {
		c.Fact("resume:" + r.Resume)
	}
	if c.WantSample() && len(r.Cases) >= 2 && e.Trace != nil && e.Trace[0] == "error" && strings.HasPrefix(e.Via, "case") {
		c.Sample(map[string]any{"router": r, "expected": describe(exps), "observed": o})
	}
}

func waitClass(r *Router) string {
	if r.Wait {
		return "after-wait"
	}
	return "same-sprint"
}

func describe(exps []Expect) string {
	var parts []string
	for _, e := range exps {
		if e.Undecided != "" {
			parts = append(parts, "undecided("+e.Undecided+")")
			continue
		}
		s := fmt.Sprintf("%s->cat %d trace=%s", e.Via, e.Cat, traceClass(e.Trace))
		if e.JudgeValue {
			s += fmt.Sprintf(" value=%q", e.Value)
		}
		if e.JudgeInput {
			s += fmt.Sprintf(" input=%q", e.Input)
		}
		if e.Choices != "" {
			s += " args-assumed=" + e.Choices
		}
		parts = append(parts, s)
	}
	return strings.Join(parts, " | ")
}

// ---- enumeration ------------------------------------------------------------------------------

// lists calls f for every list of atoms of exactly n elements over the alphabet.
func lists(alpha []Atom, n int, f func([]Atom)) {
	cur := make([]Atom, n)
	var rec func(i int)
	rec = func(i int) {
		if i == n {
			f(append([]Atom{}, cur...))
			return
		}
		for _, a := range alpha {
			cur[i] = a
			rec(i + 1)
		}
	}
	rec(0)
}

// sequences calls f for every sequence of exactly n operands over the alphabet.
func sequences(alpha []Operand, n int, f func([]Operand)) {
	cur := make([]Operand, n)
	var rec func(i int)
	rec = func(i int) {
		if i == n {
			f(append([]Operand{}, cur...))
			return
		}
		for _, a := range alpha {
			cur[i] = a
			rec(i + 1)
		}
	}
	rec(0)
}

var langVias = []string{"action", "child"}

func langsFor(atoms []Atom) []string {
	for _, a := range atoms {
		if a.Tr != nil {
			return []string{langBase, langTr}
		}
	}
	return []string{langBase}
}

func run(c *mc.Ctx) {
	m := NewModel()
	full, reduced, triple, core := alphabets()
	c.Max("atoms_full", int64(len(full)))
	c.Max("atoms_reduced", int64(len(reduced)))
	c.Max("atoms_triple", int64(len(triple)))
	c.Max("registered_tests", int64(len(Tests())))
	for _, t := range Tests() {
		if _, ok := testVectors[t]; !ok {
			c.Note("registered test without hand-written argument vectors (exercised with 0 and 1 arguments only): " + t)
		}
	}
	idx := 0
	expired := false
	unit := func(f func()) {
		if expired {
			return
		}
		mine := c.Mine(idx)
		idx++
		if !mine {
			return
		}
		if c.Expired() {
			expired = true
			return
		}
		f()
	}

	// family SUB (sub-flow return): a parent's router routed when its child run ends, whatever resume
	// started the sprint
	runSubflowFamily(c, unit)

	// family T (tests product): every case list up to the length bound over the alphabet, with and
	// without default, every operand, both contact languages where a case is localized; plain
	// structure (one category and exit per case, result name set, no wait).
	tests := func(alpha []Atom, n int, family string) {
		lists(alpha, n, func(l []Atom) {
			unit(func() {
				for _, def := range []bool{true, false} {
					for _, op := range Operands {
						for _, lang := range langsFor(l) {
							check(c, m, BuildSwitch(op, l, 0, 0, def, true, 0, lang), family)
						}
					}
				}
			})
		})
	}
	// family S (structure product): case lists over the core atoms crossed with every category
	// assignment, exit assignment, default, result name and wait/resume mode.
	structure := func(n int) {
		lists(core, n, func(l []Atom) {
			for _, op := range Operands {
				unit(func() {
					for cm := range catMaps {
						for em := range exitMaps {
							for _, def := range []bool{true, false} {
								for _, rn := range []bool{true, false} {
									for wm := range waitModes {
										for _, lang := range langsFor(l) {
											if r := BuildSwitch(op, l, cm, em, def, rn, wm, lang); r != nil {
												check(c, m, r, "structure")
											}
										}
									}
								}
							}
						}
					}
				})
			}
		})
	}

	// family V (revisits): the router waits for a message and every exit's node leads back to it, so one
	// run routes it once per message and saves the same result name each time; every routing is judged
	// like a first one, against the message that caused it. Every sequence of message texts of the given
	// length over the revisit alphabet (the input texts of the operand alphabet and, for each, a second
	// text with the same extractable parts) x case list x default x contact language.
	revisits := func(alpha []Atom, n, visits int, family string) {
		lists(alpha, n, func(l []Atom) {
			unit(func() {
				for _, def := range []bool{true, false} {
					for _, lang := range langsFor(l) {
						sequences(RevisitTexts, visits, func(ts []Operand) {
							r := BuildSwitch(ts[0], l, 0, 0, def, true, 1, lang)
							for _, t := range ts[1:] {
								r.Revisit = append(r.Revisit, t.Input)
							}
							check(c, m, r, family)
						})
					}
				}
			})
		})
	}
	// family L (language set on the way): the trigger's contact has the other language, the run sends a
	// message (localizing it under that language) and only then the contact's language becomes the one the
	// router must use - set by an action of the same run or by a child run entered before the router, in
	// the sprint that routes or in the one before the router's wait.
	languagePaths := func(alpha []Atom, n int, family string) {
		lists(alpha, n, func(l []Atom) {
			unit(func() {
				for _, def := range []bool{true, false} {
					for _, op := range Operands {
						for _, lang := range []string{langBase, langTr} {
							for _, via := range langVias {
								for _, wm := range []int{0, 1} {
									r := BuildSwitch(op, l, 0, 0, def, true, wm, lang)
									r.LangVia = via
									check(c, m, r, family)
								}
							}
						}
					}
				}
			})
		})
	}
	localized := func(alpha []Atom) (out []Atom) {
		for _, a := range alpha {
			if a.Tr != nil {
				out = append(out, a)
			}
		}
		return
	}
	// alphabet of the case lists of length 2 under a language set on the way: the literal atom and the
	// localized atoms of has_any_word plus the core alphabet
	var pairs []Atom
	pairs = append(pairs, core...)
	for _, a := range full {
		if a.Test == "has_any_word" && a.Tr != nil {
			pairs = append(pairs, a)
		}
	}

	tests(full, 0, "tests:len0")
	tests(full, 1, "tests:len1")
	if c.Quick() {
		tests(reduced, 2, "tests:len2")
		structure(0)
		structure(1)
		structure(2)
		revisits(reduced, 1, 2, "revisits:len1")
		languagePaths(localized(append(append([]Atom{}, reduced...), core...)), 1, "language-paths:len1")
		languagePaths(pairs, 2, "language-paths:len2")
	} else {
		tests(full, 2, "tests:len2")
		tests(triple, 3, "tests:len3")
		structure(0)
		structure(1)
		structure(2)
		structure(3)
		revisits(full, 1, 2, "revisits:len1")
		revisits(core, 2, 2, "revisits:len2")
		revisits(core, 1, 3, "revisits:len1:three-routings")
		languagePaths(localized(full), 1, "language-paths:len1")
		for _, a := range full {
			if a.Test == "has_category" && a.Tr != nil {
				pairs = append(pairs, a)
			}
		}
		languagePaths(pairs, 2, "language-paths:len2")
	}

	// random routers
	for n := 2; n <= 4; n++ {
		for _, d := range RandomDraws(n, c.Thorough()) {
			unit(func() {
				for em := range exitMaps {
					for _, rn := range []bool{true, false} {
						if r := BuildRandom(n, em, rn, d); r != nil {
							check(c, m, r, "random")
						}
					}
				}
			})
		}
	}
	// nodes without a router: 1..2 exits, each with or without a destination (a node with no exits
	// is not a valid definition, which is checked too)
	unit(func() {
		for n := 0; n <= 2; n++ {
			for mask := 0; mask < 1<<n; mask++ {
				r := &Router{Type: "none", Default: -1, Timeout: -1, Lang: langBase, NExits: n, Operand: Operand{Name: "-", Input: defaultInput}, Scheme: "none"}
				for i := 0; i < n; i++ {
					r.ExitDest = append(r.ExitDest, mask&(1<<i) != 0)
				}
				if n == 0 {
					if o := r.Execute(); o.HarnessErr != "" {
						c.Fact("none:exits=0:definition-rejected")
					} else {
						c.Note("a node without exits was accepted by the definition reader")
					}
					continue
				}
				check(c, m, r, "none")
			}
		}
	})
	if expired {
		c.Cap("time budget reached: the families are enumerated in a fixed order (sub-flow return, tests product by list length, structure product, revisits, language set on the way, random, no router) and every unit before the cap was checked completely")
	}
}

// ---- replay and registration --------------------------------------------------------------------

func replayFn(c *mc.Ctx, raw json.RawMessage) (string, bool) {
	if out, violated, mine := replaySubflow(c, raw); mine {
		return out, violated
	}
	var r Router
	if err := json.Unmarshal(raw, &r); err != nil {
		return "bad replay: " + err.Error(), false
	}
	m := NewModel()
	def, _ := json.Marshal(r.Definition())
	out := fmt.Sprintf("router: %s\ndefinition: %s\n", mc.JSON(r), def)
	if r.LangVia == "child" {
		child, _ := json.Marshal(r.ChildDefinition())
		out += fmt.Sprintf("child flow: %s\n", child)
	}
	if r.LangVia != "" {
		out += fmt.Sprintf("the trigger's contact has language %s; the router is reached with language %s\n", otherLang(r.Lang), r.Lang)
	}
	obs := r.ExecuteVisits()
	var prev *Observed
	for i, o := range obs {
		rv := r.visit(i)
		exps, err := m.Expectations(rv)
		if err != nil {
			return out + "reference model failed: " + err.Error(), false
		}
		v := Judge(rv, exps, o, prev)
		if len(r.Revisit) > 0 {
			out += fmt.Sprintf("routing %d (message %q): ", i+1, rv.Operand.Input)
		}
		out += fmt.Sprintf("allowed by the statement: %s\nobserved: %s\n", describe(exps), mc.JSON(o))
		if o.HarnessErr != "" {
			return out + "HARNESS: " + o.HarnessErr, true
		}
		if v.Undecided != "" {
			return out + "not judged: " + v.Undecided, false
		}
		if !v.OK {
			return out + fmt.Sprintf("PROBLEM %s (%s): %s", v.Aspect, v.Got, v.Detail), true
		}
		out += "agrees with: " + describe([]Expect{*v.Exp}) + "\n"
		prev = o
	}
	return out, false
}

func init() {
	mc.Register(&mc.Check{
		ID:    "C07",
		Level: "exploration",
		Rule: "every case is one session of the real engine over a flow whose first node carries the router under test, with one distinct destination node per exit; the oracle is a reference decision list that evaluates operand and (localized) arguments itself, calls the registered test and applies the statement. " +
			"Enumerated exhaustively: (T) switch routers with every case list of length 0..2 (thorough: ..3) over an alphabet of atoms = registered test (all of cases.XTESTS, read from the registry) x argument vector {literal hit, literal miss, expression form, argument evaluating to an error, one argument too many, localized base-hits/translation-misses, localized base-misses/translation-hits, translation of different length, second literal} " +
			"(lengths 0..1: all atoms; length 2: quick = the literal atom of every test + all atoms of 6 representative tests, thorough = all atoms; length 3 (thorough): the literal atom of every test + 7 special atoms (miss, erroring argument, wrong count, localized variants) of has_any_word and has_category) x {default, no default} x 13 operands (5 texts arriving as contact input, number, datetime, nil, error, result object, group array, classification result, mixed template) x contact language {base, translated (when a case is localized)}; " +
			"(S) case lists of length 0..2 (thorough ..3) over 6 core atoms x 13 operands x 4 category assignments (distinct, cases sharing a category, default sharing a case's category, equal names) x 4 exit assignments (identity, reversed, all categories one exit, two categories sharing an exit) x default x result name x {no wait, msg wait + msg resume, wait with timeout + msg resume, wait with timeout + timeout resume} x language; " +
			"(V) revisits: the router waits for a message and the node behind every exit leads back to it, so one run of one live session routes it once per message and saves the same result name every time; every routing is judged like a first one against the message that caused it (exit, next node, segment and operand, saved category/value/input; run back at the wait): case lists of length 1 over the reduced alphabet of (T) (thorough: all atoms, and length 2 over the 6 core atoms) x {default, no default} x contact language x every ordered pair (thorough also: every triple, over the core atoms) of 9 message texts = the 5 input texts of the operand alphabet + for each non-empty one a second text carrying the same extractable parts (words, number, phone, email, date with time, places) in another whole text, so that equal match and category are saved for a different operand; " +
			"(L) language set on the way: the trigger's contact has the other language, the run first sends a message (localizing it under that language), then the contact's language becomes the one the router must use - set by {a set_contact_language action of the same run, a child run entered by a node before the router} - and the router is reached {in the same sprint, after its own msg wait, resumed on the live session}: case lists of length 1 over every localized atom of the reduced alphabet and the core (thorough: of all atoms) and of length 2 over 9 atoms (core + the localized atoms of has_any_word; thorough 12: + those of has_category) x {default, no default} x 13 operands x final language {base, translated}; " +
			"(R) random routers with 2..4 categories x boundary draws {0, largest float64 below k/n, smallest float64 >= k/n, the same on the 2^-53 grid, 1-2^-53} (thorough: + bucket middles) x exit assignments x result name; (N) nodes without router with 1..2 exits x each exit with/without destination (0 exits: definition rejected). " +
			"(SUB, driven through verif/world) a parent that enters a child flow and splits on @child.status x child wait with/without timeout x child looping x result name x resume {msg hit, msg miss, timeout, expire}. " +
			"Every (router, operand, language, resume, message sequence, language path) is distinct by construction; distinct_nontrivial counts the sessions in which the decision list did real work (some case matched or errored) plus all timeout, random and router-less sessions.",
		Assumptions: []string{
			"the evaluator, the type conversions and the registered test functions are the substrate shared by engine and reference model (their own correctness is the subject of other properties); the reference obtains its evaluation context from a separate session over a flow with the same actions and no router",
			"the statement does not say which arguments are compared when a translation has a different number of arguments than the base: both readings are accepted (the evidence records which one the engine follows)",
			"the statement does not define the text of an operand that evaluates to an error: for such operands exit, category and the match of has_error are judged, the stored operand text is not",
			"for timeout and random routes the statement defines the category only: result value and input are not judged there",
			"a routing that saves the value and category the result already has: the statement does not say whether an event announces it, so no event or one agreeing event is accepted there; the saved result itself (category, value, input) is judged in full on every routing",
			"revisits and language paths keep the reference's evaluation context (a probe session with the final contact language and the message of the routing judged): no operand or argument of the alphabets reads what an earlier routing or the language change alters (the router's own result, @child, @contact.language); the revisit texts carry a time of day with their date because a date without one takes it from the clock, which the reference reads at another moment",
			"small-scope: at most 3 cases per router, at most 3 routings of a router in one run, the operand, argument and message alphabets listed in the rule",
			"clock, UUID and random sources are owned by the harness; a random draw is forced by fixing the source's Int63 value (rand.Float64 = float64(Int63)/2^63)",
		},
		Run:    run,
		Replay: replayFn,
		Budget: map[string]time.Duration{"quick": 4 * time.Minute, "thorough": 25 * time.Minute},
		Guards: guards,
	})
}

func guards(r *mc.Result, tier string) []string {
	var f []string
	need := func(fact string) {
		if r.Facts[fact] == 0 {
			f = append(f, "never observed: "+fact)
		}
	}
	for _, t := range Tests() {
		need("match:" + t)
		need("nomatch:" + t)
		if _, ok := testVectors[t]; ok && t != "has_error" {
			need("error:" + t)
		}
	}
	for _, k := range []string{"lit", "miss", "expr", "count", "loc-base-hit", "loc-tr-hit", "loc-len", "alt"} {
		need("match:kind:" + k)
		need("nomatch:kind:" + k)
	}
	need("error:kind:argerr")
	need("error:kind:count")
	for _, v := range []string{"case", "default", "none", "timeout", "random", "first-exit"} {
		need("via:" + v)
	}
	need("match-after:error")
	need("match-after:nomatch")
	need("localized-arguments-decided:match")
	need("localized-arguments-decided:nomatch")
	need("resume:msg")
	need("resume:timeout")
	for n := 2; n <= 4; n++ {
		for k := 0; k < n; k++ {
			need(fmt.Sprintf("random:n=%d:bucket=%d", n, k))
		}
	}
	need("none:exits=1")
	need("none:exits=2")
	need("none:exits=0:definition-rejected")
	if r.Facts["translation-of-different-length:engine-used-base-arguments"]+r.Facts["translation-of-different-length:engine-used-translation-arguments"] == 0 {
		f = append(f, "a translation of different length never made a difference")
	}
	for _, k := range []string{"revisit:via:case", "revisit:via:default", "revisit:via:none", "revisit:category-changed", "revisit:same-category:value-changed",
		"revisit:same-category-and-value:operand-changed:via:case", "revisit:nothing-changed"} {
		need(k)
	}
	for _, via := range langVias {
		for _, lang := range []string{langBase, langTr} {
			for _, w := range []string{"same-sprint", "after-wait"} {
				for _, k := range []string{"match", "nomatch"} {
					need("language-set-by-" + via + ":to-" + lang + ":" + w + ":localized-case:" + k)
				}
			}
		}
	}
	if r.Counters["result_values_judged"] == 0 {
		f = append(f, "no result value was judged")
	}
	return f
}
