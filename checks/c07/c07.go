// Package c07: (not built yet)
package c07
