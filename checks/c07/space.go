package c07

import (
	"fmt"
	"sort"

	"github.com/nyaruka/goflow/flows/routers/cases"
	"verif/checks/c07/lab"
	"verif/world"
)

type J = lab.J

// Languages of the C07 world: the flow's base language and the one language with translations.
const langBase, langTr = "eng", "fra"

// Operand is one value of the operand alphabet: the router's operand template and, for operands
// read from the contact's input, the message text that carries it.
type Operand struct {
	Name     string `json:"name"`
	Template string `json:"template"`
	Input    string `json:"input"` // text of the (trigger or resume) message
}

// defaultInput is the message text used with operands that do not read the input.
const defaultInput = "a b"

// Operands is the operand alphabet: five texts that arrive as contact input, and eight values of
// the other kinds (number, datetime, nil, error, result object, array, classification result,
// template mixing literal text and an expression).
var Operands = []Operand{
	{"text:words", "@input.text", "a b"},
	{"text:number+phone+email", "@input.text", "I am 42 call +12065551212 or bob@nyaruka.com"},
	{"text:date+time", "@input.text", "on 2020-05-17 at 10:30"},
	{"text:places", "@input.text", "Kigali Gasabo Gisozi"},
	{"text:empty", "@input.text", ""},
	{"number", "@fields.age", defaultInput},
	{"datetime", "@fields.joined", defaultInput},
	{"nil", "@fields.state", defaultInput},
	{"error", "@(1 / 0)", defaultInput},
	{"result", "@results.pre", defaultInput},
	{"array:groups", "@contact.groups", defaultInput},
	{"result:classification", "@results.intent", defaultInput},
	{"template:mixed", "a @(lower(\"B\"))", defaultInput},
}

// RevisitTexts is the alphabet of message texts with which a revisited router is routed again: the
// five input texts of the operand alphabet and, for each non-empty one, a second text that carries the
// same extractable parts (words, number, phone, email, date, time, places) in another whole text - so
// that a test can extract an equal match from a different operand. (The date keeps its time of day
// behind it: a date without one takes the time from the clock, which the reference model reads at
// another moment than the engine.)
var RevisitTexts = []Operand{
	Operands[0],
	{"text:words:again", "@input.text", "a c b"},
	Operands[1],
	{"text:number+phone+email:again", "@input.text", "bob@nyaruka.com is 42, call +12065551212"},
	Operands[2],
	{"text:date+time:again", "@input.text", "back on 2020-05-17 at 10:30"},
	Operands[3],
	{"text:places:again", "@input.text", "Gisozi Gasabo Kigali"},
	Operands[4],
}

// Atom is one switch case: a registered test with an argument vector (templates) and optionally a
// translation of the arguments into langTr.
type Atom struct {
	Test string   `json:"test"`
	Kind string   `json:"kind"` // lit | alt | expr | argerr | count | loc-base-hit | loc-tr-hit | loc-len
	Args []string `json:"args"`
	Tr   []string `json:"tr,omitempty"` // translated arguments (nil = no translation)
}

func (a Atom) String() string {
	if a.Tr != nil {
		return fmt.Sprintf("%s%q/%s%q", a.Test, a.Args, langTr, a.Tr)
	}
	return fmt.Sprintf("%s%q", a.Test, a.Args)
}

// testVectors gives, for every registered test: hit = literal arguments that match the test's home
// operand, miss = literal arguments of the same length that do not, expr = hit written as
// expressions. Tests that take no arguments have empty vectors.
type vectors struct {
	hit, miss, expr []string
	alt             []string // optional second literal vector
}

var groupA = world.GroupA

var testVectors = map[string]vectors{
	"has_error":          {},
	"has_text":           {},
	"has_value":          {},
	"has_number":         {},
	"has_date":           {},
	"has_time":           {},
	"has_email":          {},
	"has_state":          {},
	"has_only_text":      {hit: []string{"a b"}, miss: []string{"A B"}, expr: []string{`@(lower("A B"))`}},
	"has_phrase":         {hit: []string{"b"}, miss: []string{"b a"}, expr: []string{`@(lower("B"))`}},
	"has_only_phrase":    {hit: []string{"A b"}, miss: []string{"a"}, expr: []string{`@("a" & " b")`}},
	"has_any_word":       {hit: []string{"x b"}, miss: []string{"x y"}, expr: []string{`x @(lower("B"))`}, alt: []string{"42 Kigali"}},
	"has_all_words":      {hit: []string{"b a"}, miss: []string{"a x"}, expr: []string{`@(lower("B")) a`}},
	"has_beginning":      {hit: []string{"a"}, miss: []string{"b"}, expr: []string{`@(lower("A"))`}, alt: []string{"on 2020"}},
	"has_pattern":        {hit: []string{`^a (\w)$`}, miss: []string{`^b`}, expr: []string{`^a @("(\\w)$")`}, alt: []string{`(\d+)`}},
	"has_number_between": {hit: []string{"40", "50"}, miss: []string{"50", "60"}, expr: []string{"@(20 * 2)", "@(100 / 2)"}},
	"has_number_lt":      {hit: []string{"50"}, miss: []string{"42"}, expr: []string{"@(25 * 2)"}},
	"has_number_lte":     {hit: []string{"42"}, miss: []string{"41"}, expr: []string{"@(21 * 2)"}},
	"has_number_eq":      {hit: []string{"42"}, miss: []string{"43"}, expr: []string{"@(21 * 2)"}, alt: []string{"2020"}},
	"has_number_gte":     {hit: []string{"42"}, miss: []string{"43"}, expr: []string{"@(21 * 2)"}},
	"has_number_gt":      {hit: []string{"41"}, miss: []string{"42"}, expr: []string{"@(40 + 1)"}},
	"has_date_lt":        {hit: []string{"2021-01-01"}, miss: []string{"2020-05-17"}, expr: []string{`@(datetime("2021-01-01"))`}},
	"has_date_eq":        {hit: []string{"2020-05-17"}, miss: []string{"2020-05-18"}, expr: []string{`@(datetime("2020-05-17"))`}},
	"has_date_gt":        {hit: []string{"2020-01-01"}, miss: []string{"2020-05-17"}, expr: []string{`@(datetime("2020-01-01"))`}},
	"has_phone":          {hit: []string{"US"}, miss: []string{"RW"}, expr: []string{`@(upper("us"))`}, alt: []string{}},
	"has_group":          {hit: []string{groupA}, miss: []string{world.GroupB}, expr: []string{`@(lower("` + groupA + `"))`}, alt: []string{groupA, "Group A"}},
	"has_category":       {hit: []string{"Yes"}, miss: []string{"No"}, expr: []string{`@(title("yes"))`}, alt: []string{"No", "Yes"}},
	"has_intent":         {hit: []string{"book_hotel", "0.4"}, miss: []string{"book_hotel", "0.5"}, expr: []string{`@("book_" & "hotel")`, "@(2 / 5)"}},
	"has_top_intent":     {hit: []string{"book_flight", "0.5"}, miss: []string{"book_hotel", "0.4"}, expr: []string{`@("book_" & "flight")`, "@(1 / 2)"}},
	"has_district":       {hit: []string{"Kigali"}, miss: []string{"Eastern Province"}, expr: []string{`@(title("kigali"))`}, alt: []string{}},
	"has_ward":           {hit: []string{"Kigali", "Gasabo"}, miss: []string{"Kigali", "Nyarugenge"}, expr: []string{`@(title("kigali"))`, `@(title("gasabo"))`}, alt: []string{}},
}

// Tests returns the names of all registered router tests, read from the registry.
func Tests() []string {
	var ts []string
	for t := range cases.XTESTS {
		ts = append(ts, t)
	}
	sort.Strings(ts)
	return ts
}

// errArg is an argument template that evaluates to an error.
const errArg = "@(1 / 0)"

// atomsFor builds the atoms of one test: its literal vector(s) and, when it takes arguments, the
// expression form, a vector with an argument that evaluates to an error, a vector with one argument
// too many, and three localized variants (base hits / translation misses, base misses /
// translation hits, translation of a different length than the base).
func atomsFor(test string) []Atom {
	v, ok := testVectors[test]
	if !ok {
		// a test registered after this check was written: exercised with no arguments and with one
		return []Atom{{Test: test, Kind: "lit", Args: []string{}}, {Test: test, Kind: "count", Args: []string{"zz"}}}
	}
	if v.hit == nil {
		return []Atom{{Test: test, Kind: "lit", Args: []string{}}, {Test: test, Kind: "count", Args: []string{"zz"}}}
	}
	cat := func(a []string, b ...string) []string { return append(append([]string{}, a...), b...) }
	withErr := cat(v.hit[:len(v.hit)-1], errArg)
	out := []Atom{
		{Test: test, Kind: "lit", Args: v.hit},
		{Test: test, Kind: "miss", Args: v.miss},
		{Test: test, Kind: "expr", Args: v.expr},
		{Test: test, Kind: "argerr", Args: withErr},
		{Test: test, Kind: "count", Args: cat(v.hit, "zz")},
		{Test: test, Kind: "loc-base-hit", Args: v.hit, Tr: v.miss},
		{Test: test, Kind: "loc-tr-hit", Args: v.miss, Tr: v.hit},
		{Test: test, Kind: "loc-len", Args: v.hit, Tr: cat(v.miss, "zz")},
	}
	if v.alt != nil {
		out = append(out, Atom{Test: test, Kind: "alt", Args: v.alt})
	}
	return out
}

// representative tests whose special atoms are part of the reduced alphabets
var representative = map[string]bool{"has_any_word": true, "has_number_lt": true, "has_date_eq": true, "has_category": true, "has_group": true, "has_pattern": true}

// special atoms that are part of the alphabet of case lists of length 3 (besides every test's
// literal atom): a miss, an erroring argument, a wrong argument count and the localized variants
var representative3 = map[string]bool{
	"has_any_word/miss": true, "has_any_word/argerr": true, "has_any_word/count": true, "has_any_word/loc-tr-hit": true, "has_any_word/loc-len": true,
	"has_category/argerr": true, "has_category/loc-base-hit": true,
}

// Alphabets: full = every atom of every registered test; reduced = the literal atom of every test
// plus every atom of the six representative tests; triple = the literal atom of every test plus
// seven special atoms of two representative tests; core = six atoms with which the structural product
// (categories, exits, waits) is crossed.
func alphabets() (full, reduced, triple, core []Atom) {
	for _, t := range Tests() {
		for _, a := range atomsFor(t) {
			full = append(full, a)
			if a.Kind == "lit" || representative[t] {
				reduced = append(reduced, a)
			}
			if a.Kind == "lit" || representative3[t+"/"+a.Kind] {
				triple = append(triple, a)
			}
		}
	}
	pick := func(test, kind string) Atom {
		for _, a := range full {
			if a.Test == test && a.Kind == kind {
				return a
			}
		}
		panic("no atom " + test + "/" + kind)
	}
	core = []Atom{
		pick("has_any_word", "lit"), pick("has_number_lt", "lit"), pick("has_error", "lit"),
		pick("has_text", "lit"), pick("has_any_word", "argerr"), pick("has_only_text", "loc-tr-hit"),
	}
	return
}
