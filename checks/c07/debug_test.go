package c07

import (
	"fmt"
	"testing"
	"time"
)

func TestMatrix(t *testing.T) {
	m := NewModel()
	full, reduced, _, core := alphabets()
	fmt.Println(len(full), len(reduced), len(core), len(Tests()))
	for _, op := range Operands {
		p, err := m.probe(op.Input, langBase)
		if err != nil {
			t.Fatal(err)
		}
		v := p.eval(op.Template)
		s, ok := p.text(v)
		fmt.Printf("OPERAND %-28s %T text=%q ok=%v\n", op.Name, v, s, ok)
	}
	for _, a := range full {
		line := fmt.Sprintf("%-55s", a.Kind+" "+a.String())
		for _, lang := range []string{langBase, langTr} {
			if lang == langTr && a.Tr == nil {
				continue
			}
			line += " [" + lang + "]"
			for _, op := range Operands {
				p, _ := m.probe(op.Input, lang)
				ch := argChoices(a, lang)
				s := ""
				for _, args := range ch {
					o := m.test(p, lang+"\x00"+op.Input, op, a.Test, args)
					s += o.Kind[:1]
				}
				line += " " + s
			}
		}
		fmt.Println(line)
	}
}

func TestSpeed(t *testing.T) {
	m := NewModel()
	_, _, _, core := alphabets()
	start := time.Now()
	n := 0
	for i := 0; i < 200; i++ {
		for _, op := range Operands {
			r := BuildSwitch(op, core[:2], 0, 0, true, true, 0, langBase)
			exps, _ := m.Expectations(r)
			o := r.Execute()
			v := Judge(r, exps, o)
			if !v.OK {
				t.Fatalf("%+v %+v", v, o)
			}
			n++
		}
	}
	fmt.Printf("%d sessions, %.3f ms each\n", n, float64(time.Since(start).Microseconds())/1000/float64(n))
}
