// Package lab is the small engine driver shared by the C07 and C18 checks. It is an adaptation of
// world.Root.Start/Apply (verif/world/harness.go) for checks that run hundreds of thousands of tiny
// single-flow sessions: the fixed part of the asset document (world.BaseAssets) is parsed once per
// process and only the flow definitions change from case to case (an assets.Source wrapper serves
// them), and contact / environment / trigger message are parameters of every single session. The
// seams (clock, UUIDs, random draws, HTTP) are re-armed before every session exactly as world.Reset
// does, so equal cases give equal sessions.
package lab

import (
	"encoding/json"
	"fmt"
	"math/rand"
	"sync"

	"github.com/nyaruka/gocommon/httpx"
	"github.com/nyaruka/gocommon/random"
	"github.com/nyaruka/goflow/assets"
	"github.com/nyaruka/goflow/assets/static"
	"github.com/nyaruka/goflow/envs"
	"github.com/nyaruka/goflow/flows"
	"github.com/nyaruka/goflow/flows/engine"
	"github.com/nyaruka/goflow/flows/resumes"
	"github.com/nyaruka/goflow/flows/triggers"
	"verif/mc"
	"verif/world"
)

// J is a JSON object under construction.
type J = map[string]any

var (
	baseOnce sync.Once
	baseSrc  assets.Source
	baseErr  error
	eng      flows.Engine
)

func base() (assets.Source, error) {
	baseOnce.Do(func() {
		b, err := json.Marshal(world.BaseAssets())
		if err != nil {
			baseErr = err
			return
		}
		baseSrc, baseErr = static.NewSource(b)
		eng = world.NewEngine(world.Options{})
	})
	return baseSrc, baseErr
}

// flowSource serves the fixed base assets plus the flows of one case.
type flowSource struct {
	assets.Source
	flows map[assets.FlowUUID]assets.Flow
}

func (s *flowSource) FlowByUUID(u assets.FlowUUID) (assets.Flow, error) {
	if f, ok := s.flows[u]; ok {
		return f, nil
	}
	return nil, fmt.Errorf("no such flow with UUID '%s'", u)
}

func (s *flowSource) FlowByName(name string) (assets.Flow, error) {
	for _, f := range s.flows {
		if f.Name() == name {
			return f, nil
		}
	}
	return nil, fmt.Errorf("no such flow with name '%s'", name)
}

// NewSA builds real SessionAssets from the base assets and the given flow definitions (each a
// complete 13.x definition with "uuid" and "name").
func NewSA(flowDefs ...J) (flows.SessionAssets, error) { return NewSAOver(nil, flowDefs...) }

// NewSAOver is NewSA with a hook: over (if not nil) receives the source that serves the base assets and
// the case's flows and returns the source the session assets are built from - a check that needs
// other channels or templates than the fixed ones embeds the given source and overrides those types.
func NewSAOver(over func(assets.Source) assets.Source, flowDefs ...J) (flows.SessionAssets, error) {
	src, err := base()
	if err != nil {
		return nil, err
	}
	fs := &flowSource{Source: src, flows: map[assets.FlowUUID]assets.Flow{}}
	for _, d := range flowDefs {
		raw, err := json.Marshal(d)
		if err != nil {
			return nil, err
		}
		u, _ := d["uuid"].(string)
		n, _ := d["name"].(string)
		fs.flows[assets.FlowUUID(u)] = static.NewFlow(assets.FlowUUID(u), n, raw)
	}
	var final assets.Source = fs
	if over != nil {
		final = over(fs)
	}
	return engine.NewSessionAssets(envs.NewBuilder().Build(), final, nil)
}

// Trigger describes how a session is started.
type Trigger struct {
	Kind    string // manual | msg | voice
	Flow    string // flow UUID
	MsgText string // msg triggers: the text (may be empty)
	Contact J
	Env     J
}

// JSON renders the trigger.
func (t Trigger) JSON() []byte {
	contact, env := t.Contact, t.Env
	if contact == nil {
		contact = world.DefaultContact()
	}
	if env == nil {
		env = world.DefaultEnv()
	}
	tj := J{
		"triggered_on": "2025-05-04T12:30:00.123456789Z",
		"flow":         J{"uuid": t.Flow, "name": "Subject"},
		"contact":      contact,
		"environment":  env,
	}
	switch t.Kind {
	case "manual":
		tj["type"] = "manual"
	case "msg":
		tj["type"] = "msg"
		tj["msg"] = J{"uuid": world.UUID("trigger-msg"), "urn": "tel:+12065551212", "channel": J{"uuid": world.ChanTel, "name": "Tel"}, "text": t.MsgText}
	case "voice":
		tj["type"] = "manual"
		tj["call"] = J{"channel": J{"uuid": world.ChanTel, "name": "Tel"}, "urn": "tel:+12065551212"}
	default:
		panic("lab: unknown trigger kind " + t.Kind)
	}
	b, err := json.Marshal(tj)
	if err != nil {
		panic(err)
	}
	return b
}

// Run is one executed session.
type Run struct {
	Session flows.Session
	Sprints []flows.Sprint
	Err     error  // error returned by the engine (NewSession / Resume) or by reading the trigger
	Panic   string // the engine panicked
	Draws   int    // random draws made
}

// Last returns the last sprint (nil if none).
func (r *Run) Last() flows.Sprint {
	if len(r.Sprints) == 0 {
		return nil
	}
	return r.Sprints[len(r.Sprints)-1]
}

// fixedDraw is a rand.Source64 that returns the same Int63 value i for every draw, so that
// rand.Float64 - which math/rand computes as float64(Int63()) / 2^63 - returns exactly
// float64(i) / 2^63. (world.Draws assumes the Int63n(1<<53) / 2^53 formula, which is not what
// math/rand does - its draws come out 1024 times too small - so this package owns the seam.)
type fixedDraw struct {
	i   uint64
	hit int
}

func (d *fixedDraw) Int63() int64   { d.hit++; return int64(d.i & (1<<63 - 1)) }
func (d *fixedDraw) Uint64() uint64 { return uint64(d.Int63()) << 1 }
func (d *fixedDraw) Seed(int64)     {}

// DrawValue is the value rand.Float64 returns for the Int63 value i.
func DrawValue(i uint64) float64 { return float64(int64(i&(1<<63-1))) / (1 << 63) }

// Exec re-arms the seams, starts a session and applies the resumes (world.MakeResume names:
// "msg:<text>", "timeout", "expire"). Every random draw returns DrawValue(draw63).
func Exec(sa flows.SessionAssets, trig []byte, draw63 uint64, resumes ...string) *Run {
	return ExecEach(sa, trig, draw63, nil, resumes...)
}

// ExecEach is Exec with an observer: after is called on the live (never re-read) session after every
// sprint - the one that starts the session and the one of every resume; when it returns false the
// remaining resumes are not applied.
func ExecEach(sa flows.SessionAssets, trig []byte, draw63 uint64, after func(*Run) bool, resumes ...string) *Run {
	r := &Run{}
	if _, err := base(); err != nil {
		r.Err = err
		return r
	}
	world.Reset()
	d := &fixedDraw{i: draw63}
	random.SetGenerator(rand.New(d))
	ch := mc.NewChooser(nil)
	h := &world.HTTPAnswers{Choose: ch.Choose}
	httpx.SetRequestor(h)
	r.Panic = mc.Guard(func() {
		t, err := triggers.ReadTrigger(sa, trig, assets.IgnoreMissing)
		if err != nil {
			r.Err = fmt.Errorf("trigger: %w", err)
			return
		}
		var sp flows.Sprint
		r.Session, sp, r.Err = eng.NewSession(sa, t)
		if sp != nil {
			r.Sprints = append(r.Sprints, sp)
		}
		if after != nil && r.Err == nil && !after(r) {
			return
		}
		for _, ev := range resumes {
			if r.Err != nil {
				return
			}
			sp, r.Err = r.Session.Resume(world.MakeResume(ev))
			if sp != nil {
				r.Sprints = append(r.Sprints, sp)
			}
			if after != nil && r.Err == nil && !after(r) {
				return
			}
		}
	})
	r.Draws = d.hit
	return r
}

// Step is one resume of ExecSteps. Resume is the resume as a host would send it (JSON read with
// resumes.ReadResume: it may carry an environment and a contact). Restore says whether the host
// serializes the session and reads it back (engine.ReadSession) before this resume - what a host
// that keeps no session objects between calls does - or resumes the live object the previous call left.
type Step struct {
	Restore bool
	Resume  []byte
}

// ExecSteps re-arms the seams, starts a session and applies the steps in order; it stops at the first
// error. Every random draw returns DrawValue(draw63).
func ExecSteps(sa flows.SessionAssets, trig []byte, draw63 uint64, steps []Step) *Run {
	r := &Run{}
	if _, err := base(); err != nil {
		r.Err = err
		return r
	}
	world.Reset()
	d := &fixedDraw{i: draw63}
	random.SetGenerator(rand.New(d))
	ch := mc.NewChooser(nil)
	h := &world.HTTPAnswers{Choose: ch.Choose}
	httpx.SetRequestor(h)
	r.Panic = mc.Guard(func() {
		t, err := triggers.ReadTrigger(sa, trig, assets.IgnoreMissing)
		if err != nil {
			r.Err = fmt.Errorf("trigger: %w", err)
			return
		}
		var sp flows.Sprint
		r.Session, sp, r.Err = eng.NewSession(sa, t)
		if sp != nil {
			r.Sprints = append(r.Sprints, sp)
		}
		for i, st := range steps {
			if r.Err != nil {
				return
			}
			if st.Restore {
				b, err := json.Marshal(r.Session)
				if err != nil {
					r.Err = fmt.Errorf("step %d: marshal session: %w", i, err)
					return
				}
				s, err := eng.ReadSession(sa, b, assets.IgnoreMissing)
				if err != nil {
					r.Err = fmt.Errorf("step %d: read session: %w", i, err)
					return
				}
				r.Session = s
			}
			res, err := resumes.ReadResume(sa, st.Resume, assets.IgnoreMissing)
			if err != nil {
				r.Err = fmt.Errorf("step %d: resume: %w", i, err)
				return
			}
			sp, r.Err = r.Session.Resume(res)
			if sp != nil {
				r.Sprints = append(r.Sprints, sp)
			}
		}
	})
	r.Draws = d.hit
	return r
}
