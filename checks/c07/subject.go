package c07

import (
	"fmt"

	"github.com/nyaruka/goflow/flows"
	"github.com/nyaruka/goflow/flows/events"
	"verif/checks/c07/lab"
	"verif/world"
)

var (
	flowUUID = world.UUID("c07-flow")
	nodeUUID = world.UUID("c07-n0")
)

func exitUUID(i int) string { return world.UUID(fmt.Sprintf("c07-e%d", i)) }
func catUUID(i int) string  { return world.UUID(fmt.Sprintf("c07-c%d", i)) }
func caseUUID(i int) string { return world.UUID(fmt.Sprintf("c07-case%d", i)) }
func destUUID(i int) string { return world.UUID(fmt.Sprintf("c07-d%d", i)) }

const resultKey = "res"

// Definition renders the router into a 13.x flow: node 0 carries the pre-actions and the router;
// exit i leads to its own otherwise empty node d<i> (so that exits are told apart by the step that
// follows and by the logged segment).
func (r *Router) Definition() J {
	exits := []any{}
	nodes := []any{nil}
	for i := 0; i < r.NExits; i++ {
		x := J{"uuid": exitUUID(i)}
		if i < len(r.ExitDest) && r.ExitDest[i] {
			x["destination_uuid"] = destUUID(i)
			nodes = append(nodes, J{"uuid": destUUID(i), "actions": []any{}, "exits": []any{J{"uuid": world.UUID(fmt.Sprintf("c07-d%d-e", i))}}})
		}
		exits = append(exits, x)
	}
	n0 := J{"uuid": nodeUUID, "actions": preActions(), "exits": exits}
	loc := J{}
	if r.Type != "none" {
		cats := []any{}
		for i, c := range r.Cats {
			cats = append(cats, J{"uuid": catUUID(i), "name": c.Name, "exit_uuid": exitUUID(c.Exit)})
		}
		router := J{"type": r.Type, "categories": cats}
		if r.Type == "switch" {
			cs := []any{}
			trs := J{}
			for i, a := range r.Cases {
				args := []any{}
				for _, s := range a.Args {
					args = append(args, s)
				}
				cs = append(cs, J{"uuid": caseUUID(i), "type": a.Test, "arguments": args, "category_uuid": catUUID(r.CatOf[i])})
				if a.Tr != nil {
					tr := []any{}
					for _, s := range a.Tr {
						tr = append(tr, s)
					}
					trs[caseUUID(i)] = J{"arguments": tr}
				}
			}
			router["operand"] = r.Operand.Template
			router["cases"] = cs
			if r.Default >= 0 {
				router["default_category_uuid"] = catUUID(r.Default)
			}
			if len(trs) > 0 {
				loc[langTr] = trs
			}
		}
		if r.Wait {
			w := J{"type": "msg"}
			if r.Timeout >= 0 {
				w["timeout"] = J{"seconds": 600, "category_uuid": catUUID(r.Timeout)}
			}
			router["wait"] = w
		}
		if r.ResultName != "" {
			router["result_name"] = r.ResultName
		}
		n0["router"] = router
	}
	nodes[0] = n0
	return J{
		"uuid": flowUUID, "name": "Subject", "spec_version": "13.6.0", "language": langBase, "type": "messaging",
		"localization": loc, "nodes": nodes,
	}
}

// Observed is what the real engine did at the subject node.
type Observed struct {
	HarnessErr string `json:"harness_err,omitempty"` // the definition was rejected or the session could not be started
	EngineErr  string `json:"engine_err,omitempty"`
	Panic      string `json:"panic,omitempty"`
	RunStatus  string `json:"run_status"`
	SessStatus string `json:"session_status"`
	Exit       int    `json:"exit"`      // index of step 0's exit_uuid, -1 = none, -2 = unknown UUID
	NextDest   int    `json:"next_dest"` // index i of the node d<i> visited after node 0, -1 = none
	Steps      int    `json:"steps"`
	// segments logged for node 0 in the deciding sprint: (exit index, destination index, operand)
	Segments []Seg `json:"segments"`
	// the saved result (from the run's results) and the run_result_changed event of the deciding sprint
	HasResult bool   `json:"has_result"`
	ResCat    string `json:"res_category,omitempty"`
	ResValue  string `json:"res_value,omitempty"`
	ResInput  string `json:"res_input,omitempty"`
	ResNode   string `json:"res_node,omitempty"`
	EvResults []Res  `json:"result_events,omitempty"`
	Failures  int    `json:"failure_events"`
	Draws     int    `json:"draws"`
}

type Seg struct {
	Exit    int    `json:"exit"`
	Dest    int    `json:"dest"`
	Operand string `json:"operand"`
}

type Res struct {
	Category string `json:"category"`
	Value    string `json:"value"`
}

func indexOf(uuid string, n int, f func(int) string) int {
	if uuid == "" {
		return -1
	}
	for i := 0; i < n; i++ {
		if f(i) == uuid {
			return i
		}
	}
	return -2
}

// Execute runs the router on the real engine and reports what happened at the subject node.
func (r *Router) Execute() *Observed {
	o := &Observed{Exit: -1, NextDest: -1}
	sa, err := lab.NewSA(r.Definition())
	if err != nil {
		o.HarnessErr = "assets: " + err.Error()
		return o
	}
	trig := lab.Trigger{Flow: flowUUID, Contact: contactJSON(r.Lang), Env: envJSON()}
	var resumes []string
	if r.Wait {
		trig.Kind = "manual"
		if r.Resume == "timeout" {
			resumes = []string{"timeout"}
		} else {
			resumes = []string{"msg:" + r.Operand.Input}
		}
	} else {
		trig.Kind, trig.MsgText = "msg", r.Operand.Input
	}
	x := lab.Exec(sa, trig.JSON(), r.Draw, resumes...)
	o.Panic = x.Panic
	o.Draws = x.Draws
	if x.Err != nil {
		o.EngineErr = x.Err.Error()
	}
	if x.Session == nil {
		if o.EngineErr != "" && o.Panic == "" {
			// NewSession failing before a session exists means the flow could not be read
			o.HarnessErr, o.EngineErr = o.EngineErr, ""
		}
		return o
	}
	o.SessStatus = string(x.Session.Status())
	runs := x.Session.Runs()
	if len(runs) != 1 {
		o.HarnessErr = fmt.Sprintf("expected exactly one run, have %d", len(runs))
		return o
	}
	run := runs[0]
	o.RunStatus = string(run.Status())
	path := run.Path()
	o.Steps = len(path)
	if len(path) > 0 {
		if string(path[0].NodeUUID()) != nodeUUID {
			o.HarnessErr = "first step is not the subject node"
			return o
		}
		o.Exit = indexOf(string(path[0].ExitUUID()), r.NExits, exitUUID)
	}
	if len(path) > 1 {
		o.NextDest = indexOf(string(path[1].NodeUUID()), r.NExits, destUUID)
	}
	if sp := x.Last(); sp != nil {
		for _, s := range sp.Segments() {
			if string(s.Node().UUID()) == nodeUUID {
				o.Segments = append(o.Segments, Seg{
					Exit:    indexOf(string(s.Exit().UUID()), r.NExits, exitUUID),
					Dest:    indexOf(string(s.Destination().UUID()), r.NExits, destUUID),
					Operand: s.Operand(),
				})
			}
		}
		for _, e := range sp.Events() {
			switch ev := e.(type) {
			case *events.RunResultChangedEvent:
				if ev.Name == r.ResultName && r.ResultName != "" {
					o.EvResults = append(o.EvResults, Res{Category: ev.Category, Value: ev.Value})
				}
			case *events.FailureEvent:
				o.Failures++
			}
		}
	}
	if res := run.Results().Get(resultKey); res != nil {
		o.HasResult = true
		o.ResCat, o.ResValue, o.ResInput, o.ResNode = res.Category, res.Value, res.Input, string(res.NodeUUID)
	}
	return o
}

var _ = flows.RunStatusFailed
