package c07

import (
	"fmt"

	"github.com/nyaruka/goflow/flows"
	"github.com/nyaruka/goflow/flows/events"
	"verif/checks/c07/lab"
	"verif/world"
)

var (
	flowUUID = world.UUID("c07-flow")
	nodeUUID = world.UUID("c07-n0")
)

func exitUUID(i int) string { return world.UUID(fmt.Sprintf("c07-e%d", i)) }
func catUUID(i int) string  { return world.UUID(fmt.Sprintf("c07-c%d", i)) }
func caseUUID(i int) string { return world.UUID(fmt.Sprintf("c07-case%d", i)) }
func destUUID(i int) string { return world.UUID(fmt.Sprintf("c07-d%d", i)) }

const resultKey = "res"

// Definition renders the router into a 13.x flow: node 0 carries the pre-actions and the router;
// exit i leads to its own otherwise empty node d<i> (so that exits are told apart by the step that
// follows and by the logged segment).
func (r *Router) Definition() J {
	exits := []any{}
	nodes := []any{nil}
	for i := 0; i < r.NExits; i++ {
		x := J{"uuid": exitUUID(i)}
		if i < len(r.ExitDest) && r.ExitDest[i] {
			x["destination_uuid"] = destUUID(i)
			dx := J{"uuid": world.UUID(fmt.Sprintf("c07-d%d-e", i))}
			if len(r.Revisit) > 0 {
				dx["destination_uuid"] = nodeUUID // back to the router, which waits for the next message
			}
			nodes = append(nodes, J{"uuid": destUUID(i), "actions": []any{}, "exits": []any{dx}})
		}
		exits = append(exits, x)
	}
	n0 := J{"uuid": nodeUUID, "actions": preActions(), "exits": exits}
	loc := J{}
	if r.Type != "none" {
		cats := []any{}
		for i, c := range r.Cats {
			cats = append(cats, J{"uuid": catUUID(i), "name": c.Name, "exit_uuid": exitUUID(c.Exit)})
		}
		router := J{"type": r.Type, "categories": cats}
		if r.Type == "switch" {
			cs := []any{}
			trs := J{}
			for i, a := range r.Cases {
				args := []any{}
				for _, s := range a.Args {
					args = append(args, s)
				}
				cs = append(cs, J{"uuid": caseUUID(i), "type": a.Test, "arguments": args, "category_uuid": catUUID(r.CatOf[i])})
				if a.Tr != nil {
					tr := []any{}
					for _, s := range a.Tr {
						tr = append(tr, s)
					}
					trs[caseUUID(i)] = J{"arguments": tr}
				}
			}
			router["operand"] = r.Operand.Template
			router["cases"] = cs
			if r.Default >= 0 {
				router["default_category_uuid"] = catUUID(r.Default)
			}
			if len(trs) > 0 {
				loc[langTr] = trs
			}
		}
		if r.Wait {
			w := J{"type": "msg"}
			if r.Timeout >= 0 {
				w["timeout"] = J{"seconds": 600, "category_uuid": catUUID(r.Timeout)}
			}
			router["wait"] = w
		}
		if r.ResultName != "" {
			router["result_name"] = r.ResultName
		}
		n0["router"] = router
	}
	nodes[0] = n0
	if r.LangVia != "" {
		// the run localizes a text under the contact's first language, then the language is changed, then
		// the router is reached
		var change J
		switch r.LangVia {
		case "action":
			change = setLanguageAction(world.UUID("c07-pre-setlang"), r.Lang)
		case "child":
			change = J{"uuid": world.UUID("c07-pre-enter"), "type": "enter_flow", "flow": J{"uuid": childFlowUUID, "name": "Child"}}
		default:
			panic("c07: unknown lang_via " + r.LangVia)
		}
		nodes = append([]any{
			J{"uuid": preMsgNode, "actions": []any{J{"uuid": world.UUID("c07-pre-msg"), "type": "send_msg", "text": "hello"}},
				"exits": []any{J{"uuid": world.UUID("c07-pre0-e"), "destination_uuid": preChangeNode}}},
			J{"uuid": preChangeNode, "actions": []any{change},
				"exits": []any{J{"uuid": world.UUID("c07-pre1-e"), "destination_uuid": nodeUUID}}},
		}, nodes...)
	}
	return J{
		"uuid": flowUUID, "name": "Subject", "spec_version": "13.6.0", "language": langBase, "type": "messaging",
		"localization": loc, "nodes": nodes,
	}
}

var (
	childFlowUUID = world.UUID("c07-child-flow")
	preMsgNode    = world.UUID("c07-pre0")
	preChangeNode = world.UUID("c07-pre1")
)

func setLanguageAction(uuid, lang string) J {
	return J{"uuid": uuid, "type": "set_contact_language", "language": lang}
}

// ChildDefinition is the child flow of LangVia "child": its only node sets the contact's language.
func (r *Router) ChildDefinition() J {
	return J{
		"uuid": childFlowUUID, "name": "Child", "spec_version": "13.6.0", "language": langBase, "type": "messaging",
		"nodes": []any{J{"uuid": world.UUID("c07-child-n0"), "actions": []any{setLanguageAction(world.UUID("c07-child-setlang"), r.Lang)},
			"exits": []any{J{"uuid": world.UUID("c07-child-e0")}}}},
	}
}

// Observed is what the real engine did at the subject node.
type Observed struct {
	HarnessErr string `json:"harness_err,omitempty"` // the definition was rejected or the session could not be started
	EngineErr  string `json:"engine_err,omitempty"`
	Panic      string `json:"panic,omitempty"`
	RunStatus  string `json:"run_status"`
	SessStatus string `json:"session_status"`
	Exit       int    `json:"exit"`      // index of step 0's exit_uuid, -1 = none, -2 = unknown UUID
	NextDest   int    `json:"next_dest"` // index i of the node d<i> visited after node 0, -1 = none
	Steps      int    `json:"steps"`
	// segments logged for node 0 in the deciding sprint: (exit index, destination index, operand)
	Segments []Seg `json:"segments"`
	// the saved result (from the run's results) and the run_result_changed event of the deciding sprint
	HasResult bool   `json:"has_result"`
	ResCat    string `json:"res_category,omitempty"`
	ResValue  string `json:"res_value,omitempty"`
	ResInput  string `json:"res_input,omitempty"`
	ResNode   string `json:"res_node,omitempty"`
	EvResults []Res  `json:"result_events,omitempty"`
	Failures  int    `json:"failure_events"`
	Draws     int    `json:"draws"`
}

type Seg struct {
	Exit    int    `json:"exit"`
	Dest    int    `json:"dest"`
	Operand string `json:"operand"`
}

type Res struct {
	Category string `json:"category"`
	Value    string `json:"value"`
}

func indexOf(uuid string, n int, f func(int) string) int {
	if uuid == "" {
		return -1
	}
	for i := 0; i < n; i++ {
		if f(i) == uuid {
			return i
		}
	}
	return -2
}

// Execute runs the router on the real engine and reports what happened at the subject node on its
// last routing.
func (r *Router) Execute() *Observed {
	obs := r.ExecuteVisits()
	return obs[len(obs)-1]
}

// ExecuteVisits runs the router on the real engine - one live session, never re-read - and reports
// what happened at the subject node on every routing (one, unless the router is revisited), each
// observed right after the sprint that routed it. It stops at the first routing after which the
// session no longer waits.
func (r *Router) ExecuteVisits() []*Observed {
	fail := func(o *Observed) []*Observed { return []*Observed{o} }
	defs := []J{r.Definition()}
	if r.LangVia == "child" {
		defs = append(defs, r.ChildDefinition())
	}
	sa, err := lab.NewSA(defs...)
	if err != nil {
		return fail(&Observed{Exit: -1, NextDest: -1, HarnessErr: "assets: " + err.Error()})
	}
	firstLang := r.Lang
	if r.LangVia != "" {
		firstLang = otherLang(r.Lang)
	}
	trig := lab.Trigger{Flow: flowUUID, Contact: contactJSON(firstLang), Env: envJSON()}
	var resumes []string
	if r.Wait {
		trig.Kind = "manual"
		if r.Resume == "timeout" {
			resumes = []string{"timeout"}
		} else {
			resumes = []string{"msg:" + r.Operand.Input}
			for _, t := range r.Revisit {
				resumes = append(resumes, "msg:"+t)
			}
		}
	} else {
		trig.Kind, trig.MsgText = "msg", r.Operand.Input
	}
	var obs []*Observed
	sprint := 0
	x := lab.ExecEach(sa, trig.JSON(), r.Draw, func(x *lab.Run) bool {
		sprint++
		if r.Wait && sprint == 1 {
			return true // the sprint that reaches the wait
		}
		o := r.observe(x, len(obs))
		obs = append(obs, o)
		return o.HarnessErr == "" && o.SessStatus == string(flows.SessionStatusWaiting)
	}, resumes...)
	if x.Panic != "" || x.Err != nil || len(obs) == 0 {
		// the call that failed was not observed by the callback
		obs = append(obs, r.observe(x, len(obs)))
	}
	return obs
}

// observe reports what the engine did on the (visit+1)-th routing of the subject node, given the
// session right after the sprint that routed it.
func (r *Router) observe(x *lab.Run, visit int) *Observed {
	o := &Observed{Exit: -1, NextDest: -1}
	o.Panic = x.Panic
	o.Draws = x.Draws
	if x.Err != nil {
		o.EngineErr = x.Err.Error()
	}
	if x.Session == nil {
		if o.EngineErr != "" && o.Panic == "" {
			// NewSession failing before a session exists means the flow could not be read
			o.HarnessErr, o.EngineErr = o.EngineErr, ""
		}
		return o
	}
	o.SessStatus = string(x.Session.Status())
	runs := x.Session.Runs()
	wantRuns := 1
	if r.LangVia == "child" {
		wantRuns = 2
	}
	if len(runs) != wantRuns {
		o.HarnessErr = fmt.Sprintf("expected exactly %d run(s), have %d", wantRuns, len(runs))
		return o
	}
	run := runs[0]
	o.RunStatus = string(run.Status())
	path := run.Path()
	// the step of this routing: the (visit+1)-th step at the subject node
	k, seen := -1, 0
	for i, st := range path {
		if string(st.NodeUUID()) == nodeUUID {
			if seen == visit {
				k = i
				break
			}
			seen++
		}
	}
	if r.LangVia == "" && len(path) > 0 && string(path[0].NodeUUID()) != nodeUUID {
		o.HarnessErr = "first step is not the subject node"
		return o
	}
	if k < 0 {
		if o.Panic == "" && o.EngineErr == "" {
			o.HarnessErr = fmt.Sprintf("the subject node was not reached for routing %d", visit+1)
		}
		return o
	}
	o.Steps = len(path) - k
	o.Exit = indexOf(string(path[k].ExitUUID()), r.NExits, exitUUID)
	if len(path) > k+1 {
		o.NextDest = indexOf(string(path[k+1].NodeUUID()), r.NExits, destUUID)
	}
	if sp := x.Last(); sp != nil {
		for _, s := range sp.Segments() {
			if string(s.Node().UUID()) == nodeUUID {
				o.Segments = append(o.Segments, Seg{
					Exit:    indexOf(string(s.Exit().UUID()), r.NExits, exitUUID),
					Dest:    indexOf(string(s.Destination().UUID()), r.NExits, destUUID),
					Operand: s.Operand(),
				})
			}
		}
		for _, e := range sp.Events() {
			switch ev := e.(type) {
			case *events.RunResultChangedEvent:
				if ev.Name == r.ResultName && r.ResultName != "" {
					o.EvResults = append(o.EvResults, Res{Category: ev.Category, Value: ev.Value})
				}
			case *events.FailureEvent:
				o.Failures++
			}
		}
	}
	if res := run.Results().Get(resultKey); res != nil {
		o.HasResult = true
		o.ResCat, o.ResValue, o.ResInput, o.ResNode = res.Category, res.Value, res.Input, string(res.NodeUUID)
	}
	return o
}

var _ = flows.RunStatusFailed
