package c07

import (
	"encoding/json"
	"fmt"

	"github.com/nyaruka/goflow/flows"
	"verif/mc"
	"verif/world"
)

// Family S (sub-flow return): a parent's router is also routed when a child run ends and the parent
// is resumed inside the same sprint - whatever resume started that sprint. The parent node enters a
// child flow and splits on @child.status; the child waits (with or without a timeout) and ends by
// a message, a timeout or an expiration. The parent must leave by the exit of the category its
// definition prescribes for the child's status, save that category, and continue to the node behind
// the exit.

type subflowCase struct {
	Family       string `json:"family"`
	ChildTimeout bool   `json:"child_timeout"`
	ChildLoops   bool   `json:"child_loops"` // the child's "other" exit returns to its wait
	Resume       string `json:"resume"`
	ResultName   bool   `json:"result_name"`
}

func subflowWorld(sc subflowCase) *world.Root {
	u := func(s string) string { return world.UUID("c07.sub." + s) }
	parentRouter := world.J{
		"type": "switch", "operand": "@child.status",
		"cases": []any{
			world.J{"uuid": u("case.completed"), "type": "has_only_text", "arguments": []any{"completed"}, "category_uuid": u("cat.completed")},
			world.J{"uuid": u("case.expired"), "type": "has_only_text", "arguments": []any{"expired"}, "category_uuid": u("cat.expired")},
		},
		"categories": []any{
			world.J{"uuid": u("cat.completed"), "name": "Completed", "exit_uuid": u("exit.completed")},
			world.J{"uuid": u("cat.expired"), "name": "Expired", "exit_uuid": u("exit.expired")},
			world.J{"uuid": u("cat.other"), "name": "Other", "exit_uuid": u("exit.other")},
		},
		"default_category_uuid": u("cat.other"),
	}
	if sc.ResultName {
		parentRouter["result_name"] = "Child Outcome"
	}
	parent := world.J{"uuid": world.FlowUUID(0), "name": "Parent", "spec_version": "13.5.0", "language": "eng", "type": "messaging", "nodes": []any{
		world.J{"uuid": u("p.enter"), "actions": []any{world.J{"uuid": u("a.enter"), "type": "enter_flow", "flow": world.J{"uuid": world.FlowUUID(1), "name": "Child"}}},
			"router": parentRouter,
			"exits": []any{
				world.J{"uuid": u("exit.completed"), "destination_uuid": u("p.completed")},
				world.J{"uuid": u("exit.expired"), "destination_uuid": u("p.expired")},
				world.J{"uuid": u("exit.other"), "destination_uuid": u("p.other")},
			}},
		world.J{"uuid": u("p.completed"), "actions": []any{world.J{"uuid": u("a.c"), "type": "send_msg", "text": "child completed"}}, "exits": []any{world.J{"uuid": u("exit.c.end")}}},
		world.J{"uuid": u("p.expired"), "actions": []any{world.J{"uuid": u("a.e"), "type": "send_msg", "text": "child expired"}}, "exits": []any{world.J{"uuid": u("exit.e.end")}}},
		world.J{"uuid": u("p.other"), "actions": []any{world.J{"uuid": u("a.o"), "type": "send_msg", "text": "child other"}}, "exits": []any{world.J{"uuid": u("exit.o.end")}}},
	}}
	wait := world.J{"type": "msg"}
	cats := []any{
		world.J{"uuid": u("c.cat.a"), "name": "A", "exit_uuid": u("c.exit.a")},
		world.J{"uuid": u("c.cat.other"), "name": "Other", "exit_uuid": u("c.exit.other")},
	}
	if sc.ChildTimeout {
		cats = append(cats, world.J{"uuid": u("c.cat.timeout"), "name": "No Response", "exit_uuid": u("c.exit.timeout")})
		wait["timeout"] = world.J{"seconds": 600, "category_uuid": u("c.cat.timeout")}
	}
	other := world.J{"uuid": u("c.exit.other")}
	if sc.ChildLoops {
		other["destination_uuid"] = u("c.wait")
	}
	exits := []any{world.J{"uuid": u("c.exit.a")}, other}
	if sc.ChildTimeout {
		exits = append(exits, world.J{"uuid": u("c.exit.timeout")})
	}
	child := world.J{"uuid": world.FlowUUID(1), "name": "Child", "spec_version": "13.5.0", "language": "eng", "type": "messaging", "nodes": []any{
		world.J{"uuid": u("c.wait"),
			"router": world.J{"type": "switch", "operand": "@input.text", "wait": wait, "result_name": "Answer",
				"cases":      []any{world.J{"uuid": u("c.case.a"), "type": "has_any_word", "arguments": []any{"a"}, "category_uuid": u("c.cat.a")}},
				"categories": cats, "default_category_uuid": u("c.cat.other")},
			"exits": exits},
	}}
	a := world.BaseAssets()
	a["flows"] = []any{parent, child}
	return &world.Root{Assets: a, Trigger: "manual"}
}

func subflowCases() []subflowCase {
	var out []subflowCase
	for _, to := range []bool{false, true} {
		for _, loops := range []bool{false, true} {
			for _, rn := range []bool{false, true} {
				for _, ev := range []string{"msg:a", "msg:zz", "timeout", "expire"} {
					out = append(out, subflowCase{Family: "subflow", ChildTimeout: to, ChildLoops: loops, Resume: ev, ResultName: rn})
				}
			}
		}
	}
	return out
}

type subProblem struct{ Key, What string }

func judgeSubflow(c *mc.Ctx, sc subflowCase, count bool) []subProblem {
	var ps []subProblem
	add := func(key, what string, args ...any) { ps = append(ps, subProblem{key, fmt.Sprintf(what, args...)}) }
	u := func(s string) string { return world.UUID("c07.sub." + s) }
	root := subflowWorld(sc)
	x, err := root.Run([]world.Step{{}, {Ev: sc.Resume}})
	if err != nil {
		add("harness:subflow", "%v", err)
		return ps
	}
	if x.Err != nil {
		// a rejected resume (timeout on a wait without timeout) is not this property's subject
		if count {
			c.Inc("subflow_rejected_resumes")
		}
		return nil
	}
	runs := x.Session.Runs()
	if len(runs) != 2 {
		add("harness:subflow-runs", "expected 2 runs, got %d", len(runs))
		return ps
	}
	parent, child := runs[0], runs[1]
	if child.Status() == flows.RunStatusWaiting {
		if count {
			c.Inc("subflow_child_still_waiting")
		}
		return nil // the child looped back to its wait: the parent is not resumed
	}
	// what the definition prescribes for the parent's split on @child.status
	wantCat, wantExit, wantDest, wantText := "Other", u("exit.other"), u("p.other"), "child other"
	switch child.Status() {
	case flows.RunStatusCompleted:
		wantCat, wantExit, wantDest, wantText = "Completed", u("exit.completed"), u("p.completed"), "child completed"
	case flows.RunStatusExpired:
		wantCat, wantExit, wantDest, wantText = "Expired", u("exit.expired"), u("p.expired"), "child expired"
	}
	if count {
		c.Fact("subflow:child-" + string(child.Status()) + ":by-" + sc.Resume)
		c.Outcome("subflow parent category " + wantCat)
	}
	how := fmt.Sprintf("child %s after a %s resume", child.Status(), sc.Resume)
	path := parent.Path()
	if string(path[0].ExitUUID()) != wantExit {
		got := "none"
		if path[0].ExitUUID() != "" {
			got = "another-exit"
		}
		add("subflow:parent-exit:want="+wantCat+":got="+got+":parent-"+string(parent.Status()), "%s: the parent's split on @child.status must leave by the %s exit, its step has exit %q (parent run %s, session %s)", how, wantCat, path[0].ExitUUID(), parent.Status(), x.Session.Status())
		return ps
	}
	if len(path) < 2 || string(path[1].NodeUUID()) != wantDest {
		add("subflow:parent-destination:want="+wantCat, "%s: the parent did not continue to the node behind the %s exit", how, wantCat)
	}
	found := false
	for _, e := range x.Sprint.Events() {
		b, _ := json.Marshal(e)
		var ev map[string]any
		json.Unmarshal(b, &ev)
		if ev["type"] == "msg_created" {
			if m, ok := ev["msg"].(map[string]any); ok && m["text"] == wantText {
				found = true
			}
		}
	}
	if !found {
		add("subflow:parent-destination-not-executed:want="+wantCat, "%s: the node behind the %s exit was not executed", how, wantCat)
	}
	if sc.ResultName {
		res := parent.Results().Get("child_outcome")
		if res == nil {
			add("subflow:parent-result-missing", "%s: the parent's router has a result name but saved no result", how)
		} else if res.Category != wantCat || res.Input != string(child.Status()) {
			add("subflow:parent-result:want="+wantCat, "%s: saved result has category %q value %q input %q, want category %q and the operand %q as input", how, res.Category, res.Value, res.Input, wantCat, child.Status())
		}
	}
	return ps
}

func runSubflowFamily(c *mc.Ctx, unit func(func())) {
	for _, sc := range subflowCases() {
		sc := sc
		unit(func() {
			c.Inc("evaluations")
			c.Inc("distinct_nontrivial")
			c.Inc("subflow_sessions")
			for _, p := range judgeSubflow(c, sc, true) {
				c.Violation(p.Key, p.What+"\ncase: "+mc.JSON(sc), sc)
			}
		})
	}
}

func replaySubflow(c *mc.Ctx, raw json.RawMessage) (string, bool, bool) {
	var probe struct {
		Family string `json:"family"`
	}
	json.Unmarshal(raw, &probe)
	if probe.Family != "subflow" {
		return "", false, false
	}
	var sc subflowCase
	json.Unmarshal(raw, &sc)
	ps := judgeSubflow(c, sc, false)
	out := "sub-flow return case " + mc.JSON(sc)
	for _, p := range ps {
		out += "\nPROBLEM " + p.Key + ": " + p.What
	}
	return out, len(ps) > 0, true
}
