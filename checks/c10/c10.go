// Package c10: (not built yet)
package c10
