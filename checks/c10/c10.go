// Package c10: a rejected resume leaves the session untouched; impossible resumptions fail the
// session instead of returning a Go error or panicking.
package c10

import (
	"encoding/json"
	"errors"
	"fmt"
	"strings"
	"time"

	"github.com/nyaruka/goflow/assets"
	"github.com/nyaruka/goflow/flows"
	"github.com/nyaruka/goflow/flows/engine"
	"github.com/nyaruka/goflow/flows/events"
	"verif/checks/sm"
	"verif/mc"
	"verif/world"
)

var quickKinds = []string{"A", "Em", "Es", "Est", "Eo", "W", "WT"}
var thoroughKinds = []string{"A", "Em", "Es", "Est", "Eo", "Eot", "W", "WT", "S"}

// the full resume menu: every resume type, accepted or not by the wait at hand
var menu = []string{"msg:a", "timeout", "expire", "dial:answered"}

// asset faults applied between sprints, relative to the waiting run
var faults = []string{
	"waiting-flow-deleted", "waiting-node-deleted", "router-removed", "wait-removed", "wait-type-changed",
	"timeout-removed", "parent-flow-deleted", "parent-node-deleted", "all-other-flows-deleted", "storage:status-waiting-no-run-waiting",
	// not a fault of the flows: a query-based group the stored contact belongs in appeared while the
	// session waited, so its stored membership is stale (a rejected resume must not repair it either)
	"query-group-added",
}

type replay struct {
	Root  world.Root   `json:"root"`
	Hist  []world.Step `json:"history"`
	Ev    string       `json:"event"`
	Fault string       `json:"fault,omitempty"`
	Live  bool         `json:"live"`
}

func roots(tier string) []world.Root {
	var sets []world.FlowSet
	if tier == "quick" {
		sets = world.EnumFlowSets(quickKinds, 2, 1)
	} else {
		sets = world.EnumFlowSets(thoroughKinds, 2, 1)
	}
	var out []world.Root
	for i := range sets {
		for _, tr := range []string{"manual", "msg"} {
			out = append(out, world.Root{Flows: &sets[i], Trigger: tr, Opt: world.Options{MaxSteps: 8}})
		}
		// the resume limit reached: MaxResumesPerSession = 1
		out = append(out, world.Root{Flows: &sets[i], Trigger: "manual", Opt: world.Options{MaxSteps: 8, MaxResumes: 1}})
	}
	// the voice family: dial waits (which accept dial resumes and reject msg/timeout ones)
	voice := world.EnumFlowSets([]string{"A", "D", "W", "Eo"}, 2, 1)
	for i := range voice {
		for j := range voice[i].Flows {
			voice[i].Flows[j].Type = "voice"
		}
		out = append(out, world.Root{Flows: &voice[i], Trigger: "voice", Opt: world.Options{MaxSteps: 8}})
		// the resume limit in sessions whose waits are dial waits (or a mix), reached at the first and
		// at the second resume
		hasDial := false
		for _, fl := range voice[i].Flows {
			for _, n := range fl.Nodes {
				hasDial = hasDial || n.Kind == "D"
			}
		}
		if hasDial {
			for _, lim := range []int{1, 2} {
				out = append(out, world.Root{Flows: &voice[i], Trigger: "voice", Opt: world.Options{MaxSteps: 8, MaxResumes: lim}})
			}
		}
	}
	return out
}

func run(c *mc.Ctx) {
	rs := roots(c.Tier)
	depth := 2
	if c.Thorough() {
		depth = 3
	}
	for i := range rs {
		if !c.Mine(i) {
			continue
		}
		if c.Expired() {
			c.Cap("time budget reached; every root before the cap was explored completely")
			break
		}
		root := &rs[i]
		evs := world.Events
		if root.Trigger == "voice" {
			evs = append(append([]string{}, world.Events...), "dial:answered")
		}
		cfg := sm.Cfg{Ctx: c, Depth: depth, Events: evs, Regimes: []bool{true}, ChoiceBound: 0}
		cfg.OnNewState = func(t *sm.Trans) { onState(c, t) }
		st := sm.Search(root, cfg)
		c.Inc("roots")
		c.Add("states", int64(st.States))
		c.Add("transitions", int64(st.Transitions))
		if st.Waiting > 0 {
			c.Inc("distinct_nontrivial")
		}
	}
}

// outcome of one resume attempt
type attempt struct {
	session  flows.Session
	sprint   flows.Sprint
	err      error
	panicked string
	before   []byte
	after    []byte
	readErr  error
	// waitAccepts: 1/0 = what Wait.Accepts says for the waiting node, -1 = no waiting node with a wait
	waitAccepts int
}

// state is a reached session state: the live execution that reached it and its JSON.
type state struct {
	root *world.Root
	hist []world.Step
	x    *world.Exec
	json []byte
	// faulted assets are built once per (state, fault)
	faulted map[string]*faultedAssets
}

type faultedAssets struct {
	sa         flows.SessionAssets
	sess       []byte
	applicable bool
	err        error
}

func newState(root *world.Root, hist []world.Step, x *world.Exec) (*state, error) {
	b, err := json.Marshal(x.Session)
	if err != nil {
		return nil, err
	}
	return &state{root: root, hist: hist, x: x, json: b, faulted: map[string]*faultedAssets{}}, nil
}

// tryResume applies ev to the state: live (a fresh replay's own object) or restored from the state's
// JSON against the (possibly faulted) assets.
func tryResume(st *state, ev string, fault string, live bool) (*attempt, error) {
	a := &attempt{}
	x := st.x
	sa := x.SA
	sessJSON := st.json
	if fault != "" {
		fa := st.faulted[fault]
		if fa == nil {
			fa = &faultedAssets{}
			var doc world.J
			doc, fa.sess, fa.applicable = applyFault(st.root, x, fault, st.json)
			if fa.applicable {
				fa.sa, _, fa.err = world.BuildAssets(doc)
			}
			st.faulted[fault] = fa
		}
		if !fa.applicable {
			return nil, nil
		}
		if fa.err != nil {
			return nil, fmt.Errorf("faulted assets: %w", fa.err)
		}
		sa, sessJSON = fa.sa, fa.sess
	}
	var s flows.Session
	if live && fault == "" {
		lx, err := st.root.Run(st.hist)
		if err != nil {
			return nil, err
		}
		s = lx.Session
	} else {
		a.panicked = mc.Guard(func() { s, a.readErr = x.Eng.ReadSession(sa, sessJSON, assets.IgnoreMissing) })
		if a.panicked != "" || a.readErr != nil {
			return a, nil
		}
	}
	a.session = s
	a.before, _ = json.Marshal(s)
	res := world.MakeResume(ev)
	// what the wait itself says about this type of resume (public API), for the waiting run's node
	a.waitAccepts = -1
	for _, r := range s.Runs() {
		if r.Status() == flows.RunStatusWaiting && r.Flow() != nil {
			if _, node, err := r.PathLocation(); err == nil && node.Router() != nil && node.Router().Wait() != nil {
				a.waitAccepts = 0
				if node.Router().Wait().Accepts(res) {
					a.waitAccepts = 1
				}
			}
		}
	}
	a.panicked = mc.Guard(func() { a.sprint, a.err = s.Resume(res) })
	if a.panicked == "" {
		a.after, _ = json.Marshal(s)
	}
	return a, nil
}

func findNode(doc world.J, flowUUID, nodeUUID string) (world.J, []any, int, world.J) {
	fl, _ := doc["flows"].([]any)
	for _, f := range fl {
		fj := f.(world.J)
		if fj["uuid"] != flowUUID {
			continue
		}
		nodes, _ := fj["nodes"].([]any)
		for i, n := range nodes {
			if n.(world.J)["uuid"] == nodeUUID {
				return fj, nodes, i, n.(world.J)
			}
		}
		return fj, nodes, -1, nil
	}
	return nil, nil, -1, nil
}

func deleteFlow(doc world.J, flowUUID string) bool {
	fl, _ := doc["flows"].([]any)
	var out []any
	for _, f := range fl {
		if f.(world.J)["uuid"] != flowUUID {
			out = append(out, f)
		}
	}
	if len(out) == len(fl) {
		return false
	}
	if out == nil {
		out = []any{}
	}
	doc["flows"] = out
	return true
}

// applyFault returns a fresh faulted asset document (and possibly edited session JSON).
func applyFault(root *world.Root, x *world.Exec, fault string, sessJSON []byte) (world.J, []byte, bool) {
	// deep copy via JSON so that the root's document is never aliased
	var doc world.J
	b, _ := json.Marshal(root.AssetDoc())
	json.Unmarshal(b, &doc)

	var waiting flows.Run
	for _, r := range x.Session.Runs() {
		if r.Status() == flows.RunStatusWaiting {
			waiting = r
		}
	}
	if fault == "storage:status-waiting-no-run-waiting" {
		if x.Session.Status() == flows.SessionStatusWaiting {
			return nil, nil, false
		}
		edited := strings.Replace(string(sessJSON), `"status":"`+string(x.Session.Status())+`"`, `"status":"waiting"`, 1)
		// the first "status" member in the envelope order is the session's (runs come later)
		var probe struct {
			Status string `json:"status"`
		}
		json.Unmarshal([]byte(edited), &probe)
		if probe.Status != "waiting" {
			return nil, nil, false
		}
		return doc, []byte(edited), true
	}
	if waiting == nil {
		return nil, nil, false
	}
	flowUUID := string(waiting.FlowReference().UUID)
	path := waiting.Path()
	nodeUUID := string(path[len(path)-1].NodeUUID())
	switch fault {
	case "waiting-flow-deleted":
		return doc, sessJSON, deleteFlow(doc, flowUUID)
	case "waiting-node-deleted":
		fj, nodes, i, _ := findNode(doc, flowUUID, nodeUUID)
		if i < 0 {
			return nil, nil, false
		}
		// drop the node and any exit destinations that pointed to it
		rest := append(append([]any{}, nodes[:i]...), nodes[i+1:]...)
		for _, n := range rest {
			for _, e := range n.(world.J)["exits"].([]any) {
				if e.(world.J)["destination_uuid"] == nodeUUID {
					delete(e.(world.J), "destination_uuid")
				}
			}
		}
		fj["nodes"] = rest
		return doc, sessJSON, true
	case "router-removed":
		_, _, i, n := findNode(doc, flowUUID, nodeUUID)
		if i < 0 {
			return nil, nil, false
		}
		delete(n, "router")
		n["exits"] = n["exits"].([]any)[:1]
		return doc, sessJSON, true
	case "wait-removed", "wait-type-changed", "timeout-removed":
		_, _, i, n := findNode(doc, flowUUID, nodeUUID)
		if i < 0 {
			return nil, nil, false
		}
		r, _ := n["router"].(world.J)
		if r == nil {
			return nil, nil, false
		}
		w, _ := r["wait"].(world.J)
		if w == nil {
			return nil, nil, false
		}
		switch fault {
		case "wait-removed":
			delete(r, "wait")
		case "wait-type-changed":
			r["wait"] = world.J{"type": "dial", "phone": "+593979123456", "dial_limit_seconds": 60, "call_limit_seconds": 120}
			// dial waits are only allowed in voice flows: change the flow type too
			fj, _, _, _ := findNode(doc, flowUUID, nodeUUID)
			fj["type"] = "voice"
		case "timeout-removed":
			if _, ok := w["timeout"]; !ok {
				return nil, nil, false
			}
			delete(w, "timeout")
		}
		return doc, sessJSON, true
	case "parent-flow-deleted", "parent-node-deleted":
		p := waiting.ParentInSession()
		if p == nil {
			return nil, nil, false
		}
		pf := string(p.FlowReference().UUID)
		if fault == "parent-flow-deleted" {
			if pf == flowUUID {
				return nil, nil, false // same flow: covered by waiting-flow-deleted
			}
			return doc, sessJSON, deleteFlow(doc, pf)
		}
		pp := p.Path()
		pn := string(pp[len(pp)-1].NodeUUID())
		if pf == flowUUID && pn == nodeUUID {
			return nil, nil, false
		}
		fj, nodes, i, _ := findNode(doc, pf, pn)
		if i < 0 {
			return nil, nil, false
		}
		rest := append(append([]any{}, nodes[:i]...), nodes[i+1:]...)
		for _, n := range rest {
			for _, e := range n.(world.J)["exits"].([]any) {
				if e.(world.J)["destination_uuid"] == pn {
					delete(e.(world.J), "destination_uuid")
				}
			}
		}
		fj["nodes"] = rest
		return doc, sessJSON, true
	case "query-group-added":
		gs, _ := doc["groups"].([]any)
		doc["groups"] = append(append([]any{}, gs...), world.J{"uuid": world.UUID("c10.query-group"), "name": "Everyone Named", "query": `name != ""`})
		return doc, sessJSON, true
	case "all-other-flows-deleted":
		fl, _ := doc["flows"].([]any)
		if len(fl) < 2 {
			return nil, nil, false
		}
		var keep []any
		for _, f := range fl {
			if f.(world.J)["uuid"] == flowUUID {
				keep = append(keep, f)
			}
		}
		doc["flows"] = keep
		return doc, sessJSON, true
	}
	panic("unknown fault " + fault)
}

func hasFailureEvent(sp flows.Sprint) bool {
	if sp == nil {
		return false
	}
	for _, e := range sp.Events() {
		if e.Type() == events.TypeFailure {
			return true
		}
	}
	return false
}

func onState(c *mc.Ctx, t *sm.Trans) {
	st, err := newState(t.Root, t.Hist, t.X)
	if err != nil {
		c.Violation("harness:"+mc.Hash(err.Error()), err.Error(), nil)
		return
	}
	for _, ev := range menu {
		for _, live := range []bool{true, false} {
			judge(c, st, t, ev, "", live)
		}
		for _, f := range faults {
			judge(c, st, t, ev, f, false)
		}
	}
}

func judge(c *mc.Ctx, st *state, t *sm.Trans, ev, fault string, live bool) {
	rp := replay{Root: *t.Root, Hist: t.Hist, Ev: ev, Fault: fault, Live: live}
	for _, p := range evaluate(c, st, &rp, true) {
		c.Violation(p.Key, p.What+"\nflows: "+t.Root.Flows.String()+fmt.Sprintf("\ntrigger=%s opt=%+v history=%s event=%s fault=%q live=%v", t.Root.Trigger, t.Root.Opt, mc.JSON(t.Hist), ev, fault, live), rp)
	}
}

func evType(ev string) string {
	if i := strings.Index(ev, ":"); i > 0 {
		return ev[:i]
	}
	return ev
}

// evaluate runs one (state, resume, fault) experiment and returns the violated clauses.
func evaluate(c *mc.Ctx, st *state, rp *replay, count bool) []sm.Problem {
	var ps []sm.Problem
	add := func(key, what string, args ...any) {
		ps = append(ps, sm.Problem{Key: key, What: fmt.Sprintf(what, args...)})
	}
	a, err := tryResume(st, rp.Ev, rp.Fault, rp.Live)
	if err != nil {
		add("harness:"+mc.Hash(err.Error()), "harness error: %v", err)
		return ps
	}
	if a == nil {
		return nil // fault not applicable in this state
	}
	if count {
		c.Inc("evaluations")
		c.Inc("transitions")
	}
	faultClass := rp.Fault
	if faultClass == "" {
		faultClass = "none"
	}
	if a.readErr != nil || (a.panicked != "" && a.session == nil) {
		if a.panicked != "" {
			add("read-panic:fault="+faultClass+":"+mc.PanicSite(a.panicked), "ReadSession panicked against faulted assets: %s", a.panicked)
		} else {
			add("read-error:fault="+faultClass+":"+firstWords(a.readErr.Error(), 5), "ReadSession returned a Go error against faulted assets (the session can then never be failed by a resume): %v", a.readErr)
		}
		return ps
	}
	wasWaiting := false
	var w struct {
		Status string `json:"status"`
	}
	json.Unmarshal(a.before, &w)
	wasWaiting = w.Status == "waiting"

	if a.panicked != "" {
		add("resume-panic:fault="+faultClass+":ev="+evType(rp.Ev)+":"+mc.PanicSite(a.panicked), "Resume panicked: %s", a.panicked)
		return ps
	}
	var ee *engine.Error
	switch {
	case a.err != nil && errors.As(a.err, &ee):
		if count {
			if rp.Root.Trigger == "voice" && evType(rp.Ev) == "msg" {
				c.Fact("msg_resume_rejected_by_dial_wait")
			}
			c.Outcome(fmt.Sprintf("rejected:%d fault=%s", ee.Code(), faultClass))
			c.Fact(fmt.Sprintf("error_%d", ee.Code()))
		}
		// (a) rejected: session untouched, no events
		if string(a.before) != string(a.after) {
			add(fmt.Sprintf("rejected-%d:session-json-changed:ev=%s:fault=%s:%s", ee.Code(), evType(rp.Ev), faultClass, diffMember(a.before, a.after)),
				"resume rejected with engine error %d but the session JSON changed (%s)", ee.Code(), diffMember(a.before, a.after))
		}
		if a.sprint != nil && (len(a.sprint.Events()) > 0 || len(a.sprint.Segments()) > 0 || len(a.sprint.Modifiers()) > 0) {
			add(fmt.Sprintf("rejected-%d:sprint-not-empty:ev=%s", ee.Code(), evType(rp.Ev)), "resume rejected with engine error %d but the sprint has events/segments/modifiers", ee.Code())
		}
		// expected code
		switch ee.Code() {
		case engine.ErrorResumeNonWaitingSession:
			if wasWaiting {
				add("rejected-101:but-session-was-waiting", "error 101 for a waiting session")
			}
		case engine.ErrorResumeNoWaitingRun, engine.ErrorResumeRejectedByWait:
			if ee.Code() == engine.ErrorResumeRejectedByWait && a.waitAccepts == 1 {
				add("rejected-103:but-the-wait-accepts-this-type:ev="+evType(rp.Ev), "resume rejected as not accepted by the wait, but Wait.Accepts is true for a %s resume", evType(rp.Ev))
			}
			if !wasWaiting {
				add(fmt.Sprintf("rejected-%d:but-session-not-waiting", ee.Code()), "error %d for a session that is not waiting", ee.Code())
			}
		default:
			add(fmt.Sprintf("rejected-unknown-code-%d", ee.Code()), "unknown engine error code %d", ee.Code())
		}
		// differential: a following acceptable resume behaves as if the rejected one never happened
		if wasWaiting && rp.Fault == "" {
			ps = append(ps, differential(c, st, rp, a)...)
		}
	case a.err != nil:
		add("go-error:fault="+faultClass+":ev="+evType(rp.Ev)+":"+firstWords(a.err.Error(), 5), "Resume returned a Go error that is not an engine error: %v", a.err)
	default:
		// (b) accepted (or session failed)
		s := a.session
		if count {
			c.Outcome(fmt.Sprintf("nil:%s fault=%s", s.Status(), faultClass))
		}
		if !wasWaiting {
			add("accepted:resume-of-non-waiting-session:fault="+faultClass, "Resume returned nil for a session that was not waiting")
		}
		// the wait does not accept this type of resume => it must have been rejected (unless an
		// impossible condition failed the session first)
		if a.waitAccepts == 0 && s.Status() != flows.SessionStatusFailed {
			add("accepted:resume-type-the-wait-does-not-accept:ev="+evType(rp.Ev)+":fault="+faultClass, "the wait at the waiting node does not accept a %s resume (Wait.Accepts is false) but Resume returned nil and the session is %s", evType(rp.Ev), s.Status())
		}
		switch s.Status() {
		case flows.SessionStatusWaiting, flows.SessionStatusCompleted, flows.SessionStatusFailed:
		default:
			add("accepted:session-still-"+string(s.Status()), "session status %s after resume", s.Status())
		}
		nWaiting, nActive := 0, 0
		for _, r := range s.Runs() {
			if r.Status() == flows.RunStatusWaiting {
				nWaiting++
			}
			if r.Status() == flows.RunStatusActive {
				nActive++
			}
		}
		if s.Status() == flows.SessionStatusWaiting && nWaiting != 1 {
			add(fmt.Sprintf("accepted:waiting-session-with-%d-waiting-runs:fault=%s", nWaiting, faultClass), "waiting session with %d waiting runs", nWaiting)
		}
		if s.Status() != flows.SessionStatusWaiting && (nWaiting > 0 || nActive > 0) {
			add("accepted:final-session-with-live-runs:fault="+faultClass, "session %s but %d waiting and %d active runs", s.Status(), nWaiting, nActive)
		}
		// impossible conditions end the session failed with a failure event
		impossible := rp.Fault == "waiting-flow-deleted" || rp.Fault == "waiting-node-deleted" || rp.Fault == "router-removed" || rp.Fault == "wait-removed"
		// (states are reached by accepted resumes only, so this is resume number len(hist): the limit is
		// reached when that many waits have begun)
		if rp.Root.Opt.MaxResumes > 0 && len(st.hist) >= rp.Root.Opt.MaxResumes && wasWaiting && (rp.Fault == "" || rp.Fault == "timeout-removed" || rp.Fault == "wait-type-changed") {
			impossible = true // the resume limit is reached
			if count {
				c.Fact("resume_limit_reached")
			}
		}
		if impossible {
			if count {
				c.Fact("impossible:" + faultClass)
			}
			if s.Status() != flows.SessionStatusFailed || !hasFailureEvent(a.sprint) {
				add("impossible-resume-not-failed:fault="+faultClass+":status="+string(s.Status()), "resumption was impossible (%s) but the session is %s (failure event: %v)", faultClass, s.Status(), hasFailureEvent(a.sprint))
			}
		}
	}
	return ps
}

// differential compares [rejected, msg:a] with [msg:a] from the same state.
func differential(c *mc.Ctx, st *state, rp *replay, a *attempt) []sm.Problem {
	var ps []sm.Problem
	// continue the attempt's own session object with an acceptable resume
	var sp1 flows.Sprint
	var err1 error
	p1 := mc.Guard(func() { sp1, err1 = a.session.Resume(world.MakeResume("msg:a")) })
	after1, _ := json.Marshal(a.session)
	// the branch that skipped the rejected resume
	b, err := tryResume(st, "msg:a", "", rp.Live)
	if err != nil || b == nil {
		return ps
	}
	c.Inc("differential_comparisons")
	o1 := world.Canon([]byte(fmt.Sprintf("%v|%v|%s|%s", p1 != "", errStr(err1), eventsJSON(sp1), after1)))
	o2 := world.Canon([]byte(fmt.Sprintf("%v|%v|%s|%s", b.panicked != "", errStr(b.err), eventsJSON(b.sprint), b.after)))
	if o1 != o2 {
		ps = append(ps, sm.Problem{Key: "rejected:later-resume-differs:ev=" + evType(rp.Ev), What: "after a rejected resume, an acceptable resume behaves differently from the branch that never saw the rejected one\nwith:    " + trim(o1, 700) + "\nwithout: " + trim(o2, 700)})
	}
	return ps
}

func errStr(e error) string {
	if e == nil {
		return ""
	}
	return e.Error()
}

func eventsJSON(sp flows.Sprint) string {
	if sp == nil {
		return "nil"
	}
	b, _ := json.Marshal(sp.Events())
	return string(b)
}

// diffMember names the first top-level member of the session JSON that differs.
func diffMember(a, b []byte) string {
	var ma, mb map[string]json.RawMessage
	json.Unmarshal(a, &ma)
	json.Unmarshal(b, &mb)
	for _, k := range []string{"status", "runs", "contact", "input", "environment", "trigger", "wait", "uuid", "type"} {
		if string(ma[k]) != string(mb[k]) {
			return k
		}
	}
	return "other"
}

func firstWords(s string, n int) string {
	f := strings.Fields(s)
	if len(f) > n {
		f = f[:n]
	}
	out := strings.ToLower(strings.Join(f, "-"))
	return strings.Map(func(r rune) rune {
		if (r >= 'a' && r <= 'z') || (r >= '0' && r <= '9') || r == '-' {
			return r
		}
		return -1
	}, out)
}

func trim(s string, n int) string {
	if len(s) > n {
		return s[:n] + "…"
	}
	return s
}

func replayFn(c *mc.Ctx, raw json.RawMessage) (string, bool) {
	var rp replay
	if err := json.Unmarshal(raw, &rp); err != nil {
		return "bad replay: " + err.Error(), false
	}
	x, err := rp.Root.Run(rp.Hist)
	if err != nil {
		return "harness error: " + err.Error(), false
	}
	st, err := newState(&rp.Root, rp.Hist, x)
	if err != nil {
		return "harness error: " + err.Error(), false
	}
	ps := evaluate(c, st, &rp, false)
	out := fmt.Sprintf("flows: %s\ntrigger=%s history=%s event=%s fault=%q live=%v\n", rp.Root.Flows.String(), rp.Root.Trigger, mc.JSON(rp.Hist), rp.Ev, rp.Fault, rp.Live)
	for _, p := range ps {
		out += fmt.Sprintf("PROBLEM %s: %s\n", p.Key, p.What)
	}
	return out, len(ps) > 0
}

func init() {
	mc.Register(&mc.Check{
		ID:    "C10",
		Level: "fault_enumeration",
		Rule: "every state reached by the BFS over the real engine (canonical flow sets <= 2(+1) nodes x {manual,msg} triggers, plus MaxResumesPerSession=1 roots; histories to depth 2/3) x every resume type {msg, wait_timeout, run_expiration, dial} x {live object, restored} x every single asset fault between sprints " +
			"(waiting flow deleted, waiting node deleted, router removed, wait removed, wait type changed, timeout removed, parent flow deleted, parent node deleted, other flows deleted) plus the storage fault 'status says waiting but no run waits'. " +
			"Rejected (engine error 101/102/103): session JSON byte-identical, empty sprint, and a following acceptable resume behaves as in the branch that never saw the rejected one. Accepted: status/run invariants; impossible conditions must fail the session with a failure event. Any other Go error or panic is a violation. " +
			"distinct_nontrivial counts roots that reach a waiting state.",
		Assumptions: []string{"single faults only in the quick tier", "asset faults are edits of the asset document between sprints; the session is re-read with assets.IgnoreMissing as hosts do"},
		Run:         run,
		Replay:      replayFn,
		Single:      sm.Single,
		SingleTicks: true,
		Classify:    sm.SkipHangs,
		HangLimit:   15 * time.Second,
		SingleLimit: 30 * time.Second,
		MaxBadCases: 2,
		MemLimitKB:  8 << 20,
		Budget:      map[string]time.Duration{"quick": 8 * time.Minute, "thorough": 30 * time.Minute},
		Guards: func(r *mc.Result, tier string) []string {
			var f []string
			for _, fact := range []string{"error_101", "error_102", "error_103", "resume_limit_reached", "impossible:waiting-flow-deleted", "impossible:waiting-node-deleted", "impossible:router-removed", "impossible:wait-removed", "msg_resume_rejected_by_dial_wait"} {
				if r.Facts[fact] == 0 {
					f = append(f, "never observed: "+fact)
				}
			}
			if r.Counters["differential_comparisons"] == 0 {
				f = append(f, "no differential comparison was made")
			}
			return f
		},
	})
}
