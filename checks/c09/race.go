//go:build !conc

package c09

import (
	"encoding/json"
	"fmt"
	"strings"
	"sync"

	"github.com/nyaruka/gocommon/dates"
	"verif/mc"
	"verif/world"
)

func runConc(c *mc.Ctx) {
	c.Violation("harness:worker-built-without-overlay", "the C09 worker must be the conc overlay build", nil)
}

func replayConc(c *mc.Ctx, raw json.RawMessage) (string, bool) {
	return "replay needs the conc build (bin/vcheck-c09-conc-*)", false
}

// single runs the free-running pass in this (race-instrumented) process: N goroutines drive the
// scripts over one cold SessionAssets. The race detector reports to stderr; the parent parses it.
func single(c *mc.Ctx, desc string) string {
	names := strings.Split(strings.TrimPrefix(desc, "race:"), ",")
	doc, err := assetsDoc(c.Args["repo"])
	if err != nil {
		return "RACE-HARNESS-ERROR " + err.Error()
	}
	b, _ := json.Marshal(doc)
	// stateless, thread-safe seams for the free-running pass
	dates.SetNowFunc(dates.NewFixedNow(world.ClockStart))
	sa, err := newAssets(b, nil)
	if err != nil {
		return "RACE-HARNESS-ERROR " + err.Error()
	}
	eng := world.NewEngine(world.Options{})
	var wg sync.WaitGroup
	threads := make([]*Thread, len(names))
	start := make(chan struct{})
	for i, n := range names {
		threads[i] = newThread(n)
		wg.Add(1)
		go func(t *Thread) {
			defer wg.Done()
			<-start
			for j := range t.Ops {
				t.Step(j, sa, eng)
			}
		}(threads[i])
	}
	close(start)
	wg.Wait()
	out := "RACE-RUN-COMPLETE"
	for _, t := range threads {
		out += fmt.Sprintf(" %s=%d", t.Name, len(t.Out.String()))
	}
	return out
}
