//go:build conc

package c09

import (
	"encoding/json"
	"fmt"
	"os"
	"os/exec"
	"reflect"
	"regexp"
	"sort"
	"strings"
	"unsafe"

	"github.com/nyaruka/goflow/flows"
	"github.com/nyaruka/goflow/verifshim/mcglobals"
	"github.com/nyaruka/goflow/verifshim/mcsync"
	"verif/mc"
	"verif/world"
)

func single(c *mc.Ctx, desc string) string { return "single mode belongs to the race build" }

// =============================================================================================
// Stage A: shared state is immutable outside a lock
// =============================================================================================

// snapshot maps a path in the shared object graph to a rendering of the leaf found there; for
// struct fields it also remembers the struct type and field name.
type snapshot struct {
	leaves  map[string]string
	owner   map[string]string // path -> "pkg.Type.field" of the innermost struct field on the path
	guarded map[string]bool   // paths of fields whose struct also holds a mutex
	onces   map[string]bool   // paths of sync.Once "done" flags
}

func goflowType(t reflect.Type) bool {
	p := t.PkgPath()
	return p == "" || strings.HasPrefix(p, "github.com/nyaruka/goflow") || strings.HasPrefix(p, "verif/")
}

func rw(v reflect.Value) reflect.Value {
	if v.CanAddr() {
		return reflect.NewAt(v.Type(), unsafe.Pointer(v.UnsafeAddr())).Elem()
	}
	return v
}

func takeSnapshot(roots map[string]any) *snapshot {
	s := &snapshot{leaves: map[string]string{}, owner: map[string]string{}, guarded: map[string]bool{}, onces: map[string]bool{}}
	seen := map[uintptr]string{} // pointer -> path of its first visit (a stable identity between snapshots; maps are walked in sorted key order)
	var walk func(path, owner string, v reflect.Value, depth int)
	walk = func(path, owner string, v reflect.Value, depth int) {
		if depth > 60 || !v.IsValid() {
			return
		}
		v = rw(v)
		t := v.Type()
		switch v.Kind() {
		case reflect.Ptr:
			if v.IsNil() {
				s.leaves[path] = "nil"
				s.owner[path] = owner
				return
			}
			if !goflowType(t.Elem()) && t.Elem().Kind() == reflect.Struct {
				s.leaves[path] = "opaque:" + t.String() // identity of foreign objects is not compared
				s.owner[path] = owner
				return
			}
			p := v.Pointer()
			if first, ok := seen[p]; ok {
				s.leaves[path] = "->@" + first
				s.owner[path] = owner
				return
			}
			seen[p] = path
			walk(path, owner, v.Elem(), depth+1)
		case reflect.Interface:
			if v.IsNil() {
				s.leaves[path] = "nil"
				s.owner[path] = owner
				return
			}
			e := v.Elem()
			if e.Kind() != reflect.Ptr && e.Kind() != reflect.Map && e.Kind() != reflect.Slice && e.Kind() != reflect.Func {
				cp := reflect.New(e.Type()).Elem()
				cp.Set(e)
				e = cp
			}
			walk(path+"("+e.Type().String()+")", owner, e, depth+1)
		case reflect.Struct:
			if t == reflect.TypeOf(mcsync.Once{}) {
				done := rw(v.FieldByName("done")).Bool()
				s.leaves[path+".done"] = fmt.Sprint(done)
				s.owner[path+".done"] = owner
				s.onces[path+".done"] = true
				return
			}
			if !goflowType(t) {
				if str, ok := stringOf(v); ok {
					s.leaves[path] = str
					s.owner[path] = owner
				}
				return
			}
			hasMutex := false
			for i := 0; i < t.NumField(); i++ {
				ft := t.Field(i).Type
				if ft == reflect.TypeOf(mcsync.Mutex{}) || ft == reflect.TypeOf(mcsync.RWMutex{}) {
					hasMutex = true
				}
			}
			for i := 0; i < t.NumField(); i++ {
				f := t.Field(i)
				if f.Type == reflect.TypeOf(mcsync.Mutex{}) || f.Type == reflect.TypeOf(mcsync.RWMutex{}) {
					continue
				}
				fp := path + "." + f.Name
				if hasMutex {
					s.guarded[fp] = true
				}
				walk(fp, t.String()+"."+f.Name, v.Field(i), depth+1)
			}
		case reflect.Map:
			if v.IsNil() {
				s.leaves[path] = "nilmap"
				s.owner[path] = owner
				return
			}
			s.leaves[path+".#len"] = fmt.Sprint(v.Len())
			s.owner[path+".#len"] = owner
			type kv struct {
				ks string
				v  reflect.Value
			}
			var entries []kv
			it := v.MapRange()
			for it.Next() {
				k := it.Key()
				ks := fmt.Sprint(k)
				if k.Kind() == reflect.Ptr || k.Kind() == reflect.Interface {
					if str, ok := stringOf(k); ok {
						ks = str
					}
				}
				entries = append(entries, kv{ks, it.Value()})
			}
			sort.Slice(entries, func(i, j int) bool { return entries[i].ks < entries[j].ks })
			for _, en := range entries {
				ks := en.ks
				e := en.v
				if e.Kind() == reflect.Struct || e.Kind() == reflect.Array {
					cp := reflect.New(e.Type()).Elem()
					cp.Set(e)
					e = cp
				}
				walk(path+"["+ks+"]", owner, e, depth+1)
			}
		case reflect.Slice:
			if v.IsNil() {
				s.leaves[path] = "nilslice"
				s.owner[path] = owner
				return
			}
			s.leaves[path+".#len"] = fmt.Sprint(v.Len())
			s.owner[path+".#len"] = owner
			if t.Elem().Kind() == reflect.Uint8 {
				s.leaves[path] = fmt.Sprintf("bytes:%x", v.Bytes())
				s.owner[path] = owner
				return
			}
			for i := 0; i < v.Len(); i++ {
				walk(fmt.Sprintf("%s[%d]", path, i), owner, v.Index(i), depth+1)
			}
			// the spare capacity is shared memory too: an append by a holder of an alias writes there.
			// References are compared by address only (what they point to is not part of this object).
			if v.Cap() > v.Len() && v.Cap()-v.Len() <= 64 {
				full := v.Slice(0, v.Cap())
				for i := v.Len(); i < v.Cap(); i++ {
					e := full.Index(i)
					sp := fmt.Sprintf("%s[spare %d]", path, i)
					switch e.Kind() {
					case reflect.Ptr, reflect.Map, reflect.Slice, reflect.Func, reflect.Chan, reflect.UnsafePointer:
						s.leaves[sp] = fmt.Sprintf("addr:%x", e.Pointer())
						s.owner[sp] = owner
					case reflect.Interface:
						if e.IsNil() {
							s.leaves[sp] = "nil"
						} else {
							s.leaves[sp] = "iface:" + e.Elem().Type().String()
						}
						s.owner[sp] = owner
					case reflect.Struct, reflect.Array:
						// shallow: strings and numbers of the element
						s.leaves[sp] = shallow(e)
						s.owner[sp] = owner
					default:
						s.leaves[sp] = fmt.Sprint(rw(e).Interface())
						s.owner[sp] = owner
					}
				}
			}
		case reflect.Array:
			for i := 0; i < v.Len(); i++ {
				walk(fmt.Sprintf("%s[%d]", path, i), owner, v.Index(i), depth+1)
			}
		case reflect.Func:
			if v.IsNil() {
				s.leaves[path] = "nilfunc"
			} else {
				s.leaves[path] = "func"
			}
			s.owner[path] = owner
		case reflect.Chan, reflect.UnsafePointer:
		default:
			s.leaves[path] = fmt.Sprint(v.Interface())
			s.owner[path] = owner
		}
	}
	names := make([]string, 0, len(roots))
	for n := range roots {
		names = append(names, n)
	}
	sort.Strings(names)
	for _, n := range names {
		walk(n, n, reflect.ValueOf(roots[n]), 0)
	}
	return s
}

// shallow renders the scalar fields of a struct or array element without following references.
func shallow(v reflect.Value) string {
	var sb strings.Builder
	var rec func(v reflect.Value, d int)
	rec = func(v reflect.Value, d int) {
		switch v.Kind() {
		case reflect.Struct:
			for i := 0; i < v.NumField(); i++ {
				rec(v.Field(i), d+1)
			}
		case reflect.Array:
			for i := 0; i < v.Len() && i < 16; i++ {
				rec(v.Index(i), d+1)
			}
		case reflect.Ptr, reflect.Map, reflect.Slice, reflect.Func, reflect.Chan, reflect.UnsafePointer:
			fmt.Fprintf(&sb, "addr:%x;", v.Pointer())
		case reflect.Interface:
			sb.WriteString("iface;")
		case reflect.String:
			sb.WriteString(v.String() + ";")
		case reflect.Bool:
			fmt.Fprintf(&sb, "%v;", v.Bool())
		case reflect.Int, reflect.Int8, reflect.Int16, reflect.Int32, reflect.Int64:
			fmt.Fprintf(&sb, "%d;", v.Int())
		case reflect.Uint, reflect.Uint8, reflect.Uint16, reflect.Uint32, reflect.Uint64, reflect.Uintptr:
			fmt.Fprintf(&sb, "%d;", v.Uint())
		case reflect.Float32, reflect.Float64:
			fmt.Fprintf(&sb, "%v;", v.Float())
		}
	}
	rec(v, 0)
	return sb.String()
}

func stringOf(v reflect.Value) (s string, ok bool) {
	defer func() {
		if recover() != nil {
			ok = false
		}
	}()
	if v.CanInterface() {
		if st, is := v.Interface().(fmt.Stringer); is {
			return st.String(), true
		}
	}
	if v.CanAddr() {
		if st, is := v.Addr().Interface().(fmt.Stringer); is {
			return st.String(), true
		}
	}
	return "", false
}

var idxRe = regexp.MustCompile(`\[[^\]]*\]`)

type mutation struct {
	path, before, after, owner string
}

// diff lists the mutations between two snapshots that are not explained by a lock.
func diff(a, b *snapshot) []mutation {
	// a sync.Once that fired in this step explains first-time initialisation: of the package's
	// variables when the Once is itself a package-level variable, of its sibling fields when it is a
	// field of a struct
	oncePkg := map[string]bool{}
	var onceSiblings []string
	for p := range b.onces {
		if a.leaves[p] == b.leaves[p] {
			continue
		}
		holder := strings.TrimSuffix(p, ".done") // path of the Once value
		if strings.HasPrefix(holder, "global:") && !strings.ContainsAny(strings.TrimPrefix(holder, "global:"+pkgOf(holder)+"."), ".[(") {
			oncePkg[pkgOf(holder)] = true
		} else if i := strings.LastIndex(holder, "."); i > 0 {
			onceSiblings = append(onceSiblings, holder[:i]+".")
		}
	}
	guardedPrefix := func(p string) bool {
		// an ADDED entry directly under a guarded field (struct with a mutex): publication under the lock
		for g := range b.guarded {
			if strings.HasPrefix(p, g+"[") || p == g+".#len" {
				return true
			}
		}
		return false
	}
	var out []mutation
	paths := map[string]bool{}
	for p := range a.leaves {
		paths[p] = true
	}
	for p := range b.leaves {
		paths[p] = true
	}
	var sorted []string
	for p := range paths {
		sorted = append(sorted, p)
	}
	sort.Strings(sorted)
	for _, p := range sorted {
		av, aok := a.leaves[p]
		bv, bok := b.leaves[p]
		if aok && bok && av == bv {
			continue
		}
		if b.onces[p] || a.onces[p] {
			continue
		}
		if !aok && guardedPrefix(p) {
			// new entry published under the lock; but it must be NEW: no existing leaf under the same
			// map key may have changed (checked because changed leaves have aok)
			continue
		}
		if p != "" && strings.HasSuffix(p, ".#len") && guardedPrefix(p) {
			continue
		}
		if oncePkg[pkgOf(p)] && strings.HasPrefix(p, "global:") {
			continue // first-time initialisation guarded by the package's sync.Once
		}
		sibling := false
		for _, pre := range onceSiblings {
			if strings.HasPrefix(p, pre) {
				sibling = true
			}
		}
		if sibling {
			continue // first-time initialisation of a struct guarded by its own sync.Once
		}
		owner := b.owner[p]
		if owner == "" {
			owner = a.owner[p]
		}
		out = append(out, mutation{p, av, bv, owner})
	}
	return out
}

func pkgOf(p string) string {
	// roots are named "global:<pkgpath>.<var>" or "assets"
	if !strings.HasPrefix(p, "global:") {
		return "assets"
	}
	r := strings.TrimPrefix(p, "global:")
	if i := strings.LastIndex(r, "/"); i >= 0 {
		if j := strings.Index(r[i:], "."); j >= 0 {
			return r[:i+j]
		}
	}
	if j := strings.Index(r, "."); j >= 0 {
		return r[:j]
	}
	return r
}

func sharedRoots(sa flows.SessionAssets) map[string]any {
	roots := map[string]any{"assets": sa}
	for pkg, vars := range mcglobals.All() {
		if strings.Contains(pkg, "/verifshim") {
			continue
		}
		for name, ptr := range vars {
			roots["global:"+pkg+"."+name] = ptr
		}
	}
	return roots
}

type stageAReplay struct {
	Stage string `json:"stage"`
	Ops   []Op   `json:"ops"`
}

var opAlphabet = []Op{"start:0", "start:1", "start:2", "start:3", "resume", "restore", "inspect:0", "inspect:3", "eval", "find:child", "chlang:1"}

// a second, smaller alphabet around the flows with per-contact recipients and the boolean webhook
var opAlphabet2 = []Op{"start:4:A", "start:5", "start:1", "resume", "restore", "eval", "evalfn"}

func stageA(c *mc.Ctx, doc []byte, maxLen int) {
	c.Fact("stageA_ran")
	var seqs [][]Op
	for ai, alphabet := range [][]Op{opAlphabet, opAlphabet2} {
		maxLen := maxLen
		if ai == 1 && maxLen < 3 {
			maxLen = 3 // start, restore, resume: the shortest history that reads a re-created webhook
		}
		var gen func(prefix []Op)
		gen = func(prefix []Op) {
			if len(prefix) > 0 {
				seqs = append(seqs, append([]Op{}, prefix...))
			}
			if len(prefix) == maxLen {
				return
			}
			for _, o := range alphabet {
				gen(append(prefix, o))
			}
		}
		gen(nil)
	}
	for si, seq := range seqs {
		if !c.Mine(si) {
			continue
		}
		if c.Expired() {
			c.Cap("time budget reached in stage A")
			return
		}
		for _, p := range runSequence(c, doc, seq, true) {
			c.Violation(p.Key, p.What, stageAReplay{Stage: "A", Ops: seq})
		}
	}
}

type problem struct{ Key, What string }

func runSequence(c *mc.Ctx, doc []byte, seq []Op, count bool) []problem {
	var ps []problem
	world.Reset()
	sa, err := newAssets(doc, nil)
	if err != nil {
		return []problem{{"harness:assets", err.Error()}}
	}
	eng := world.NewEngine(world.Options{})
	t := &Thread{Name: "seq", Ops: seq}
	roots := sharedRoots(sa)
	before := takeSnapshot(roots)
	for i := range seq {
		if p := mc.Guard(func() { t.Step(i, sa, eng) }); p != "" {
			ps = append(ps, problem{"stageA:panic:" + mc.PanicSite(p), "operation " + string(seq[i]) + " panicked: " + p})
			return ps
		}
		after := takeSnapshot(roots)
		if count {
			c.Inc("states")
			c.Inc("transitions")
			c.Inc("evaluations")
			c.Inc("stageA_operations")
			c.Max("shared_leaves", int64(len(after.leaves)))
		}
		for _, m := range diff(before, after) {
			owner := idxRe.ReplaceAllString(m.owner, "[]")
			root := "assets"
			if strings.HasPrefix(m.path, "global:") {
				root = "package-variable"
			}
			ps = append(ps, problem{"stageA:unsynchronised-write:" + root + ":" + owner,
				fmt.Sprintf("the read-only operation %q (sequence %v) mutated shared state outside any lock: %s\n  before: %s\n  after:  %s\n(two sessions performing this operation concurrently race on this write)", seq[i], seq[:i+1], m.path, trunc(m.before), trunc(m.after))})
		}
		before = after
	}
	if count {
		c.Inc("distinct_nontrivial")
	}
	return ps
}

func trunc(s string) string {
	if len(s) > 120 {
		return s[:120] + "…"
	}
	return s
}

// =============================================================================================
// Stage B: all interleavings under a cooperative scheduler
// =============================================================================================

type abortSignal struct{}

type sthread struct {
	id    int
	t     *Thread
	wake  chan struct{}
	want  any
	done  bool
	panic string
}

type scheduler struct {
	ch       *mc.Chooser
	threads  []*sthread
	owner    map[any]int
	cur      int
	points   int
	horizon  int
	deadlock string
	aborted  bool
	finished chan struct{}
	// observations
	contended      bool // a thread asked for a lock another thread held
	loadUnderLock  int  // source calls made while holding a lock
	maxLockWaiters int
}

func (s *scheduler) enabled() []int {
	var en []int
	add := func(i int) {
		th := s.threads[i]
		if th.done {
			return
		}
		if th.want != nil {
			if _, held := s.owner[th.want]; held {
				return
			}
		}
		en = append(en, i)
	}
	if s.cur >= 0 {
		add(s.cur)
	}
	for i := range s.threads {
		if i != s.cur {
			add(i)
		}
	}
	return en
}

// next picks the next thread to run and transfers control to it; called by the running thread (or
// by the controller at the start).
func (s *scheduler) next(self *sthread, label string) {
	s.points++
	if s.points > s.horizon {
		s.abort("horizon exceeded (livelock?) at " + label)
	}
	en := s.enabled()
	if len(en) == 0 {
		allDone := true
		for _, th := range s.threads {
			if !th.done {
				allDone = false
			}
		}
		if allDone {
			close(s.finished)
			return
		}
		var waits []string
		for _, th := range s.threads {
			if !th.done {
				waits = append(waits, fmt.Sprintf("thread %d (%s) waits for a lock held by thread %d", th.id, th.t.Name, s.owner[th.want]))
			}
		}
		s.abort("deadlock: " + strings.Join(waits, "; "))
		return
	}
	idx := 0
	if len(en) > 1 {
		idx = s.ch.Choose(len(en), label)
	}
	nx := s.threads[en[idx]]
	if nx.want != nil {
		s.owner[nx.want] = nx.id
		nx.want = nil
	}
	prev := s.cur
	s.cur = nx.id
	if self != nil && nx.id == self.id {
		return
	}
	_ = prev
	nx.wake <- struct{}{}
	if self != nil && !self.done {
		<-self.wake
		if s.aborted {
			panic(abortSignal{})
		}
	}
}

func (s *scheduler) abort(why string) {
	if s.aborted {
		return
	}
	s.aborted = true
	s.deadlock = why
	close(s.finished)
	panic(abortSignal{})
}

func (s *scheduler) self() *sthread { return s.threads[s.cur] }

// Acquire / Release implement mcsync.Scheduler.
func (s *scheduler) Acquire(res any, what string) {
	me := s.self()
	if o, held := s.owner[res]; held && o != me.id {
		s.contended = true
	}
	me.want = res
	s.next(me, "acquire-"+what)
}

func (s *scheduler) Release(res any, what string) {
	me := s.self()
	delete(s.owner, res)
	s.next(me, "release-"+what)
}

func (s *scheduler) yield(what string) {
	me := s.self()
	if len(s.owner) > 0 {
		s.loadUnderLock++
	}
	s.next(me, what)
}

type schedResult struct {
	outputs  []string
	deadlock string
	panics   []string
	cacheLen int
	s        *scheduler
}

// runSchedule executes the scripts under one schedule given by the chooser.
func runSchedule(doc []byte, names []string, ch *mc.Chooser) *schedResult {
	world.Reset()
	s := &scheduler{ch: ch, owner: map[any]int{}, cur: -1, horizon: 5000, finished: make(chan struct{})}
	sa, err := newAssets(doc, func(what string) { s.yield(what) })
	if err != nil {
		return &schedResult{deadlock: "harness: " + err.Error(), s: s}
	}
	eng := world.NewEngine(world.Options{})
	for i, n := range names {
		s.threads = append(s.threads, &sthread{id: i, t: newThread(n), wake: make(chan struct{}, 1)})
	}
	mcsync.Sched = s
	defer func() { mcsync.Sched = nil }()
	for _, th := range s.threads {
		go func(th *sthread) {
			<-th.wake
			defer func() {
				if r := recover(); r != nil {
					if _, isAbort := r.(abortSignal); !isAbort {
						th.panic = fmt.Sprint(r)
					}
				}
				th.done = true
				if s.aborted {
					return
				}
				// hand over to whoever is next
				func() {
					defer func() { recover() }()
					s.next(th, "thread-end")
				}()
			}()
			if s.aborted {
				return
			}
			for j := range th.t.Ops {
				th.t.Step(j, sa, eng)
				s.yield("op-boundary")
			}
		}(th)
	}
	// the controller picks the first thread
	func() {
		defer func() { recover() }()
		s.next(nil, "start")
	}()
	<-s.finished
	if s.aborted {
		// release every goroutine still parked
		for _, th := range s.threads {
			select {
			case th.wake <- struct{}{}:
			default:
			}
		}
	}
	res := &schedResult{deadlock: s.deadlock, s: s}
	for _, th := range s.threads {
		res.outputs = append(res.outputs, th.t.Output())
		if th.panic != "" {
			res.panics = append(res.panics, th.t.Name+": "+th.panic)
		}
	}
	res.cacheLen = cacheLen(sa)
	return res
}

// cacheLen reads the number of entries of the lazily filled flow cache by reflection.
func cacheLen(sa flows.SessionAssets) int {
	v := reflect.ValueOf(sa.Flows())
	for v.Kind() == reflect.Ptr || v.Kind() == reflect.Interface {
		v = v.Elem()
	}
	f := v.FieldByName("cache")
	if !f.IsValid() {
		return -1
	}
	return rw(f).Len()
}

type stageBReplay struct {
	Stage   string   `json:"stage"`
	Scripts []string `json:"scripts"`
	Choices []int    `json:"choices"`
}

func flowsUsed(names []string) int {
	used := map[string]bool{}
	for _, n := range names {
		for _, op := range Scripts[n] {
			s := string(op)
			switch {
			case s == "start:0":
				used["0"], used["1"] = true, true
			case s == "evalfn", s == "eval", s == "dump", s == "resume", s == "restore":
			case strings.HasPrefix(s, "start:4"):
				used["4"], used["1"] = true, true // its start_session action loads the flow it names
			case strings.HasPrefix(s, "start:"), strings.HasPrefix(s, "inspect:"):
				used[s[strings.Index(s, ":")+1:]] = true
			case s == "find:child", s == "chlang:1":
				used["1"] = true
			}
		}
	}
	return len(used)
}

func stageB(c *mc.Ctx, doc []byte, base int) {
	c.Fact("stageB_ran")
	solo := map[string]string{}
	for _, n := range ScriptNames {
		out, err := Solo(doc, n)
		if err != nil {
			c.Violation("harness:solo", err.Error(), nil)
			return
		}
		solo[n] = out
	}
	var scenarios [][]string
	pairNames := CoreScripts
	if c.Thorough() {
		pairNames = ScriptNames
	}
	for i, a := range pairNames {
		for _, b := range pairNames[i:] {
			scenarios = append(scenarios, []string{a, b})
		}
	}
	extraFrom := len(scenarios)
	if !c.Thorough() {
		scenarios = append(scenarios, ExtraPairs...)
	} else {
		extraFrom = 1 << 30
	}
	if c.Thorough() {
		for i, a := range CoreScripts {
			for j, b := range CoreScripts[i:] {
				for _, d := range CoreScripts[i+j:] {
					scenarios = append(scenarios, []string{a, b, d})
				}
			}
		}
		scenarios = append(scenarios, []string{"bcastA", "bcastB", "bcastA"}, []string{"hook", "child", "hook"})
	}
	bound := 2
	if c.Thorough() {
		bound = 3
	}
	for si, names := range scenarios {
		if !c.Mine(base + si) {
			continue
		}
		if c.Expired() {
			c.Cap("time budget reached in stage B")
			return
		}
		distinct := map[string]bool{}
		bound := bound
		if si >= extraFrom {
			bound = 1 // the long scripts around recipients and the boolean webhook: one preemption in the quick tier
		}
		execs, capped := mc.Explore(bound, 200000, func(ch *mc.Chooser) {
			r := runSchedule(doc, names, ch)
			c.Inc("schedules")
			c.Inc("states")
			c.Inc("evaluations")
			c.Add("transitions", int64(r.s.points))
			c.Add("scheduling_points", int64(r.s.points))
			if r.s.contended {
				c.Fact("contended_cold_flow")
			}
			if r.s.loadUnderLock > 0 {
				c.Fact("lazy_migration_under_lock")
			}
			distinct[strings.Join(r.outputs, "\x00")] = true
			rp := stageBReplay{Stage: "B", Scripts: names, Choices: append([]int{}, ch.Taken...)}
			for _, p := range judgeSchedule(r, names, solo) {
				c.Violation(p.Key, p.What+fmt.Sprintf("\nscripts=%v schedule=%v", names, ch.Taken), rp)
			}
		})
		c.Add("schedule_scenarios", 1)
		c.Inc("distinct_nontrivial")
		c.Outcome(fmt.Sprintf("scenario with %d threads: %d distinct joint outputs", len(names), len(distinct)))
		if capped {
			c.Cap(fmt.Sprintf("stage B scenario %v capped at %d schedules (bound %d)", names, execs, bound))
		}
		if c.WantSample() {
			c.Sample(map[string]any{"stage": "B", "scripts": names, "schedules": execs, "preemption_bound": bound, "distinct_joint_outputs": len(distinct)})
		}
	}
}

func judgeSchedule(r *schedResult, names []string, solo map[string]string) []problem {
	var ps []problem
	if r.deadlock != "" {
		key := "stageB:deadlock"
		if strings.Contains(r.deadlock, "horizon") {
			key = "stageB:livelock-horizon"
		} else if strings.HasPrefix(r.deadlock, "harness") {
			key = "harness:stageB"
		}
		ps = append(ps, problem{key, r.deadlock})
		return ps
	}
	for _, p := range r.panics {
		ps = append(ps, problem{"stageB:panic:" + firstWords(p, 6), "a thread panicked under this schedule: " + p})
	}
	for i, n := range names {
		if r.outputs[i] != solo[n] {
			ps = append(ps, problem{"stageB:output-differs-from-solo:" + n, fmt.Sprintf("script %q produced a different result than when run alone\n%s", n, firstDiff(solo[n], r.outputs[i]))})
		}
	}
	if want := flowsUsed(names); r.cacheLen >= 0 && r.cacheLen != want {
		ps = append(ps, problem{fmt.Sprintf("stageB:flow-cache-has-%d-entries-for-%d-flows-used", r.cacheLen, want), fmt.Sprintf("the flow cache ends with %d entries but %d flows were used", r.cacheLen, want)})
	}
	return ps
}

func firstWords(s string, n int) string {
	f := strings.Fields(s)
	if len(f) > n {
		f = f[:n]
	}
	return strings.ToLower(strings.Join(f, "-"))
}

func firstDiff(a, b string) string {
	n := len(a)
	if len(b) < n {
		n = len(b)
	}
	i := 0
	for i < n && a[i] == b[i] {
		i++
	}
	lo := i - 100
	if lo < 0 {
		lo = 0
	}
	cut := func(s string) string {
		e := i + 100
		if e > len(s) {
			e = len(s)
		}
		return s[lo:e]
	}
	return fmt.Sprintf("first difference at byte %d\n  solo:       …%s…\n  concurrent: …%s…", i, cut(a), cut(b))
}

// =============================================================================================
// Stage C: free-running -race pass in fresh processes
// =============================================================================================

var raceFrame = regexp.MustCompile(`^\s+(github\.com/nyaruka/[^\s(]+(?:\([^)]*\))?[^\s(]*)\(`)

func stageC(c *mc.Ctx, runs int) {
	c.Fact("stageC_ran")
	exe := c.Args["race_exe"]
	combos := [][]string{{"family", "child", "old", "legacy"}, {"child", "child", "inspect", "family"}, {"legacy", "legacy", "old", "old"}, {"inspect", "family", "child", "legacy"},
		{"bcastA", "bcastB", "bcastA", "bcastB"}, {"hook", "child", "hook", "child"}, {"fn", "fn", "fn", "child"}}
	for i := 0; i < runs; i++ {
		if !c.Mine(i) {
			continue
		}
		names := combos[i%len(combos)]
		cmd := exec.Command(exe, "C09", "--args", mc.JSON(c.Args), "--single", "race:"+strings.Join(names, ","))
		cmd.Env = append(os.Environ(), "GORACE=halt_on_error=0", "GOMAXPROCS=4")
		out, _ := cmd.CombinedOutput()
		c.Inc("race_runs")
		c.Inc("evaluations")
		text := string(out)
		if !strings.Contains(text, "RACE-RUN-COMPLETE") && !strings.Contains(text, "DATA RACE") {
			c.Violation("stageC:free-running-pass-failed:"+firstWords(lastLine(text), 5), "the free-running pass did not complete:\n"+tailStr(text, 1500), map[string]any{"stage": "C", "scripts": names})
			continue
		}
		for _, block := range strings.Split(text, "WARNING: DATA RACE")[1:] {
			// signature: the first goflow frame (outside utils) of each of the two stacks
			var sites []string
			for _, stack := range strings.Split(block, "\n\n") {
				if len(sites) == 2 {
					break
				}
				if !strings.Contains(stack, " at 0x") {
					continue
				}
				site := ""
				for _, l := range strings.Split(stack, "\n") {
					if m := raceFrame.FindStringSubmatch(l); m != nil && strings.Contains(m[1], "nyaruka/goflow/") && !strings.Contains(m[1], "goflow/utils.") {
						site = m[1]
						if k := strings.LastIndex(site, "/"); k >= 0 {
							site = site[k+1:]
						}
						break
					}
				}
				if site == "" {
					site = "outside-goflow"
				}
				sites = append(sites, site)
			}
			sort.Strings(sites)
			site := strings.Join(sites, "<->")
			c.Inc("race_reports")
			c.Violation("stageC:data-race:"+site, "the Go race detector reported a data race while 4 goroutines drove sessions over shared assets:\n"+tailHead(block, 1800), map[string]any{"stage": "C", "scripts": names})
		}
	}
}

func lastLine(s string) string {
	ls := strings.Split(strings.TrimSpace(s), "\n")
	return ls[len(ls)-1]
}

func tailStr(s string, n int) string {
	if len(s) > n {
		return s[len(s)-n:]
	}
	return s
}

func tailHead(s string, n int) string {
	if len(s) > n {
		return s[:n]
	}
	return s
}

// =============================================================================================

func runConc(c *mc.Ctx) {
	doc, err := assetsDoc(c.Args["repo"])
	if err != nil {
		c.Violation("harness:assets", err.Error(), nil)
		return
	}
	b, _ := json.Marshal(doc)
	maxLen := 2
	runs := 16
	if c.Thorough() {
		maxLen = 3
		runs = 96
	}
	stageA(c, b, maxLen)
	stageB(c, b, 3)
	stageC(c, runs)
}

func replayConc(c *mc.Ctx, raw json.RawMessage) (string, bool) {
	var probe struct {
		Stage string `json:"stage"`
	}
	json.Unmarshal(raw, &probe)
	doc, err := assetsDoc(repoDir())
	if err != nil {
		return err.Error(), false
	}
	b, _ := json.Marshal(doc)
	switch probe.Stage {
	case "A":
		var rp stageAReplay
		json.Unmarshal(raw, &rp)
		ps := runSequence(c, b, rp.Ops, false)
		out := fmt.Sprintf("stage A sequence %v", rp.Ops)
		for _, p := range ps {
			out += "\nPROBLEM " + p.Key + ": " + p.What
		}
		return out, len(ps) > 0
	case "B":
		var rp stageBReplay
		json.Unmarshal(raw, &rp)
		solo := map[string]string{}
		for _, n := range ScriptNames {
			solo[n], _ = Solo(b, n)
		}
		r := runSchedule(b, rp.Scripts, mc.NewChooser(rp.Choices))
		ps := judgeSchedule(r, rp.Scripts, solo)
		out := fmt.Sprintf("stage B scripts %v schedule %v", rp.Scripts, rp.Choices)
		for _, p := range ps {
			out += "\nPROBLEM " + p.Key + ": " + p.What
		}
		return out, len(ps) > 0
	}
	return "stage C findings are re-run by ./check C09 quick (free-running sampling)", false
}
