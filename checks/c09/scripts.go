// Package c09: sessions can run concurrently over shared assets.
package c09

import (
	"io"
	"net/http"

	"encoding/json"
	"fmt"
	"github.com/nyaruka/gocommon/httpx"
	"os"
	"path/filepath"
	"strings"

	"github.com/nyaruka/gocommon/urns"
	"github.com/nyaruka/gocommon/uuids"
	"github.com/nyaruka/goflow/assets"
	"github.com/nyaruka/goflow/assets/static"
	"github.com/nyaruka/goflow/envs"
	"github.com/nyaruka/goflow/flows"
	"github.com/nyaruka/goflow/flows/engine"
	"github.com/nyaruka/goflow/flows/resumes"
	"github.com/nyaruka/goflow/flows/triggers"
	"verif/world"
)

type J = world.J

// staticHTTP answers every request with 200 and the JSON document named by the URL's body parameter
// (default {"ok": true}). It has no state, so concurrent sessions can share it.
type staticHTTP struct{}

func (staticHTTP) Do(client *http.Client, request *http.Request) (*http.Response, error) {
	body := request.URL.Query().Get("body")
	if body == "" {
		body = `{"ok": true}`
	}
	return &http.Response{
		Request: request, Status: "200 OK", StatusCode: 200, Proto: "HTTP/1.0", ProtoMajor: 1, ProtoMinor: 0,
		Header:        http.Header{"Content-Type": []string{"application/json"}},
		Body:          io.NopCloser(strings.NewReader(body)),
		ContentLength: int64(len(body)),
	}, nil
}

func init() { httpx.SetRequestor(staticHTTP{}) }

// flow indices of the shared world
const (
	fParent = 0 // enters the child, then sends a message
	fChild  = 1 // router whose tests return the shared FalseResult, then a msg wait
	fOld    = 2 // a 13.0 definition (migrated on first use)
	fLegacy = 3 // a legacy definition (migrated on first use)
	fBcast  = 4 // broadcast and session start whose fixed recipient lists have spare capacity, plus per-contact recipients
	fHook   = 5 // a webhook answering the bare JSON document true, a wait, then templates reading @webhook
)

var legacyUUID, oldUUID string

// assetsDoc builds the shared asset document; the legacy and 13.0 flows come from the repository's
// own test data.
func assetsDoc(repo string) (J, error) {
	a := world.BaseAssets()
	parent := world.Render(fParent, world.FlowSpec{Nodes: []world.Node{{Kind: "Eo", Dests: []int{1}}, {Kind: "A", Dests: []int{-1}}}}, fChild)
	parent["name"] = "Parent"
	child := world.Render(fChild, world.FlowSpec{Nodes: []world.Node{{Kind: "S", Dests: []int{1, 1}}, {Kind: "W", Dests: []int{-1, -1}}}}, fParent)
	child["name"] = "Child"
	child["localization"] = J{"fra": J{world.UUID("f1.n1.c0"): J{"name": []any{"Oui"}}, world.UUID("f1.n1.c1"): J{"name": []any{"Autre"}}}}
	// the S node's test has_any_word on an empty input returns the shared FalseResult
	flowsList := []any{parent, child}
	for _, f := range []string{"webhook_migrated.json", "legacy_timeout.json"} {
		b, err := os.ReadFile(filepath.Join(repo, "test/testdata/runner", f))
		if err != nil {
			return nil, err
		}
		var doc struct {
			Flows []J `json:"flows"`
		}
		if err := json.Unmarshal(b, &doc); err != nil {
			return nil, err
		}
		fl := doc.Flows[0]
		if u, ok := fl["uuid"].(string); ok {
			oldUUID = u
		} else if md, ok := fl["metadata"].(map[string]any); ok {
			legacyUUID, _ = md["uuid"].(string)
		}
		flowsList = append(flowsList, fl)
	}
	// recipients: fixed lists of three (a decoded list of three has room for a fourth) and variables that
	// evaluate, per contact, to a contact UUID and a URN
	u := func(s string) string { return world.UUID("c09." + s) }
	refs := []any{J{"uuid": u("r1"), "name": "R1"}, J{"uuid": u("r2"), "name": "R2"}, J{"uuid": u("r3"), "name": "R3"}}
	fixedURNs := []any{"tel:+12065550001", "tel:+12065550002", "tel:+12065550003"}
	bcast := J{"uuid": world.FlowUUID(fBcast), "name": "Broadcast", "spec_version": "13.5.0", "language": "eng", "type": "messaging", "nodes": []any{
		J{"uuid": world.NodeUUID(fBcast, 0), "actions": []any{
			J{"uuid": u("a.bc"), "type": "send_broadcast", "text": "hello", "contacts": refs, "urns": fixedURNs, "legacy_vars": []any{"@contact.uuid", "@urns.tel"}},
			J{"uuid": u("a.ss"), "type": "start_session", "flow": J{"uuid": world.FlowUUID(fChild), "name": "Child"}, "contacts": refs, "urns": fixedURNs, "legacy_vars": []any{"@contact.uuid", "@urns.tel"}},
		}, "exits": []any{J{"uuid": world.ExitUUID(fBcast, 0, 0)}}},
	}}
	hook := J{"uuid": world.FlowUUID(fHook), "name": "Hook", "spec_version": "13.5.0", "language": "eng", "type": "messaging", "nodes": []any{
		J{"uuid": world.NodeUUID(fHook, 0), "actions": []any{
			J{"uuid": u("a.wh"), "type": "call_webhook", "method": "GET", "url": "http://example.com/flag?body=true", "result_name": "flag"},
		}, "exits": []any{J{"uuid": world.ExitUUID(fHook, 0, 0), "destination_uuid": world.NodeUUID(fHook, 1)}}},
		world.Render(fHook, world.FlowSpec{Nodes: []world.Node{{Kind: "N", Dests: []int{1}}, {Kind: "W", Dests: []int{2, 2}}, {Kind: "N", Dests: []int{-1}}}}, 0)["nodes"].([]any)[1],
		J{"uuid": world.NodeUUID(fHook, 2), "actions": []any{
			J{"uuid": u("a.use"), "type": "send_msg", "text": "@webhook.json | @webhook | @(json(webhook)) | @results.flag.extra"},
		}, "exits": []any{J{"uuid": world.ExitUUID(fHook, 2, 0)}}},
	}}
	flowsList = append(flowsList, bcast, hook)
	a["flows"] = flowsList
	// query-based groups, re-evaluated by every session against the shared parsed queries: a calendar-day
	// condition (whose meaning depends on the evaluating session's timezone), a number, a text, a URN
	// and a location condition
	a["groups"] = append(a["groups"].([]any),
		J{"uuid": u("g.day"), "name": "Joined That Day", "query": `joined = "2024-06-15"`},
		J{"uuid": u("g.after"), "name": "Joined Later", "query": `joined > "2024-06-15" OR created_on < "2020-01-01"`},
		J{"uuid": u("g.age"), "name": "Adults", "query": `age >= 18 AND gender = "F"`},
		J{"uuid": u("g.name"), "name": "Contacts", "query": `name ~ "Contact" OR tel ~ "7001"`},
		J{"uuid": u("g.loc"), "name": "Gasabo", "query": `district = "Gasabo"`},
	)
	// two districts of the same name under different states: a lookup by name and parent filters a
	// shared list of candidates
	a["locations"] = []any{
		J{"name": "Rwanda", "children": []any{
			J{"name": "Kigali City", "children": []any{J{"name": "Gasabo", "children": []any{J{"name": "Ndera"}}}, J{"name": "Nyarugenge", "children": []any{}}}},
			J{"name": "Eastern Province", "children": []any{J{"name": "Gasabo", "aliases": []any{"Gasabo East"}, "children": []any{J{"name": "Rukara"}}}, J{"name": "Kayonza", "children": []any{}}}},
		}},
	}
	return a, nil
}

func flowUUID(i int) assets.FlowUUID {
	switch i {
	case fOld:
		return assets.FlowUUID(oldUUID)
	case fLegacy:
		return assets.FlowUUID(legacyUUID)
	}
	return assets.FlowUUID(world.FlowUUID(i))
}

// Op is one operation of a session script.
//
//	start:<flow>   start a session of its own on the flow
//	resume         resume the thread's session with a message
//	restore        marshal the session and read it back
//	inspect:<flow> load and inspect a flow
//	eval           evaluate templates in the session's context (router tests, lazy objects)
//	find:<name>    look a flow up by name
//	evalfn         evaluate one call of many built-in functions and router tests
//	chlang:<flow>  change the language of a flow (must work on a copy)
type Op string

// Scripts is the menu of per-thread scripts.
var Scripts = map[string][]Op{
	"family":  {"start:0", "resume", "restore"},
	"child":   {"start:1", "eval", "resume"},
	"old":     {"start:2", "inspect:2"},
	"legacy":  {"inspect:3", "start:3"},
	"inspect": {"inspect:0", "find:child", "chlang:1", "inspect:1"},
	"bcastA":  {"start:4:A", "dump"},
	"bcastB":  {"start:4:B", "dump"},
	"hook":    {"start:5", "restore", "resume", "eval"},
	"fn":      {"start:1", "evalfn"},
}

var ScriptNames = []string{"family", "child", "old", "legacy", "inspect", "bcastA", "bcastB", "hook", "fn"}

// CoreScripts are combined with each other in every way; the others only in ExtraPairs (quick tier)
// and with everything in the thorough tier.
var CoreScripts = []string{"family", "child", "old", "legacy", "inspect"}
var ExtraPairs = [][]string{{"bcastA", "bcastB"}, {"hook", "child"}, {"hook", "hook"}, {"fn", "fn"}}

// hookedSource wraps the static source; Yield is called inside FlowByUUID, which the flow cache
// calls while holding its lock - a scheduling point inside the critical section.
type hookedSource struct {
	assets.Source
	Yield func(what string)
}

func (s *hookedSource) FlowByUUID(u assets.FlowUUID) (assets.Flow, error) {
	if s.Yield != nil {
		s.Yield("source.FlowByUUID")
	}
	return s.Source.FlowByUUID(u)
}

func (s *hookedSource) FlowByName(n string) (assets.Flow, error) {
	if s.Yield != nil {
		s.Yield("source.FlowByName")
	}
	return s.Source.FlowByName(n)
}

// newAssets builds cold SessionAssets over the shared document.
func newAssets(doc []byte, yield func(string)) (flows.SessionAssets, error) {
	src, err := static.NewSource(doc)
	if err != nil {
		return nil, err
	}
	return engine.NewSessionAssets(envs.NewBuilder().Build(), &hookedSource{Source: src, Yield: yield}, nil)
}

// Thread is one session script in execution.
type Thread struct {
	Name    string
	Ops     []Op
	Out     strings.Builder
	session flows.Session
	held    []flows.Event
}

// Step executes the thread's i-th operation against the shared assets.
func (t *Thread) Step(i int, sa flows.SessionAssets, eng flows.Engine) {
	op := string(t.Ops[i])
	arg := ""
	if j := strings.Index(op, ":"); j >= 0 {
		op, arg = op[:j], op[j+1:]
	}
	w := func(format string, a ...any) { fmt.Fprintf(&t.Out, format+"\n", a...) }
	switch op {
	case "start":
		var fi int
		who := ""
		if j := strings.Index(arg, ":"); j >= 0 {
			arg, who = arg[:j], arg[j+1:]
		}
		fmt.Sscanf(arg, "%d", &fi)
		fl, err := sa.Flows().Get(flowUUID(fi))
		if err != nil {
			w("start %s: load error %v", arg, err)
			return
		}
		cdoc := world.DefaultContact()
		// an instant that falls on different calendar days in the two contacts' timezones
		cdoc["fields"] = J{"gender": J{"text": "F"}, "age": J{"text": "30", "number": 30}, "joined": J{"text": "2024-06-15T20:00:00Z", "datetime": "2024-06-15T20:00:00.000000Z"}}
		if who != "" {
			// a contact of the thread's own: what is resolved per contact differs between threads
			cdoc["uuid"] = world.UUID("c09.contact." + who)
			cdoc["name"] = "Contact " + who
			cdoc["urns"] = []any{map[string]string{"A": "tel:+12065557001", "B": "tel:+12065557002"}[who]}
			cdoc["timezone"] = map[string]string{"A": "Asia/Tokyo", "B": "America/Los_Angeles"}[who]
		}
		cj, _ := json.Marshal(cdoc)
		contact, err := flows.ReadContact(sa, cj, assets.IgnoreMissing)
		if err != nil {
			w("contact error %v", err)
			return
		}
		ej, _ := json.Marshal(world.DefaultEnv())
		env, _ := envs.ReadEnvironment(ej)
		trig := triggers.NewBuilder(env, fl.Reference(false), contact).Manual().Build()
		s, sp, err := eng.NewSession(sa, trig)
		if err != nil {
			w("start %s: error %v", arg, err)
			return
		}
		t.session = s
		t.held = sp.Events()
		eb, _ := json.Marshal(sp.Events())
		w("start %s: status=%s events=%s", arg, s.Status(), eb)
	case "dump":
		// events the engine handed back earlier are serialized again later: they must not have changed
		eb, _ := json.Marshal(t.held)
		w("dump: %s", eb)
	case "resume":
		if t.session == nil || t.session.Status() != flows.SessionStatusWaiting {
			w("resume: not waiting")
			return
		}
		msg := flows.NewMsgIn(flows.MsgUUID(uuids.NewV4()), urns.URN("tel:+12065551212"), nil, "a b", nil)
		sp, err := t.session.Resume(resumes.NewMsg(nil, nil, msg))
		if err != nil {
			w("resume: error %v", err)
			return
		}
		eb, _ := json.Marshal(sp.Events())
		w("resume: status=%s events=%s", t.session.Status(), eb)
	case "restore":
		if t.session == nil {
			w("restore: no session")
			return
		}
		b, err := json.Marshal(t.session)
		if err != nil {
			w("restore: marshal error %v", err)
			return
		}
		s, err := eng.ReadSession(sa, b, assets.IgnoreMissing)
		if err != nil {
			w("restore: read error %v", err)
			return
		}
		t.session = s
		w("restore: %s", b)
	case "inspect":
		var fi int
		fmt.Sscanf(arg, "%d", &fi)
		fl, err := sa.Flows().Get(flowUUID(fi))
		if err != nil {
			w("inspect %s: load error %v", arg, err)
			return
		}
		b, _ := json.Marshal(fl.Inspect(sa))
		w("inspect %s: %s templates=%d", arg, b, len(fl.ExtractTemplates()))
	case "eval":
		if t.session == nil {
			w("eval: no session")
			return
		}
		ctx := t.session.CurrentContext()
		if ctx == nil {
			w("eval: no context")
			return
		}
		for _, tpl := range []string{`@(has_district("Gasabo", "Eastern Province").match)`, `@(has_district("Gasabo", "Kigali City").match)`, `@(has_ward("Rukara", "Gasabo", "Eastern Province").match)`, `@(has_state("Kigali City").match)`, `@(has_text(""))`, `@(has_text("").match)`, `@(json(object()))`, `@(if(has_number("x"), 1, 2))`, `@contact.name @results @(json(run))`, `@(count(array()))`, `@(parse_json("true"))`, `@(parse_json("[true, false]")[1])`, `@(json(parse_json("{\"a\": true}").a))`} {
			v, _, err := eng.Evaluator().Template(t.session.MergedEnvironment(), ctx, tpl, nil)
			w("eval %s -> %s %v", tpl, v, err)
		}
	case "evalfn":
		// one call of many built-in functions and router tests (shared state behind a function shows here)
		if t.session == nil {
			w("evalfn: no session")
			return
		}
		ctx := t.session.CurrentContext()
		if ctx == nil {
			w("evalfn: no context")
			return
		}
		for _, tpl := range []string{
			`@(title("ann o'neil-smith")) @(upper("abc")) @(lower("ABC")) @(format_number(1234.5)) @(format_datetime("2020-01-02T03:04:05Z")) @(format_location("Rwanda > Kigali City"))`,
			`@(has_number("it is 1,234.5").match) @(has_number_between("12", 10, 20).match) @(has_phone("206 555 1212").match) @(has_email("a@b.co").match) @(has_pattern("abc", "b+").match)`,
			`@(regex_match("abc123", "\\d+")) @(url_encode("a b")) @(clean("a\tb")) @(word_slice("a b c", 1)) @(remove_first_word("a b")) @(split("a,b", ",")) @(join(array("a", "b"), "-")) @(text_compare("a", "b")) @(percent(0.5)) @(epoch("2020-01-02T03:04:05Z")) @(datetime_add("2020-01-02", 1, "D")) @(legacy_add("2020-01-02", 1)) @(round(1.55, 1)) @(extract(contact, "name")) @(foreach(array("a", "b"), upper)) @(sort(array(3, 1, 2))) @(unique(array(1, 1)))`,
		} {
			v, _, err := eng.Evaluator().Template(t.session.MergedEnvironment(), ctx, tpl, nil)
			w("evalfn %s -> %s %v", tpl, v, err)
		}
	case "chlang":
		var fi int
		fmt.Sscanf(arg, "%d", &fi)
		fl, err := sa.Flows().Get(flowUUID(fi))
		if err != nil {
			w("chlang %s: load error %v", arg, err)
			return
		}
		cl, err := fl.ChangeLanguage("fra")
		if err != nil {
			w("chlang %s: %v", arg, err)
			return
		}
		b, _ := json.Marshal(cl)
		w("chlang %s: %s", arg, b)
	case "find":
		fl, err := sa.Flows().FindByName(arg)
		if err != nil {
			w("find %s: %v", arg, err)
			return
		}
		w("find %s -> %s", arg, fl.UUID())
	default:
		panic("unknown op " + op)
	}
}

// Output is the thread's canonical output (UUIDs and timestamps renamed).
func (t *Thread) Output() string { return world.Canon([]byte(t.Out.String())) }

func newThread(name string) *Thread { return &Thread{Name: name, Ops: Scripts[name]} }

// Solo runs one script alone on cold assets and returns its canonical output.
func Solo(doc []byte, name string) (string, error) {
	world.Reset()
	sa, err := newAssets(doc, nil)
	if err != nil {
		return "", err
	}
	eng := world.NewEngine(world.Options{})
	t := newThread(name)
	for i := range t.Ops {
		t.Step(i, sa, eng)
	}
	return t.Output(), nil
}
