// Package c09: (not built yet)
package c09
