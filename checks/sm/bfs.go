// Package sm is the explicit-state search over the real session state machine shared by the
// engine-level checks: a state is the event history that reaches it (live objects do not copy), a
// successor is built by replaying the history on fresh real objects plus one event, states are
// deduplicated on a canonical key, and a visitor evaluates the property's oracle on every
// transition.
package sm

import (
	"crypto/sha1"
	"encoding/json"
	"errors"
	"fmt"
	"sort"
	"strings"

	"github.com/nyaruka/goflow/flows"
	"github.com/nyaruka/goflow/flows/engine"
	"verif/mc"
	"verif/world"
)

// Cfg bounds one search.
type Cfg struct {
	Depth       int      // maximum number of resumes in a history
	Events      []string // resume menu
	Regimes     []bool   // restart-before-every-resume flags to explore (false = live object kept)
	ChoiceBound int      // deviation bound for environment answers (random draws, HTTP) per transition
	// Visit is called for every executed transition (before deduplication). Returning false prunes
	// the successors of the state.
	Visit func(t *Trans) bool
	// ExpandFinal makes the search also apply every event to non-waiting states (rejected resumes).
	ExpandFinal bool
	// Key overrides the canonical state key.
	Key func(t *Trans) string
	// OnNewState is called once for every distinct state (after deduplication).
	OnNewState func(t *Trans)
	// Ctx, when set, makes the search of this root a "risky case": if an engine call never returns or
	// kills the process, the driver attributes it to this root, confirms it by searching the root
	// alone (Single) and continues without it.
	Ctx *mc.Ctx
	// MaxTransitions, when > 0, bounds the transitions executed below one root in one regime. The
	// frontier is first-in first-out, so when the bound is reached every history shorter than the one
	// being expanded has been explored; Stats.Truncated / CompleteDepth say so and the caller reports
	// a cap. (A root with random routers in a cycle has ~8^depth states under a deviation bound of 2.)
	MaxTransitions int
}

// riskyDesc is what is recorded for a root under search.
type riskyDesc struct {
	Root    *world.Root `json:"root"`
	Depth   int         `json:"depth"`
	Events  []string    `json:"events"`
	Regimes []bool      `json:"regimes"`
	Bound   int         `json:"bound"`
}

// Single re-runs the search of one root alone, without oracles (used to confirm a hang or crash).
func Single(c *mc.Ctx, desc string) string {
	var d riskyDesc
	if err := json.Unmarshal([]byte(desc), &d); err != nil || d.Root == nil {
		return "bad desc"
	}
	st := Search(d.Root, Cfg{Ctx: c, Depth: d.Depth, Events: d.Events, Regimes: d.Regimes, ChoiceBound: d.Bound})
	return fmt.Sprintf("search of the root returned: %d states", st.States)
}

// DescribeRisky renders a risky desc for messages and gives the set of node kinds of its flows.
func DescribeRisky(desc string) (text string, kinds string) {
	var d riskyDesc
	if err := json.Unmarshal([]byte(desc), &d); err != nil || d.Root == nil {
		return desc, "unknown"
	}
	text = fmt.Sprintf("trigger=%s opt=%+v", d.Root.Trigger, d.Root.Opt)
	set := map[string]bool{}
	if d.Root.Flows != nil {
		text = "flows: " + d.Root.Flows.String() + " " + text
		for _, f := range d.Root.Flows.Flows {
			for _, n := range f.Nodes {
				set[n.Kind] = true
			}
		}
	}
	var ks []string
	for k := range set {
		ks = append(ks, k)
	}
	sort.Strings(ks)
	return text, strings.Join(ks, "+")
}

// SkipHangs is the Classify hook of checks for which a non-returning engine call is not their
// property's subject (C05 owns it): the root is skipped and reported as a cap.
func SkipHangs(desc, output string, hang bool) (string, string) {
	text, _ := DescribeRisky(desc)
	what := "an engine call crashed the worker process"
	if hang {
		what = "an engine call did not return"
	}
	return "", what + " while searching a root, which was skipped (termination is C05's subject): " + text
}

// Trans is one executed transition: the history, the live execution after its last call, and what
// the harness captured just before that call.
type Trans struct {
	Root       *world.Root
	Hist       []world.Step
	X          *world.Exec
	Regime     bool
	BeforeJSON []byte                // session JSON before the last call (nil for the start)
	PrevEvents map[flows.RunUUID]int // number of events per run before the last call
	PrevSteps  map[flows.RunUUID]int // number of steps per run before the last call
	PrevStatus map[flows.RunUUID]flows.RunStatus
	AfterJSON  []byte // session JSON after the last call
	HarnessErr error  // the harness itself failed (assets, marshal, read)
	Panic      string // the last call panicked
}

// Stats are the counts a search reports.
type Stats struct {
	States, Transitions, Execs, MaxDepth, Waiting, Completed, Failed, GoErrors int
	MaxSprintSteps                                                             int // largest number of new steps (across runs) in one sprint
	// Truncated: MaxTransitions was reached in some regime; CompleteDepth is the largest depth d such
	// that every history of at most d resumes was explored in every regime.
	Truncated     bool
	CompleteDepth int
}

// NewSteps is the number of steps created by the last call, across all runs.
func (t *Trans) NewSteps() int {
	if t.X == nil || t.X.Session == nil {
		return 0
	}
	n := 0
	for _, r := range t.X.Session.Runs() {
		n += len(r.Path()) - t.PrevSteps[r.UUID()]
	}
	return n
}

// Replay executes root+hist, capturing the before-snapshot ahead of the last call.
func Replay(root *world.Root, hist []world.Step) *Trans {
	t := &Trans{Root: root, Hist: hist}
	var x *world.Exec
	capture := func() {
		t.PrevEvents = map[flows.RunUUID]int{}
		t.PrevSteps = map[flows.RunUUID]int{}
		t.PrevStatus = map[flows.RunUUID]flows.RunStatus{}
		if x != nil && x.Session != nil {
			for _, r := range x.Session.Runs() {
				t.PrevEvents[r.UUID()] = len(r.Events())
				t.PrevSteps[r.UUID()] = len(r.Path())
				t.PrevStatus[r.UUID()] = r.Status()
			}
			t.BeforeJSON, _ = json.Marshal(x.Session)
		}
	}
	t.Panic = mc.Guard(func() {
		var err error
		if len(hist) == 1 {
			capture()
		}
		x, err = root.Start(hist[0])
		t.X = x
		if err != nil {
			t.HarnessErr = err
			return
		}
		for i, st := range hist[1:] {
			if x.Err != nil {
				// a rejected resume (engine error) leaves the session resumable; anything else ends the history
				var ee *engine.Error
				if !errors.As(x.Err, &ee) {
					t.HarnessErr = fmt.Errorf("history continues after a Go error: %v", x.Err)
					return
				}
			}
			if i == len(hist)-2 {
				if st.Restart {
					// restart first so that the before-snapshot is of the object actually resumed
					if err := x.Restart(); err != nil {
						t.HarnessErr = err
						return
					}
					st.Restart = false
				}
				capture()
			}
			if err := x.Apply(st); err != nil {
				t.HarnessErr = err
				return
			}
		}
	})
	if t.Panic == "" && t.HarnessErr == nil && x != nil && x.Session != nil {
		t.AfterJSON, _ = json.Marshal(x.Session)
	}
	return t
}

// DefaultKey is the canonical state key: canonical session JSON plus, for the live regime, the
// transient fields observable through the API.
func DefaultKey(t *Trans) string {
	k := world.Canon(t.AfterJSON)
	if !t.Regime {
		s := t.X.Session
		k += fmt.Sprintf("|batch=%v|parent=%v", s.BatchStart(), s.ParentRun() != nil)
		for _, r := range s.Runs() {
			if r.Webhook() != nil {
				k += "|wh"
			} else {
				k += "|-"
			}
		}
	}
	return k
}

// Search explores all histories of one root up to cfg.Depth for each regime.
func Search(root *world.Root, cfg Cfg) Stats {
	var st Stats
	if cfg.Ctx != nil {
		db, _ := json.Marshal(riskyDesc{Root: root, Depth: cfg.Depth, Events: cfg.Events, Regimes: cfg.Regimes, Bound: cfg.ChoiceBound})
		if !cfg.Ctx.Risky(string(db)) {
			return st
		}
		defer cfg.Ctx.Done()
	}
	keyf := cfg.Key
	if keyf == nil {
		keyf = DefaultKey
	}
	st.CompleteDepth = cfg.Depth
	for _, regime := range cfg.Regimes {
		// states are remembered by a 160-bit digest of their canonical key (the keys are whole session
		// documents; a root with 10^6 states would otherwise need gigabytes)
		seen := map[[sha1.Size]byte]bool{}
		regimeTransitions := 0
		type item struct{ hist []world.Step }
		frontier := []item{}
		// the start, under every choice sequence within the bound
		expand := func(base []world.Step, ev string, isStart bool) {
			mc.Explore(cfg.ChoiceBound, 0, func(c *mc.Chooser) {
				var hist []world.Step
				if isStart {
					hist = []world.Step{{Choices: c.Prefix}}
				} else {
					hist = append(append([]world.Step{}, base...), world.Step{Ev: ev, Restart: regime, Choices: c.Prefix})
				}
				t := Replay(root, hist)
				if cfg.Ctx != nil {
					cfg.Ctx.Tick() // the watchdog times one transition, not the whole search below this root
				}
				t.Regime = regime
				st.Execs += len(hist)
				st.Transitions++
				regimeTransitions++
				if len(hist)-1 > st.MaxDepth {
					st.MaxDepth = len(hist) - 1
				}
				// report the choices actually taken so that the chooser can branch
				if t.X != nil && t.X.Chooser != nil {
					c.Taken, c.Ns, c.Labels = t.X.Chooser.Taken, t.X.Chooser.Ns, t.X.Chooser.Labels
					hist[len(hist)-1].Choices = t.X.Chooser.Taken
				}
				cont := true
				if cfg.Visit != nil {
					cont = cfg.Visit(t)
				}
				if t.Panic != "" || t.HarnessErr != nil || t.X == nil || t.X.Session == nil {
					return
				}
				if t.X.Err != nil {
					st.GoErrors++
					return
				}
				if n := t.NewSteps(); n > st.MaxSprintSteps {
					st.MaxSprintSteps = n
				}
				k := sha1.Sum([]byte(keyf(t)))
				if seen[k] {
					return
				}
				seen[k] = true
				st.States++
				switch t.X.Session.Status() {
				case flows.SessionStatusWaiting:
					st.Waiting++
				case flows.SessionStatusCompleted:
					st.Completed++
				case flows.SessionStatusFailed:
					st.Failed++
				}
				if cfg.OnNewState != nil {
					cfg.OnNewState(t)
				}
				if !cont {
					return
				}
				if len(hist)-1 < cfg.Depth && (t.X.Session.Status() == flows.SessionStatusWaiting || cfg.ExpandFinal) {
					frontier = append(frontier, item{hist})
				}
			})
		}
		expand(nil, "", true)
		for len(frontier) > 0 {
			it := frontier[0]
			frontier = frontier[1:]
			if cfg.MaxTransitions > 0 && regimeTransitions >= cfg.MaxTransitions {
				// it.hist has len-1 resumes: every history with fewer resumes than its successors was explored
				st.Truncated = true
				if d := len(it.hist) - 1; d < st.CompleteDepth {
					st.CompleteDepth = d
				}
				break
			}
			for _, ev := range cfg.Events {
				expand(it.hist, ev, false)
			}
		}
	}
	return st
}
