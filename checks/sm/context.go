package sm

import (
	"fmt"
	"sort"
	"strings"

	"github.com/nyaruka/goflow/envs"
	"github.com/nyaruka/goflow/excellent/types"
)

// ContextLeaf is one fully forced leaf (or default rendering) of the expression context.
type ContextLeaf struct {
	Path  string
	Value string
}

// WalkContext forces the whole expression context tree: every property of every object (including
// deprecated ones and defaults), every element of every (lazy) array, rendered with Render and
// Format. Paths listed in skip (e.g. "webhook", "legacy_extra") are not descended into.
func WalkContext(env envs.Environment, root *types.XObject, skip map[string]bool, maxDepth int) []ContextLeaf {
	var out []ContextLeaf
	var walk func(path string, v types.XValue, depth int)
	walk = func(path string, v types.XValue, depth int) {
		if skip[path] {
			return
		}
		if types.IsNil(v) {
			out = append(out, ContextLeaf{path, "nil"})
			return
		}
		switch t := v.(type) {
		case *types.XObject:
			if depth >= maxDepth {
				out = append(out, ContextLeaf{path, "object:" + t.Render()})
				return
			}
			covered := false // the object's own rendering would include a skipped descendant
			for sp := range skip {
				if strings.HasPrefix(sp, path+".") {
					covered = true
				}
			}
			if !covered {
				out = append(out, ContextLeaf{path + ".__render__", t.Render() + "|" + t.Format(env)})
			}
			if d := t.Default(); d != t && d != nil {
				out = append(out, ContextLeaf{path + ".__default__", types.Render(d)})
			}
			props := t.Properties()
			sort.Strings(props)
			for _, p := range props {
				pv, _ := t.Get(p)
				walk(path+"."+p, pv, depth+1)
			}
		case *types.XArray:
			out = append(out, ContextLeaf{path + ".__count__", fmt.Sprint(t.Count())})
			if depth >= maxDepth {
				out = append(out, ContextLeaf{path, "array:" + t.Render()})
				return
			}
			for i := 0; i < t.Count(); i++ {
				walk(fmt.Sprintf("%s[%d]", path, i), t.Get(i), depth+1)
			}
		default:
			out = append(out, ContextLeaf{path, types.Describe(v) + ":" + types.Render(v) + "|" + types.Format(env, v)})
		}
	}
	walk("", root, 0)
	return out
}

// DumpContext renders the walk as one string.
func DumpContext(env envs.Environment, root *types.XObject, skip map[string]bool, maxDepth int) string {
	if root == nil {
		return "<no context>"
	}
	var sb strings.Builder
	for _, l := range WalkContext(env, root, skip, maxDepth) {
		sb.WriteString(l.Path)
		sb.WriteString("=")
		sb.WriteString(l.Value)
		sb.WriteString("\n")
	}
	return sb.String()
}
