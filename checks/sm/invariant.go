package sm

import (
	"fmt"
	"strings"

	"github.com/nyaruka/goflow/flows"
	"github.com/nyaruka/goflow/flows/events"
)

// Problem is one violated clause with its signature key.
type Problem struct {
	Key  string
	What string
}

// firstWords makes a short slug of the first n words of a text (for signature keys).
func firstWords(s string, n int) string {
	f := strings.Fields(s)
	if len(f) > n {
		f = f[:n]
	}
	for i, w := range f {
		w = strings.ToLower(w)
		w = strings.Map(func(r rune) rune {
			if (r >= 'a' && r <= 'z') || (r >= '0' && r <= '9') {
				return r
			}
			return -1
		}, w)
		f[i] = w
	}
	return strings.Join(f, "-")
}

// CheckInvariant evaluates the C01 well-formedness clauses on the session after a call that
// returned nil error.
func CheckInvariant(t *Trans) []Problem {
	var ps []Problem
	add := func(key, what string, args ...any) {
		ps = append(ps, Problem{key, fmt.Sprintf(what, args...)})
	}
	s := t.X.Session
	runs := s.Runs()

	// (1) session status
	switch s.Status() {
	case flows.SessionStatusWaiting, flows.SessionStatusCompleted, flows.SessionStatusFailed:
	default:
		add("status:session-still-"+string(s.Status()), "session status is %q after the call returned", s.Status())
	}

	// (2) waiting <=> exactly one waiting run, on a node with a wait, all active runs its ancestors
	var waiting []flows.Run
	var active []flows.Run
	for _, r := range runs {
		switch r.Status() {
		case flows.RunStatusWaiting:
			waiting = append(waiting, r)
		case flows.RunStatusActive:
			active = append(active, r)
		}
	}
	if s.Status() == flows.SessionStatusWaiting {
		if len(waiting) != 1 {
			add(fmt.Sprintf("waiting:session-waiting-with-%d-waiting-runs", len(waiting)), "session is waiting but %d runs are waiting", len(waiting))
		} else {
			w := waiting[0]
			path := w.Path()
			if len(path) == 0 {
				add("waiting:waiting-run-has-no-steps", "waiting run has an empty path")
			} else if w.Flow() != nil {
				last := path[len(path)-1]
				node := w.Flow().GetNode(last.NodeUUID())
				if node == nil {
					add("waiting:waiting-step-node-missing", "waiting run's last step is on a node that is not in its flow")
				} else if node.Router() == nil || node.Router().Wait() == nil {
					add("waiting:waiting-on-node-without-wait", "waiting run's last step is on a node without a wait")
				}
				if last.ExitUUID() != "" {
					add("waiting:waiting-step-has-exit", "waiting run's last step already has an exit")
				}
			}
			anc := map[flows.RunUUID]bool{}
			for p := w.ParentInSession(); p != nil; p = p.ParentInSession() {
				if anc[p.UUID()] {
					break
				}
				anc[p.UUID()] = true
			}
			for _, a := range active {
				if !anc[a.UUID()] {
					add("waiting:active-run-not-ancestor-of-waiting-run", "run %s is active but is not an ancestor of the waiting run", a.UUID())
				}
			}
		}
	} else {
		if len(waiting) > 0 {
			add("final:run-waiting-in-"+string(s.Status())+"-session", "%d runs waiting though session is %s", len(waiting), s.Status())
		}
		if len(active) > 0 {
			add("final:run-active-in-"+string(s.Status())+"-session", "%d runs active though session is %s", len(active), s.Status())
		}
	}

	for ri, r := range runs {
		// (4) exited_on <=> completed|failed|expired
		exited := r.Status() == flows.RunStatusCompleted || r.Status() == flows.RunStatusFailed || r.Status() == flows.RunStatusExpired
		switch r.Status() {
		case flows.RunStatusActive, flows.RunStatusWaiting, flows.RunStatusCompleted, flows.RunStatusFailed, flows.RunStatusExpired:
		default:
			add("run:unknown-status-"+string(r.Status()), "run %d has status %q", ri, r.Status())
		}
		if exited != (r.ExitedOn() != nil) {
			add(fmt.Sprintf("exited-on:status-%s-exited-on-set-%v", r.Status(), r.ExitedOn() != nil), "run %d has status %s but exited_on set=%v", ri, r.Status(), r.ExitedOn() != nil)
		}

		// (3) the path is a walk in the flow's graph
		path := r.Path()
		if r.Flow() != nil {
			for i, st := range path {
				node := r.Flow().GetNode(st.NodeUUID())
				if node == nil {
					add("path:step-node-not-in-flow", "run %d step %d is on node %s which is not in its flow", ri, i, st.NodeUUID())
					continue
				}
				if st.ExitUUID() == "" {
					if i != len(path)-1 {
						add("path:inner-step-without-exit", "run %d step %d of %d has no exit", ri, i, len(path))
					}
					continue
				}
				var exit flows.Exit
				for _, e := range node.Exits() {
					if e.UUID() == st.ExitUUID() {
						exit = e
					}
				}
				if exit == nil {
					add("path:exit-not-of-step-node", "run %d step %d left by exit %s which does not belong to its node", ri, i, st.ExitUUID())
					continue
				}
				if i < len(path)-1 && exit.DestinationUUID() != path[i+1].NodeUUID() {
					add("path:exit-destination-not-next-node", "run %d step %d exit leads to %q but next step is on %q", ri, i, exit.DestinationUUID(), path[i+1].NodeUUID())
				}
			}
		}

		// (5) events of this sprint name steps of this run and appear in the sprint in order
		steps := map[flows.StepUUID]bool{}
		for _, st := range path {
			steps[st.UUID()] = true
		}
		evs := r.Events()
		prev := t.PrevEvents[r.UUID()]
		if prev > len(evs) {
			add("events:run-lost-events", "run %d had %d events before the call and has %d after", ri, prev, len(evs))
			prev = len(evs)
		}
		var sprintEvents []flows.Event
		if t.X.Sprint != nil {
			sprintEvents = t.X.Sprint.Events()
		}
		pos := 0
		for _, e := range evs[prev:] {
			if e.StepUUID() != "" && !steps[e.StepUUID()] {
				owner := "nobody"
				if or, _ := s.FindStep(e.StepUUID()); or != nil {
					owner = "another-run"
					if or == r.ParentInSession() {
						owner = "parent-run"
					}
				}
				detail := ""
				if f, ok := e.(*events.FailureEvent); ok {
					detail = ":" + firstWords(f.Text, 6)
				} else if f, ok := e.(*events.ErrorEvent); ok {
					detail = ":" + firstWords(f.Text, 6)
				}
				add(fmt.Sprintf("events:event-names-step-of-%s:%s%s:run-steps=%d", owner, e.Type(), detail, min(len(path), 1)),
					"run %d (%d steps) logged a %s event naming step %s which belongs to %s", ri, len(path), e.Type(), e.StepUUID(), owner)
			}
			found := false
			for pos < len(sprintEvents) {
				if sprintEvents[pos] == e {
					found = true
					pos++
					break
				}
				pos++
			}
			if !found {
				add("events:run-event-missing-or-out-of-order-in-sprint:"+e.Type(), "run %d logged a %s event which is not in the sprint's event list in the same relative order", ri, e.Type())
				break
			}
		}
	}
	return ps
}
