package c15

import (
	"encoding/json"
	"fmt"
	"strings"
	"sync"
	"time"

	"github.com/nyaruka/goflow/assets"
	"github.com/nyaruka/goflow/assets/static"
	"github.com/nyaruka/goflow/contactql"
	"github.com/nyaruka/goflow/envs"
	"github.com/nyaruka/goflow/flows"
	"github.com/nyaruka/goflow/flows/engine"
)

// The closed world of C15: one asset set (a field of every type, text fields whose key is also the
// name of a contact attribute - name, language, tickets - or a URN scheme - twitter -, a plain group,
// query based groups, a flow, a topic) whose real SessionAssets object is the resolver of every
// query and the asset source of every contact, so that queries are validated and contacts are typed
// by the same definitions as in the engine.
const assetsJSON = `{
 "channels": [
  {"uuid":"57f1078f-88aa-46f4-a59a-948a5739c03d","name":"Tel","address":"+12065550000","schemes":["tel"],"roles":["send","receive"],"country":"US"}
 ],
 "fields": [
  {"uuid":"d66a7823-eada-40e5-9a3a-57239d4690bf","key":"gender","name":"Gender","type":"text"},
  {"uuid":"f1b5aea6-6586-41c7-9020-1a6326cc6565","key":"age","name":"Age","type":"number"},
  {"uuid":"6c86d5ab-3fd9-4a5c-a5b6-48168b016747","key":"joined","name":"Joined","type":"datetime"},
  {"uuid":"c88d2640-d124-438a-b666-5ec53a353dcd","key":"state","name":"State","type":"state"},
  {"uuid":"3bfc3908-a402-48ea-841c-b73b5ef3a254","key":"district","name":"District","type":"district"},
  {"uuid":"e9e738ce-617d-4c61-bfce-3d3b55cfe3dd","key":"ward","name":"Ward","type":"ward"},
  {"uuid":"0a1b2c3d-0001-4e5f-8a9b-000000000001","key":"name","name":"Field called name","type":"text"},
  {"uuid":"0a1b2c3d-0002-4e5f-8a9b-000000000002","key":"language","name":"Field called language","type":"text"},
  {"uuid":"0a1b2c3d-0003-4e5f-8a9b-000000000003","key":"twitter","name":"Field called twitter","type":"text"},
  {"uuid":"0a1b2c3d-0004-4e5f-8a9b-000000000004","key":"tickets","name":"Field called tickets","type":"text"}
 ],
 "groups": [
  {"uuid":"2aad21f6-30b7-42c5-bd7f-1b720c154817","name":"Testers"},
  {"uuid":"0a1b2c3d-1001-4e5f-8a9b-000000000001","name":"Has age","query":"age > 0"},
  {"uuid":"0a1b2c3d-1002-4e5f-8a9b-000000000002","name":"Joined","query":"joined <= 2025-06-15"},
  {"uuid":"0a1b2c3d-1003-4e5f-8a9b-000000000003","name":"Located","query":"state = \"Kigali City\" AND district != \"\" AND ward != Remera"},
  {"uuid":"0a1b2c3d-1004-4e5f-8a9b-000000000004","name":"Bob","query":"name = bob OR fields.name = bob"},
  {"uuid":"0a1b2c3d-1005-4e5f-8a9b-000000000005","name":"No language","query":"language = \"\" AND fields.language = \"\""},
  {"uuid":"0a1b2c3d-1006-4e5f-8a9b-000000000006","name":"Tweets","query":"twitter != \"\" OR fields.twitter != \"\""}
 ],
 "topics": [
  {"uuid":"472a7a73-96cb-4736-b567-056d987cc5b4","name":"General"}
 ],
 "flows": [
  {"uuid":"ea351bf8-3c49-46dd-935c-5b20e2a00b7a","name":"Registration","spec_version":"13.1.0","language":"eng","type":"messaging","nodes":[]}
 ]
}`

var (
	saOnce sync.Once
	saVal  flows.SessionAssets
	saErr  error
)

func sessionAssets() (flows.SessionAssets, error) {
	saOnce.Do(func() {
		src, err := static.NewSource([]byte(assetsJSON))
		if err != nil {
			saErr = err
			return
		}
		saVal, saErr = engine.NewSessionAssets(envs.NewBuilder().Build(), src, nil)
	})
	return saVal, saErr
}

func resolver() contactql.Resolver {
	sa, err := sessionAssets()
	if err != nil {
		panic("c15: assets: " + err.Error())
	}
	return sa.(contactql.Resolver)
}

// EnvSpec is the JSON-able description of an environment.
type EnvSpec struct {
	TZ     string `json:"tz"`
	DF     string `json:"date_format"`
	Redact bool   `json:"redact_urns,omitempty"`
}

func (e EnvSpec) String() string {
	s := e.TZ + "/" + e.DF
	if e.Redact {
		s += "/redact"
	}
	return s
}

var envCache = map[EnvSpec]envs.Environment{}

func (e EnvSpec) build() envs.Environment {
	if env, ok := envCache[e]; ok {
		return env
	}
	loc, err := time.LoadLocation(e.TZ)
	if err != nil {
		panic("c15: timezone " + e.TZ + ": " + err.Error())
	}
	b := envs.NewBuilder().WithTimezone(loc).WithDateFormat(envs.DateFormat(e.DF)).WithDefaultCountry("US")
	if e.Redact {
		b = b.WithRedactionPolicy(envs.RedactionPolicyURNs)
	}
	env := b.Build()
	envCache[e] = env
	return env
}

func (e EnvSpec) loc() *time.Location { return e.build().Timezone() }

var zones = []string{"UTC", "America/New_York", "Asia/Kathmandu", "Africa/Cairo", "America/Havana", "America/Sao_Paulo"}
var dateFormats = []string{"YYYY-MM-DD", "DD-MM-YYYY", "MM-DD-YYYY"}

// Profile is the JSON-able model of a contact: it is rendered to contact JSON and read with the real
// flows.ReadContact, and it is what the reference oracles consult (never the contact object).
type Profile struct {
	Name      string   `json:"name,omitempty"`
	Lang      string   `json:"language,omitempty"`
	Status    string   `json:"status,omitempty"`
	URNs      []string `json:"urns,omitempty"`
	Gender    string   `json:"gender,omitempty"`
	Age       string   `json:"age,omitempty"`    // decimal literal, "" = not set
	Joined    string   `json:"joined,omitempty"` // RFC3339Nano, "" = not set
	State     string   `json:"state,omitempty"`  // location path
	District  string   `json:"district,omitempty"`
	Ward      string   `json:"ward,omitempty"`
	CreatedOn string   `json:"created_on"`
	LastSeen  string   `json:"last_seen_on,omitempty"`
	Ticket    bool     `json:"ticket,omitempty"`
	InGroup   bool     `json:"in_group,omitempty"`
	// values of the text fields whose key is also an attribute name or a URN scheme
	FName    string `json:"fields_name,omitempty"`
	FLang    string `json:"fields_language,omitempty"`
	FTwitter string `json:"fields_twitter,omitempty"`
	FTickets string `json:"fields_tickets,omitempty"`
	// Odd: key of a number, datetime or location field -> a stored value that has its text but not the
	// part of the field's own type. It takes the place of the regular value of that field.
	Odd map[string]Odd `json:"odd,omitempty"`
}

// Odd is a stored field value without the typed part of its field's type: the text alone (what the
// real FieldValues.Parse makes of "old" for a number field, of "a while ago" for a datetime field, of
// any name when no location resolves, and what a stored text value is after its field's type was
// changed), optionally with the typed part of another type (Parse fills in every type the text reads as).
type Odd struct {
	Text     string `json:"text"`
	Number   string `json:"number,omitempty"`
	Datetime string `json:"datetime,omitempty"`
	State    string `json:"state,omitempty"`
}

// typedFieldKeys are the fields of the world whose query value is a typed part of the stored value.
var typedFieldKeys = []string{"age", "joined", "state", "district", "ward"}

func (p Profile) odd(key string) bool { _, is := p.Odd[key]; return is }

// withOdd returns a copy of the profile (own map) with an odd stored value for the field.
func (p Profile) withOdd(key string, o Odd) Profile {
	m := map[string]Odd{}
	for k, v := range p.Odd {
		m[k] = v
	}
	m[key] = o
	p.Odd = m
	return p
}

const defaultCreatedOn = "2020-01-01T12:00:00Z"

func (p Profile) key() string { b, _ := json.Marshal(p); return string(b) }

func (p Profile) contactJSON() []byte {
	type J = map[string]any
	status := p.Status
	if status == "" {
		status = "active"
	}
	created := p.CreatedOn
	if created == "" {
		created = defaultCreatedOn
	}
	c := J{"uuid": "ba96bf7f-bc2a-4873-a7c7-254d1927c4e3", "id": 1234, "status": status, "created_on": created}
	if p.Name != "" {
		c["name"] = p.Name
	}
	if p.Lang != "" {
		c["language"] = p.Lang
	}
	if len(p.URNs) > 0 {
		c["urns"] = p.URNs
	}
	if p.LastSeen != "" {
		c["last_seen_on"] = p.LastSeen
	}
	if p.InGroup {
		c["groups"] = []any{J{"uuid": "2aad21f6-30b7-42c5-bd7f-1b720c154817", "name": "Testers"}}
	}
	if p.Ticket {
		c["ticket"] = J{"uuid": "78d1fe0d-7e39-461e-81c3-a6a25f15ed69", "topic": J{"uuid": "472a7a73-96cb-4736-b567-056d987cc5b4", "name": "General"}}
	}
	f := J{}
	if p.Gender != "" {
		f["gender"] = J{"text": p.Gender}
	}
	if p.Age != "" {
		f["age"] = J{"text": p.Age, "number": json.Number(p.Age)}
	}
	if p.Joined != "" {
		f["joined"] = J{"text": p.Joined, "datetime": p.Joined}
	}
	if p.State != "" {
		f["state"] = J{"text": lastSeg(p.State), "state": p.State}
	}
	if p.District != "" {
		f["district"] = J{"text": lastSeg(p.District), "district": p.District}
	}
	if p.Ward != "" {
		f["ward"] = J{"text": lastSeg(p.Ward), "ward": p.Ward}
	}
	for key, text := range map[string]string{"name": p.FName, "language": p.FLang, "twitter": p.FTwitter, "tickets": p.FTickets} {
		if text != "" {
			f[key] = J{"text": text}
		}
	}
	for key, o := range p.Odd {
		ownPart := map[string]string{"age": o.Number, "joined": o.Datetime, "state": o.State, "district": "", "ward": ""}
		if own, typed := ownPart[key]; !typed || own != "" || o.Text == "" {
			panic("c15: an odd value is a non-empty text without the typed part of its (typed) field: " + key)
		}
		v := J{"text": o.Text}
		if o.Number != "" {
			v["number"] = json.Number(o.Number)
		}
		if o.Datetime != "" {
			v["datetime"] = o.Datetime
		}
		if o.State != "" {
			v["state"] = o.State
		}
		f[key] = v
	}
	if len(f) > 0 {
		c["fields"] = f
	}
	b, err := json.Marshal(c)
	if err != nil {
		panic(err)
	}
	return b
}

func lastSeg(path string) string {
	parts := strings.Split(path, " > ")
	return parts[len(parts)-1]
}

var contactCache = map[string]*flows.Contact{}

// contact builds the real contact object of a profile (cached: evaluation does not modify contacts).
func (p Profile) contact() (*flows.Contact, error) {
	k := p.key()
	if c, ok := contactCache[k]; ok {
		return c, nil
	}
	sa, err := sessionAssets()
	if err != nil {
		return nil, err
	}
	c, err := flows.ReadContact(sa, p.contactJSON(), assets.PanicOnMissing)
	if err != nil {
		return nil, fmt.Errorf("contact %s: %w", k, err)
	}
	if len(contactCache) > 50000 {
		contactCache = map[string]*flows.Contact{}
	}
	contactCache[k] = c
	return c, nil
}

func schemeOf(urn string) string {
	if i := strings.Index(urn, ":"); i > 0 {
		return urn[:i]
	}
	return ""
}

// present is the reference model of "the property is present on the contact" used by the
// absence/presence oracle. known=false for attributes a contact does not expose to queries at all
// (id, group, flow, history, status: documented at Contact.QueryProperty) and for attributes on
// which the validator forbids set-checks; no demand is made on those.
func (p Profile) present(pt contactql.PropertyType, key string) (known, present bool) {
	switch pt {
	case contactql.PropertyTypeAttribute:
		switch key {
		case contactql.AttributeName:
			return true, p.Name != ""
		case contactql.AttributeLanguage:
			return true, p.Lang != ""
		case contactql.AttributeURN:
			return true, len(p.URNs) > 0
		case contactql.AttributeLastSeenOn:
			return true, p.LastSeen != ""
		}
		return false, false
	case contactql.PropertyTypeURN:
		for _, u := range p.URNs {
			if schemeOf(u) == key {
				return true, true
			}
		}
		return true, false
	case contactql.PropertyTypeField:
		// a number, datetime or location field is seen by queries through the part of its own type
		// (Contact.QueryProperty supplies typed values): a stored value without that part is no value
		if p.odd(key) {
			return true, false
		}
		switch key {
		case "name":
			return true, p.FName != ""
		case "language":
			return true, p.FLang != ""
		case "twitter":
			return true, p.FTwitter != ""
		case "tickets":
			return true, p.FTickets != ""
		case "gender":
			return true, p.Gender != ""
		case "age":
			return true, p.Age != ""
		case "joined":
			return true, p.Joined != ""
		case "state":
			return true, p.State != ""
		case "district":
			return true, p.District != ""
		case "ward":
			return true, p.Ward != ""
		}
	}
	return false, false
}

// ---- calendar days --------------------------------------------------------------------------

// Day is a calendar day.
type Day struct {
	Y int        `json:"y"`
	M time.Month `json:"m"`
	D int        `json:"d"`
}

func (d Day) String() string { return fmt.Sprintf("%04d-%02d-%02d", d.Y, int(d.M), d.D) }

func (d Day) cmp(o Day) int {
	switch {
	case d.Y != o.Y:
		return sign(d.Y - o.Y)
	case d.M != o.M:
		return sign(int(d.M) - int(o.M))
	default:
		return sign(d.D - o.D)
	}
}

func sign(i int) int {
	if i < 0 {
		return -1
	}
	if i > 0 {
		return 1
	}
	return 0
}

// dayOf is the reference: the calendar day of an instant in a zone.
func dayOf(t time.Time, loc *time.Location) Day {
	y, m, d := t.In(loc).Date()
	return Day{y, m, d}
}

func (d Day) next() Day {
	t := time.Date(d.Y, d.M, d.D+1, 12, 0, 0, 0, time.UTC)
	return Day{t.Year(), t.Month(), t.Day()}
}

// format renders the day in an environment date format.
func (d Day) format(df string) string {
	switch df {
	case "DD-MM-YYYY":
		return fmt.Sprintf("%02d-%02d-%04d", d.D, int(d.M), d.Y)
	case "MM-DD-YYYY":
		return fmt.Sprintf("%02d-%02d-%04d", int(d.M), d.D, d.Y)
	default:
		return fmt.Sprintf("%04d-%02d-%02d", d.Y, int(d.M), d.D)
	}
}

// firstInstantOf returns the earliest instant whose calendar day in loc is >= d, found by bisection
// on the reference dayOf (no use of local-midnight arithmetic, which is what is under test).
func firstInstantOf(d Day, loc *time.Location) time.Time {
	hi := time.Date(d.Y, d.M, d.D, 12, 0, 0, 0, loc)
	if dayOf(hi, loc) != d {
		panic(fmt.Sprintf("c15: noon of %s in %s is not on that day", d, loc))
	}
	lo := hi.Add(-36 * time.Hour)
	if dayOf(lo, loc).cmp(d) >= 0 {
		panic(fmt.Sprintf("c15: 36h before noon of %s in %s is not on an earlier day", d, loc))
	}
	for hi.Sub(lo) > 1 {
		mid := lo.Add(hi.Sub(lo) / 2)
		if dayOf(mid, loc).cmp(d) >= 0 {
			hi = mid
		} else {
			lo = mid
		}
	}
	return hi
}

func (d Day) prev() Day {
	t := time.Date(d.Y, d.M, d.D-1, 12, 0, 0, 0, time.UTC)
	return Day{t.Year(), t.Month(), t.Day()}
}

type boundsKey struct {
	d   Day
	loc string
}

var boundsCache = map[boundsKey][2]time.Time{}

// dayBounds returns the first instant of the day and the first instant after it, by bisection on
// the reference dayOf.
func dayBounds(d Day, loc *time.Location) (time.Time, time.Time) {
	k := boundsKey{d, loc.String()}
	if b, ok := boundsCache[k]; ok {
		return b[0], b[1]
	}
	start := firstInstantOf(d, loc)
	lo := time.Date(d.Y, d.M, d.D, 12, 0, 0, 0, loc)
	hi := lo.Add(60 * time.Hour)
	if dayOf(hi, loc).cmp(d) <= 0 {
		panic("c15: 60h after noon is still the same day")
	}
	for hi.Sub(lo) > 1 {
		mid := lo.Add(hi.Sub(lo) / 2)
		if dayOf(mid, loc).cmp(d) > 0 {
			hi = mid
		} else {
			lo = mid
		}
	}
	boundsCache[k] = [2]time.Time{start, hi}
	return start, hi
}

func fmtDur(d time.Duration) string {
	if d%time.Hour == 0 {
		return fmt.Sprintf("%dh", int(d/time.Hour))
	}
	return d.String()
}

func rfc(t time.Time) string { return t.Format(time.RFC3339Nano) }
