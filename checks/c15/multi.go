package c15

import (
	"fmt"
	"strconv"
	"strings"

	"github.com/nyaruka/goflow/contactql"
	"github.com/nyaruka/goflow/flows"
	"verif/mc"
)

// ---- part G: properties with several values ------------------------------------------------------
//
// A contact gives a URN scheme one value per URN of that scheme and the urn attribute one value per URN
// of any scheme: these are the multi-valued properties of a contact. The cases of this part are
// (environment, property as written, query value, SET of URNs); one case evaluates every operator the
// validator admits against the contact read with its URNs in EVERY order, and against the contacts
// that have one of the URNs alone. The oracles need no model of how a text is compared:
//
//   - the values of a property are a set: no result may depend on the order (priority) of the URNs;
//   - for a present property != is the negation of = (whatever the number of values);
//   - = and ~ hold iff they hold for ANY of the values, != holds iff it holds for ALL of them, where
//     "holds for a value" is what the real evaluator answers for the contact with that URN alone;
//   - empty-valued = / != test absence / presence (contact model);
//   - "P = v AND P != v" and "P = v OR P != v" are the conjunction / disjunction of their operands'
//     own results (so with the negation the first is unsatisfiable and the second valid).

// multiURNs is the URN alphabet: three URNs of one scheme, two of another, a URN of a third scheme
// whose path is the path of another scheme's URN (ext:ann / twitter:ann: the urn attribute sees the
// same value twice), and one whose path is contained in another's (whatsapp / tel).
var multiURNs = []string{
	"tel:+12065551212", "tel:+12065551313", "tel:+12065551414",
	"twitter:ann", "twitter:bob", "ext:ann", "whatsapp:12065551212",
}

// multiProps: the urn attribute, schemes bare and prefixed, a scheme no contact of the space has.
var multiProps = []string{"urn", "tel", "urns.tel", "twitter", "urns.twitter", "ext", "whatsapp", "mailto"}

// multiValues: no value, every path of the alphabet, parts of paths (shared by several URNs, by one,
// too short for ~), another letter case, values no URN has.
var multiValues = []string{
	"", "+12065551212", "+12065551313", "+12065551414", "ann", "bob", "12065551212",
	"2065", "5551313", "+1206555", "ANN", "an", "+19995550000", "zzz",
}

// multiOps: every operator; the real validator decides which of them a URN property admits.
var multiOps = []string{"=", "!=", "~", "<", ">", "<=", ">="}

func envsOfPartG() []EnvSpec {
	return []EnvSpec{{TZ: "UTC", DF: "YYYY-MM-DD"}, {TZ: "America/New_York", DF: "DD-MM-YYYY"}, {TZ: "UTC", DF: "YYYY-MM-DD", Redact: true}}
}

// urnSets lists every subset of the alphabet of at most max URNs, in alphabet order.
func urnSets(max int) [][]string {
	var sets [][]string
	var rec func(from int, cur []string)
	rec = func(from int, cur []string) {
		sets = append(sets, append([]string{}, cur...))
		if len(cur) == max {
			return
		}
		for i := from; i < len(multiURNs); i++ {
			rec(i+1, append(cur, multiURNs[i]))
		}
	}
	rec(0, nil)
	return sets
}

func maxURNsOf(tier string) int {
	if tier == "thorough" {
		return 4
	}
	return 3
}

func partG(tier string) []group {
	var gs []group
	sets := urnSets(maxURNsOf(tier))
	for _, es := range envsOfPartG() {
		for _, prop := range multiProps {
			es, prop := es, prop
			gs = append(gs, group{"multi/" + es.String() + "/" + prop, func(emit func(*Case)) {
				for _, v := range multiValues {
					for _, set := range sets {
						emit(&Case{Kind: "multi", Env: es, Contact: Profile{CreatedOn: defaultCreatedOn, URNs: set}, Prop: prop, Value: v})
					}
				}
			}})
		}
	}
	return gs
}

// permutations returns every order of the list (the given order first).
func permutations(l []string) [][]string {
	if len(l) <= 1 {
		return [][]string{append([]string{}, l...)}
	}
	var out [][]string
	for i := range l {
		rest := append(append([]string{}, l[:i]...), l[i+1:]...)
		for _, p := range permutations(rest) {
			out = append(out, append([]string{l[i]}, p...))
		}
	}
	return out
}

// urnContact reads the contact that has exactly these URNs in this order, and makes sure the contact
// object really has them in this order.
func urnContact(base Profile, urnList []string) (*flows.Contact, error) {
	p := base
	p.URNs = urnList
	c, err := p.contact()
	if err != nil {
		return nil, err
	}
	got := c.URNs()
	if len(got) != len(urnList) {
		return nil, fmt.Errorf("contact read from %v has %d URNs", urnList, len(got))
	}
	for i := range got {
		if string(got[i].URN()) != urnList[i] {
			return nil, fmt.Errorf("contact read from %v has URN %s at position %d", urnList, got[i].URN(), i)
		}
	}
	return c, nil
}

func valuesClass(n int) string {
	switch {
	case n == 0:
		return "none"
	case n == 1:
		return "one"
	}
	return "several"
}

func checkMulti(cs *Case, o *obs) []Problem {
	env := cs.Env.build()
	perms := permutations(cs.Contact.URNs)
	contacts := make([]*flows.Contact, len(perms))
	for i, perm := range perms {
		c, err := urnContact(cs.Contact, perm)
		if err != nil {
			return []Problem{{Key: "harness:contact", What: err.Error()}}
		}
		contacts[i] = c
	}
	singles := make([]*flows.Contact, len(cs.Contact.URNs))
	for i, u := range cs.Contact.URNs {
		c, err := urnContact(cs.Contact, []string{u})
		if err != nil {
			return []Problem{{Key: "harness:contact", What: err.Error()}}
		}
		singles[i] = c
	}
	lit := strconv.Quote(cs.Value)

	var ps []Problem
	seen := map[string]bool{}
	report := func(key, what string) {
		if !seen[key] { // one report per clause and case: the first order that shows it
			seen[key] = true
			ps = append(ps, Problem{Key: key, What: what})
		}
	}

	res := map[string][]bool{}    // operator -> result per order
	single := map[string][]bool{} // operator -> result for the contact with the i-th URN alone
	var cls string
	var cond *contactql.Condition
	for _, op := range multiOps {
		text := cs.Prop + " " + op + " " + lit
		p := parse(cs.Env, env, text)
		if p.pnc != "" {
			report("panic:parse:"+mc.PanicSite(p.pnc), fmt.Sprintf("ParseQuery panicked: env=%s query=%q\n%s", cs.Env, text, p.pnc))
			continue
		}
		if p.err != nil {
			if len(res) == 0 {
				o.reject = p.code
			}
			o.outcome("multi:reject:" + op + ":" + p.code)
			continue
		}
		c, isCond := p.q.Root().(*contactql.Condition)
		if !isCond {
			return []Problem{{Key: "harness:multi-case-is-not-a-condition", What: text}}
		}
		cond, cls = c, propClass(c)
		sub := *cs
		sub.Query = text
		rs := make([]bool, len(perms))
		failed := false
		for i := range perms {
			r, pnc := eval(env, p.q, contacts[i], o)
			if pnc != "" {
				sub.Contact.URNs = perms[i]
				report(panicProblem("evaluate", cls, op, pnc, &sub).Key, panicProblem("evaluate", cls, op, pnc, &sub).What)
				failed = true
				break
			}
			rs[i] = r
		}
		ss := make([]bool, len(singles))
		for i := range singles {
			if failed {
				break
			}
			r, pnc := eval(env, p.q, singles[i], o)
			if pnc != "" {
				sub.Contact.URNs = cs.Contact.URNs[i : i+1]
				report(panicProblem("evaluate", cls, op, pnc, &sub).Key, panicProblem("evaluate", cls, op, pnc, &sub).What)
				failed = true
				break
			}
			ss[i] = r
		}
		if !failed {
			res[op], single[op] = rs, ss
		}
	}
	if cond == nil {
		return ps
	}
	o.admitted = true
	o.reject = ""

	// which URNs give the property a value
	var mine []int // indexes into cs.Contact.URNs
	for i, u := range cs.Contact.URNs {
		if cond.PropertyType() == contactql.PropertyTypeAttribute || schemeOf(u) == cond.PropertyKey() {
			mine = append(mine, i)
		}
	}
	nvals := valuesClass(len(mine))
	o.fact("multi:" + cls + ":values=" + nvals)
	if len(perms) > 1 {
		o.fact("multi:more-than-one-order")
	}
	if cond.PropertyType() == contactql.PropertyTypeAttribute && len(mine) > 1 {
		schemes := map[string]bool{}
		for _, i := range mine {
			schemes[schemeOf(cs.Contact.URNs[i])] = true
		}
		if len(schemes) > 1 {
			o.fact("multi:attr.urn:values-of-several-schemes")
		}
	}
	desc := func(op string, i int) string {
		return fmt.Sprintf("env=%s query=%q contact URNs in this order: %v", cs.Env, cs.Prop+" "+op+" "+lit, perms[i])
	}

	for _, op := range multiOps {
		rs, ok := res[op]
		if !ok {
			continue
		}
		o.fact("admitted-op:" + op)
		for _, r := range rs {
			o.outcome(fmt.Sprintf("multi:%s:%s:values=%s:%t", cls, op, nvals, r))
			if len(mine) > 1 {
				o.fact(fmt.Sprintf("multi:%s:op=%s:values=several:result=%t", cls, op, r))
			}
		}

		// the values are a set: no dependence on their order
		for i := range rs {
			if rs[i] != rs[0] {
				report(fmt.Sprintf("multi:%s:op=%s:result-depends-on-the-order-of-the-values", cls, op),
					fmt.Sprintf("a property's values are a set, but %s is %t and %s is %t", desc(op, 0), rs[0], desc(op, i), rs[i]))
				break
			}
		}

		if cs.Value == "" {
			continue // an existence check (below) - or, for ~, whatever the validator admits: totality only
		}

		// any / all of the values, each value's own verdict being the real evaluator's answer for the
		// contact that has this URN alone
		ss := single[op]
		all, any := true, false
		for _, i := range mine {
			all = all && ss[i]
			any = any || ss[i]
		}
		want, quant := any, "any"
		if op == "!=" {
			want, quant = all, "all"
		}
		if len(mine) > 1 && all != any {
			// the values disagree: which verdict does the first (highest priority) value of each order have?
			for _, perm := range perms {
				for _, u := range perm {
					idx := indexOf(cs.Contact.URNs, u)
					if contains(mine, idx) {
						o.fact(fmt.Sprintf("multi:%s:op=%s:values-disagree:first-value-holds=%t", cls, op, ss[idx]))
						break
					}
				}
			}
		}
		if len(mine) > 0 {
			for i := range rs {
				if rs[i] != want {
					var per []string
					for _, m := range mine {
						per = append(per, fmt.Sprintf("%s alone: %t", cs.Contact.URNs[m], ss[m]))
					}
					report(fmt.Sprintf("multi:%s:op=%s:values=%s:not-what-holds-for-%s-of-the-values:got=%t", cls, op, nvals, quant, rs[i]),
						fmt.Sprintf("%s holds iff it holds for %s of the property's values; %s evaluates to %t, but %s", op, quant, desc(op, i), rs[i], strings.Join(per, ", ")))
					break
				}
			}
		}
	}

	eq, hasEq := res["="]
	ne, hasNe := res["!="]
	if !hasEq || !hasNe {
		return ps
	}

	if cs.Value == "" {
		// absence / presence
		known, present := cs.Contact.present(cond.PropertyType(), cond.PropertyKey())
		if !known {
			return ps
		}
		o.fact(fmt.Sprintf("multi:existence:values=%s", nvals))
		o.fact("existence-prop:" + cls)
		for i := range perms {
			if eq[i] != !present {
				report(fmt.Sprintf("existence:%s:op=%s:property-present=%t:got=%t", cls, "=", present, eq[i]),
					fmt.Sprintf("empty-valued = must test absence of the property: %s evaluates to %t but the property is present=%t", desc("=", i), eq[i], present))
			}
			if ne[i] != present {
				report(fmt.Sprintf("existence:%s:op=%s:property-present=%t:got=%t", cls, "!=", present, ne[i]),
					fmt.Sprintf("empty-valued != must test presence of the property: %s evaluates to %t but the property is present=%t", desc("!=", i), ne[i], present))
			}
		}
		return ps
	}

	// for a present property != is the negation of =
	if len(mine) > 0 {
		for i := range perms {
			if ne[i] == eq[i] {
				report(fmt.Sprintf("multi:%s:values=%s:ne-is-not-negation-of-eq:ne=%t", cls, nvals, ne[i]),
					fmt.Sprintf("!= must be the negation of =: %s and %s both evaluate to %t", desc("=", i), desc("!=", i), ne[i]))
				break
			}
		}
	}

	// the two conditions under one AND / OR
	for _, bop := range []string{"AND", "OR"} {
		text := fmt.Sprintf("%s = %s %s %s != %s", cs.Prop, lit, bop, cs.Prop, lit)
		p := parse(cs.Env, env, text)
		if p.pnc != "" {
			report("panic:parse:"+mc.PanicSite(p.pnc), fmt.Sprintf("ParseQuery panicked: env=%s query=%q\n%s", cs.Env, text, p.pnc))
			continue
		}
		if p.err != nil {
			report("bool:composition-of-valid-conditions-rejected:"+p.code, fmt.Sprintf("env=%s query=%q: %v", cs.Env, text, p.err))
			continue
		}
		for i := range perms {
			r, pnc := eval(env, p.q, contacts[i], o)
			if pnc != "" {
				sub := *cs
				sub.Query = text
				sub.Contact.URNs = perms[i]
				pp := panicProblem("evaluate", "combination", strings.ToLower(bop), pnc, &sub)
				report(pp.Key, pp.What)
				break
			}
			want := eq[i] && ne[i]
			if bop == "OR" {
				want = eq[i] || ne[i]
			}
			o.fact(fmt.Sprintf("multi:eq-%s-ne:%t", strings.ToLower(bop), r))
			if r != want {
				report(fmt.Sprintf("multi:%s:values=%s:not-compositional:root=%s:got=%t", cls, nvals, strings.ToLower(bop), r),
					fmt.Sprintf("env=%s query=%q evaluates to %t on the contact with URNs %v, but its operands evaluate to %t and %t", cs.Env, text, r, perms[i], eq[i], ne[i]))
				break
			}
		}
	}
	return ps
}

func indexOf(l []string, s string) int {
	for i, x := range l {
		if x == s {
			return i
		}
	}
	return -1
}

func contains(l []int, x int) bool {
	for _, y := range l {
		if y == x {
			return true
		}
	}
	return false
}
